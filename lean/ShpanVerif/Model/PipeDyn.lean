/-
Executable model of `stream.FlatMap` (= `Concat` over a *mapped source*: the inner streams are made while the
pipeline runs), with `Peek` / `Map` / `Filter` on the outer stream, `FromIterator` inner streams and an optional
`Limit(k)` on top, under one terminal operation.  Stand-alone: it shares only the probe world of `PipeBase.lean`
(`World`, `openRes`, `emitRes`, `closeRes`, `userCall`, `Res`, fault plans) and the terminal's vocabulary
(`Consumer`, `Outcome`, `recovered`) with the static pipeline model `Pipe.lean`.

Pipelines covered:

    terminal( [Limit k]( FlatMap( ops(probe source r0 over xs) , g ) ) )

`ops` = any list of Peek / Map f / Filter p (source side first), `g : V → Inner` ANY function into the inner-stream
descriptions `Inner` (probe source with its own resource id, Just, Empty, Error, FromIterator over a sequence that holds
a resource while it runs).  Every probe call (Open / Emit of a probe source, every Peek / Map / Filter callback, every
invocation of g, the iterator's acquisition, the caller's consumer) is a numbered call position of the world's fault plan.

Go sources mirrored (file:line of the current tree):
  stream/map_stream.go:128            FlatMap = Concat(MapWithErrAndCtx(src, mapper.ToErrCtx()))
  stream/map_stream.go:64-77          MapWithErrAndCtx: pull the source, then the mapper (a Mapper cannot return an error)
  stream/concat_streams.go:39-69      concatProvider.open     (`cpOpen`, `openOuter`, `openNext`)
  stream/concat_streams.go:71-118     concatProvider.emit     (`emitC`)
  stream/unsafe_stream_provider.go    addStreamUnsafe / openSubStreamUnsafe / closeSubStreamUnsafe 18-67,
                                      newUnsafeStream: closeFunc 81-113 (`closeFunc`), lifecycle Open with roll-back on
                                      error and on panic 118-140 (`openC`)
  stream/shpan_stream.go:99-153       ConsumeWithErrAndCtx (`pullLoop`, `consume`); 302-341 doOpenStream / doCloseSubStream
  stream/shpan_stream.go:243-268      Filter (loop until the predicate holds); 345-353 Peek = Map with a callback
  stream/paging.go:9-27               Limit (`emitT`; `Limit(n ≤ 0)` = Empty: no lifecycle element at all)
  stream/slice_sourced_stream.go      Just (ctx check, idx; Open and Close reset idx)
  stream/empty_stream.go, error_stream.go
  stream/from_iterator.go             FromIterator: Open = iter.Pull (nothing runs yet), Emit = ctx check + next(),
                                      Close = stop()

Representation choices (none changes behaviour):
* positions in slices are kept as the remaining suffix (`rest = slc[idx:]`), `idx := 0` is `rest := xs`;
* the chain of Peek / Map / Filter closures over the probe source is run as one loop over the source
  (`emitRest`: pull, apply the callbacks source side first, start over when a predicate rejects) — the nested
  closures of the Go code do exactly these calls in exactly this order;
* the builder of `newUnsafeStream` holds stream 0 (the outer stream) and the inner streams added so far; every inner
  stream but the latest has been closed by `closeSubStreamUnsafe` (its close function is nil again), so the builder
  state that matters is `outerOpen` (stream 0 has a close function) and `curOpen` (stream `currStreamHandle` has one);
* `cur` is `cp.currProviderFunc` together with the state of the stream it belongs to.  Closing does not reset
  `cp.currProviderFunc`, so between materialisations it can be *stale* (`curOpen = false`, `cur = some _`); since the
  repair 2541325 `cp.open` starts with `cp.currProviderFunc = nil` (`cpOpen`), so a stale provider is never consulted —
  whatever the outer source contains in the next materialisation (`Props/PipeDynProps.lean`, C18; the variant without the
  reset is kept there as `cpOpenOld` with a witness of why the reset is needed).
* the outer probe source reads its contents when it is opened: `setContents` is what the environment does to the operator
  object when the source's contents change between two materialisations.
* callbacks that cannot return an error (Peek's callback, FlatMap's mapper, an iterator's sequence function) raise an
  injected `err` fault as `panic(err)` (`noErr`) — this is what the harness probes do.

All recursion is structural (`applyOps`, `emitRest`) or on `fuel` (`emitC`, `pullLoop`); running out of fuel yields `oof`,
which is propagated unchanged and never handled.
-/
import ShpanVerif.Model.PipeWF

namespace ShpanVerif.Model.PipeDyn
open ShpanVerif.Model.Pipe

/-- operators between the probe source and FlatMap (each callback invocation is a call position) -/
inductive OOp where
  | peek | map (f : Fn) | filter (p : Pred)
  deriving DecidableEq, Repr

/-- what FlatMap's mapper returns: the description of an inner stream -/
inductive Inner where
  /-- `stream.NewStream(probe r)` over `ys`: Open and Emit are call positions -/
  | probe (r : Nat) (ys : List V)
  /-- `stream.Just(ys...)` -/
  | just (ys : List V)
  | empty
  /-- `stream.Error(e)`: its Open fails with `e` -/
  | error
  /-- `stream.FromIterator(seq)`; `seq` acquires resource `r` when the iteration starts (a call position) and releases
      it in a deferred cleanup -/
  | iter (r : Nat) (ys : List V)
  deriving DecidableEq, Repr

/-- state of the coroutine behind `iter.Pull` -/
inductive IterSt where
  | fresh                       -- created, the sequence function has not started
  | running (rest : List V)     -- suspended in `yield`, holding the resource
  | done                        -- returned, panicked, or stopped
  deriving DecidableEq, Repr

/-- an inner stream object (description + the state its closures keep) -/
inductive InnerS where
  | probe (r : Nat) (ys rest : List V)
  | just (ys rest : List V)
  | empty
  | error
  | iter (r : Nat) (ys : List V) (st : IterSt)
  deriving DecidableEq, Repr

def Inner.init : Inner → InnerS
  | .probe r ys => .probe r ys ys
  | .just ys => .just ys ys
  | .empty => .empty
  | .error => .error
  | .iter r ys => .iter r ys .fresh

/-- the answer of a call position that did not go through (`Hit.none` never reaches this) -/
def hitRes {α : Type} : Hit → Res α
  | .none => .oof
  | .err => .fail .user
  | .panic b => .panic b

/-- a callback that cannot return an error raises it as a panic -/
def noErr : Hit → Hit
  | .err => .panic true
  | h => h

/-- propagate a failure (never applied to a value) -/
def castRes {α β : Type} : Res α → Res β
  | .val _ => .oof
  | .eof => .eof
  | .fail e => .fail e
  | .panic b => .panic b
  | .oof => .oof

/-- the error of `stream.Error(e)` in the mapper DSL -/
def dslError : Root := .lib "dsl-error"

/-! ### the outer stream: probe source under Peek / Map / Filter -/

/-- the callbacks on one element, source side first; `none` = rejected by a Filter -/
def applyOps : List OOp → V → World → Res (Option V) × World
  | [], v, w => (.val (some v), w)
  | .peek :: ops, v, w =>
    match userCall w with
    | (.none, w) => applyOps ops v w
    | (h, w) => (hitRes (noErr h), w)
  | .map f :: ops, v, w =>
    match userCall w with
    | (.none, w) => applyOps ops (f.app v) w
    | (h, w) => (hitRes h, w)                      -- "map failed for Stream: %w"
  | .filter p :: ops, v, w =>
    match userCall w with
    | (.none, w) => if p.app v then applyOps ops v w else (.val none, w)
    | (h, w) => (hitRes h, w)                      -- "filter failed for Stream: %w"

/-- one pull of the outer stream below FlatMap's mapper; `rest` = what the probe source has left -/
def emitRest (r0 : Nat) (ops : List OOp) : List Int → World → Res V × List Int × World
  | [], w =>
    match emitRes r0 w with
    | (.none, w) => (.eof, [], w)
    | (h, w) => (hitRes h, [], w)
  | x :: rest, w =>
    match emitRes r0 w with
    | (.none, w) =>
      match applyOps ops (.int x) w with
      | (.val (some v), w) => (.val v, rest, w)
      | (.val none, w) => emitRest r0 ops rest w      -- Filter's loop pulls again
      | (res, w) => (castRes res, rest, w)
    | (h, w) => (hitRes h, x :: rest, w)

/-! ### inner streams -/

/-- doOpenStream of an inner stream -/
def openI : InnerS → World → Res Unit × InnerS × World
  | .probe r ys rest, w =>
    match openRes r w with
    | (.val _, w) => (.val (), .probe r ys ys, w)
    | (res, w) => (res, .probe r ys rest, w)
  | .just ys _, w => (.val (), .just ys ys, w)
  | .empty, w => (.val (), .empty, w)
  | .error, w => (.fail dslError, .error, w)
  | .iter r ys _, w => (.val (), .iter r ys .fresh, w)     -- iter.Pull(seq): a new coroutine, not started

/-- resume the sequence function of a FromIterator stream: next element, or the loop ends and the deferred release runs -/
def iterStep (r : Nat) (ys : List V) : List V → World → Res V × InnerS × World
  | [], w => (.eof, .iter r ys .done, closeRes r w)
  | y :: rest, w => (.val y, .iter r ys (.running rest), w)

/-- the provider function of an inner stream -/
def emitI : InnerS → World → Res V × InnerS × World
  | .probe r ys rest, w =>
    match emitRes r w with
    | (.none, w) =>
      match rest with
      | y :: rest => (.val y, .probe r ys rest, w)
      | [] => (.eof, .probe r ys [], w)
    | (h, w) => (hitRes h, .probe r ys rest, w)
  | .just ys rest, w =>
    if w.cancelled then (.fail .ctx, .just ys rest, w)
    else
      match rest with
      | y :: rest => (.val y, .just ys rest, w)
      | [] => (.eof, .just ys [], w)
  | .empty, w => (.eof, .empty, w)
  | .error, w => (.fail dslError, .error, w)
  | .iter r ys st, w =>
    if w.cancelled then (.fail .ctx, .iter r ys st, w)
    else
      match st with
      | .fresh =>
        -- the first next() starts the sequence function: it acquires its resource (a call position; a panic there
        -- comes out of next() and the coroutine is finished), registers the deferred release, and iterates
        match openRes r w with
        | (.val _, w) => iterStep r ys ys w
        | (.fail _, w) => (.panic true, .iter r ys .done, w)
        | (res, w) => (castRes res, .iter r ys .done, w)
      | .running rest => iterStep r ys rest w
      | .done => (.eof, .iter r ys .done, w)

/-- doCloseSubStream of an inner stream -/
def closeI : InnerS → World → InnerS × World
  | .probe r ys _, w => (.probe r ys ys, closeRes r w)
  | .just ys _, w => (.just ys ys, w)
  | .empty, w => (.empty, w)
  | .error, w => (.error, w)
  | .iter r ys st, w =>
    -- stop(): a suspended sequence function sees `yield` return false and returns, running its deferred release
    match st with
    | .running _ => (.iter r ys .done, closeRes r w)
    | _ => (.iter r ys .done, w)

/-! ### FlatMap = Concat over the mapped outer stream -/

/-- the operator object: description (`r0 xs ops g`) and everything the closures / the builder keep between calls -/
structure Obj where
  r0 : Nat
  xs : List Int
  ops : List OOp
  g : V → Inner
  /-- probe source of the outer stream: `xs[idx:]` -/
  rest : List Int
  /-- builder: stream 0 (the outer stream) is open -/
  outerOpen : Bool
  /-- `cp.currProviderFunc` (none = nil) with the state of the stream it belongs to -/
  cur : Option InnerS
  /-- builder: the stream at `cp.currStreamHandle` is open -/
  curOpen : Bool

/-- a freshly constructed `FlatMap(ops(src r0 xs), g)` -/
def Obj.mk0 (r0 : Nat) (xs : List Int) (ops : List OOp) (g : V → Inner) : Obj :=
  { r0 := r0, xs := xs, ops := ops, g := g, rest := xs, outerOpen := false, cur := none, curOpen := false }

/-- the outer source's contents change between two materialisations (the probe source reads them at Open; at rest its
    index is 0) -/
def Obj.setContents (c : Obj) (xs : List Int) : Obj := { c with xs := xs, rest := xs }

/-- `streamsProviderFunc(ctx)`: the outer stream's provider = MapWithErrAndCtx(src, mapper) -/
def pullOuter (c : Obj) (w : World) : Res Inner × Obj × World :=
  match emitRest c.r0 c.ops c.rest w with
  | (.val v, rest, w) =>
    match userCall w with                                    -- FlatMap's mapper
    | (.none, w) => (.val (c.g v), { c with rest := rest }, w)
    | (h, w) => (hitRes (noErr h), { c with rest := rest }, w)
  | (res, rest, w) => (castRes res, { c with rest := rest }, w)

/-- closeFunc of newUnsafeStream: the streams left open in reverse order of opening (the current inner stream, then
    the outer stream), then the builder goes back to its initial snapshot -/
def closeFunc (c : Obj) (w : World) : Obj × World :=
  let (c, w) :=
    match c.curOpen, c.cur with
    | true, some s => let (s, w) := closeI s w; ({ c with cur := some s, curOpen := false }, w)
    | _, _ => ({ c with curOpen := false }, w)
  if c.outerOpen then ({ c with outerOpen := false, rest := c.xs }, closeRes c.r0 w)   -- probe Close: idx = 0
  else (c, w)

/-- openSubStreamUnsafe(ctx, b, 0): doOpenStream of the outer stream = the probe source's Open -/
def openOuter (c : Obj) (w : World) : Res Unit × Obj × World :=
  match openRes c.r0 w with
  | (.val _, w) => (.val (), { c with rest := c.xs, outerOpen := true }, w)
  | (res, w) => (res, c, w)

/-- `cp.currStreamHandle = addStreamUnsafe(b, s); cp.currProviderFunc, err = openSubStreamUnsafe(ctx, b, handle)` -/
def openNext (c : Obj) (s : Inner) (w : World) : Res Unit × Obj × World :=
  match openI s.init w with
  | (.val _, s, w) => (.val (), { c with cur := some s, curOpen := true }, w)
  | (.panic b, _, w) => (.panic b, c, w)                      -- the assignment does not happen
  | (res, _, w) => (res, { c with cur := none }, w)          -- `nil, err` is assigned

/-- concatProvider.open; its first statement forgets the inner stream of an earlier materialisation
    (`cp.currProviderFunc = nil`, repair 2541325) -/
def cpOpen (c : Obj) (w : World) : Res Unit × Obj × World :=
  match openOuter { c with cur := none } w with
  | (.val _, c, w) =>
    match pullOuter c w with
    | (.val s, c, w) => openNext c s w
    | (.eof, c, w) => (.val (), c, w)          -- no streams: `currProviderFunc` is nil
    | (res, c, w) => (castRes res, c, w)
  | (res, c, w) => (res, c, w)

/-- the lifecycle Open of the unsafe stream: on an error or a panic of `cp.open`, closeFunc, then propagate -/
def openC (c : Obj) (w : World) : Res Unit × Obj × World :=
  match cpOpen c w with
  | (.val _, c, w) => (.val (), c, w)
  | (res, c, w) => let (c, w) := closeFunc c w; (res, c, w)

/-- concatProvider.emit -/
def emitC : Nat → Obj → World → Res V × Obj × World
  | 0, c, w => (.oof, c, w)
  | fuel+1, c, w =>
    if w.cancelled then (.fail .ctx, c, w)
    else
      match c.cur with
      | none => (.eof, c, w)
      | some s =>
        match emitI s w with
        | (.val v, s, w) => (.val v, { c with cur := some s }, w)
        | (.eof, s, w) =>
          -- closeSubStreamUnsafe(b, cp.currStreamHandle); with a stale handle (beyond the restored builder) it fails
          if c.curOpen then
            let (_, w) := closeI s w
            let c := { c with cur := none, curOpen := false }
            if w.cancelled then (.fail .ctx, c, w)
            else
              match pullOuter c w with
              | (.val nx, c, w) =>
                match openNext c nx w with
                | (.val _, c, w) => emitC fuel c w
                | (res, c, w) => (castRes res, c, w)
              | (res, c, w) => (castRes res, c, w)            -- any error of the outer stream, EOF included
          else (.fail (.lib "stale-stream-handle"), { c with cur := some s }, w)
        | (res, s, w) => (res, { c with cur := some s }, w)

/-! ### `Limit(k)` and the terminal operation -/

/-- `Limit(n)` with `n ≤ 0` is `Empty()` -/
def limOff : Option Int → Bool
  | some n => decide (n ≤ 0)
  | none => false

/-- the provider of `[Limit n](FlatMap …)`; `consumed` = alreadyConsumed (starts at 1) -/
def emitT (fuel : Nat) (lim : Option Int) (consumed : Int) (c : Obj) (w : World) : Res V × Obj × World :=
  match lim with
  | none => emitC fuel c w
  | some n => if consumed > n then (.eof, c, w) else emitC fuel c w

/-- pull loop of ConsumeWithErrAndCtx (`acc` reversed) -/
def pullLoop : Nat → Consumer → Option Int → Int → Obj → List V → World → Res Unit × List V × Obj × World
  | 0, _, _, _, c, acc, w => (.oof, acc, c, w)
  | fuel+1, k, lim, consumed, c, acc, w =>
    if w.cancelled then (.fail .ctx, acc, c, w)
    else
      match emitT fuel lim consumed c w with
      | (.val v, c, w) =>
        match k with
        | .collect => pullLoop fuel k lim (consumed + 1) c (v :: acc) w
        | .user =>
          match userCall w with
          | (.none, w) => pullLoop fuel k lim (consumed + 1) c (v :: acc) w
          | (h, w) => (hitRes h, acc, c, w)
      | (.eof, c, w) => (.val (), acc, c, w)
      | (res, c, w) => (castRes res, acc, c, w)

/-- what the terminal returns for the way its pull loop ended -/
def outcomeOf : Res Unit → List V → Outcome
  | .val _, acc => .ok acc.reverse
  | .eof, acc => .ok acc.reverse
  | .fail e, acc => .err e acc.reverse
  | .panic b, acc => .err (recovered b) acc.reverse
  | .oof, _ => .oof

/-- `[Limit lim](FlatMap …).ConsumeWithErrAndCtx`: recover; doOpenStream; deferred close (only when the open
    succeeded); pull loop.  `Limit(n ≤ 0)` = `Empty()` has no lifecycle element: only the loop's ctx check is left. -/
def consume (fuel : Nat) (k : Consumer) (lim : Option Int) (c : Obj) (w : World) : Outcome × Obj × World :=
  if limOff lim then
    (if w.cancelled then .err .ctx [] else .ok [], c, w)
  else
    match openC c w with
    | (.val _, c, w) =>
      match pullLoop fuel k lim 1 c [] w with
      | (.oof, _, c, w) => (.oof, c, w)
      | (res, acc, c, w) => let (c, w) := closeFunc c w; (outcomeOf res acc, c, w)
    | (.fail e, c, w) => (.err e [], c, w)                  -- "failed to open stream: %w"
    | (.panic b, c, w) => (.err (recovered b) [], c, w)    -- recovered; the roll-back has closed everything
    | (_, c, w) => (.oof, c, w)

/-! ### list-level meaning -/

/-- the callbacks as a pure function -/
def opsPure : List OOp → V → Option V
  | [], v => some v
  | .peek :: ops, v => opsPure ops v
  | .map f :: ops, v => opsPure ops (f.app v)
  | .filter p :: ops, v => if p.app v then opsPure ops v else none

/-- the outer stream as a list -/
def outerDen (ops : List OOp) (xs : List Int) : List V := xs.filterMap (fun x => opsPure ops (.int x))

def Inner.elems : Inner → List V
  | .probe _ ys => ys
  | .just ys => ys
  | .empty => []
  | .error => []
  | .iter _ ys => ys

def Inner.isError : Inner → Bool
  | .error => true
  | _ => false

/-- `vs.flatMap (elems ∘ g)` up to the first `Error` stream: the elements, and whether an `Error` stream ends them -/
def flatSpec (g : V → Inner) : List V → List V × Bool
  | [] => ([], false)
  | v :: vs => if (g v).isError then ([], true) else ((g v).elems ++ (flatSpec g vs).1, (flatSpec g vs).2)

/-- what a fault-free materialisation returns: everything (`lim = none`), or the first `n` elements -/
def specOutcome (lim : Option Int) (d : List V × Bool) : Outcome :=
  match lim with
  | none => if d.2 then .err dslError d.1 else .ok d.1
  | some n => if n.toNat ≤ d.1.length then .ok (d.1.take n.toNat) else if d.2 then .err dslError d.1 else .ok d.1

/-- number of pulls of the outer probe source needed to deliver `n ≥ 1` more elements (the pull that answers EOF or
    that produces an `Error` stream included) -/
def needPulls (ops : List OOp) (g : V → Inner) : Nat → List Int → Nat
  | _, [] => 1
  | n, x :: xs =>
    match opsPure ops (.int x) with
    | none => 1 + needPulls ops g n xs
    | some v =>
      if (g v).isError then 1
      else if n ≤ (g v).elems.length then 1
      else 1 + needPulls ops g (n - (g v).elems.length) xs

end ShpanVerif.Model.PipeDyn
