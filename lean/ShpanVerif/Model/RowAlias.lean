/-
Model of the row / metadata handling of the tsquery report filters over the slice heap.

  * AppendFieldFilter   report/append_field_report_filter.go:36-47 (repaired D17)
        meta : `append(slices.Clip(result.FieldsMeta()), *fieldMeta)`
        row  : `value := valueSupplier(record)` ; `append(slices.Clip(record.Value), value)`
  * SelectFieldsFilter  report/select_fields_report_filter.go:32-72 (repaired D17)
        meta : `newFieldsMeta := make(.., 0, n)`; per selected field
               `availableFields := append(slices.Clip(result.FieldsMeta()), newFieldsMeta...)` ; PrepareField reads it ;
               `newFieldsMeta = append(newFieldsMeta, *fieldMeta)`
        row  : `cur := slices.Clip(record.Value)`; per supplier `cur = append(cur, supplier(cur))`;
               result `cur[len(record.Value):]`
  * JoinDatasource      report/join_datasource.go:83-126
        left  (repaired D17): `ret := slices.Clip(left)`; per other `ret = append(ret, *other...)` or
                              `ret = append(ret, make([]any, nExpected)...)`
        inner / full        : `var ret []any` (nil slice) and the same loop

Cells are `Val`s (`nil` = Go nil interface / zero value); a metadata cell is the field's urn id as an `int`.
Value suppliers: constant and ref (`row[idx]`, report/ref_report_field_value.go:29-31) — enough to make
every row operation read the current row.
Every `append` takes its own growth-oracle value.

`ROp`/`runR`: a *row program* — a sequence of row/metadata operations, each reading earlier registers
(slice values) and pushing its result slice as a new register.  Registers `0..k-1` of the initial state are the
caller's slices.  Any consumption order of any number of pipelines (with fan-out on a shared source row and
joins of intermediate rows) is such a program.
`Task`/`runSched`: two or more chain pipelines advanced in an arbitrary interleaving (explicit schedule).
-/
import ShpanVerif.Model.Slice

namespace ShpanVerif.Model.RowAlias
open ShpanVerif.Model.Slice

inductive Val
  | nil
  | int (i : Int)
  deriving DecidableEq, Repr

instance : Inhabited Val := ⟨Val.nil⟩

inductive ValFn
  | const (v : Val)
  | ref (idx : Nat)
  deriving DecidableEq, Repr

def ValFn.eval (f : ValFn) (row : List Val) : Val :=
  match f with
  | .const v => v
  | .ref i => row.getD i Val.nil

def hd (gs : List Nat) : Nat := gs.headD 0

/-! ### row functions -/

/-- append_field_report_filter.go:41-47. -/
def appendRow (h : Heap Val) (rec : Slice) (f : ValFn) (g : Nat) : Heap Val × Slice :=
  append h (clip rec) (f.eval (view h rec)) g

/-- The pre-repair row append (D17): `append(record.Value, value)`. Only used by the witness theorem. -/
def appendRowNoClip (h : Heap Val) (rec : Slice) (f : ValFn) (g : Nat) : Heap Val × Slice :=
  append h rec (f.eval (view h rec)) g

/-- select_fields_report_filter.go:61-67: `cur = append(cur, supplier(cur))` for every supplier. -/
def selectLoop (h : Heap Val) (cur : Slice) : List ValFn → List Nat → Heap Val × Slice
  | [], _ => (h, cur)
  | f :: fs, gs =>
    let r := append h cur (f.eval (view h cur)) (hd gs)
    selectLoop r.1 r.2 fs gs.tail

/-- select_fields_report_filter.go:58-71. -/
def selectRow (h : Heap Val) (rec : Slice) (fs : List ValFn) (gs : List Nat) : Heap Val × Slice :=
  let r := selectLoop h (clip rec) fs gs
  (r.1, reslice r.2 rec.len r.2.len)

/-- join_datasource.go:87-91 / 98-106 / 115-122: extend `ret` by every other side's row, or by nils. -/
def joinLoop (h : Heap Val) (ret : Slice) : List (Option Slice × Nat) → List Nat → Heap Val × Slice
  | [], _ => (h, ret)
  | (some o, _) :: os, gs =>
    let r := appendMany h ret (view h o) (hd gs)
    joinLoop r.1 r.2 os gs.tail
  | (none, n) :: os, gs =>
    let r := appendMany h ret (List.replicate n Val.nil) (hd gs)
    joinLoop r.1 r.2 os gs.tail

/-- join_datasource.go:111-124 (left join). -/
def leftJoinRow (h : Heap Val) (left : Slice) (others : List (Option Slice × Nat)) (gs : List Nat) :
    Heap Val × Slice :=
  joinLoop h (clip left) others gs

/-- join_datasource.go:83-108 (inner join: all present; full join: some absent), starting from the nil slice. -/
def concatJoinRow (h : Heap Val) (sides : List (Option Slice × Nat)) (gs : List Nat) : Heap Val × Slice :=
  joinLoop h nilSlice sides gs

/-! ### metadata functions -/

/-- append_field_report_filter.go:38. -/
def appendMeta (h : Heap Val) (md : Slice) (urn : Val) (g : Nat) : Heap Val × Slice :=
  append h (clip md) urn g

/-- select_fields_report_filter.go:36-54; also returns what every `PrepareField` call was given. -/
def selectMetaLoop (h : Heap Val) (md newMeta : Slice) (seen : List (List Val)) :
    List Val → List Nat → Heap Val × Slice × List (List Val)
  | [], _ => (h, newMeta, seen)
  | u :: us, gs =>
    let av := appendMany h (clip md) (view h newMeta) (hd gs)        -- :46
    let seen' := seen ++ [view av.1 av.2]                              -- :47 PrepareField reads it
    let nm := append av.1 newMeta u (hd gs.tail)                       -- :52
    selectMetaLoop nm.1 md nm.2 seen' us gs.tail.tail

def selectMeta (h : Heap Val) (md : Slice) (urns : List Val) (gs : List Nat) :
    Heap Val × Slice × List (List Val) :=
  let a := allocWith h ([] : List Val) urns.length                     -- :32 make(.., 0, len(selected))
  selectMetaLoop a.1 md a.2 [] urns gs

/-! ### row programs -/

inductive ROp
  | appendRow (src : Nat) (f : ValFn) (g : Nat)
  | selectRow (src : Nat) (fs : List ValFn) (gs : List Nat)
  | leftJoin (left : Nat) (others : List (Option Nat × Nat)) (gs : List Nat)
  | concatJoin (sides : List (Option Nat × Nat)) (gs : List Nat)
  | appendMeta (src : Nat) (urn : Val) (g : Nat)
  | selectMeta (src : Nat) (urns : List Val) (gs : List Nat)
  deriving Repr

structure RState where
  heap : Heap Val
  regs : List Slice
  deriving Repr

def RState.reg (st : RState) (i : Nat) : Slice := st.regs.getD i nilSlice

def resolve (st : RState) (os : List (Option Nat × Nat)) : List (Option Slice × Nat) :=
  os.map (fun o => (o.1.map st.reg, o.2))

def stepR (st : RState) (op : ROp) : RState :=
  match op with
  | .appendRow src f g =>
    let r := appendRow st.heap (st.reg src) f g
    { heap := r.1, regs := st.regs ++ [r.2] }
  | .selectRow src fs gs =>
    let r := selectRow st.heap (st.reg src) fs gs
    { heap := r.1, regs := st.regs ++ [r.2] }
  | .leftJoin l os gs =>
    let r := leftJoinRow st.heap (st.reg l) (resolve st os) gs
    { heap := r.1, regs := st.regs ++ [r.2] }
  | .concatJoin os gs =>
    let r := concatJoinRow st.heap (resolve st os) gs
    { heap := r.1, regs := st.regs ++ [r.2] }
  | .appendMeta src u g =>
    let r := appendMeta st.heap (st.reg src) u g
    { heap := r.1, regs := st.regs ++ [r.2] }
  | .selectMeta src us gs =>
    let r := selectMeta st.heap (st.reg src) us gs
    { heap := r.1, regs := st.regs ++ [r.2.1] }

def runR (st : RState) (ops : List ROp) : RState := ops.foldl stepR st

def RState.vals (st : RState) : List (List Val) := st.regs.map (view st.heap)

/-! ### value-level specification (no heap, no capacities, no growth oracle) -/

def selAcc (acc : List Val) : List ValFn → List Val
  | [] => acc
  | f :: fs => selAcc (acc ++ [f.eval acc]) fs

def specSelect (row : List Val) (fs : List ValFn) : List Val := (selAcc row fs).drop row.length

def specSides (vals : List (List Val)) (os : List (Option Nat × Nat)) : List Val :=
  os.flatMap (fun o => match o.1 with
    | some r => vals.getD r []
    | none => List.replicate o.2 Val.nil)

def specStepR (vals : List (List Val)) : ROp → List Val
  | .appendRow src f _ => vals.getD src [] ++ [f.eval (vals.getD src [])]
  | .selectRow src fs _ => specSelect (vals.getD src []) fs
  | .leftJoin l os _ => vals.getD l [] ++ specSides vals os
  | .concatJoin os _ => specSides vals os
  | .appendMeta src u _ => vals.getD src [] ++ [u]
  | .selectMeta _ us _ => us

def specRunR (vals : List (List Val)) (ops : List ROp) : List (List Val) :=
  ops.foldl (fun vs op => vs ++ [specStepR vs op]) vals

/-- The operation with its growth-oracle choices erased. -/
def ROp.shape : ROp → ROp
  | .appendRow s f _ => .appendRow s f 0
  | .selectRow s fs _ => .selectRow s fs []
  | .leftJoin l os _ => .leftJoin l os []
  | .concatJoin os _ => .concatJoin os []
  | .appendMeta s u _ => .appendMeta s u 0
  | .selectMeta s us _ => .selectMeta s us []

/-! ### chain pipelines advanced in an arbitrary interleaving -/

inductive Stage
  | append (f : ValFn) (g : Nat)
  | select (fs : List ValFn) (gs : List Nat)
  deriving Repr

/-- A pipeline in flight: the slice it currently holds and the stages still to run. -/
structure Task where
  cur : Slice
  todo : List Stage
  deriving Repr

def stepStage (h : Heap Val) (cur : Slice) : Stage → Heap Val × Slice
  | .append f g => appendRow h cur f g
  | .select fs gs => selectRow h cur fs gs

def stepTask (h : Heap Val) (t : Task) : Heap Val × Task :=
  match t.todo with
  | [] => (h, t)
  | s :: rest =>
    let r := stepStage h t.cur s
    (r.1, { cur := r.2, todo := rest })

/-- `sched` = which task advances next (indices out of range are skipped). -/
def runSched (h : Heap Val) (ts : List Task) : List Nat → Heap Val × List Task
  | [] => (h, ts)
  | i :: sched =>
    match ts[i]? with
    | none => runSched h ts sched
    | some t =>
      let r := stepTask h t
      runSched r.1 (ts.set i r.2) sched

def specStage (row : List Val) : Stage → List Val
  | .append f _ => row ++ [f.eval row]
  | .select fs _ => specSelect row fs

def specChain (row : List Val) (stages : List Stage) : List Val := stages.foldl specStage row

/-- What a task will finally deliver, computed at value level from what it sees now. -/
def finalVal (h : Heap Val) (t : Task) : List Val := specChain (view h t.cur) t.todo

end ShpanVerif.Model.RowAlias
