/-
Model of the row / metadata handling of the tsquery report filters over the slice heap.

  * AppendFieldFilter   report/append_field_report_filter.go:36-47 (repaired D17)
        meta : `append(slices.Clip(result.FieldsMeta()), *fieldMeta)`
        row  : `value := valueSupplier(record)` ; `append(slices.Clip(record.Value), value)`
  * SelectFieldsFilter  report/select_fields_report_filter.go:32-72 (repaired D17)
        meta : `newFieldsMeta := make(.., 0, n)`; per selected field
               `availableFields := append(slices.Clip(result.FieldsMeta()), newFieldsMeta...)` ; PrepareField reads it ;
               `newFieldsMeta = append(newFieldsMeta, *fieldMeta)`
        row  : `cur := slices.Clip(record.Value)`; per supplier `cur = append(cur, supplier(cur))`;
               result `cur[len(record.Value):]`
  * JoinDatasource      report/join_datasource.go:83-126
        left  (repaired D17): `ret := slices.Clip(left)`; per other `ret = append(ret, *other...)` or
                              `ret = append(ret, make([]any, nExpected)...)`
        inner / full        : `var ret []any` (nil slice) and the same loop

  * ReplaceFieldFilter  report/replace_field_report_filter.go:51-54 (metadata), :58-71 (row)
        `newValue := make([]any, len(record.Value)); copy(newValue, record.Value); newValue[replaceIdx] = value`
        (`replaceRow`; the metadata slice is built the same way, also by OverrideFieldMetadataFilter,
        report/override_field_metadata_report_filter.go:82-87, which hands the row STREAM on unchanged)
  * DropFieldsFilter    report/drop_fields_filter.go:58-61 (metadata), :66-74 (row): `make([]any, len(keep))`, cell by cell
        (`dropRow`)
  * SingleFieldFilter   report/single_field_report_filter.go:32, :40-43: the literals `[]FieldMeta{*fieldMeta}`, `[]any{value}`;
    ToDatasource ∘ FromDatasource (report/to_datasource.go:49-60 reads `record.Value[fieldIdx]`, report/from_datasource.go:28-36
    builds `[]FieldMeta{meta}`, `[]any{record.Value}`) is the same row function with a ref value (`singleRow`)
  * AlignerFilter       report/aligner_report_filter.go:53-89: rows of the first cluster / of an exactly aligned first item
    are PASSED ON (`Value: firstItem.Value`: no operation here, the register is reused); otherwise
    `timeWeightedAverageArr` (:115-155): `res := make([]any, len(v1Arr))` filled from two rows (`combineRow`);
    gap filler (timeseries/ts_gap_filler_stream.go:66-107): data periods pass `prevPoint.Value` on, filled periods are
    `copyFn(prevPoint.Value)` = `make` + `copy` (:103, `copyRow`) or the interpolation (`combineRow`)
  * DeltaFilter / RateFilter (datasource/delta_filter.go, rate_filter.go) work on scalars; seen through the two bridges
    they are a fresh one-cell row computed from two consecutive rows (`combineRow`)
  * ConditionFilter (report/condition_report_filter.go:44-55) and the harness' row dropper hand rows and metadata on.

Cells are `Val`s (`nil` = Go nil interface / zero value); a metadata cell is the field's urn id as an `int`.
Value suppliers (`ValFn`): constant, ref (`row[idx]`, report/ref_report_field_value.go:29-31), nvl
(nvl_report_field_value.go:65-85), numeric expression (numeric_expression_report_field_value.go:86-106), selector over a
greater-than condition (selector_report_field_value.go:99-121, condition_report_field_value.go:69-79), cast
(cast_field_report_value.go:62-74), reduce over named / all columns (reduce_field_report_value.go:36-149).
`ValFn.eval` is a function of the row's VALUES: a supplier only reads cells.  A stage (`ValFn`, the arguments of an
`ROp` / `Stage`) is plain immutable data: the model cannot tell whether two occurrences of a stage are "the same
object" — the library's stage objects (`ReduceFieldValue.fieldUrnsToReduce`, `DropFieldsFilter.fieldUrnsSetToRemove`,
`SelectFieldsFilter.selectedFields`, `OverrideFieldMetadataFilter.optUpdatedCustomMeta`, the filter / datasource lists of
the filtered and multi datasources) hold maps and slices, and the correspondence check shares ONE Go object between all
occurrences and executions so that any state kept in them shows as a disagreement with this value semantics.
Every `append` takes its own growth-oracle value.

`ROp`/`runR`: a *row program* — a sequence of row/metadata operations, each reading earlier registers
(slice values) and pushing its result slice as a new register.  Registers `0..k-1` of the initial state are the
caller's slices.  Any consumption order of any number of pipelines (with fan-out on a shared source row and
joins of intermediate rows) is such a program.
`Task`/`runSched`: two or more chain pipelines advanced in an arbitrary interleaving (explicit schedule).
-/
import ShpanVerif.Model.Slice

namespace ShpanVerif.Model.RowAlias
open ShpanVerif.Model.Slice

inductive Val
  | nil
  | int (i : Int)
  deriving DecidableEq, Repr

instance : Inhabited Val := ⟨Val.nil⟩

/-- Binary integer operations of the value suppliers / single-field filters. -/
inductive BinOp
  | add                       -- tsquery.AddInt
  | sub                       -- tsquery.SubInt (DeltaFilter, datasource/delta_filter.go:104)
  | rate (dtHalf : Nat)       -- RateFilter (rate_filter.go:99 `(delta / timeDiff) * perSeconds`, perSeconds = 1) cast back to
                              -- an integer (`int64(float)`: truncation); `dtHalf` = time difference in half seconds
  | twa (num den : Nat)       -- timeWeightedAverageArr: `int64(v1 + (v2-v1)*(num/den))` in float64
  deriving DecidableEq, Repr

/-- `int64(v1 + (v2 - v1) * weight)` with `weight = num/den`, in IEEE doubles as the Go code computes it. -/
def twaInt (num den : Nat) (a b : Int) : Int :=
  let w := Float.ofNat num / Float.ofNat den
  let v1 := Float.ofInt a
  let v2 := Float.ofInt b
  (v1 + (v2 - v1) * w).toInt64.toInt

def BinOp.app : BinOp → Int → Int → Int
  | .add, a, b => a + b
  | .sub, a, b => a - b
  | .rate dt, a, b => (2 * (a - b)).tdiv dt
  | .twa n d, a, b => twaInt n d a b

/-- tsquery.ReductionType (reductions.go:7-13) over integer cells; `avg` is the decimal average cast back to an integer
    (`float64(sum) / float64(len)`, then `int64(·)`: truncation towards zero). -/
inductive RedOp
  | sum | avg | min | max | count
  deriving DecidableEq, Repr

def RedOp.app : RedOp → List Int → Int
  | .sum, l => l.foldl (· + ·) 0                    -- reductions.go:76-82 sumInt
  | .avg, l => (l.foldl (· + ·) 0).tdiv l.length    -- :84-90 avgInt, cast_field_report_value.go / numeric_operators.go:232
  | .min, l => l.foldl (fun a b => if b < a then b else a) (l.headD 0)   -- :92-101 minInt
  | .max, l => l.foldl (fun a b => if b > a then b else a) (l.headD 0)   -- :103-112 maxInt
  | .count, l => l.length                           -- :152-154 countValues

inductive ValFn
  | const (v : Val)
  | ref (idx : Nat)
  | nvl (src alt : ValFn)
  | bin (op : BinOp) (a b : ValFn)
  | selGt (a b t f : ValFn)
  | cast (a : ValFn)
  | red (op : RedOp) (idxs : List Nat)   -- ReduceFieldValue over the named columns (reduce_field_report_value.go:48-56,
                                         -- :140-146: the cells whose column is in the urn SET, in column order)
  | redAll (op : RedOp)                  -- ReduceFieldValue over all columns the value sees (:41-47)
  deriving DecidableEq, Repr

/-- the integer cells of `cells`, `none` if one of them is nil (the library only accepts required columns) -/
def intsOf : List Val → Option (List Int)
  | [] => some []
  | .int i :: r => (intsOf r).map (i :: ·)
  | .nil :: _ => none

def reduceCells (op : RedOp) (cells : List Val) : Val :=
  match intsOf cells with
  | some l => .int (op.app l)
  | none => .nil

def valGt : Val → Val → Bool
  | .int a, .int b => a > b
  | _, _ => false               -- tsquery.WrapComparisonWithNilChecks

def ValFn.eval (f : ValFn) (row : List Val) : Val :=
  match f with
  | .const v => v
  | .ref i => row.getD i Val.nil
  | .nvl s a => match s.eval row with
    | .nil => a.eval row
    | v => v
  | .bin op a b => match a.eval row, b.eval row with
    | .int x, .int y => .int (op.app x y)
    | _, _ => .nil              -- numeric expression over optional operands: nil if one is nil
  | .selGt a b t f => if valGt (a.eval row) (b.eval row) then t.eval row else f.eval row
  | .cast a => a.eval row      -- integer -> decimal -> integer (nil stays nil)
  -- the reduction of EXACTLY the named cells; the urn set / "all" are construction-time data of the value: evaluating
  -- it (any number of times, in any pipeline) cannot change them
  | .red op idxs => reduceCells op (((List.range row.length).filter (idxs.contains ·)).map (fun i => row.getD i Val.nil))
  | .redAll op => reduceCells op row

def hd (gs : List Nat) : Nat := gs.headD 0

/-! ### row functions -/

/-- append_field_report_filter.go:41-47. -/
def appendRow (h : Heap Val) (rec : Slice) (f : ValFn) (g : Nat) : Heap Val × Slice :=
  append h (clip rec) (f.eval (view h rec)) g

/-- The pre-repair row append (D17): `append(record.Value, value)`. Only used by the witness theorem. -/
def appendRowNoClip (h : Heap Val) (rec : Slice) (f : ValFn) (g : Nat) : Heap Val × Slice :=
  append h rec (f.eval (view h rec)) g

/-- select_fields_report_filter.go:61-67: `cur = append(cur, supplier(cur))` for every supplier. -/
def selectLoop (h : Heap Val) (cur : Slice) : List ValFn → List Nat → Heap Val × Slice
  | [], _ => (h, cur)
  | f :: fs, gs =>
    let r := append h cur (f.eval (view h cur)) (hd gs)
    selectLoop r.1 r.2 fs gs.tail

/-- select_fields_report_filter.go:58-71. -/
def selectRow (h : Heap Val) (rec : Slice) (fs : List ValFn) (gs : List Nat) : Heap Val × Slice :=
  let r := selectLoop h (clip rec) fs gs
  (r.1, reslice r.2 rec.len r.2.len)

/-- join_datasource.go:87-91 / 98-106 / 115-122: extend `ret` by every other side's row, or by nils. -/
def joinLoop (h : Heap Val) (ret : Slice) : List (Option Slice × Nat) → List Nat → Heap Val × Slice
  | [], _ => (h, ret)
  | (some o, _) :: os, gs =>
    let r := appendMany h ret (view h o) (hd gs)
    joinLoop r.1 r.2 os gs.tail
  | (none, n) :: os, gs =>
    let r := appendMany h ret (List.replicate n Val.nil) (hd gs)
    joinLoop r.1 r.2 os gs.tail

/-- join_datasource.go:111-124 (left join). -/
def leftJoinRow (h : Heap Val) (left : Slice) (others : List (Option Slice × Nat)) (gs : List Nat) :
    Heap Val × Slice :=
  joinLoop h (clip left) others gs

/-- join_datasource.go:83-108 (inner join: all present; full join: some absent), starting from the nil slice. -/
def concatJoinRow (h : Heap Val) (sides : List (Option Slice × Nat)) (gs : List Nat) : Heap Val × Slice :=
  joinLoop h nilSlice sides gs

/-- replace_field_report_filter.go:58-71 (and :51-54 for the metadata, override_field_metadata_report_filter.go:82-85):
    the value is computed from the received row, then `make(len)` + `copy` and the index write into the NEW array. -/
def replaceRow (h : Heap Val) (rec : Slice) (idx : Nat) (f : ValFn) : Heap Val × Slice :=
  let v := f.eval (view h rec)
  let a := allocWith h (view h rec) 0
  (setIdx a.1 a.2 idx v, a.2)

/-- The in-place variant `append(record.Value[:replaceIdx], value)` followed by
    `append(newValue, record.Value[replaceIdx+1:]...)`.  Only used by the witness theorem. -/
def replaceRowInPlace (h : Heap Val) (rec : Slice) (idx : Nat) (f : ValFn) (g1 g2 : Nat) : Heap Val × Slice :=
  let v := f.eval (view h rec)
  let a := append h (reslice rec 0 idx) v g1
  appendMany a.1 a.2 (view a.1 (reslice rec (idx + 1) rec.len)) g2

/-- drop_fields_filter.go:66-74 (rows), :58-61 (metadata): `make(len(keep))`, `new[i] = old[keep[i]]`. -/
def dropRow (h : Heap Val) (rec : Slice) (keep : List Nat) : Heap Val × Slice :=
  allocWith h (keep.map (fun i => (view h rec).getD i Val.nil)) 0

/-- single_field_report_filter.go:40-43 `[]any{value}`; from_datasource.go:33 after to_datasource.go:52-55 (`f` = a ref);
    the metadata literals single_field_report_filter.go:32, from_datasource.go:29. -/
def singleRow (h : Heap Val) (rec : Slice) (f : ValFn) : Heap Val × Slice :=
  allocWith h [f.eval (view h rec)] 0

/-- aligner_report_filter.go:103 `c := make([]any, len(v)); copy(c, v)` (forward fill of a period without data). -/
def copyRow (h : Heap Val) (rec : Slice) : Heap Val × Slice :=
  allocWith h (view h rec) 0

/-- aligner_report_filter.go:138-152 `res := make([]any, len(v1Arr))`, every cell computed from the two rows; also the
    delta / rate filters seen through the bridges (a one-cell row from two consecutive rows).  The value functions see
    the cells of `a` followed by the cells of `b`. -/
def combineRow (h : Heap Val) (a b : Slice) (fs : List ValFn) : Heap Val × Slice :=
  allocWith h (fs.map (fun f => f.eval (view h a ++ view h b))) 0

/-! ### metadata functions -/

/-- append_field_report_filter.go:38. -/
def appendMeta (h : Heap Val) (md : Slice) (urn : Val) (g : Nat) : Heap Val × Slice :=
  append h (clip md) urn g

/-- select_fields_report_filter.go:36-54; also returns what every `PrepareField` call was given. -/
def selectMetaLoop (h : Heap Val) (md newMeta : Slice) (seen : List (List Val)) :
    List Val → List Nat → Heap Val × Slice × List (List Val)
  | [], _ => (h, newMeta, seen)
  | u :: us, gs =>
    let av := appendMany h (clip md) (view h newMeta) (hd gs)        -- :46
    let seen' := seen ++ [view av.1 av.2]                              -- :47 PrepareField reads it
    let nm := append av.1 newMeta u (hd gs.tail)                       -- :52
    selectMetaLoop nm.1 md nm.2 seen' us gs.tail.tail

def selectMeta (h : Heap Val) (md : Slice) (urns : List Val) (gs : List Nat) :
    Heap Val × Slice × List (List Val) :=
  let a := allocWith h ([] : List Val) urns.length                     -- :32 make(.., 0, len(selected))
  selectMetaLoop a.1 md a.2 [] urns gs

/-! ### row programs -/

inductive ROp
  | appendRow (src : Nat) (f : ValFn) (g : Nat)
  | selectRow (src : Nat) (fs : List ValFn) (gs : List Nat)
  | leftJoin (left : Nat) (others : List (Option Nat × Nat)) (gs : List Nat)
  | concatJoin (sides : List (Option Nat × Nat)) (gs : List Nat)
  | appendMeta (src : Nat) (urn : Val) (g : Nat)
  | selectMeta (src : Nat) (urns : List Val) (gs : List Nat)
  | replaceRow (src idx : Nat) (f : ValFn)          -- rows of ReplaceField; metadata of ReplaceField / OverrideFieldMetadata
  | dropRow (src : Nat) (keep : List Nat)           -- rows and metadata of DropFields
  | singleRow (src : Nat) (f : ValFn)               -- SingleField, ToDatasource ∘ FromDatasource (rows and metadata)
  | copyRow (src : Nat)                             -- forward fill
  | combineRow (a b : Nat) (fs : List ValFn)        -- interpolation; delta / rate through the bridges
  deriving Repr

structure RState where
  heap : Heap Val
  regs : List Slice
  deriving Repr

def RState.reg (st : RState) (i : Nat) : Slice := st.regs.getD i nilSlice

def resolve (st : RState) (os : List (Option Nat × Nat)) : List (Option Slice × Nat) :=
  os.map (fun o => (o.1.map st.reg, o.2))

def stepR (st : RState) (op : ROp) : RState :=
  match op with
  | .appendRow src f g =>
    let r := appendRow st.heap (st.reg src) f g
    { heap := r.1, regs := st.regs ++ [r.2] }
  | .selectRow src fs gs =>
    let r := selectRow st.heap (st.reg src) fs gs
    { heap := r.1, regs := st.regs ++ [r.2] }
  | .leftJoin l os gs =>
    let r := leftJoinRow st.heap (st.reg l) (resolve st os) gs
    { heap := r.1, regs := st.regs ++ [r.2] }
  | .concatJoin os gs =>
    let r := concatJoinRow st.heap (resolve st os) gs
    { heap := r.1, regs := st.regs ++ [r.2] }
  | .appendMeta src u g =>
    let r := appendMeta st.heap (st.reg src) u g
    { heap := r.1, regs := st.regs ++ [r.2] }
  | .selectMeta src us gs =>
    let r := selectMeta st.heap (st.reg src) us gs
    { heap := r.1, regs := st.regs ++ [r.2.1] }
  | .replaceRow src idx f =>
    let r := replaceRow st.heap (st.reg src) idx f
    { heap := r.1, regs := st.regs ++ [r.2] }
  | .dropRow src keep =>
    let r := dropRow st.heap (st.reg src) keep
    { heap := r.1, regs := st.regs ++ [r.2] }
  | .singleRow src f =>
    let r := singleRow st.heap (st.reg src) f
    { heap := r.1, regs := st.regs ++ [r.2] }
  | .copyRow src =>
    let r := copyRow st.heap (st.reg src)
    { heap := r.1, regs := st.regs ++ [r.2] }
  | .combineRow a b fs =>
    let r := combineRow st.heap (st.reg a) (st.reg b) fs
    { heap := r.1, regs := st.regs ++ [r.2] }

def runR (st : RState) (ops : List ROp) : RState := ops.foldl stepR st

def RState.vals (st : RState) : List (List Val) := st.regs.map (view st.heap)

/-! ### value-level specification (no heap, no capacities, no growth oracle) -/

def selAcc (acc : List Val) : List ValFn → List Val
  | [] => acc
  | f :: fs => selAcc (acc ++ [f.eval acc]) fs

def specSelect (row : List Val) (fs : List ValFn) : List Val := (selAcc row fs).drop row.length

def specSides (vals : List (List Val)) (os : List (Option Nat × Nat)) : List Val :=
  os.flatMap (fun o => match o.1 with
    | some r => vals.getD r []
    | none => List.replicate o.2 Val.nil)

def specStepR (vals : List (List Val)) : ROp → List Val
  | .appendRow src f _ => vals.getD src [] ++ [f.eval (vals.getD src [])]
  | .selectRow src fs _ => specSelect (vals.getD src []) fs
  | .leftJoin l os _ => vals.getD l [] ++ specSides vals os
  | .concatJoin os _ => specSides vals os
  | .appendMeta src u _ => vals.getD src [] ++ [u]
  | .selectMeta _ us _ => us
  | .replaceRow src idx f => (vals.getD src []).set idx (f.eval (vals.getD src []))
  | .dropRow src keep => keep.map (fun i => (vals.getD src []).getD i Val.nil)
  | .singleRow src f => [f.eval (vals.getD src [])]
  | .copyRow src => vals.getD src []
  | .combineRow a b fs => fs.map (fun f => f.eval (vals.getD a [] ++ vals.getD b []))

def specRunR (vals : List (List Val)) (ops : List ROp) : List (List Val) :=
  ops.foldl (fun vs op => vs ++ [specStepR vs op]) vals

/-- The operation with its growth-oracle choices erased. -/
def ROp.shape : ROp → ROp
  | .appendRow s f _ => .appendRow s f 0
  | .selectRow s fs _ => .selectRow s fs []
  | .leftJoin l os _ => .leftJoin l os []
  | .concatJoin os _ => .concatJoin os []
  | .appendMeta s u _ => .appendMeta s u 0
  | .selectMeta s us _ => .selectMeta s us []
  | op => op                     -- `make` / slice literals: no growth choice

/-! ### chain pipelines advanced in an arbitrary interleaving -/

inductive Stage
  | append (f : ValFn) (g : Nat)
  | select (fs : List ValFn) (gs : List Nat)
  | replace (idx : Nat) (f : ValFn)
  | drop (keep : List Nat)
  | single (f : ValFn)
  | copy                       -- forward-filled period
  | pass                       -- OverrideFieldMetadata / Condition / aligned data period: the SAME slice is handed on
  deriving Repr

/-- A pipeline in flight: the slice it currently holds and the stages still to run. -/
structure Task where
  cur : Slice
  todo : List Stage
  deriving Repr

def stepStage (h : Heap Val) (cur : Slice) : Stage → Heap Val × Slice
  | .append f g => appendRow h cur f g
  | .select fs gs => selectRow h cur fs gs
  | .replace idx f => replaceRow h cur idx f
  | .drop keep => dropRow h cur keep
  | .single f => singleRow h cur f
  | .copy => copyRow h cur
  | .pass => (h, cur)

def stepTask (h : Heap Val) (t : Task) : Heap Val × Task :=
  match t.todo with
  | [] => (h, t)
  | s :: rest =>
    let r := stepStage h t.cur s
    (r.1, { cur := r.2, todo := rest })

/-- `sched` = which task advances next (indices out of range are skipped). -/
def runSched (h : Heap Val) (ts : List Task) : List Nat → Heap Val × List Task
  | [] => (h, ts)
  | i :: sched =>
    match ts[i]? with
    | none => runSched h ts sched
    | some t =>
      let r := stepTask h t
      runSched r.1 (ts.set i r.2) sched

def specStage (row : List Val) : Stage → List Val
  | .append f _ => row ++ [f.eval row]
  | .select fs _ => specSelect row fs
  | .replace idx f => row.set idx (f.eval row)
  | .drop keep => keep.map (fun i => row.getD i Val.nil)
  | .single f => [f.eval row]
  | .copy => row
  | .pass => row

def specChain (row : List Val) (stages : List Stage) : List Val := stages.foldl specStage row

/-- What a task will finally deliver, computed at value level from what it sees now. -/
def finalVal (h : Heap Val) (t : Task) : List Val := specChain (view h t.cur) t.todo

end ShpanVerif.Model.RowAlias
