/-
Model of the sorted-stream joins (property C09).

  stream/join_stream.go                  JoinSortedStreams              → `joinSorted`
  stream/left_join_stream.go             LeftJoinSortedStreams          → `leftJoinSorted`
  stream/join_multiple_streams.go        JoinMultipleSortedStreams      → `joinMultiple`
  stream/left_join_multiple_streams.go   LeftJoinMultipleSortedStreams  → `leftJoinMultiple`
  stream/full_join_multiple_streams.go   FullJoinMultipleSortedStreams  → `fullJoinMultiple`
  utils/timeseries/timeseries_stream_join.go   Left/Inner/FullJoinStreams → `tsLeftJoin` / `tsInnerJoin` / `tsFullJoin`
  utils/timeseries/tsquery/report/join_datasource.go (row joiners)      → `dsJoin`

Every Go operator keeps its state in captured variables / a provider struct and is pulled through one
`emit` function until that returns `io.EOF` or an error (`Collect`).  The model has an explicit state
record per operator, one `emit…` function per Go emit function (same order of pulls, checks and
assignments) and the generic `collect` loop.  Source streams are lists (`stream.Just`): pulling from
an exhausted source answers EOF again.  The context is never cancelled (the `ctx.Err()` checks are
not modelled).  The comparator only looks at an `Int` key (`key a < key b` ⇔ `comparator(a,b) < 0`).
-/
namespace ShpanVerif.Model.Join

/-- Error classes (the Go messages carry the offending keys / the stream index). -/
inductive JErr where
  | leftUnsorted                 -- "left stream is not sorted …"
  | rightUnsorted                -- "right stream is not sorted …"
  | streamUnsorted (i : Nat)     -- "stream %d is not sorted"
  | fuel                         -- model artefact: the fuel of a loop ran out (proved unreachable)
  deriving DecidableEq, Repr

/-- Result of one `emit` call: `io.EOF`, an error, or a value together with the operator's next state. -/
inductive Step (σ ρ : Type) where
  | eof
  | err (e : JErr)
  | row (v : ρ) (s : σ)

/-- What a terminal sees: the rows delivered before the stream ended, and the error (if any) that ended it. -/
abbrev Out (ρ : Type) := List ρ × Option JErr

/-- `Consume`: pull until EOF / error (`fuel` bounds the number of pulls). -/
def collect {σ ρ : Type} (emit : σ → Step σ ρ) : Nat → σ → Out ρ
  | 0, _ => ([], some .fuel)
  | n+1, s =>
    match emit s with
    | .eof => ([], none)
    | .err e => ([], some e)
    | .row v s' => let o := collect emit n s'; (v :: o.1, o.2)

/-! ## Two-stream joins (join_stream.go, left_join_stream.go) -/

/-- Captured variables of `JoinSortedStreams` / `LeftJoinSortedStreams` + the un-pulled rest of both sources.
`lastRightValue`'s Go zero value is `default`. -/
structure J2 (α β : Type) where
  firstElement : Bool
  rightStreamIsDone : Bool      -- left join only
  lastLeftKey : Int
  lastRightKey : Int
  lastRightValue : β
  left : List α
  right : List β

/-- Outcome of the inner `for comparator(leftKey, lastRightKey) > 0 { pull right }` loop. -/
inductive AdvR (β : Type) where
  | eof (lastRightKey : Int) (lastRightValue : β)          -- right source answered EOF
  | unsorted                                              -- "right stream is not sorted"
  | stop (lastRightKey : Int) (lastRightValue : β) (right : List β)   -- loop condition became false

/-- join_stream.go:85-104 = left_join_stream.go:236-263: keep pulling from the right stream until its key is
greater or equal to the left key; every pulled key is compared with the previous one. -/
def advRight {β : Type} (kr : β → Int) (leftKey : Int) : Int → β → List β → AdvR β
  | lrk, lrv, [] => if leftKey > lrk then .eof lrk lrv else .stop lrk lrv []
  | lrk, lrv, y :: r =>
    if leftKey > lrk then
      if kr y < lrk then .unsorted else advRight kr leftKey (kr y) y r
    else .stop lrk lrv (y :: r)

section two
variable {α β : Type} (kl : α → Int) (kr : β → Int)

/-- join_stream.go:83-130, the outer `for`: advance right; on equal keys return the pair; otherwise pull the
next left element (sortedness assertion) and go round again.  `lv`/`lk` = leftValue/leftKey (= lastLeftKey). -/
def joinLoop (lv : α) (lk lrk : Int) (lrv : β) (l : List α) (r : List β) : Step (J2 α β) (α × β) :=
  match advRight kr lk lrk lrv r with
  | .eof _ _ => .eof                                  -- :92-95 EOF of the right stream ends the join
  | .unsorted => .err .rightUnsorted                  -- :99-101
  | .stop lrk' lrv' r' =>
    if lk == lrk' then                                -- :107
      .row (lv, lrv') { firstElement := false, rightStreamIsDone := false, lastLeftKey := lk,
                        lastRightKey := lrk', lastRightValue := lrv', left := l, right := r' }
    else
      match l with                                    -- :119
      | [] => .eof
      | x :: l' =>
        if kl x < lk then .err .leftUnsorted          -- :126-128
        else joinLoop x (kl x) lrk' lrv' l' r'        -- :129

/-- join_stream.go:43-131, one call of the provider function. -/
def emitJoin (s : J2 α β) : Step (J2 α β) (α × β) :=
  match s.left with                                   -- :50
  | [] => .eof
  | x :: l =>
    if s.firstElement then                            -- :58
      match s.right with                              -- :64
      | [] => .eof
      | y :: r => joinLoop kl kr x (kl x) (kr y) y l r     -- :70-72, :80
    else if kl x < s.lastLeftKey then .err .leftUnsorted   -- :75-77
    else joinLoop kl kr x (kl x) s.lastRightKey s.lastRightValue l s.right

/-- left_join_stream.go:45-146, one call of the provider function. -/
def emitLeftJoin (s : J2 α β) : Step (J2 α β) (α × Option β) :=
  match s.left with                                   -- :52
  | [] => .eof
  | x :: l =>
    let lk := kl x
    -- :60-87 first element: pull the right stream once (EOF ⇒ rightStreamIsDone); later elements: sortedness assertion
    let pre : Option (J2 α β) :=
      if s.firstElement then
        match s.right with
        | [] => some { s with firstElement := false, rightStreamIsDone := true }
        | y :: r => some { s with firstElement := false, lastRightValue := y, lastRightKey := kr y, right := r }
      else if lk < s.lastLeftKey then none
      else some s
    match pre with
    | none => .err .leftUnsorted                      -- :83-85
    | some s1 =>
      let s2 := { s1 with lastLeftKey := lk, left := l }   -- :88
      if s2.rightStreamIsDone then .row (x, none) s2       -- :91-96
      else
        match advRight kr lk s2.lastRightKey s2.lastRightValue s2.right with   -- :101-128
        | .eof lrk lrv =>                                  -- :109-116
          .row (x, none) { s2 with rightStreamIsDone := true, lastRightKey := lrk, lastRightValue := lrv, right := [] }
        | .unsorted => .err .rightUnsorted                 -- :123-125
        | .stop lrk lrv r =>
          let s3 := { s2 with lastRightKey := lrk, lastRightValue := lrv, right := r }
          if lk == lrk then .row (x, some lrv) s3          -- :131-137
          else .row (x, none) s3                           -- :140-143

/-- Captured variables as declared (join_stream.go:19-25 / left_join_stream.go:19-26). -/
def init2 [Inhabited β] (l : List α) (r : List β) : J2 α β :=
  { firstElement := true, rightStreamIsDone := false, lastLeftKey := 0, lastRightKey := 0,
    lastRightValue := default, left := l, right := r }

/-- `JoinSortedStreams(Just(l…), Just(r…), kl, kr, cmp)` consumed to the end (every emit pulls ≥ 1 left element). -/
def joinSorted [Inhabited β] (l : List α) (r : List β) : Out (α × β) :=
  collect (emitJoin kl kr) (l.length + 1) (init2 l r)

/-- `LeftJoinSortedStreams(…)` consumed to the end. -/
def leftJoinSorted [Inhabited β] (l : List α) (r : List β) : Out (α × Option β) :=
  collect (emitLeftJoin kl kr) (l.length + 1) (init2 l r)

end two

/-! ## N-stream joins -/

/-- Per input `i`: `nextBuffer[i]`, `lastKeys[i]` and the un-pulled rest of source `i`. -/
structure Src (α : Type) where
  buf : Option α
  last : Option α
  rest : List α

/-- Provider struct: `nextBuffer == nil` ⇔ `inited = false`. `lastLeftKey` is used by the left join only. -/
structure NState (α : Type) where
  inited : Bool
  lastLeftKey : Option α
  srcs : List (Src α)

section multi
variable {α : Type} (key : α → Int)

/-- Pull once into an empty buffer slot (EOF leaves it empty). -/
def fill (s : Src α) : Src α :=
  match s.buf, s.rest with
  | none, x :: xs => { s with buf := some x, rest := xs }
  | _, _ => s

/-- The "initialize buffer on first call" block (join_multiple:42-57, left_join_multiple:41-55, full_join_multiple:42-57). -/
def initBufs (st : NState α) : List (Src α) := if st.inited then st.srcs else st.srcs.map fill

def headKeys (ss : List (Src α)) : List Int := ss.filterMap (fun s => s.buf.map key)

def totalRest (ss : List (Src α)) : Nat := (ss.map (fun s => s.rest.length)).sum

/-- "Assert all streams are sorted" (join_multiple:86-92, full_join_multiple:97-104): index of the first input whose
buffered element is below its `lastKeys` entry. -/
def firstUnsorted : Nat → List (Src α) → Option Nat
  | _, [] => none
  | i, s :: ss =>
    match s.buf, s.last with
    | some b, some p => if key b < key p then some i else firstUnsorted (i+1) ss
    | _, _ => firstUnsorted (i+1) ss

/-- join_multiple:63-78: pull into every empty slot; `none` = some input answered EOF ("the join is done"). -/
def refillOrEof : List (Src α) → Option (List (Src α))
  | [] => some []
  | s :: ss =>
    match (fill s).buf with
    | none => none
    | some _ => (refillOrEof ss).map (fill s :: ·)

/-- join_multiple:95-100: key of the maximal buffered element (left-to-right, replaced on `> 0`). -/
def maxKey : List Int → Option Int
  | [] => none
  | k :: ks => some (ks.foldl (fun m k => if k > m then k else m) k)

/-- full_join_multiple:107-114: key of the minimal buffered element (left-to-right, replaced on `< 0`). -/
def minKey : List Int → Option Int
  | [] => none
  | k :: ks => some (ks.foldl (fun m k => if k < m then k else m) k)

/-- join_multiple:126-143: every input strictly behind `m` is advanced by one element (`lastKeys[i]` ← old buffer);
`none` = one of them answered EOF. -/
def advanceBehind (m : Int) : List (Src α) → Option (List (Src α))
  | [] => some []
  | s :: ss =>
    match s.buf with
    | some b =>
      if key b < m then
        match s.rest with
        | [] => none
        | x :: xs => (advanceBehind m ss).map ({ buf := some x, last := some b, rest := xs } :: ·)
      else (advanceBehind m ss).map (s :: ·)
    | none => (advanceBehind m ss).map (s :: ·)     -- not reached: all slots are filled here

/-- join_multiple:114-118 for one input: `lastKeys[i] = nextBuffer[i]; nextBuffer[i] = nil`. -/
def takeBuf (s : Src α) : Src α := { s with last := s.buf, buf := none }

/-- join_multiple:61-144, the `for` loop of `emitJoin`. Every round that does not return pulls at least one element. -/
def innerLoop : Nat → List (Src α) → Step (NState α) (List α)
  | 0, _ => .err .fuel
  | fuel+1, ss =>
    match refillOrEof ss with                                   -- :63-78
    | none => .eof
    | some ss =>
      match firstUnsorted key 0 ss with                         -- :86-92
      | some i => .err (.streamUnsorted i)
      | none =>
        match maxKey (headKeys key ss) with                     -- :95-100
        | none => .eof                                          -- not reached (at least one input, all slots filled)
        | some m =>
          if (headKeys key ss).all (fun k => k == m) then       -- :103-109
            -- :111-123 collect the values, lastKeys[i] = nextBuffer[i], clear the slots
            .row (ss.filterMap (fun s => s.buf))
              { inited := true, lastLeftKey := none, srcs := ss.map takeBuf }
          else
            match advanceBehind key m ss with                   -- :126-143
            | none => .eof
            | some ss' => innerLoop fuel ss'

/-- `joinMultipleSortedStreamsProvider.emitJoin`. -/
def emitInnerN (st : NState α) : Step (NState α) (List α) :=
  let ss := initBufs st
  innerLoop key (totalRest ss + 1) ss

/-- full_join_multiple:117-126 (and left_join_multiple:105-108 with `m` = the left key), slot `i` of the row: the
buffered element if its key is `m`. -/
def slotAt (m : Int) (s : Src α) : Option α :=
  match s.buf with
  | some b => if key b == m then some b else none
  | none => none

/-- full_join_multiple:121-125: an input at the minimum key is consumed (`lastKeys[i]` ← buffer, buffer cleared). -/
def consumeAt (m : Int) (s : Src α) : Src α :=
  match s.buf with
  | some b => if key b == m then { s with last := some b, buf := none } else s
  | none => s

/-- `fullJoinMultipleSortedStreamsProvider.emitFullJoin` (its `for` always returns in the first round). -/
def emitFullN (st : NState α) : Step (NState α) (List (Option α)) :=
  let ss := (initBufs st).map fill                              -- :42-57, :63-77 (exhausted inputs are polled again)
  if ss.all (fun s => s.buf.isNone) then .eof                   -- :80-90
  else
    match firstUnsorted key 0 ss with                           -- :97-104
    | some i => .err (.streamUnsorted i)
    | none =>
      match minKey (headKeys key ss) with                       -- :107-114
      | none => .eof                                            -- not reached (some slot is filled)
      | some m =>
        -- :117-126 values[i] = nextBuffer[i] for the inputs at the minimum key; those slots are consumed
        .row (ss.map (slotAt key m)) { inited := true, lastLeftKey := none, srcs := ss.map (consumeAt key m) }

/-- left_join_multiple:83-103 for one other input: skip it when its slot is empty (input done); otherwise pull while
its buffered key is below the left key (EOF empties the slot for good).  No sortedness assertion here. -/
def catchUp (lk : Int) : Option α → List α → Option α × List α
  | none, rest => (none, rest)
  | some b, [] => if key b < lk then (none, []) else (some b, [])
  | some b, x :: xs => if key b < lk then catchUp lk (some x) xs else (some b, x :: xs)

/-- left_join_multiple:83-103 applied to one other input. -/
def catchUpSrc (lk : Int) (s : Src α) : Src α :=
  let br := catchUp key lk s.buf s.rest
  { s with buf := br.1, rest := br.2 }

/-- left_join_multiple:74-78: "assert that the left stream is sorted" against `lastLeftKey` (nil before the first row). -/
def belowLast (lastLeftKey : Option α) (lv : α) : Bool :=
  match lastLeftKey with
  | some p => decide (key lv < key p)
  | none => false

/-- `leftJoinMultipleSortedStreamsProvider.emitLeftJoin`. -/
def emitLeftN (st : NState α) : Step (NState α) (α × List (Option α)) :=
  match initBufs st with                                        -- :41-55
  | [] => .eof                                                  -- not reached (at least one input)
  | s0 :: others =>
    match (fill s0).buf with                                    -- :59-69 left slot empty ⇒ pull; EOF ends the join
    | none => .eof
    | some lv =>
      if belowLast key st.lastLeftKey lv then .err .leftUnsorted   -- :74-78
      else
        let others' := others.map (catchUpSrc key (key lv))     -- :83-103
        -- :105-108 a buffered element with the left key is handed out but stays buffered
        .row (lv, others'.map (slotAt key (key lv)))
          { inited := true, lastLeftKey := some lv,              -- :79, :112
            srcs := { fill s0 with buf := none } :: others' }

def initN (ins : List (List α)) : NState α :=
  { inited := false, lastLeftKey := none, srcs := ins.map (fun l => { buf := none, last := none, rest := l }) }

def total (ins : List (List α)) : Nat := (ins.map List.length).sum

/-- `JoinMultipleSortedStreams(ins, cmp, joiner)` consumed to the end (`len(s)==0` ⇒ `Empty`). Row = `values []S`. -/
def joinMultiple (ins : List (List α)) : Out (List α) :=
  if ins.isEmpty then ([], none) else collect (emitInnerN key) (total ins + 1) (initN ins)

/-- `LeftJoinMultipleSortedStreams(…)`. Row = `(left S, others []*S)`. -/
def leftJoinMultiple (ins : List (List α)) : Out (α × List (Option α)) :=
  if ins.isEmpty then ([], none) else collect (emitLeftN key) (total ins + 1) (initN ins)

/-- `FullJoinMultipleSortedStreams(…)`. Row = `values []*S`. -/
def fullJoinMultiple (ins : List (List α)) : Out (List (Option α)) :=
  if ins.isEmpty then ([], none) else collect (emitFullN key) (total ins + 1) (initN ins)

end multi

/-! ## Timeseries wrappers (timeseries_stream_join.go): records are `(timestamp, value)`, compared by timestamp -/

abbrev TsRec (ν : Type) := Int × ν

/-- Unix seconds of Go's zero `time.Time` (what `FullJoinStreams` would stamp if no record were present). -/
def zeroTime : Int := -62135596800

section ts
variable {ν τ : Type}

/-- `LeftJoinStreams`: timeseries_stream_join.go:22-40 — the row carries the left record's timestamp. -/
def tsLeftJoin (joiner : ν → List (Option ν) → τ) (ins : List (List (TsRec ν))) : Out (TsRec τ) :=
  let o := leftJoinMultiple (fun r : TsRec ν => r.1) ins
  (o.1.map (fun row => (row.1.1, joiner row.1.2 (row.2.map (fun o => o.map (fun r => r.2))))), o.2)

/-- `InnerJoinStreams`: :59-74 — the row carries `records[0].Timestamp`. -/
def tsInnerJoin (joiner : List ν → τ) (ins : List (List (TsRec ν))) : Out (TsRec τ) :=
  let o := joinMultiple (fun r : TsRec ν => r.1) ins
  (o.1.map (fun recs => ((recs.head?.map (fun r => r.1)).getD zeroTime, joiner (recs.map (fun r => r.2)))), o.2)

/-- `FullJoinStreams`: :93-119 — the row carries the timestamp of the first non-nil record. -/
def tsFullJoin (joiner : List (Option ν) → τ) (ins : List (List (TsRec ν))) : Out (TsRec τ) :=
  let o := fullJoinMultiple (fun r : TsRec ν => r.1) ins
  (o.1.map (fun recs => (((recs.filterMap id).head?.map (fun r => r.1)).getD zeroTime,
                         joiner (recs.map (fun o => o.map (fun r => r.2))))), o.2)

end ts

/-! ## JoinDatasource (join_datasource.go:80-126): rows are `[]any`, absent sides are padded with nils -/

inductive JoinType where
  | inner | left | full
  deriving DecidableEq, Repr

/-- A cell of a report row: `nil` or a value. -/
abbrev Cell := Option Int

/-- `make([]any, idxToNumberOfExpectedFields[i])` for an absent side, the row itself otherwise. -/
def padSide (width : Nat) : Option (List Cell) → List Cell
  | some row => row
  | none => List.replicate width none

/-- join_datasource.go:85-92 -/
def dsInnerJoiner (values : List (List Cell)) : List Cell := values.flatten
/-- join_datasource.go:97-108 -/
def dsFullJoiner (widths : List Nat) (values : List (Option (List Cell))) : List Cell :=
  (List.zipWith padSide widths values).flatten
/-- join_datasource.go:113-124 (widths of the other sides are `idxToNumberOfExpectedFields[i+1]`) -/
def dsLeftJoiner (widths : List Nat) (left : List Cell) (others : List (Option (List Cell))) : List Cell :=
  left ++ (List.zipWith padSide widths.tail others).flatten

/-- `JoinDatasource.Execute(...).Stream()` over static sources with `widths[i]` fields each. -/
def dsJoin (jt : JoinType) (widths : List Nat) (ins : List (List (TsRec (List Cell)))) : Out (TsRec (List Cell)) :=
  match jt with
  | .inner => tsInnerJoin dsInnerJoiner ins
  | .full => tsFullJoin (dsFullJoiner widths) ins
  | .left => tsLeftJoin (dsLeftJoiner widths) ins

end ShpanVerif.Model.Join
