/-
C14 — model of the reductions.

  stream/reduce_stream.go                         Min / Max / MinLazy / MaxLazy (extremumReduceFunc, valueOrDefault)
  utils/timeseries/timeseries_reducer.go          Sum / Avg / Min / Max reducers over a cluster
  utils/timeseries/timeseries_stream_aligner_reducer.go   AlignReduceStream = cluster by period start + reducer
  utils/timeseries/tsquery/reductions.go          result-type table, identity table, typed reducer functions
  utils/timeseries/tsquery/report/reduce_field_report_value.go   ReduceFieldValue
  utils/timeseries/tsquery/datasource/aligner_filter.go (no fill mode) + timeseries_stream_join.go +
  stream/join_multiple_streams.go + datasource/reduction_datasource.go     ReductionDatasource

The code is modelled as it is now, i.e. with the repairs of D9 (first-element seed), D10 (`count++`),
D11 (no identity shortcut when the result type differs) and D15 (`Equal`).
-/
import ShpanVerif.Model.TsBase1415

namespace ShpanVerif.Model.Reduce
open ShpanVerif.Model.TsB

variable {ν δ : Type}

/-! ### stream.Min / Max (reduce_stream.go:59-121) -/

/-- builtin `max(a, b)` on an ordered type (NaN / −0 out of scope). -/
def goMax (lt : ν → ν → Bool) (a b : ν) : ν := if lt a b then b else a
/-- builtin `min(a, b)`. -/
def goMin (lt : ν → ν → Bool) (a b : ν) : ν := if lt b a then b else a

/-- `extremumReduceFunc` (reduce_stream.go:105-113): a nil accumulator means no element was seen yet. -/
def extremumStep (pick : ν → ν → ν) : Option ν → ν → Option ν
  | none, v => some v
  | some a, v => some (pick a v)

/-- `Reduce(ctx, o, nil, extremumReduceFunc(pick))` followed by `valueOrDefault`. -/
def streamExtremum (pick : ν → ν → ν) (zero : ν) (xs : List ν) : ν :=
  (xs.foldl (extremumStep pick) none).getD zero

/-- `stream.Max` = `stream.MaxLazy(..).Get` = `MustMax`. -/
def streamMax (N : Num ν δ) (xs : List ν) : ν := streamExtremum (goMax N.lt) N.zero xs
/-- `stream.Min` = `stream.MinLazy(..).Get` = `MustMin`. -/
def streamMin (N : Num ν δ) (xs : List ν) : ν := streamExtremum (goMin N.lt) N.zero xs

/-! ### timeseries reducers (timeseries_reducer.go) -/

/-- `Sum` (lines 45-59): `sum += currVal.Value` from the zero value. -/
def tsSum (N : Num ν δ) (g : List ν) : ν := g.foldl N.add N.zero

/-- `Avg`'s consumer (lines 32-35): `avg = avg*N(count)/N(count+1) + v/N(count+1); count++`. -/
def avgStep (N : Num ν δ) (st : ν × Nat) (v : ν) : ν × Nat :=
  (N.add (N.div (N.mul st.1 (N.ofNat st.2)) (N.ofNat (st.2 + 1))) (N.div v (N.ofNat (st.2 + 1))), st.2 + 1)

/-- `Avg` (lines 27-43). -/
def tsAvg (N : Num ν δ) (g : List ν) : ν := (g.foldl (avgStep N) (N.zero, 0)).1

inductive TsReducer where
  | sum | avg | min | max
deriving DecidableEq, Repr

/-- `reducer(clusterTimestampClassifier, clusterStream).Get(ctx)` on the values of the cluster. -/
def applyTsReducer (N : Num ν δ) : TsReducer → List ν → ν
  | .sum, g => tsSum N g
  | .avg, g => tsAvg N g
  | .min, g => streamMin N g     -- Min = MinLazy over the mapped values (lines 20-25)
  | .max, g => streamMax N g     -- Max = MaxLazy over the mapped values (lines 13-18)

/-- `AlignReduceStream(s, ap, reducer).Collect()` (timeseries_stream_aligner_reducer.go:11-30):
one record per cluster, stamped with the cluster classifier (the period start, in the period's location). -/
def alignReduce (p : Period) (N : Num ν δ) (red : TsReducer) (xs : List (Rec ν)) : List (Rec ν) :=
  (clustersAll (fun (r : Rec ν) => p.start r.ts.inst) xs).map
    (fun c => { ts := ⟨c.1, p.loc⟩, v := applyTsReducer N red (c.2.2.map (·.v)) })

/-! ### tsquery: data types, reduction types, tables (reductions.go) -/

inductive DType where
  | integer | decimal | string | boolean | timestamp
deriving DecidableEq, Repr

def DType.isNumeric : DType → Bool
  | .integer | .decimal => true
  | _ => false

inductive Reduction where
  | sum | avg | min | max | count
deriving DecidableEq, Repr

/-- `UseIdentityWhenSingleValue` (lines 15-24). -/
def Reduction.useIdentity : Reduction → Bool
  | .count => false
  | _ => true

/-- `GetResultDataType` (lines 25-36). -/
def Reduction.resultType (r : Reduction) (dt : DType) : DType :=
  if r = .avg then .decimal else if r = .count then .integer else dt

/-- A dynamic value in a row (`any` holding int64 or float64). -/
inductive Val (δ : Type) where
  | i (n : Int)
  | d (x : δ)
deriving Repr, DecidableEq

/-- The tsquery data type matching the dynamic Go type. -/
def Val.dtype : Val δ → DType
  | .i _ => .integer
  | .d _ => .decimal

/-- `v.(int64)` -/
def asInt : Val δ → Except Err Int
  | .i n => .ok n
  | .d _ => .error .panicType
/-- `v.(float64)` -/
def asDec : Val δ → Except Err δ
  | .d x => .ok x
  | .i _ => .error .panicType

def sumInt (vs : List (Val δ)) : Except Err (Val δ) := do
  let ns ← vs.mapM asInt
  return .i (ns.foldl (· + ·) 0)

def avgInt (D : Dec δ) (vs : List (Val δ)) : Except Err (Val δ) := do
  let ns ← vs.mapM asInt
  return .d (D.div (D.ofInt (ns.foldl (· + ·) 0)) (D.ofInt vs.length))

def minInt : List (Val δ) → Except Err (Val δ)
  | [] => .error .panicIndex
  | v :: rest => do
    let m ← asInt v
    let ns ← rest.mapM asInt
    return .i (ns.foldl (fun m x => if x < m then x else m) m)

def maxInt : List (Val δ) → Except Err (Val δ)
  | [] => .error .panicIndex
  | v :: rest => do
    let m ← asInt v
    let ns ← rest.mapM asInt
    return .i (ns.foldl (fun m x => if x > m then x else m) m)

def sumDecimal (D : Dec δ) (vs : List (Val δ)) : Except Err (Val δ) := do
  let xs ← vs.mapM asDec
  return .d (xs.foldl D.add D.zero)

def avgDecimal (D : Dec δ) (vs : List (Val δ)) : Except Err (Val δ) := do
  let xs ← vs.mapM asDec
  return .d (D.div (xs.foldl D.add D.zero) (D.ofInt vs.length))

def minDecimal (D : Dec δ) : List (Val δ) → Except Err (Val δ)
  | [] => .error .panicIndex
  | v :: rest => do
    let m ← asDec v
    let xs ← rest.mapM asDec
    return .d (xs.foldl (fun m x => if D.lt x m then x else m) m)

def maxDecimal (D : Dec δ) : List (Val δ) → Except Err (Val δ)
  | [] => .error .panicIndex
  | v :: rest => do
    let m ← asDec v
    let xs ← rest.mapM asDec
    return .d (xs.foldl (fun m x => if D.lt m x then x else m) m)

def countValues (vs : List (Val δ)) : Except Err (Val δ) := .ok (.i vs.length)

/-- `GetReducerFunc` (lines 38-73): the integer variant iff `forDataType == DataTypeInteger`. -/
def reducerFunc (D : Dec δ) (r : Reduction) (dt : DType) : List (Val δ) → Except Err (Val δ) :=
  match r with
  | .sum => if dt = .integer then sumInt else sumDecimal D
  | .avg => if dt = .integer then avgInt D else avgDecimal D
  | .min => if dt = .integer then minInt else minDecimal D
  | .max => if dt = .integer then maxInt else maxDecimal D
  | .count => countValues

/-! ### report.ReduceFieldValue (reduce_field_report_value.go) -/

/-- The part of `tsquery.FieldMeta` the reductions look at (urn as a number). -/
structure FMeta where
  urn : Nat
  dtype : DType
  required : Bool
deriving DecidableEq, Repr

/-- The checks of lines 84-107 / reduction_datasource.go:101-124 on the metas to reduce:
first must be numeric and required; every other one must have the same type, then be required. -/
def checkMetasTail (dt : DType) : List FMeta → Except Err Unit
  | [] => .ok ()
  | m :: ms =>
    if m.dtype ≠ dt then .error .typeMismatch
    else if !m.required then .error .notRequired
    else checkMetasTail dt ms

def checkMetas : List FMeta → Except Err DType
  | [] => .error .noFields
  | m :: ms =>
    if !m.dtype.isNumeric then .error .notNumeric
    else if !m.required then .error .notRequired
    else do
      checkMetasTail m.dtype ms
      return m.dtype

/-- Lines 41-82: the (row index, meta) pairs to reduce. `sel = none` reduces all fields, `some urns`
the fields whose urn is in the set (a Go map: duplicates collapse). -/
def pickFields (sel : Option (List Nat)) (fields : List FMeta) : Except Err (List (Nat × FMeta)) :=
  let all := List.zip (List.range fields.length) fields
  match sel with
  | none => if all.isEmpty then .error .noFields else .ok all
  | some urns =>
    let set := urns.eraseDups
    let picked := all.filter (fun im => set.contains im.2.urn)
    -- fix 5caebc0: "all requested urns were found" is decided by urn, not by the number of fields picked (the
    -- available fields may hold one urn twice, e.g. a selected field re-using an existing urn)
    if (picked.map (·.2.urn)).eraseDups.length ≠ set.length then .error .fieldsNotFound
    else if picked.isEmpty then .error .noFields
    else .ok picked

/-- `Execute` (lines 36-141): the declared result type and the row function (the value supplier). -/
def reduceFieldExecute (D : Dec δ) (r : Reduction) (sel : Option (List Nat)) (fields : List FMeta) :
    Except Err (DType × (List (Val δ) → Except Err (Val δ))) :=
  match pickFields sel fields with
  | .error e => .error e
  | .ok idx =>
    match checkMetas (idx.map (·.2)) with
    | .error e => .error e
    | .ok dt =>
      .ok (r.resultType dt, fun row => reducerFunc D r dt (idx.map (fun im => row.getD im.1 (.i 0))))

/-! ### datasource.AlignerFilter without fill mode (aligner_filter.go:36-115) -/

/-- `dt.ToFloat64` (datatype.go:77-93). -/
def toFloat64 (D : Dec δ) (dt : DType) (v : Val δ) : Except Err δ :=
  match dt, v with
  | .integer, .i n => .ok (D.ofInt n)
  | .integer, .d x => .ok x
  | .decimal, .d x => .ok x
  | .decimal, .i _ => .error .panicType
  | _, _ => .error .notNumeric

/-- `dt.FromFloat64` (datatype.go:95-104). -/
def fromFloat64 (D : Dec δ) (dt : DType) (x : δ) : Except Err (Val δ) :=
  match dt with
  | .integer => .ok (.i (D.trunc x))
  | .decimal => .ok (.d x)
  | _ => .error .notNumeric

/-- untyped `timeWeightedAverage` (aligner_filter.go:122-156). -/
def twaVal (D : Dec δ) (dt : DType) (target v1t : Int) (v1 : Val δ) (v2t : Int) (v2 : Val δ) : Except Err (Val δ) :=
  if v1t == v2t then
    if v1t == target then .ok v1 else .error .twaSameTime
  else if target < v1t || v2t < target then .error .twaOutOfBounds
  else do
    let w := D.div (secs D (target - v1t)) (secs D (v2t - v1t))
    let f1 ← toFloat64 D dt v1
    let f2 ← toFloat64 D dt v2
    fromFloat64 D dt (D.add f1 (D.mul (D.sub f2 f1) w))

/-- The cluster factory of the aligner filter (lines 45-91). -/
def alignFactory (D : Dec δ) (p : Period) (dt : DType) (c : Int) (first : Rec (Val δ))
    (lastPrev : Option (Rec (Val δ))) : Except Err (Rec (Val δ)) :=
  match lastPrev with
  | none => .ok { ts := ⟨c, p.loc⟩, v := first.v }
  | some lp =>
    if first.ts.inst == c then .ok { ts := ⟨c, p.loc⟩, v := first.v }
    else do
      let a ← twaVal D dt c lp.ts.inst lp.v first.ts.inst first.v
      return { ts := ⟨c, p.loc⟩, v := a }

/-- `AlignerFilter.Filter(result).Data().Collect()` for a numeric result. -/
def alignFilter (D : Dec δ) (p : Period) (dt : DType) (xs : List (Rec (Val δ))) : SRes (Rec (Val δ)) :=
  clustersFirst (fun (r : Rec (Val δ)) => p.start r.ts.inst) (alignFactory D p dt) xs

/-! ### stream.JoinMultipleSortedStreams (join_multiple_streams.go), keyed by instant -/

/-- One input of the join: key of `lastKeys[i]`, and `nextBuffer[i]` (when pulled) followed by what
source `i` has not delivered yet.  Whether the head has already been pulled into the buffer is not
observable for list sources, so the two are kept together. -/
structure JIn (α : Type) where
  lastKey : Option Int
  view : List α

def jHeads {α : Type} (st : List (JIn α)) : Option (List α) := st.mapM (fun s => s.view.head?)

/-- lines 86-92: `comparator(*nextBuffer[i], *lastKeys[i]) < 0` for some i. -/
def jUnsorted {α : Type} (key : α → Int) (st : List (JIn α)) : Bool :=
  st.any (fun s => match s.lastKey, s.view with
    | some k, h :: _ => key h < k
    | _, _ => false)

/-- lines 95-100: the maximal key among the buffered heads. -/
def jMaxKey {α : Type} (key : α → Int) : List α → Int
  | [] => 0
  | h :: hs => hs.foldl (fun m x => if key x > m then key x else m) (key h)

/-- line 111-122: every input gives its head, remembers it as last key, and clears its buffer. -/
def jTake {α : Type} (key : α → Int) (s : JIn α) : JIn α :=
  match s.view with
  | [] => s
  | h :: t => ⟨some (key h), t⟩

/-- lines 126-143: an input whose head is behind the maximal key advances. -/
def jAdvance {α : Type} (key : α → Int) (m : Int) (s : JIn α) : JIn α :=
  match s.view with
  | [] => s
  | h :: t => if key h < m then ⟨some (key h), t⟩ else s

/-- The rows of the inner join (each row = the matching elements, in input order), until EOF / error.
One unit of fuel per iteration of the `for` loop of `emitJoin`. -/
def joinCollect {α : Type} (key : α → Int) : Nat → List (JIn α) → SRes (List α)
  | 0, _ => ([], none)
  | fuel+1, st =>
    match jHeads st with
    | none => ([], none)                       -- lines 63-78 / 136-139: an exhausted input ends the join
    | some hs =>
      if jUnsorted key st then ([], some .joinNotSorted)
      else
        let m := jMaxKey key hs
        if hs.all (fun h => key h == m) then
          let r := joinCollect key fuel (st.map (jTake key))
          (hs :: r.1, r.2)
        else joinCollect key fuel (st.map (jAdvance key m))

def joinStreams {α : Type} (key : α → Int) (ss : List (List α)) : SRes (List α) :=
  if ss.isEmpty then ([], none)                -- line 23-25: no inputs → Empty
  else joinCollect key ((ss.map List.length).sum + 1) (ss.map (fun s => ⟨none, s⟩))

/-! ### datasource.ReductionDatasource (reduction_datasource.go:55-194), list multi-datasource of
static datasources, `from`/`to` wide enough to keep every record, no empty-fallback value -/

/-- One static datasource: its declared meta and its records. -/
structure DS (δ : Type) where
  dtype : DType
  required : Bool
  recs : List (Rec (Val δ))

/-- `tsJoiner` of `InnerJoinStreams` (timeseries_stream_join.go:59-74) around the reducer function: the
joined row carries the timestamp of the first input's record and the reduction of all values. -/
def rowOf (D : Dec δ) (r : Reduction) (dt : DType) (hs : List (Rec (Val δ))) : Except Err (Rec (Val δ)) :=
  match hs with
  | [] => .error .panicIndex
  | h :: _ => (reducerFunc D r dt (hs.map (·.v))).map (fun v => { ts := h.ts, v := v })

/-- lines 186-189: `timeseries.InnerJoinStreams(streams, reducerFunc)` collected. -/
def joinedData (D : Dec δ) (r : Reduction) (dt : DType) (aligned : List (SRes (Rec (Val δ)))) :
    SRes (Rec (Val δ)) :=
  match aligned.find? (fun a => a.2.isSome) with
  | some a => ([], a.2)        -- (unsorted input only) an aligner failed
  | none =>
    let rows := joinStreams (fun (x : Rec (Val δ)) => x.ts.inst) (aligned.map (·.1))
    let out := mapUntilErr (rowOf D r dt) rows.1
    (out.1, match out.2 with | some e => some e | none => rows.2)

/-- lines 181-189: the data stream of the result, given the aligned inputs. -/
def reductionData (D : Dec δ) (r : Reduction) (dt : DType) (aligned : List (SRes (Rec (Val δ)))) :
    SRes (Rec (Val δ)) :=
  match aligned with
  | [one] =>
    -- lines 184-185: a single datasource is returned as is, but only when the reduction keeps the data type
    if r.useIdentity && r.resultType dt == dt then one else joinedData D r dt aligned
  | _ => joinedData D r dt aligned

/-- `Execute(...)`: declared result type and the collected rows (or the error of `Collect`).
The aligned inputs are materialised one after the other; for inputs sorted by time no aligner can
fail, which is the domain the property (and the generator) covers. -/
def reductionDatasource (D : Dec δ) (p : Period) (r : Reduction) (dss : List (DS δ)) :
    Except Err (DType × SRes (Rec (Val δ))) :=
  -- lines 72-81: every datasource is executed and filtered by the aligner (numeric check, aligner_filter.go:37)
  if dss.any (fun ds => !ds.dtype.isNumeric) then .error .notNumeric
  else if dss.isEmpty then .error .noDatasources                    -- line 88
  else
    match checkMetas (dss.map (fun ds => ⟨1, ds.dtype, ds.required⟩)) with   -- lines 101-124
    | .error e => .error e
    | .ok dt =>
      .ok (r.resultType dt, reductionData D r dt (dss.map (fun ds => alignFilter D p ds.dtype ds.recs)))

/-! ### list-level specification of the inner join (used by the theorems) -/

/-- The element with key `k` of every list, in list order (none if some list has no such element). -/
def lookups {α : Type} (key : α → Int) (k : Int) : List (List α) → Option (List α)
  | [] => some []
  | t :: ts =>
    match t.find? (fun y => key y == k), lookups key k ts with
    | some y, some ys => some (y :: ys)
    | _, _ => none

/-- One row per element of the first list whose key occurs in ALL other lists; the row holds the
elements with that key, in list order. -/
def commonRows {α : Type} (key : α → Int) : List (List α) → List (List α)
  | [] => []
  | s :: rest => s.filterMap (fun x => (lookups key (key x) rest).map (x :: ·))

end ShpanVerif.Model.Reduce
