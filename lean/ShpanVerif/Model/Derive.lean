/-
Model of stream derivation (`stream/shpan_stream.go`, `stream/sync_util.go`, `stream/map_stream.go`,
`stream/paging.go`) over the slice heap.

Go: `type Stream[T] struct { provider ProviderFunc[T]; allLifecycleElement []Lifecycle }`  (shpan_stream.go:17-20)

  * `WithAdditionalLifecycle(lch)`      shpan_stream.go:296-300 (repaired D16)
        `newStream(s.provider, append(slices.Clip(s.allLifecycleElement), lch))`
  * `WithLockWhileMaterializing(mu)`    sync_util.go:10-21 : `s.WithAdditionalLifecycle(NewLifecycle(lock, unlock))`
  * `FilterWithErAndCtx` shpan_stream.go:251-268, `MapWithErrAndCtx` map_stream.go:64-78, `Limit`/`Skip`
    paging.go:10-47, `Peek` (= Map): `newStream(<new provider closure over s.provider>, s.allLifecycleElement)`
        — the derived stream SHARES the parent's lifecycle slice value (same array, offset, len, cap).
  * `mapStreamConcurrently` concurrent_stream.go:29-49 (`stream.Map(src, f, WithConcurrentMapOption(n))`):
        `guardedSrc := newStream(src.provider, append([]Lifecycle{guard}, src.allLifecycleElement...))`
        — a FRESH one-element array `[guard]`, then `append` of the parent's whole list to it (which allocates again
        whenever the parent's list is non-empty): the guarded source's list is `guard :: parent's list` and shares no
        array with the parent.  `guard = NewLifecycle(nil, c.stopProducer)`: no open function, close = stop the producer.
        `NewDownStream(guardedSrc, c)` (down_stream.go:13-57, unsafe_stream_provider.go:69-139) wraps it: the child's own
        slice is a fresh one-element `[]Lifecycle{wrapper}` whose open/close run `doOpenStream`/`doCloseSubStream` of
        `guardedSrc`.  The model FLATTENS the wrapper: the child stream value is identified with its guarded source
        (`lc` = the `guard :: parent's list` slice).  This keeps what the child denotes (the wrapper opens exactly that
        list, front to back, then further elements of the child follow) and what is allocated/written at derivation
        time; the only difference — the wrapper slice has cap 1, the flattened one `len + grow` — is covered by the
        quantification over every growth choice.
  * `doOpenStream` shpan_stream.go:302-334 / `doCloseSubStream` :336-340 iterate `s.allLifecycleElement`
    front to back: materialising reads the slice through the heap.

Lifecycle elements are identified by a `Nat` (the probe id).  The provider closure is modelled by the chain of
data operators it applies to the root provider's elements (closures are not slices; nothing to alias).
A derivation *program* is a list of `DOp`s; `DOp.parent` indexes the streams created so far (roots first), so a
program builds an arbitrary forest in an arbitrary creation order; `DOp.grow` is the growth oracle's choice
for that derivation's `append`.
-/
import ShpanVerif.Model.Slice

namespace ShpanVerif.Model.Derive
open ShpanVerif.Model.Slice

/-- The element-level effect of a lifecycle-sharing derivation (used by the correspondence check). -/
inductive DataOp
  | filterEven   -- `.Filter(v%2==0)`
  | mapAdd10     -- `stream.Map(s, v+10)`
  | limit2       -- `.Limit(2)`
  | skip1        -- `.Skip(1)`
  | peek         -- `.Peek(f)`
  | concMapAdd10 -- `stream.Map(s, v+10, WithConcurrentMapOption(n))`: the same elements as a multiset, order unspecified
  deriving DecidableEq, Repr

inductive Kind
  | withLifecycle (id : Nat)
  | withLock (id : Nat)
  | share (d : DataOp)
  | concMap (guard : Nat)   -- the guard element is a lifecycle id of its own (not a probe of the harness)
  deriving DecidableEq, Repr

/-- A `Stream` value. -/
structure StreamV where
  prov : List DataOp
  lc : Slice
  deriving DecidableEq, Repr

structure DOp where
  parent : Nat
  kind : Kind
  grow : Nat
  deriving Repr

structure DState where
  heap : Heap Nat
  streams : List StreamV
  deriving Repr

/-- shpan_stream.go:296-300. -/
def withAdditionalLifecycle (h : Heap Nat) (s : StreamV) (l : Nat) (g : Nat) : Heap Nat × StreamV :=
  let r := append h (clip s.lc) l g
  (r.1, { prov := s.prov, lc := r.2 })

/-- The pre-repair code (D16): `append(s.allLifecycleElement, lch)`. Only used by the witness theorem. -/
def withAdditionalLifecycleNoClip (h : Heap Nat) (s : StreamV) (l : Nat) (g : Nat) : Heap Nat × StreamV :=
  let r := append h s.lc l g
  (r.1, { prov := s.prov, lc := r.2 })

/-- concurrent_stream.go:44-47: `append([]Lifecycle{guard}, src.allLifecycleElement...)`. -/
def concMapLifecycle (h : Heap Nat) (s : StreamV) (guard : Nat) (g : Nat) : Heap Nat × StreamV :=
  let a := allocWith h [guard] 0                          -- the literal `[]Lifecycle{guard}` (len 1, cap 1)
  let r := appendMany a.1 a.2 (view a.1 s.lc) g          -- append(<literal>, src.allLifecycleElement...)
  (r.1, { prov := s.prov ++ [.concMapAdd10], lc := r.2 })

/-- A wrong variant (`slices.Insert(src.allLifecycleElement, 0, guard)`): shifts the parent's elements inside the
    parent's backing array when it has spare capacity. Only used by the witness theorem. -/
def concMapLifecycleInsert (h : Heap Nat) (s : StreamV) (guard : Nat) (g : Nat) : Heap Nat × StreamV :=
  if s.lc.len + 1 ≤ s.lc.cap then
    (writeRange h s.lc.arr s.lc.off (guard :: view h s.lc),
     { prov := s.prov ++ [.concMapAdd10], lc := { s.lc with len := s.lc.len + 1 } })
  else
    let a := allocWith h (guard :: view h s.lc) g
    (a.1, { prov := s.prov ++ [.concMapAdd10], lc := a.2 })

def deriveWith (wal cml : Heap Nat → StreamV → Nat → Nat → Heap Nat × StreamV) (st : DState) (op : DOp) : DState :=
  match st.streams[op.parent]? with
  | none => st
  | some s =>
    match op.kind with
    | .withLifecycle l =>
      let r := wal st.heap s l op.grow
      { heap := r.1, streams := st.streams ++ [r.2] }
    | .withLock l =>   -- sync_util.go: goes through WithAdditionalLifecycle
      let r := wal st.heap s l op.grow
      { heap := r.1, streams := st.streams ++ [r.2] }
    | .share d =>      -- newStream(closure, s.allLifecycleElement)
      { heap := st.heap, streams := st.streams ++ [{ prov := s.prov ++ [d], lc := s.lc }] }
    | .concMap g =>    -- mapStreamConcurrently
      let r := cml st.heap s g op.grow
      { heap := r.1, streams := st.streams ++ [r.2] }

def derive : DState → DOp → DState := deriveWith withAdditionalLifecycle concMapLifecycle
def deriveNoClip : DState → DOp → DState := deriveWith withAdditionalLifecycleNoClip concMapLifecycle
def deriveInsert : DState → DOp → DState := deriveWith withAdditionalLifecycle concMapLifecycleInsert

def runD (st : DState) (ops : List DOp) : DState := ops.foldl derive st
def runDNoClip (st : DState) (ops : List DOp) : DState := ops.foldl deriveNoClip st
def runDInsert (st : DState) (ops : List DOp) : DState := ops.foldl deriveInsert st

/-- `doOpenStream` then `doCloseSubStream`: the lifecycle ids opened, and closed, in call order. -/
def materialise (h : Heap Nat) (s : StreamV) : List Nat × List Nat :=
  (view h s.lc, view h s.lc)

/-- Several stream values materialised at OVERLAPPING times (the inputs of `ZipN` / a join, or one consumed inside the
    consumer callback of another; the same value may occur more than once).  A lifecycle element is a stateless pair of
    callbacks (sync_util.go:10-21: `mu.Lock()` / `mu.Unlock()`, nothing captured per derivation), so every
    materialisation runs `doOpenStream` / `doCloseSubStream` over ITS OWN slice whatever else is open: the ids opened
    (closed) are, in the order the materialisations start (end), the concatenation of the individual lists — as a
    multiset, the union of the paths.  The order in which overlapping materialisations interleave is not modelled:
    `Props.C17.Shuffle` quantifies over it. -/
def materialiseMany (h : Heap Nat) (ss : List StreamV) : List Nat × List Nat :=
  (ss.flatMap (fun s => (materialise h s).1), ss.flatMap (fun s => (materialise h s).2))

def applyData : DataOp → List Int → List Int
  | .filterEven, l => l.filter (fun v => v % 2 == 0)
  | .mapAdd10, l => l.map (· + 10)
  | .limit2, l => l.take 2
  | .skip1, l => l.drop 1
  | .peek, l => l
  | .concMapAdd10, l => l.map (· + 10)   -- as a multiset; the harness compares sorted

/-- The elements a (freshly built) stream delivers over root elements `src`. -/
def dataOf (src : List Int) (prov : List DataOp) : List Int := prov.foldl (fun acc d => applyData d acc) src

/-- What every stream value of the state currently denotes: (lifecycle ids it opens/closes, provider chain). -/
def obsOf (st : DState) : List (List Nat × List DataOp) :=
  st.streams.map (fun s => (view st.heap s.lc, s.prov))

/-! List-level specification: a stream is its derivation path. No heap, no capacities. -/

def specDerive (ps : List (List Nat × List DataOp)) (op : DOp) : List (List Nat × List DataOp) :=
  match ps[op.parent]? with
  | none => ps
  | some p =>
    match op.kind with
    | .withLifecycle l => ps ++ [(p.1 ++ [l], p.2)]
    | .withLock l => ps ++ [(p.1 ++ [l], p.2)]
    | .share d => ps ++ [(p.1, p.2 ++ [d])]
    | .concMap g => ps ++ [(g :: p.1, p.2 ++ [.concMapAdd10])]

def specRun (ps : List (List Nat × List DataOp)) (ops : List DOp) : List (List Nat × List DataOp) :=
  ops.foldl specDerive ps

/-- Root stream whose lifecycle slice holds `ids` with `spare` unused cells behind them. -/
def initState (roots : List (List Nat × Nat)) : DState :=
  roots.foldl (fun st r =>
    let a := allocWith st.heap r.1 r.2
    { heap := a.1, streams := st.streams ++ [{ prov := [], lc := a.2 }] }) { heap := [], streams := [] }

end ShpanVerif.Model.Derive
