/-
Shared substrate of the four asynchronous models (concurrent map, concurrent consume, Buffered, JSON pipe):
a labelled transition system given by an *executable* partial step function, its reachable states, and
schedule execution.  Core Lean only.
-/
namespace ShpanVerif.Model.Conc

/-- A labelled transition system with an executable step function (`none` = label not enabled). -/
structure Sys (σ : Type) (L : Type) where
  init : σ
  step : σ → L → Option σ

variable {σ L : Type}

/-- States reachable from `init` under *every* schedule (any label at any time, if enabled). -/
inductive Reachable (sys : Sys σ L) : σ → Prop
  | init : Reachable sys sys.init
  | step {s s' : σ} {l : L} : Reachable sys s → sys.step s l = some s' → Reachable sys s'

/-- Execute an explicit schedule. -/
def run (step : σ → L → Option σ) : σ → List L → Option σ
  | s, [] => some s
  | s, l :: ls => match step s l with
    | some s' => run step s' ls
    | none => none

theorem reachable_run {sys : Sys σ L} {s s' : σ} (hs : Reachable sys s) :
    ∀ {ls : List L}, run sys.step s ls = some s' → Reachable sys s' := by
  intro ls
  induction ls generalizing s with
  | nil => intro h; simp [run] at h; exact h ▸ hs
  | cons l ls ih =>
    intro h
    simp only [run] at h
    cases hst : sys.step s l with
    | none => simp [hst] at h
    | some s1 => simp only [hst] at h; exact ih (Reachable.step hs hst) h

/-- Does the explicit schedule `ls` run from `init` and end in a state satisfying `p`?  (executable; used for witnesses) -/
def checkRun (sys : Sys σ L) (ls : List L) (p : σ → Bool) : Bool :=
  match run sys.step sys.init ls with
  | some s => p s
  | none => false

theorem checkRun_reachable {sys : Sys σ L} {ls : List L} {p : σ → Bool} (h : checkRun sys ls p = true) :
    ∃ s, Reachable sys s ∧ p s = true := by
  unfold checkRun at h
  cases hr : run sys.step sys.init ls with
  | none => simp [hr] at h
  | some s => simp only [hr] at h; exact ⟨s, reachable_run Reachable.init hr, h⟩

/-- Inductive-invariant principle. -/
theorem invariant {sys : Sys σ L} {P : σ → Prop} (h0 : P sys.init)
    (hstep : ∀ s l s', P s → sys.step s l = some s' → P s') : ∀ s, Reachable sys s → P s := by
  intro s hr
  induction hr with
  | init => exact h0
  | step _ hs ih => exact hstep _ _ _ ih hs

/-- Run a schedule, skipping labels that are not enabled (used by the driver's deterministic replays). -/
def runSkip (step : σ → L → Option σ) : σ → List L → σ
  | s, [] => s
  | s, l :: ls => match step s l with
    | some s' => runSkip step s' ls
    | none => runSkip step s ls

/-- Repeat: take the first enabled label of `cands s` until none is enabled or fuel runs out (a fixed internal scheduler:
    "library steps run to quiescence"). -/
def saturate (step : σ → L → Option σ) (cands : σ → List L) : Nat → σ → σ
  | 0, s => s
  | fuel + 1, s =>
    match (cands s).findSome? (fun l => step s l) with
    | some s' => saturate step cands fuel s'
    | none => s

end ShpanVerif.Model.Conc
