/-
Model of `utils/timeseries/alignment_period.go` (alignment periods + AlignedTimestampsStream)
and of the parts of Go's `time` package the file relies on.

Units.  An *instant* at the API level (`start`, `end`, `alignedTimestamps`) is an `Int` number of
NANOSECONDS since the Unix epoch (time.Time = seconds + nanoseconds; `UnixNano`).  Zone data and all
calendar arithmetic are in SECONDS, exactly as in Go (`zoneTrans.when`, `zone.offset`, `Time.unixSec`):
the calendar kinds are first defined on unix seconds (`…Sec`) and lifted with `s = t / NS`
(floor division, = `Time.unixSec`) because `time.Date(…, 0 nsec …)` and `AddDate` of a time with
nsec = 0 produce nsec = 0 and `Year/Month/Day/Weekday/Clock` ignore the nanoseconds.

What is taken from Go's `time` (src/time/time.go, zoneinfo.go, go 1.23) and how:
  * `Location.lookup`  → `Zone.lookup` : offset in effect + bounds of that zone segment (alpha/omega
    as in Go).  Go searches `tx` by bisection for the largest `when ≤ sec`; on a sorted table the
    linear scan below returns the same entry.  The zone's rule string (`extend`) is not modelled: the
    harness hands over the transitions that the public `ZoneBounds/Zone` API reports, within a window.
  * `time.Date`        → `goDateSec` : the two-lookup zone resolution, literally (time.go:1567-1578).
  * `Time.abs/date`    → `localSecs`, `localDay`, `civil`.
  * `Time.AddDate`     → `addDate` : `Date` of the normalised civil date at the same wall clock.
  * `Duration.Truncate`, `Time.Sub` (saturating), int64 wrap of `aligned -= d` → `fixedStart`.
  * proleptic Gregorian calendar: `monthIdx` / `monthStart` (own algorithm, proved correct w.r.t.
    each other in Proofs/PeriodLemmas.lean: `monthStart_lt_succ`, `monthIdx_spec`; compared with Go's
    `Date()/Date(y,m,1)` by the `CAL` correspondence cases).
-/
namespace ShpanVerif.Model.Period

/-- zoneinfo.go: `alpha = -1 << 63`, `omega = 1<<63 - 1`. -/
def alpha : Int := -9223372036854775808
def omega : Int := 9223372036854775807
/-- nanoseconds per second -/
def NS : Int := 1000000000
def minI64 : Int := -9223372036854775808
def maxI64 : Int := 9223372036854775807

/-! ## Zones -/

/-- A zone: the offset (seconds east of UTC) in effect before the first listed transition, and the
transitions `(when : unix seconds, offset from then on)` in increasing order of `when`. -/
structure Zone where
  init : Int
  trans : List (Int × Int)
deriving Repr, DecidableEq

/-- Scan for the segment containing `s`: returns (offset, segment start, segment end). -/
def lookupFrom (off start : Int) : List (Int × Int) → Int → Int × Int × Int
  | [], _ => (off, start, omega)
  | (w, o) :: rest, s => if s < w then (off, start, w) else lookupFrom o w rest s

/-- zoneinfo.go:149 `(*Location).lookup` (offset, start, end). -/
def Zone.lookup (z : Zone) (s : Int) : Int × Int × Int := lookupFrom z.init alpha z.trans s

def Zone.offsetAt (z : Zone) (s : Int) : Int := (z.lookup s).1

/-- time.go:471 `abs`: local wall clock as seconds (unix seconds + offset). -/
def localSecs (z : Zone) (s : Int) : Int := s + z.offsetAt s

/-- days since 1970-01-01 of the local civil date of instant `s` (unix seconds). -/
def localDay (z : Zone) (s : Int) : Int := localSecs z s / 86400

/-- seconds since local midnight (hour*3600+min*60+sec of `Clock()`). -/
def secOfDay (z : Zone) (s : Int) : Int := localSecs z s % 86400

/-- time.go:1567-1578, the zone resolution of `time.Date`.  `unix` is the civil date-time read as if
it were UTC.
```
_, offset, start, end, _ := loc.lookup(unix)
if offset != 0 {
    utc := unix - int64(offset)
    if utc < start || utc >= end { _, offset, _, _, _ = loc.lookup(utc) }
    unix -= int64(offset)
}
``` -/
def goDateSec (z : Zone) (unix : Int) : Int :=
  match z.lookup unix with
  | (offset, start, end_) =>
    if offset ≠ 0 then
      let utc := unix - offset
      let offset := if utc < start ∨ utc ≥ end_ then z.offsetAt utc else offset
      unix - offset
    else unix

/-! ## Proleptic Gregorian calendar on day numbers (days since 1970-01-01)

Months are addressed by a *month index* `M = 12*year + (month-1)`; this is exactly the pair
(year, month) after Go's `norm(year, month-1, 12)` (time.go:1522-1524), for any integer month. -/

/-- Days from 0000-03-01 to `y`-03-01 (years counted from March). -/
def yearStart (y : Int) : Int := 365 * y + y / 4 - y / 100 + y / 400

/-- Days from March 1st to the first of the `mp`-th month after March (`mp` = 0..11; 12 gives 367,
an upper bound only used in proofs). -/
def monthOff (mp : Int) : Int := (153 * mp + 2) / 5

/-- day number of the first day of March-based month index `K = 12*y' + mp`. -/
def monthStartK (K : Int) : Int := yearStart (K / 12) + monthOff (K % 12) - 719468

/-- day number of the 1st of the month with index `M = 12*year + (month-1)`. -/
def monthStart (M : Int) : Int := monthStartK (M - 2)

/-- March-based year containing day `zd` (days since 0000-03-01): estimate, then correct by one. -/
def yearOfZ (zd : Int) : Int :=
  let y0 := (400 * zd) / 146097
  if zd < yearStart y0 then y0 - 1 else if yearStart (y0 + 1) ≤ zd then y0 + 1 else y0

/-- month index of day number `L`. -/
def monthIdx (L : Int) : Int :=
  let zd := L + 719468
  let y := yearOfZ zd
  let doy := zd - yearStart y
  12 * y + (5 * doy + 2) / 153 + 2

/-- `Time.Date()` of a local day number: (year, month 1..12, day 1..31). -/
def civil (L : Int) : Int × Int × Int :=
  let M := monthIdx L
  (M / 12, M % 12 + 1, L - monthStart M + 1)

/-- Day number of civil (y, m, d) with Go's normalisation of out-of-range month and day
(time.go:1522-1546: `norm(year, month-1, 12)`, then days before the month, then `day - 1`). -/
def civilDays (y m d : Int) : Int := monthStart (12 * y + (m - 1)) + (d - 1)

/-- `Time.Weekday()` of a day number, 0 = Sunday (1970-01-01 was a Thursday). -/
def weekday (L : Int) : Int := (L + 4) % 7

/-! ## time.Date / AddDate on unix seconds -/

/-- `time.Date(y, m, d, 0, 0, 0, 0, loc)`. -/
def dateMidnight (z : Zone) (y m d : Int) : Int := goDateSec z (civilDays y m d * 86400)

/-- time.go:978 `t.AddDate(years, months, days)` (seconds part; nanoseconds are carried unchanged). -/
def addDate (z : Zone) (s : Int) (years months days : Int) : Int :=
  match civil (localDay z s) with
  | (y, m, d) => goDateSec z (civilDays (y + years) (m + months) (d + days) * 86400 + secOfDay z s)

/-! ## alignment_period.go, calendar kinds (unix seconds) -/

/-- alignment_period.go:120-123 -/
def dayStartSec (z : Zone) (s : Int) : Int :=
  match civil (localDay z s) with
  | (y, m, d) => dateMidnight z y m d

/-- alignment_period.go:125-128 (repaired D12: calendar day, not +24h) -/
def dayEndSec (z : Zone) (s : Int) : Int := addDate z (dayStartSec z s) 0 0 1

/-- alignment_period.go:130-138 -/
def weekStartSec (z : Zone) (s : Int) : Int :=
  let wd := weekday (localDay z s)
  let wd := if wd = 0 then 7 else wd
  let st := addDate z s 0 0 (-wd + 1)
  match civil (localDay z st) with
  | (y, m, d) => dateMidnight z y m d

/-- alignment_period.go:140-142 -/
def weekEndSec (z : Zone) (s : Int) : Int := addDate z (weekStartSec z s) 0 0 7

/-- alignment_period.go:144-147 -/
def monthStartSec (z : Zone) (s : Int) : Int :=
  match civil (localDay z s) with
  | (y, m, _) => dateMidnight z y m 1

/-- alignment_period.go:149-151 -/
def monthEndSec (z : Zone) (s : Int) : Int := addDate z (monthStartSec z s) 0 1 0

/-- alignment_period.go:153-157 -/
def quarterStartSec (z : Zone) (s : Int) : Int :=
  match civil (localDay z s) with
  | (y, m, _) => dateMidnight z y (((m - 1) / 3) * 3 + 1) 1

/-- alignment_period.go:159-161 -/
def quarterEndSec (z : Zone) (s : Int) : Int := addDate z (quarterStartSec z s) 0 3 0

/-- alignment_period.go:163-170 -/
def halfStartSec (z : Zone) (s : Int) : Int :=
  match civil (localDay z s) with
  | (y, m, _) => dateMidnight z y (if m ≥ 7 then 7 else 1) 1

/-- alignment_period.go:172-174 -/
def halfEndSec (z : Zone) (s : Int) : Int := addDate z (halfStartSec z s) 0 6 0

/-- alignment_period.go:176-179 -/
def yearStartSec (z : Zone) (s : Int) : Int :=
  match civil (localDay z s) with
  | (y, _, _) => dateMidnight z y 1 1

/-- alignment_period.go:181-183 -/
def yearEndSec (z : Zone) (s : Int) : Int := addDate z (yearStartSec z s) 1 0 0

/-! ## Fixed duration (nanoseconds) -/

/-- time.go:914 `t.Sub(u)`: saturates at the int64 range of Duration. -/
def satSub (t u : Int) : Int :=
  let d := t - u
  if d > maxI64 then maxI64 else if d < minI64 then minI64 else d

/-- two's complement wrap of an int64 result -/
def wrap64 (x : Int) : Int := (x + 9223372036854775808) % 18446744073709551616 - 9223372036854775808

/-- local epoch `time.Date(1970, 1, 1, 0, 0, 0, 0, loc)` in nanoseconds (alignment_period.go:107) -/
def fixedEpoch (z : Zone) : Int := dateMidnight z 1970 1 1 * NS

/-- alignment_period.go:105-115 (repaired D13: rounds down before the epoch).
`since.Truncate(d)` is `since - since % d` with Go's truncated `%` (`Int.tmod`), `d > 0`. -/
def fixedStart (z : Zone) (d t : Int) : Int :=
  let epoch := fixedEpoch z
  let since := satSub t epoch
  let aligned := since - Int.tmod since d
  let aligned := if aligned > since then wrap64 (aligned - d) else aligned
  epoch + aligned

/-- alignment_period.go:117-119 -/
def fixedEnd (z : Zone) (d t : Int) : Int := fixedStart z d t + d

/-! ## Period kinds, API level (nanoseconds) -/

inductive Kind where
  | fixed (d : Int)
  | day | week | month | quarter | half | year
deriving Repr, DecidableEq

def startSec : Kind → Zone → Int → Int
  | .fixed _, _, s => s
  | .day, z, s => dayStartSec z s
  | .week, z, s => weekStartSec z s
  | .month, z, s => monthStartSec z s
  | .quarter, z, s => quarterStartSec z s
  | .half, z, s => halfStartSec z s
  | .year, z, s => yearStartSec z s

def endSec : Kind → Zone → Int → Int
  | .fixed _, _, s => s
  | .day, z, s => dayEndSec z s
  | .week, z, s => weekEndSec z s
  | .month, z, s => monthEndSec z s
  | .quarter, z, s => quarterEndSec z s
  | .half, z, s => halfEndSec z s
  | .year, z, s => yearEndSec z s

/-- `GetStartTime(t)` as UnixNano. -/
def start (k : Kind) (z : Zone) (t : Int) : Int :=
  match k with
  | .fixed d => fixedStart z d t
  | k => startSec k z (t / NS) * NS

/-- `GetEndTime(t)` as UnixNano. -/
def «end» (k : Kind) (z : Zone) (t : Int) : Int :=
  match k with
  | .fixed d => fixedEnd z d t
  | k => endSec k z (t / NS) * NS

/-! ## Day grids (pure calendar) and executable per-instance midnight checks

Not part of the Go code: the calendar partition each kind is meant to implement, and a decidable check that a
local midnight is well behaved in a zone (used as the hypothesis of the C12 theorems, see Props/C12.lean, and
evaluated by the driver). -/

/-- A partition of the day numbers into periods: `gs L` = first day of the period containing day `L`,
`gn P` = first day of the period following the one that starts on `P`. -/
structure DayGrid where
  gs : Int → Int
  gn : Int → Int

def dayGrid : DayGrid := ⟨fun L => L, fun P => P + 1⟩
/-- weeks start on Monday (day 0 = 1970-01-01 is a Thursday, so Mondays are the days ≡ 4 mod 7) -/
def weekGrid : DayGrid := ⟨fun L => L - (L + 3) % 7, fun P => P + 7⟩
/-- periods of `k` months starting at month indices divisible by `k` (k = 1, 3, 6, 12) -/
def monthsGrid (k : Int) : DayGrid :=
  ⟨fun L => monthStart (k * (monthIdx L / k)), fun P => monthStart (monthIdx P + k)⟩

def gridOf : Kind → DayGrid
  | .fixed _ => dayGrid
  | .day => dayGrid
  | .week => weekGrid
  | .month => monthsGrid 1
  | .quarter => monthsGrid 3
  | .half => monthsGrid 6
  | .year => monthsGrid 12

/-- `time.Date(<day D>, 00:00:00, loc)` as unix seconds -/
def mid (z : Zone) (D : Int) : Int := goDateSec z (D * 86400)

/-- On the zone segment `[lo, hi)` (`none` = unbounded) with constant offset `off`:
`m ≤ s + off ↔ c ≤ s` for every `s` of the segment. -/
def segAgree (m c off : Int) (lo hi : Option Int) : Bool :=
  m - off == c ||
  (match lo with | some lo => decide (m - off ≤ lo) && decide (c ≤ lo) | none => false) ||
  (match hi with | some hi => decide (hi ≤ m - off) && decide (hi ≤ c) | none => false)

def iffOKFrom (m c off : Int) (lo : Option Int) : List (Int × Int) → Bool
  | [] => segAgree m c off lo none
  | (w, o) :: rest => segAgree m c off lo (some w) && iffOKFrom m c o (some w) rest

/-- Decides (soundly, `checkMid_sound`) that local midnight of day `D` is well behaved in `z`: `time.Date` returns
an instant showing exactly `D 00:00:00`, and the local date is `≥ D` exactly from that instant on. -/
def checkMid (z : Zone) (D : Int) : Bool :=
  localSecs z (mid z D) == D * 86400 && iffOKFrom (D * 86400) (mid z D) z.init none z.trans

/-- The per-instance hypothesis of the C12 laws at instant `t` (nanoseconds): the local midnights of the period's
start day and of the next period's start day are well behaved (and, for weeks, the `AddDate` intermediate stays on
the Monday it asks for). -/
def checkAt (k : Kind) (z : Zone) (t : Int) : Bool :=
  match k with
  | .fixed _ => true
  | k =>
    let s := t / NS
    let P := (gridOf k).gs (localDay z s)
    checkMid z P && checkMid z ((gridOf k).gn P) &&
      (k != .week || localDay z (goDateSec z (P * 86400 + secOfDay z s)) == P)

/-! ## AlignedTimestampsStream (alignment_period.go:26-43) -/

/-- The generator closure: state `cur`; each pull returns `cur` and advances with `end`, EOF when
`!cur.Before(to)`.  `fuel` bounds the number of pulls (the real stream has no bound). -/
def alignedFrom (endF : Int → Int) (to : Int) : Nat → Int → List Int
  | 0, _ => []
  | fuel + 1, cur => if cur < to then cur :: alignedFrom endF to fuel (endF cur) else []

def alignedTimestamps (startF endF : Int → Int) (from_ to : Int) (fuel : Nat) : List Int :=
  alignedFrom endF to fuel (startF from_)

end ShpanVerif.Model.Period
