/-
Executable model of the sequential core of `/repo/stream` (DESIGN.md §5 C01/C03/C04/C05/C18, layer L2).

A `Pipe` is the *operator object*: syntax together with the mutable state the Go closures/structs
keep (so re-materialising a stream = running the returned `Pipe` again, as in Go).
Three functions mirror the three things Go does with a stream:
  `openP`  = doOpenStream (open lifecycle elements left to right, roll back on failure or panic)
  `emitP`  = the provider function
  `closeP` = doCloseSubStream
and `consume` is `ConsumeWithErrAndCtx` (recover → open → deferred close → pull loop with a
ctx check before every pull).  All recursion is on `fuel`; running out of fuel yields `Res.oof`,
which is propagated unchanged and never handled.

Go sources mirrored (file:line of the current tree):
  stream/shpan_stream.go        ConsumeWithErrAndCtx 97-151, Filter 242-267, doOpenStream / doCloseSubStream 299-330
  stream/map_stream.go          MapWithErrAndCtx 64-77 (mapper errors are wrapped)
  stream/paging.go              Limit 9-27, Skip 29-46
  stream/slice_sourced_stream.go justStream (the probe source behaves the same, without the ctx check)
  stream/unsafe_stream_provider.go newUnsafeStream: open failure/panic → closeFunc; close = still-open subs in reverse order
  stream/down_stream.go / down_multiple_streams.go  open sub(s) then the provider's Open
  stream/concat_streams.go      open 42-68, emit 70-115
  stream/zip_stream.go          8-25
  stream/merge_sorted_streams.go Open (slots reset), emitMerged 47-98
  stream/window_stream.go       62-108
  stream/cluster_sorted_stream.go Open 80-94, Emit 96-178
-/
import ShpanVerif.Model.PipeBase

namespace ShpanVerif.Model.Pipe

mutual
inductive Pipe where
  /-- probe source over `xs`; `idx` = justStream.idx -/
  | src (r : Nat) (xs : List Int) (idx : Nat)
  /-- `p.WithAdditionalLifecycle(probe r)` -/
  | lc (r : Nat) (p : Pipe)
  | map (f : Fn) (p : Pipe)
  | filter (g : Pred) (p : Pipe)
  /-- `p.Limit(n)`; `consumed` = alreadyConsumed (starts at 1, never reset) -/
  | limit (n : Int) (consumed : Int) (p : Pipe)
  /-- `p.Skip(n)`; `done` = alreadySkipped (never reset) -/
  | skip (n : Nat) (done : Bool) (p : Pipe)
  /-- `ConcatStreams(ps...)`; `next` = index of the outer Just stream, `curOpen` = currProviderFunc ≠ nil
      (the inner stream `next-1` is open), `outerOpen` = the outer stream of streams is open -/
  | concat (ps : PipeList) (next : Nat) (curOpen : Bool) (outerOpen : Bool)
  /-- `ZipN(ps...)`; `opened` = number of sub streams currently open (always a prefix) -/
  | zip (ps : PipeList) (opened : Nat)
  /-- `MergeSortedStreams(cmp on key, ps...)`; `slots` = nextBuffer (none = nil) -/
  | merge (ps : PipeList) (opened : Nat) (slots : Option (List (Option V)))
  /-- `Window(p, size, step, omitLastPartial)`; `buf`, `done` as in the closure (never reset) -/
  | window (size step : Nat) (omitLast : Bool) (buf : List V) (done : Bool) (subOpen : Bool) (p : Pipe)
  /-- `ClusterSortedStream(fac, x ↦ x.key / k, cmp, p)`; `nxt` = nextItem, `cls` = currClassifier,
      `last` = lastItemOnPreviousCluster (never reset) -/
  | cluster (k : Int) (fac : Fac) (nxt : Option V) (cls : Int) (last : Option V) (subOpen : Bool) (p : Pipe)
inductive PipeList where
  | nil
  | cons (p : Pipe) (ps : PipeList)
end

def PipeList.length : PipeList → Nat
  | .nil => 0
  | .cons _ ps => ps.length + 1

def PipeList.get? : PipeList → Nat → Option Pipe
  | .nil, _ => none
  | .cons p _, 0 => some p
  | .cons _ ps, i+1 => ps.get? i

def PipeList.set : PipeList → Nat → Pipe → PipeList
  | .nil, _, _ => .nil
  | .cons _ ps, 0, q => .cons q ps
  | .cons p ps, i+1, q => .cons p (ps.set i q)

def PipeList.toList : PipeList → List Pipe
  | .nil => []
  | .cons p ps => p :: ps.toList

def PipeList.ofList : List Pipe → PipeList
  | [] => .nil
  | p :: ps => .cons p (PipeList.ofList ps)

/-- classifier of the cluster operator: floor division of the key -/
def classify (k : Int) (v : V) : Int := v.key / k

/-! ### close (doCloseSubStream / closeFunc): structural, never fails -/
mutual
def closeP : Pipe → World → Pipe × World
  | .src r xs _, w => (.src r xs 0, closeRes r w)
  | .lc r p, w =>
    let (p, w) := closeP p w
    (.lc r p, closeRes r w)
  | .map f p, w => let (p, w) := closeP p w; (.map f p, w)
  | .filter g p, w => let (p, w) := closeP p w; (.filter g p, w)
  | .limit n c p, w =>
    if n ≤ 0 then (.limit n c p, w) else let (p, w) := closeP p w; (.limit n c p, w)
  | .skip n d p, w => let (p, w) := closeP p w; (.skip n d p, w)
  | .concat ps next curOpen _, w =>
    -- still-open sub streams in reverse open order: the current inner stream, then the outer one (invisible)
    if curOpen then
      let (ps, w) := closeAt ps (next - 1) w
      (.concat ps next false false, w)
    else (.concat ps next false false, w)
  | .zip ps opened, w => let (ps, w) := closeFirst ps opened w; (.zip ps 0, w)
  | .merge ps opened slots, w => let (ps, w) := closeFirst ps opened w; (.merge ps 0 slots, w)
  | .window s st o buf d subOpen p, w =>
    if subOpen then let (p, w) := closeP p w; (.window s st o buf d false p, w)
    else (.window s st o buf d false p, w)
  | .cluster k fac nxt cls last subOpen p, w =>
    if subOpen then let (p, w) := closeP p w; (.cluster k fac nxt cls last false p, w)
    else (.cluster k fac nxt cls last false p, w)
/-- close the first `k` sub streams, last opened first -/
def closeFirst : PipeList → Nat → World → PipeList × World
  | .nil, _, w => (.nil, w)
  | ps, 0, w => (ps, w)
  | .cons p ps, k+1, w =>
    let (ps, w) := closeFirst ps k w
    let (p, w) := closeP p w
    (.cons p ps, w)
/-- close the sub stream at index `i` -/
def closeAt : PipeList → Nat → World → PipeList × World
  | .nil, _, w => (.nil, w)
  | .cons p ps, 0, w => let (p, w) := closeP p w; (.cons p ps, w)
  | .cons p ps, i+1, w => let (ps, w) := closeAt ps i w; (.cons p ps, w)
end

/-- first-minimum scan of merge (strict `<` on the key replaces) -/
def scanMin : Nat → List (Option V) → Option (Nat × V) → Option (Nat × V)
  | _, [], acc => acc
  | i, none :: s, acc => scanMin (i+1) s acc
  | i, some v :: s, none => scanMin (i+1) s (some (i, v))
  | i, some v :: s, some (j, m) => scanMin (i+1) s (if v.key < m.key then some (i, v) else some (j, m))

def windowParamsOk (size step : Nat) : Bool := size > 0 && step > 0 && step ≤ size

/-- what a cluster factory returns from what it read -/
def facResult (fac : Fac) (cls : Int) (read : List V) (prev : Option V) : V :=
  match fac with
  | .first => read.headD (.int 0)
  | .sum => .arr ((read.map (fun v => v.flat.sum)).sum :: (match prev with | some p => p.flat | none => []))
  | .firstk _ => .arr ((read.map (fun v => v.flat.sum)).sum :: (match prev with | some p => p.flat | none => []))
  | .none => .int cls
  | .firstprev => .arr ((read.headD (.int 0)).flat ++ (match prev with | some p => p.flat | none => []))

/-- how many elements the factory asks its cluster stream for (`none` = all of them) -/
def facWant : Fac → Option Nat
  | .first => some 1
  | .sum => none
  | .firstk j => some j.toNat
  | .none => some 0
  | .firstprev => some 1

mutual
/-- doOpenStream: open the lifecycle elements of the stream left to right; on failure or panic of
    element k close elements 0..k-1 (forward order) and propagate. -/
def openP : Nat → Pipe → World → Res Unit × Pipe × World
  | 0, p, w => (.oof, p, w)
  | fuel+1, .src r xs idx, w =>
    match openRes r w with
    | (.val _, w) => (.val (), .src r xs 0, w)
    | (.fail e, w) => (.fail e, .src r xs idx, w)
    | (.panic b, w) => (.panic b, .src r xs idx, w)
    | (_, w) => (.oof, .src r xs idx, w)
  | fuel+1, .lc r p, w =>
    match openP fuel p w with
    | (.val _, p, w) =>
      match openRes r w with
      | (.val _, w) => (.val (), .lc r p, w)
      | (.fail e, w) => let (p, w) := closeP p w; (.fail e, .lc r p, w)
      | (.panic b, w) => let (p, w) := closeP p w; (.panic b, .lc r p, w)
      | (_, w) => (.oof, .lc r p, w)
    | (res, p, w) => (res, .lc r p, w)
  | fuel+1, .map f p, w => let (res, p, w) := openP fuel p w; (res, .map f p, w)
  | fuel+1, .filter g p, w => let (res, p, w) := openP fuel p w; (res, .filter g p, w)
  | fuel+1, .limit n c p, w =>
    if n ≤ 0 then (.val (), .limit n c p, w)   -- Empty(): no lifecycle elements at all
    else let (res, p, w) := openP fuel p w; (res, .limit n c p, w)
  | fuel+1, .skip n d p, w => let (res, p, w) := openP fuel p w; (res, .skip n d p, w)
  | fuel+1, .concat ps _ _ _, w =>
    if ps.length = 0 then (.val (), .concat ps 0 false false, w)   -- Empty()
    else
      -- the outer Just stream opens (idx := 0); its first Emit checks the context
      if w.cancelled then (.fail .ctx, .concat ps 0 false false, w)   -- open failed → closeFunc closes the outer stream
      else
        match ps.get? 0 with
        | none => (.oof, .concat ps 0 false false, w)
        | some p0 =>
          match openP fuel p0 w with
          | (.val _, p0, w) => (.val (), .concat (ps.set 0 p0) 1 true true, w)
          | (.oof, p0, w) => (.oof, .concat (ps.set 0 p0) 1 false true, w)
          | (res, p0, w) => (res, .concat (ps.set 0 p0) 1 false false, w)   -- closeFunc: only the outer stream is open
  | fuel+1, .zip ps _, w =>
    if ps.length = 0 then (.val (), .zip ps 0, w)
    else
      match openList fuel ps 0 w with
      | (.val _, ps, w) => (.val (), .zip ps ps.length, w)
      | (res, ps, w) => (res, .zip ps 0, w)
  | fuel+1, .merge ps _ slots, w =>
    if ps.length = 0 then (.val (), .merge ps 0 slots, w)
    else
      match openList fuel ps 0 w with
      | (.val _, ps, w) => (.val (), .merge ps ps.length none, w)   -- provider.Open resets the look-ahead slots
      | (res, ps, w) => (res, .merge ps 0 slots, w)
  | fuel+1, .window s st o buf d _ p, w =>
    if !windowParamsOk s st then (.fail (.lib "window-params"), .window s st o buf d false p, w)  -- Error stream
    else
      match openP fuel p w with
      | (.val _, p, w) => (.val (), .window s st o buf d true p, w)
      | (res, p, w) => (res, .window s st o buf d false p, w)
  | fuel+1, .cluster k fac nxt cls last _ p, w =>
    match openP fuel p w with
    | (.val _, p, w) =>
      -- clusterSortedStream.Open pulls the first item
      match emitP fuel p w with
      | (.val v, p, w) => (.val (), .cluster k fac (some v) (classify k v) last true p, w)
      | (.eof, p, w) => (.val (), .cluster k fac none cls last true p, w)
      | (.oof, p, w) => (.oof, .cluster k fac nxt cls last true p, w)
      | (.fail e, p, w) => let (p, w) := closeP p w; (.fail e, .cluster k fac nxt cls last false p, w)
      | (.panic b, p, w) => let (p, w) := closeP p w; (.panic b, .cluster k fac nxt cls last false p, w)
    | (res, p, w) => (res, .cluster k fac nxt cls last false p, w)

/-- open sub streams i, i+1, … in order; when one fails close the ones opened so far in reverse order -/
def openList : Nat → PipeList → Nat → World → Res Unit × PipeList × World
  | 0, ps, _, w => (.oof, ps, w)
  | fuel+1, ps, i, w =>
    match ps.get? i with
    | none => (.val (), ps, w)
    | some p =>
      match openP fuel p w with
      | (.val _, p, w) => openList fuel (ps.set i p) (i+1) w
      | (.oof, p, w) => (.oof, ps.set i p, w)
      | (res, p, w) =>
        let (ps, w) := closeFirst (ps.set i p) i w
        (res, ps, w)

/-- the provider function -/
def emitP : Nat → Pipe → World → Res V × Pipe × World
  | 0, p, w => (.oof, p, w)
  | fuel+1, .src r xs idx, w =>
    match emitRes r w with
    | (.none, w) =>
      match xs[idx]? with
      | some x => (.val (.int x), .src r xs (idx+1), w)
      | none => (.eof, .src r xs idx, w)
    | (.err, w) => (.fail .user, .src r xs idx, w)
    | (.panic b, w) => (.panic b, .src r xs idx, w)
  | fuel+1, .lc r p, w => let (res, p, w) := emitP fuel p w; (res, .lc r p, w)
  | fuel+1, .map f p, w =>
    match emitP fuel p w with
    | (.val v, p, w) =>
      match userCall w with
      | (.none, w) => (.val (f.app v), .map f p, w)
      | (.err, w) => (.fail .user, .map f p, w)          -- "map failed for Stream: %w"
      | (.panic b, w) => (.panic b, .map f p, w)
    | (.eof, p, w) => (.eof, .map f p, w)
    | (.fail e, p, w) => (.fail e, .map f p, w)
    | (.panic b, p, w) => (.panic b, .map f p, w)
    | (.oof, p, w) => (.oof, .map f p, w)
  | fuel+1, .filter g p, w =>
    match emitP fuel p w with
    | (.val v, p, w) =>
      match userCall w with
      | (.none, w) => if g.app v then (.val v, .filter g p, w) else emitP fuel (.filter g p) w
      | (.err, w) => (.fail .user, .filter g p, w)        -- "filter failed for Stream: %w"
      | (.panic b, w) => (.panic b, .filter g p, w)
    | (.eof, p, w) => (.eof, .filter g p, w)
    | (.fail e, p, w) => (.fail e, .filter g p, w)
    | (.panic b, p, w) => (.panic b, .filter g p, w)
    | (.oof, p, w) => (.oof, .filter g p, w)
  | fuel+1, .limit n c p, w =>
    if n ≤ 0 then (.eof, .limit n c p, w)
    else if c > n then (.eof, .limit n c p, w)
    else
      match emitP fuel p w with
      | (.val v, p, w) => (.val v, .limit n (c+1) p, w)
      | (.eof, p, w) => (.eof, .limit n c p, w)
      | (.fail e, p, w) => (.fail e, .limit n c p, w)
      | (.panic b, p, w) => (.panic b, .limit n c p, w)
      | (.oof, p, w) => (.oof, .limit n c p, w)
  | fuel+1, .skip n d p, w =>
    if w.cancelled then (.fail .ctx, .skip n d p, w)
    else if d then let (res, p, w) := emitP fuel p w; (res, .skip n true p, w)
    else
      match skipLoop fuel n p w with
      | (.val _, p, w) => let (res, p, w) := emitP fuel p w; (res, .skip n true p, w)
      | (.eof, p, w) => (.eof, .skip n true p, w)
      | (.fail e, p, w) => (.fail e, .skip n true p, w)
      | (.panic b, p, w) => (.panic b, .skip n true p, w)
      | (.oof, p, w) => (.oof, .skip n true p, w)
  | fuel+1, .concat ps next curOpen outerOpen, w =>
    if ps.length = 0 then (.eof, .concat ps next curOpen outerOpen, w)   -- Empty(): EOF without a ctx check
    else if w.cancelled then (.fail .ctx, .concat ps next curOpen outerOpen, w)
    else if !curOpen then (.eof, .concat ps next curOpen outerOpen, w)
    else
      match ps.get? (next - 1) with
      | none => (.oof, .concat ps next curOpen outerOpen, w)
      | some cur =>
        match emitP fuel cur w with
        | (.val v, cur, w) => (.val v, .concat (ps.set (next-1) cur) next true outerOpen, w)
        | (.fail e, cur, w) => (.fail e, .concat (ps.set (next-1) cur) next true outerOpen, w)
        | (.panic b, cur, w) => (.panic b, .concat (ps.set (next-1) cur) next true outerOpen, w)
        | (.oof, cur, w) => (.oof, .concat (ps.set (next-1) cur) next true outerOpen, w)
        | (.eof, cur, w) =>
          -- current inner stream is done: close it, then try the next one
          let (cur, w) := closeP cur w
          let ps := ps.set (next-1) cur
          if w.cancelled then (.fail .ctx, .concat ps next false outerOpen, w)
          else
            match ps.get? next with
            | none => (.eof, .concat ps next false outerOpen, w)     -- outer stream exhausted
            | some nx =>
              match openP fuel nx w with
              | (.val _, nx, w) => emitP fuel (.concat (ps.set next nx) (next+1) true outerOpen) w
              | (.oof, nx, w) => (.oof, .concat (ps.set next nx) (next+1) false outerOpen, w)
              | (.eof, nx, w) => (.oof, .concat (ps.set next nx) (next+1) false outerOpen, w)
              | (.fail e, nx, w) => (.fail e, .concat (ps.set next nx) (next+1) false outerOpen, w)
              | (.panic b, nx, w) => (.panic b, .concat (ps.set next nx) (next+1) false outerOpen, w)
  | fuel+1, .zip ps opened, w =>
    if ps.length = 0 then (.eof, .zip ps opened, w)
    else
      match zipRow fuel ps 0 [] w with
      | (.val row, ps, w) => (.val (.arr row), .zip ps opened, w)
      | (.eof, ps, w) => (.eof, .zip ps opened, w)
      | (.fail e, ps, w) => (.fail e, .zip ps opened, w)
      | (.panic b, ps, w) => (.panic b, .zip ps opened, w)
      | (.oof, ps, w) => (.oof, .zip ps opened, w)
  | fuel+1, .merge ps opened slots, w =>
    if ps.length = 0 then (.eof, .merge ps opened slots, w)
    else
      let slots0 := match slots with | some s => s | none => List.replicate ps.length none
      match mergeRefill fuel ps 0 slots0 w with
      | (.val slots1, ps, w) =>
        match scanMin 0 slots1 none with
        | none => (.eof, .merge ps opened (some slots1), w)
        | some (j, m) => (.val m, .merge ps opened (some (slots1.set j none)), w)
      | (.eof, ps, w) => (.oof, .merge ps opened (some slots0), w)
      | (.fail e, ps, w) => (.fail e, .merge ps opened (some slots0), w)
      | (.panic b, ps, w) => (.panic b, .merge ps opened (some slots0), w)
      | (.oof, ps, w) => (.oof, .merge ps opened (some slots0), w)
  | fuel+1, .window s st o buf d subOpen p, w =>
    if d then (.eof, .window s st o buf d subOpen p, w)
    else windowFill fuel s st o buf subOpen p w
  | fuel+1, .cluster k fac nxt cls last subOpen p, w =>
    match nxt with
    | none => (.eof, .cluster k fac nxt cls last subOpen p, w)
    | some _ =>
      -- the factory is user code: a call position
      match userCall w with
      | (.err, w) => (.fail .user, .cluster k fac nxt cls last subOpen p, w)     -- "failed merging: %w"
      | (.panic b, w) => (.panic b, .cluster k fac nxt cls last subOpen p, w)
      | (.none, w) =>
        let prev := last
        -- the factory materialises the cluster stream with a nested terminal operation
        match (if fac = .none then (.val [], nxt, last, p, w)   -- reads nothing: no nested terminal at all
               else clusterRead fuel k cls (facWant fac) [] nxt last p w) with
        | (.val read, nxt, last, p, w) =>
          let out := facResult fac cls read.reverse prev
          -- skip what the factory left of this cluster
          match clusterSkip fuel k cls nxt last p w with
          | (.val cls', nxt, last, p, w) => (.val out, .cluster k fac nxt cls' last subOpen p, w)
          | (.eof, nxt, last, p, w) => (.oof, .cluster k fac nxt cls last subOpen p, w)
          | (.fail e, nxt, last, p, w) => (.fail e, .cluster k fac nxt cls last subOpen p, w)
          | (.panic b, nxt, last, p, w) => (.panic b, .cluster k fac nxt cls last subOpen p, w)
          | (.oof, nxt, last, p, w) => (.oof, .cluster k fac nxt cls last subOpen p, w)
        | (.eof, nxt, last, p, w) => (.oof, .cluster k fac nxt cls last subOpen p, w)
        | (.fail e, nxt, last, p, w) => (.fail e, .cluster k fac nxt cls last subOpen p, w)  -- "failed merging: %w"
        | (.panic b, nxt, last, p, w) => (.panic b, .cluster k fac nxt cls last subOpen p, w)
        | (.oof, nxt, last, p, w) => (.oof, .cluster k fac nxt cls last subOpen p, w)

/-- Skip's `for i := 0; i < skip; i++` loop (any error, EOF included, is returned as is) -/
def skipLoop : Nat → Nat → Pipe → World → Res Unit × Pipe × World
  | 0, _, p, w => (.oof, p, w)
  | _+1, 0, p, w => (.val (), p, w)
  | fuel+1, n+1, p, w =>
    match emitP fuel p w with
    | (.val _, p, w) => skipLoop fuel n p w
    | (.eof, p, w) => (.eof, p, w)
    | (.fail e, p, w) => (.fail e, p, w)
    | (.panic b, p, w) => (.panic b, p, w)
    | (.oof, p, w) => (.oof, p, w)

/-- one ZipN row: pull every provider in order; the first error (EOF included) ends the row -/
def zipRow : Nat → PipeList → Nat → List Int → World → Res (List Int) × PipeList × World
  | 0, ps, _, _, w => (.oof, ps, w)
  | fuel+1, ps, i, acc, w =>
    match ps.get? i with
    | none => (.val acc, ps, w)
    | some p =>
      match emitP fuel p w with
      | (.val v, p, w) => zipRow fuel (ps.set i p) (i+1) (acc ++ v.flat) w
      | (.eof, p, w) => (.eof, ps.set i p, w)
      | (.fail e, p, w) => (.fail e, ps.set i p, w)
      | (.panic b, p, w) => (.panic b, ps.set i p, w)
      | (.oof, p, w) => (.oof, ps.set i p, w)

/-- merge: for every input whose slot is empty: ctx check, then pull once (EOF leaves the slot empty) -/
def mergeRefill : Nat → PipeList → Nat → List (Option V) → World → Res (List (Option V)) × PipeList × World
  | 0, ps, _, _, w => (.oof, ps, w)
  | fuel+1, ps, i, slots, w =>
    match ps.get? i with
    | none => (.val slots, ps, w)
    | some p =>
      match slots[i]? with
      | some (some _) => mergeRefill fuel ps (i+1) slots w
      | _ =>
        if w.cancelled then (.fail .ctx, ps, w)
        else
          match emitP fuel p w with
          | (.val v, p, w) => mergeRefill fuel (ps.set i p) (i+1) (slots.set i (some v)) w
          | (.eof, p, w) => mergeRefill fuel (ps.set i p) (i+1) slots w
          | (.fail e, p, w) => (.fail e, ps.set i p, w)
          | (.panic b, p, w) => (.panic b, ps.set i p, w)
          | (.oof, p, w) => (.oof, ps.set i p, w)

/-- Window: fill the buffer up to `size`, then cut a window and slide -/
def windowFill : Nat → Nat → Nat → Bool → List V → Bool → Pipe → World → Res V × Pipe × World
  | 0, s, st, o, buf, subOpen, p, w => (.oof, .window s st o buf false subOpen p, w)
  | fuel+1, s, st, o, buf, subOpen, p, w =>
    if buf.length < s then
      if w.cancelled then (.fail .ctx, .window s st o buf false subOpen p, w)
      else
        match emitP fuel p w with
        | (.val v, p, w) => windowFill fuel s st o (buf ++ [v]) subOpen p w
        | (.eof, p, w) =>
          if buf.length > 0 && !o && st != 1 then
            (.val (.arr (buf.flatMap V.flat)), .window s st o [] true subOpen p, w)   -- the first short run
          else (.eof, .window s st o buf false subOpen p, w)
        | (.fail e, p, w) => (.fail e, .window s st o buf false subOpen p, w)
        | (.panic b, p, w) => (.panic b, .window s st o buf false subOpen p, w)
        | (.oof, p, w) => (.oof, .window s st o buf false subOpen p, w)
    else
      let win := buf.take s
      let buf' := if st ≥ buf.length then [] else buf.drop st
      (.val (.arr (win.flatMap V.flat)), .window s st o buf' false subOpen p, w)

/-- The nested terminal the factory runs on its cluster stream (`Limit(want).Collect` / full consume):
    ctx check before every pull; the cluster stream's provider yields `nextItem` while it belongs to the
    cluster and advances the source. A panic below is recovered by this nested terminal. `acc` is reversed. -/
def clusterRead : Nat → Int → Int → Option Nat → List V → Option V → Option V → Pipe → World →
    Res (List V) × Option V × Option V × Pipe × World
  | 0, _, _, _, _, nxt, last, p, w => (.oof, nxt, last, p, w)
  | fuel+1, k, cls, want, acc, nxt, last, p, w =>
    match want with
    | some 0 =>
      -- `Limit(j)` after j elements (or `Limit(0)` = Empty) answers the terminal's next pull itself,
      -- after the terminal's ctx check
      if w.cancelled then (.fail .ctx, nxt, last, p, w) else (.val acc, nxt, last, p, w)
    | _ =>
      if w.cancelled then (.fail .ctx, nxt, last, p, w)
      else
        match nxt with
        | none => (.val acc, nxt, last, p, w)
        | some item =>
          if classify k item != cls then (.val acc, nxt, last, p, w)
          else
            -- yield `item`: lastItemOnPreviousCluster := nextItem, then advance the source
            match emitP fuel p w with
            | (.val v, p, w) => clusterRead fuel k cls (want.map (· - 1)) (item :: acc) (some v) (some item) p w
            | (.eof, p, w) => clusterRead fuel k cls (want.map (· - 1)) (item :: acc) none (some item) p w
            | (.fail e, p, w) => (.fail e, nxt, some item, p, w)
            | (.panic b, p, w) => (.fail (recovered b), nxt, some item, p, w)
            | (.oof, p, w) => (.oof, nxt, some item, p, w)

/-- after the factory returned: advance to the first item of the next cluster -/
def clusterSkip : Nat → Int → Int → Option V → Option V → Pipe → World →
    Res Int × Option V × Option V × Pipe × World
  | 0, _, _, nxt, last, p, w => (.oof, nxt, last, p, w)
  | fuel+1, k, cls, nxt, last, p, w =>
    match nxt with
    | none => (.val cls, nxt, last, p, w)     -- currClassifier is not updated when nextItem is nil
    | some item => clusterSkipLoop fuel k cls (classify k item) (some item) last p w

def clusterSkipLoop : Nat → Int → Int → Int → Option V → Option V → Pipe → World →
    Res Int × Option V × Option V × Pipe × World
  | 0, _, _, _, nxt, last, p, w => (.oof, nxt, last, p, w)
  | fuel+1, k, cls, nextCls, nxt, last, p, w =>
    match nxt with
    | none => (.val nextCls, nxt, last, p, w)
    | some item =>
      if nextCls != cls then (.val nextCls, nxt, last, p, w)
      else
        match emitP fuel p w with
        | (.eof, p, w) => (.val nextCls, none, last, p, w)
        | (.val v, p, w) =>
          let c := classify k v
          if cls > c then (.fail (.lib "cluster-not-sorted"), nxt, last, p, w)
          else clusterSkipLoop fuel k cls c (some v) (some item) p w
        | (.fail e, p, w) => (.fail e, nxt, last, p, w)
        | (.panic b, p, w) => (.panic b, nxt, last, p, w)
        | (.oof, p, w) => (.oof, nxt, last, p, w)
end

/-! ### terminal operations -/

/-- what the caller's consumer does -/
inductive Consumer where
  | collect            -- library-side append: not a call position
  | user               -- `Consume(ctx, f)` with a probe consumer: every invocation is a call position
  deriving DecidableEq, Repr

inductive Outcome where
  | ok (delivered : List V)
  | err (e : Root) (delivered : List V)
  | oof
  deriving Repr

/-- pull loop of ConsumeWithErrAndCtx (`acc` reversed) -/
def pullLoop : Nat → Consumer → Pipe → List V → World → Res Unit × List V × Pipe × World
  | 0, _, p, acc, w => (.oof, acc, p, w)
  | fuel+1, c, p, acc, w =>
    if w.cancelled then (.fail .ctx, acc, p, w)
    else
      match emitP fuel p w with
      | (.val v, p, w) =>
        match c with
        | .collect => pullLoop fuel c p (v :: acc) w
        | .user =>
          match userCall w with
          | (.none, w) => pullLoop fuel c p (v :: acc) w
          | (.err, w) => (.fail .user, acc, p, w)
          | (.panic b, w) => (.panic b, acc, p, w)
      | (.eof, p, w) => (.val (), acc, p, w)
      | (.fail e, p, w) => (.fail e, acc, p, w)
      | (.panic b, p, w) => (.panic b, acc, p, w)
      | (.oof, p, w) => (.oof, acc, p, w)

/-- `ConsumeWithErrAndCtx`: recover; doOpenStream; deferred close (only when the open succeeded); pull loop. -/
def consume (fuel : Nat) (c : Consumer) (p : Pipe) (w : World) : Outcome × Pipe × World :=
  match openP fuel p w with
  | (.val _, p, w) =>
    match pullLoop fuel c p [] w with
    | (.val _, acc, p, w) => let (p, w) := closeP p w; (.ok acc.reverse, p, w)
    | (.eof, acc, p, w) => let (p, w) := closeP p w; (.ok acc.reverse, p, w)
    | (.fail e, acc, p, w) => let (p, w) := closeP p w; (.err e acc.reverse, p, w)
    | (.panic b, acc, p, w) => let (p, w) := closeP p w; (.err (recovered b) acc.reverse, p, w)
    | (.oof, _, p, w) => (.oof, p, w)
  | (.fail e, p, w) => (.err e [], p, w)                 -- "failed to open stream: %w"
  | (.panic b, p, w) => (.err (recovered b) [], p, w)   -- recovered; nothing was left open (roll-back)
  | (.eof, p, w) => (.oof, p, w)
  | (.oof, p, w) => (.oof, p, w)

end ShpanVerif.Model.Pipe
