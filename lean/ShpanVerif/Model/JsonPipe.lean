/-
Model of `jsonstream.StreamJsonAsReaderAndReturn` (`utils/jsonstream/json_stream_io.go:66-150`) as a small-step
transition system.

Goroutines: the writer (:82-139), which runs a complete sequential terminal over the source provider P
(`stream.ConsumeWithErr(streamCtx, cb)` :87) whose callback writes to an `io.Pipe` (two Writes per element :91/:96
and :107, one final Write :123/:131), and the caller's goroutine, which runs the user's `consumer(ctx, pr)` :142 and
then `pr.Close()` :146, `cancelStream()` :148 and returns.  The writer is the only goroutine that touches P.

io.Pipe is a rendezvous: a Write blocks until a Read has taken its bytes or the read end is closed (then it fails);
a context cancellation does NOT wake a pending Write.

Contexts: ctx0 = caller ctx; ctxC = WithCancelCause(ctx0) :73 (cancelled by the writer on failure :116/:126/:134);
streamCtx = WithCancel(ctxC) :77 (cancelled by the caller after the consumer returned :148, fix 08471b8).  The inner
terminal checks streamCtx before every pull and passes it to P.Emit.

After `cancelStream()` the caller waits for the writer goroutine (`<-writerDone`, fix B3) and only then returns: label
`tJoin`, enabled only when the writer is `done`.

The consumer is user code: its reads and its return are environment transitions; it is owed that it returns.
-/
import ShpanVerif.Model.ConcCore

namespace ShpanVerif.Model.JsonPipe
open ShpanVerif.Model.Conc

/-- Writer goroutine. -/
inductive WPc
  | opening            -- inner doOpenStream: P.Open pending
  | check              -- inner shpan_stream.go:134 streamCtx.Err()
  | inEmit             -- inside P.Emit(streamCtx)
  | w1 (i : Nat)       -- pw.Write("[" | ",") pending (:91 / :96)
  | w2 (i : Nat)       -- pw.Write(json of element i) pending (:107)
  | closeP (ok : Bool) -- inner deferred close: P.Close pending; ok = inner terminal returned nil
  | closed (ok : Bool) -- :114 `if err != nil`
  | wEnd               -- pw.Write("]" | "[]") pending (:123 / :131)
  | cancelC            -- cancelFunc(err); pw.CloseWithError(err) (:116-117 / :126-127 / :134-135)
  | pwClose (clean : Bool) -- deferred pw.Close() :83 (after CloseWithError it keeps the error)
  | done
  deriving DecidableEq, Repr, Hashable

/-- Caller goroutine. -/
inductive TPc
  | inCons   -- inside consumer(ctx, pr) :142
  | prClose  -- :146
  | cancelS  -- :148
  | join     -- `<-writerDone` (fix B3)
  | ret
  deriving DecidableEq, Repr, Hashable

structure Cfg where
  n : Nat
  e : Nat := 0
  /-- `true` = the code as it is (fix 08471b8: cancelStream() after pr.Close()); `false` = the earlier code, kept for
      the leak witness (finding D25). -/
  fix25 : Bool := true
  /-- `true` = the code as it is (fix B3: the function waits for the writer goroutine before it returns); `false` = the
      earlier code, which returned right after `cancelStream()`. -/
  fixJoin : Bool := true
  deriving DecidableEq, Repr

structure St where
  cursor : Nat
  emitting : Nat
  closes : Nat              -- ghost: number of calls of P.Close
  pOpened : Bool
  pClosed : Bool
  badWindow : Bool
  badOverlap : Bool
  w : WPc
  written : List Nat        -- elements whose json the reader has taken
  prClosed : Bool
  pwClosed : Option Bool    -- write end closed; `some true` = clean (reader sees EOF), `some false` = with error
  ctx0 : Bool
  cCancelled : Bool         -- cancelFunc(err) ran
  sCancelled : Bool         -- cancelStream() ran
  t : TPc
  reads : Nat               -- Reads of the consumer that took a Write
  errBudget : Nat
  faulted : Bool
  dropped : Bool            -- ghost: a pending element Write failed
  deriving DecidableEq, Repr, Hashable

@[inline] def St.sctx (s : St) : Bool := s.ctx0 || s.cCancelled || s.sCancelled

inductive Label
  | wOpenOk | wOpenErr | wCheck | wEmitVal | wEmitEof | wEmitErr | wWrFail | wCloseP | wClosed | wCancelC | wPwClose
  | rRead | rReturn
  | tPrClose | tCancelS | tJoin
  | cancel
  deriving DecidableEq, Repr

def init (cfg : Cfg) : St :=
  { cursor := 0, emitting := 0, closes := 0, pOpened := false, pClosed := false, badWindow := false, badOverlap := false,
    w := .opening, written := [], prClosed := false, pwClosed := none, ctx0 := false, cCancelled := false,
    sCancelled := false, t := .inCons, reads := 0, errBudget := cfg.e, faulted := false, dropped := false }

def step (cfg : Cfg) (s : St) : Label → Option St
  | .wOpenOk => if s.w = .opening then some { s with w := .check, pOpened := true } else none
  | .wOpenErr =>
    if s.w = .opening ∧ 0 < s.errBudget then
      some { s with w := .closed false, faulted := true, errBudget := s.errBudget - 1 }
    else none
  | .wCheck =>
    if s.w = .check then
      if s.sctx then some { s with w := .closeP false }
      else some { s with w := .inEmit, emitting := s.emitting + 1, badWindow := s.badWindow || !s.pOpened || s.pClosed }
    else none
  | .wEmitVal =>
    if s.w = .inEmit ∧ s.cursor < cfg.n then
      some { s with w := .w1 s.cursor, cursor := s.cursor + 1, emitting := s.emitting - 1 }
    else none
  | .wEmitEof =>
    if s.w = .inEmit ∧ s.cursor = cfg.n then some { s with w := .closeP true, emitting := s.emitting - 1 } else none
  | .wEmitErr =>
    if s.w = .inEmit ∧ 0 < s.errBudget then
      some { s with w := .closeP false, emitting := s.emitting - 1, faulted := true, errBudget := s.errBudget - 1 }
    else none
  | .wWrFail =>    -- the read end is closed: the pending Write returns io.ErrClosedPipe
    if s.prClosed then
      match s.w with
      | .w1 _ => some { s with w := .closeP false, dropped := true }
      | .w2 _ => some { s with w := .closeP false, dropped := true }
      | .wEnd => some { s with w := .cancelC }
      | _ => none
    else none
  | .wCloseP =>
    match s.w with
    | .closeP ok => some { s with w := .closed ok, pClosed := true, closes := s.closes + 1, badOverlap := s.badOverlap || decide (0 < s.emitting) }
    | _ => none
  | .wClosed =>
    match s.w with
    | .closed true => some { s with w := .wEnd }
    | .closed false => some { s with w := .cancelC }
    | _ => none
  | .wCancelC => if s.w = .cancelC then some { s with w := .pwClose false, cCancelled := true } else none
  | .wPwClose =>
    match s.w with
    | .pwClose b => some { s with w := .done, pwClosed := some b }
    | _ => none
  | .rRead =>      -- a Read of the consumer takes the pending Write
    if s.t = .inCons ∧ s.prClosed = false then
      match s.w with
      | .w1 i => some { s with w := .w2 i, reads := s.reads + 1 }
      | .w2 i => some { s with w := .check, written := s.written ++ [i], reads := s.reads + 1 }
      | .wEnd => some { s with w := .pwClose true, reads := s.reads + 1 }
      | _ => none
    else none
  | .rReturn => if s.t = .inCons then some { s with t := .prClose } else none
  | .tPrClose => if s.t = .prClose then some { s with t := .cancelS, prClosed := true } else none
  | .tCancelS =>
    if s.t = .cancelS then
      some { s with t := if cfg.fixJoin then .join else .ret, sCancelled := s.sCancelled || cfg.fix25 }
    else none
  | .tJoin => if s.t = .join ∧ s.w = .done then some { s with t := .ret } else none
  | .cancel => if s.ctx0 then none else some { s with ctx0 := true }

def sys (cfg : Cfg) : Sys St Label := { init := init cfg, step := step cfg }

def final (s : St) : Bool := s.t = .ret && s.w = .done

def inHand (i : Nat) : WPc → Nat
  | .w1 j => if i = j then 1 else 0
  | .w2 j => if i = j then 1 else 0
  | _ => 0

def cnt (i : Nat) (s : St) : Nat := inHand i s.w + s.written.count i

def internalLabels (_s : St) : List Label :=
  [.tPrClose, .tCancelS, .tJoin, .wOpenOk, .wCheck, .wWrFail, .wCloseP, .wClosed, .wCancelC, .wPwClose]

end ShpanVerif.Model.JsonPipe
