/-
Shared base of the C14 (reductions) and C15 (delta / rate) models — owned by the C14/C15 builder.
Own small copies of what other properties also model (period laws, cluster mechanism), so that these
two properties do not depend on Model/Align.lean (C13/C16) or Model/Period.lean (C12).

Go semantics written down here
  * `time.Time` value = (instant in ns since the Unix epoch, id of the Location object carried).
    `Equal/Before/After/Compare/Sub` look at the instant only (the code uses these since fix 270479a).
  * numbers: `Dec δ` stands for float64 (δ = `Float` in the compiled driver, δ = `Rat` in the theorems),
    `Num ν δ` stands for the generic `N Number` of package timeseries (ν = `Int` for int64, ν = δ for float64)
    with the conversions `float64(v)` / `N(f)` used by `timeWeightedAverage`.
    Integer overflow, NaN and −0 are out of scope (generators stay far away from them).
  * a stream that may fail is a pair (elements delivered before the failure, optional terminal error).
-/
namespace ShpanVerif.Model.TsB

/-- A `time.Time` value: the instant and the identity of the Location object it carries. -/
structure Time where
  inst : Int
  loc : Nat
deriving DecidableEq, Repr

/-- `timeseries.TsRecord[N]`. -/
structure Rec (ν : Type) where
  ts : Time
  v : ν
deriving Repr, DecidableEq

/-- `timeseries.AlignmentPeriod`: period start / end of an instant, and the Location of the returned times. -/
structure Period where
  start : Int → Int
  end_ : Int → Int
  loc : Nat

/-- `ap.GetStartTime(t)` -/
def Period.startTime (p : Period) (t : Time) : Time := ⟨p.start t.inst, p.loc⟩
/-- `ap.GetEndTime(t)` -/
def Period.endTime (p : Period) (t : Time) : Time := ⟨p.end_ t.inst, p.loc⟩

/-- The laws of C12 that C14/C15 use (hypotheses of the theorems; established for the real periods by C12). -/
structure Tiles (p : Period) : Prop where
  start_le : ∀ t, p.start t ≤ t
  lt_end : ∀ t, t < p.end_ t
  same_start : ∀ t u, p.start t ≤ u → u ≤ t → p.start u = p.start t

/-- `timeseries.NewFixedAlignmentPeriod(d, time.UTC)` (alignment_period.go:105-119, rounding down, fix 0897711). -/
def fixedPeriod (d : Int) (loc : Nat) : Period :=
  { start := fun t => t - t % d, end_ := fun t => t - t % d + d, loc := loc }

/-- Error classes (canonical form of the Go error messages). -/
inductive Err where
  | notAfter          -- timeseries_delta_stream.go:18 "item timestamp … is not after previous item timestamp"
  | clusterNotSorted  -- cluster_sorted_stream.go:168 "cluster stream is not sorted"
  | twaSameTime       -- timeseries.go:37 / aligner_filter.go:127 "v1Time and v2Time are the same"
  | twaOutOfBounds    -- timeseries.go:42 / aligner_filter.go:132 "targetTime … is out of bounds"
  | emptyCluster      -- timeseries_delta_aligner.go:37
  | timeDiffZero      -- rate_filter.go:97
  | joinNotSorted     -- join_multiple_streams.go:89
  | noDatasources     -- reduction_datasource.go:88
  | notNumeric        -- reduction_datasource.go:103, reduce_field_report_value.go:86
  | notRequired       -- reduction_datasource.go:106,119 ; reduce_field_report_value.go:89,102
  | typeMismatch      -- reduction_datasource.go:115 ; reduce_field_report_value.go:98
  | fieldsNotFound    -- reduce_field_report_value.go:74
  | noFields          -- reduce_field_report_value.go:80
  | panicType         -- failed type assertion `v.(int64)` / `v.(float64)`
  | panicIndex        -- values[0] on an empty slice
deriving DecidableEq, Repr

def Err.str : Err → String
  | .notAfter => "not-after"
  | .clusterNotSorted => "cluster-not-sorted"
  | .twaSameTime => "twa-same-time"
  | .twaOutOfBounds => "twa-out-of-bounds"
  | .emptyCluster => "empty-cluster"
  | .timeDiffZero => "time-diff-zero"
  | .joinNotSorted => "join-not-sorted"
  | .noDatasources => "no-datasources"
  | .notNumeric => "not-numeric"
  | .notRequired => "not-required"
  | .typeMismatch => "type-mismatch"
  | .fieldsNotFound => "fields-not-found"
  | .noFields => "no-fields"
  | .panicType => "panic-type"
  | .panicIndex => "panic-index"

/-- A stream result: what was delivered, and the error that ended it (none = io.EOF). -/
abbrev SRes (α : Type) := List α × Option Err

/-- float64 stand-in. -/
structure Dec (δ : Type) where
  zero : δ
  add : δ → δ → δ
  sub : δ → δ → δ
  mul : δ → δ → δ
  div : δ → δ → δ
  lt : δ → δ → Bool
  ofInt : Int → δ      -- float64(int64)
  trunc : δ → Int      -- int64(float64): toward zero

/-- Rational truncation toward zero. -/
def ratTrunc (q : Rat) : Int := q.num.tdiv q.den

def Dec.rat : Dec Rat :=
  { zero := 0, add := (· + ·), sub := (· - ·), mul := (· * ·), div := (· / ·),
    lt := fun a b => decide (a < b), ofInt := fun n => (n : Rat), trunc := ratTrunc }

def Dec.float : Dec Float :=
  { zero := 0.0, add := (· + ·), sub := (· - ·), mul := (· * ·), div := (· / ·),
    lt := fun a b => a < b, ofInt := Float.ofInt, trunc := fun x => x.toInt64.toInt }

/-- The generic `N Number` of package timeseries. -/
structure Num (ν δ : Type) where
  zero : ν
  add : ν → ν → ν
  sub : ν → ν → ν
  mul : ν → ν → ν
  div : ν → ν → ν
  lt : ν → ν → Bool
  ofNat : Nat → ν      -- N(count)
  toDec : ν → δ        -- float64(v)
  ofDec : δ → ν        -- N(res)

/-- N = int64 (Go integer division truncates toward zero). -/
def Num.int {δ : Type} (D : Dec δ) : Num Int δ :=
  { zero := 0, add := (· + ·), sub := (· - ·), mul := (· * ·), div := Int.tdiv,
    lt := fun a b => decide (a < b), ofNat := fun n => (n : Int), toDec := D.ofInt, ofDec := D.trunc }

/-- N = float64. -/
def Num.dec {δ : Type} (D : Dec δ) : Num δ δ :=
  { zero := D.zero, add := D.add, sub := D.sub, mul := D.mul, div := D.div, lt := D.lt,
    ofNat := fun n => D.ofInt (n : Int), toDec := id, ofDec := id }

/-- `time.Duration.Seconds()` : `float64(d / Second) + float64(d % Second) / 1e9`. -/
def secs {δ : Type} (D : Dec δ) (d : Int) : δ :=
  D.add (D.ofInt (d.tdiv 1000000000)) (D.div (D.ofInt (d.tmod 1000000000)) (D.ofInt 1000000000))

/-- `timeWeightedAverage[N]` (timeseries.go:32-54). -/
def twa {ν δ : Type} (N : Num ν δ) (D : Dec δ) (target v1t : Int) (v1 : ν) (v2t : Int) (v2 : ν) : Except Err ν :=
  if v1t == v2t then
    if v1t == target then .ok v1 else .error .twaSameTime
  else if target < v1t || v2t < target then .error .twaOutOfBounds
  else
    let total := secs D (v2t - v1t)
    let part := secs D (target - v1t)
    let w := D.div part total
    .ok (N.ofDec (D.add (N.toDec v1) (D.mul (D.sub (N.toDec v2) (N.toDec v1)) w)))

/-! ### ClusterSortedStream (stream/cluster_sorted_stream.go), key = instant of the period start,
comparator = `time.Time.Compare` (instants). -/

/-- State of `clusterSortedStream` between two `Emit`s. -/
structure CState (α : Type) where
  nextItem : Option α      -- fs.nextItem
  rest : List α            -- what the source has not delivered yet
  lastPrev : Option α      -- fs.lastItemOnPreviousCluster
  curr : Int               -- fs.currClassifier

/-- `Open` (cluster_sorted_stream.go:80-93): pull the first item. -/
def cOpen {α : Type} (key : α → Int) : List α → CState α
  | [] => ⟨none, [], none, 0⟩
  | x :: r => ⟨some x, r, none, key x⟩

/-- The per-cluster stream (lines 105-138) pulled until it answers EOF: the items it yields and the
state it leaves (`nextItem`, source rest, `lastItemOnPreviousCluster`). -/
def pullRun {α : Type} (key : α → Int) (c : Int) :
    Option α → List α → Option α → List α × Option α × List α × Option α
  | none, rest, lp => ([], none, rest, lp)
  | some it, rest, lp =>
    if key it != c then ([], some it, rest, lp)
    else match rest with
      | [] => ([it], none, [], some it)
      | y :: ys =>
        let r := pullRun key c (some y) ys (some it)
        (it :: r.1, r.2)

/-- One `Emit` when the cluster factory consumes the WHOLE cluster stream (AlignReduceStream,
AlignDeltaStream): returns (classifier, `lastItemOnPreviousCluster` as passed to the factory, items)
and the next state.  After the factory returns, `nextItem` (if any) has another classifier, so the
skipping loop (lines 154-173) does not run and `currClassifier` becomes that classifier. -/
def emitAll {α : Type} (key : α → Int) (st : CState α) : Option ((Int × Option α × List α) × CState α) :=
  match st.nextItem with
  | none => none
  | some _ =>
    let c := st.curr
    let r := pullRun key c st.nextItem st.rest st.lastPrev
    let curr' := match r.2.1 with | some y => key y | none => c
    some ((c, st.lastPrev, r.1), ⟨r.2.1, r.2.2.1, r.2.2.2, curr'⟩)

def collectAll {α : Type} (key : α → Int) : Nat → CState α → List (Int × Option α × List α)
  | 0, _ => []
  | fuel+1, st =>
    match emitAll key st with
    | none => []
    | some (o, st') => o :: collectAll key fuel st'

/-- All clusters a whole-cluster-consuming factory is called with, in order. -/
def clustersAll {α : Type} (key : α → Int) (xs : List α) : List (Int × Option α × List α) :=
  collectAll key (xs.length + 1) (cOpen key xs)

/-- Apply a fallible factory to the clusters in pull order; stop at the first error
(`failed merging: …`, cluster_sorted_stream.go:141-145). -/
def mapUntilErr {α β : Type} (f : α → Except Err β) : List α → SRes β
  | [] => ([], none)
  | a :: as =>
    match f a with
    | .error e => ([], some e)
    | .ok b => let r := mapUntilErr f as; (b :: r.1, r.2)

/-- The skipping loop (lines 154-173) entered with `nextItem = cur` in the current cluster `c`:
result = (`nextItem`, rest, `lastItemOnPreviousCluster`) or the "not sorted" error. -/
def skipRun {α : Type} (key : α → Int) (c : Int) : α → List α → Option α → Except Err (Option α × List α × Option α)
  | _, [], lp => .ok (none, [], lp)
  | cur, y :: ys, _ =>
    if key y < c then .error .clusterNotSorted
    else if key y == c then skipRun key c y ys (some cur)
    else .ok (some y, ys, some cur)

/-- Clusters as seen by a factory that takes only the FIRST item of each cluster stream (`FindFirst`,
the tsquery aligner filter): (classifier, first item, lastItemOnPreviousCluster) → result.
Stops at the first factory error or "not sorted" error. -/
def collectFirst {α β : Type} (key : α → Int) (f : Int → α → Option α → Except Err β) :
    Nat → CState α → SRes β
  | 0, _ => ([], none)
  | fuel+1, st =>
    match st.nextItem with
    | none => ([], none)
    | some x =>
      let c := st.curr
      -- the cluster stream yields x (its classifier equals c), lastItemOnPreviousCluster := x, nextItem advances
      match f c x st.lastPrev with
      | .error e => ([], some e)
      | .ok b =>
        match st.rest with
        | [] => ([b], none)
        | y :: ys =>
          if key y != c then
            let r := collectFirst key f fuel ⟨some y, ys, some x, key y⟩
            (b :: r.1, r.2)
          else
            match skipRun key c y ys (some x) with
            | .error e => ([], some e)
            | .ok (none, _, _) => ([b], none)
            | .ok (some z, zs, lp) =>
              let r := collectFirst key f fuel ⟨some z, zs, lp, key z⟩
              (b :: r.1, r.2)

def clustersFirst {α β : Type} (key : α → Int) (f : Int → α → Option α → Except Err β) (xs : List α) : SRes β :=
  collectFirst key f (xs.length + 1) (cOpen key xs)

end ShpanVerif.Model.TsB
