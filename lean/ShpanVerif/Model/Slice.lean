/-
Go slices over a heap of backing arrays (the substrate of C17; DESIGN.md §4 `Heap`/`Slice`).

A Go slice value is a triple (pointer, len, cap); the pointer is modelled as (array id, offset).
`Heap α` is the list of all backing arrays ever allocated; an array never moves or shrinks.

* `appendMany h s vs grow` is `append(s, vs...)`:
    - `len(s)+len(vs) ≤ cap(s)`  → the new elements are written IN PLACE into `s`'s backing array
      (cells `off+len ..`), the result shares the array;
    - otherwise a FRESH array is allocated holding `s[0:len] ++ vs` followed by `grow` zero cells.
  The runtime's growth policy is NOT modelled: the new capacity is `len(s)+len(vs)+grow` for an
  arbitrary `grow` supplied by the caller of the model (an oracle); every theorem quantifies over it.
* `clip` is `slices.Clip` (cap := len), `reslice` is `s[a:b]`, `allocWith` is `make([]T, n, n+spare)` + copy,
  `clone` is `slices.Clone`, `getIdx`/`setIdx` are `s[i]` / `s[i] = v`.
-/
namespace ShpanVerif.Model.Slice

/-- A slice value: backing array id, offset of element 0 in it, length, capacity. -/
structure Slice where
  arr : Nat
  off : Nat
  len : Nat
  cap : Nat
  deriving DecidableEq, Repr, Inhabited

/-- All backing arrays allocated so far; array id = position. -/
abbrev Heap (α : Type) := List (List α)

variable {α : Type}

/-- Backing array `a` (empty when `a` was never allocated). -/
def arrOf (h : Heap α) (a : Nat) : List α := h.getD a []

/-- What is visible through `s`: `s[0:len]`. -/
def view (h : Heap α) (s : Slice) : List α := ((arrOf h s.arr).drop s.off).take s.len

/-- Everything reachable through `s` by re-slicing: `s[0:cap]` (includes the spare capacity). -/
def extent (h : Heap α) (s : Slice) : List α := ((arrOf h s.arr).drop s.off).take s.cap

/-- `s` is a valid slice of heap `h`. The nil slice (cap 0, off 0) is valid in every heap. -/
def Slice.WF (h : Heap α) (s : Slice) : Prop :=
  s.len ≤ s.cap ∧ s.off + s.cap ≤ (arrOf h s.arr).length

instance (h : Heap α) (s : Slice) : Decidable (s.WF h) := by unfold Slice.WF; infer_instance

/-- Go's nil slice. -/
def nilSlice : Slice := { arr := 0, off := 0, len := 0, cap := 0 }

/-- `slices.Clip(s)` = `s[:len(s):len(s)]`. -/
def clip (s : Slice) : Slice := { s with cap := s.len }

/-- `s[a:b]` (for `a ≤ b ≤ cap`). -/
def reslice (s : Slice) (a b : Nat) : Slice :=
  { arr := s.arr, off := s.off + a, len := b - a, cap := s.cap - a }

/-- Overwrite cells `i .. i+|vs|-1` of array `a` (an in-place write; no allocation). -/
def writeRange (h : Heap α) (a i : Nat) (vs : List α) : Heap α :=
  h.set a ((arrOf h a).take i ++ vs ++ (arrOf h a).drop (i + vs.length))

/-- `s[i]`. -/
def getIdx (h : Heap α) (s : Slice) (i : Nat) : Option α :=
  if i < s.len then (arrOf h s.arr)[s.off + i]? else none

/-- `s[i] = v` (a no-op when out of range; Go would panic). -/
def setIdx (h : Heap α) (s : Slice) (i : Nat) (v : α) : Heap α :=
  if i < s.len then writeRange h s.arr (s.off + i) [v] else h

/-- A slice over a fresh array with the given contents and `spare` extra zero cells
    (`x := make([]T, n, n+spare); copy(x, cells)`). -/
def allocWith [Inhabited α] (h : Heap α) (cells : List α) (spare : Nat) : Heap α × Slice :=
  (h ++ [cells ++ List.replicate spare default],
   { arr := h.length, off := 0, len := cells.length, cap := cells.length + spare })

/-- `slices.Clone(s)`. -/
def clone [Inhabited α] (h : Heap α) (s : Slice) : Heap α × Slice := allocWith h (view h s) 0

/-- `append(s, vs...)`; `grow` = spare capacity of the new array if one has to be allocated. -/
def appendMany [Inhabited α] (h : Heap α) (s : Slice) (vs : List α) (grow : Nat) : Heap α × Slice :=
  if s.len + vs.length ≤ s.cap then
    (writeRange h s.arr (s.off + s.len) vs, { s with len := s.len + vs.length })
  else
    (h ++ [view h s ++ vs ++ List.replicate grow default],
     { arr := h.length, off := 0, len := s.len + vs.length, cap := s.len + vs.length + grow })

/-- `append(s, v)`. -/
def append [Inhabited α] (h : Heap α) (s : Slice) (v : α) (grow : Nat) : Heap α × Slice :=
  appendMany h s [v] grow

/-- `h'` is `h` plus newly allocated arrays: no array of `h` was written to. -/
def Extends (h h' : Heap α) : Prop := ∃ e, h' = h ++ e

/-- A slice on which `append` cannot touch any array of `base`: it is full (so `append` allocates) or its
    array was allocated after `base`. -/
def Owned (base : Heap α) (s : Slice) : Prop := s.len = s.cap ∨ base.length ≤ s.arr

end ShpanVerif.Model.Slice
