/-
Model of the aligners (C13):
  stream/cluster_sorted_stream.go                              (clusterSortedStream: Open / Emit / skip loop)
  utils/timeseries/timeseries_stream_aligner.go                (AlignStream[N])
  utils/timeseries/timeseries_untyped_stream_aligner.go        (AlignStreamUntyped, timeWeightedAverageArr)
  utils/timeseries/timeseries.go:31-54                         (timeWeightedAverage[N])
  utils/timeseries/tsquery/datasource/aligner_filter.go        (AlignerFilter.Filter, timeWeightedAverage)
  utils/timeseries/tsquery/report/aligner_report_filter.go     (AlignerFilter.Filter, timeWeightedAverageArr)
  utils/timeseries/tsquery/datatype.go:77-104                  (DataType.ToFloat64 / FromFloat64)

Conventions
  * an instant is an `Int` (ns since the Unix epoch); a `time.Time` value is a `Stamp` = (instant, id of the
    Location it carries).  After the D15 repair every comparison in the anchored code is
    `Equal`/`Before`/`After`/`Compare`/`Sub`, all of which look at the instant only; the model uses `.inst` at
    exactly those places and never looks at `.loc`.
  * the alignment period is abstract: two functions `start`, `stop` on instants (`GetStartTime`, `GetEndTime`)
    and the id of the Location its results carry.
  * the source stream is `stream.Just(xs...)`: pulling = taking the head, EOF when empty, no source errors
    (error propagation of sources is C03's subject).
  * arithmetic is a parameter (`Arith`): no laws are assumed anywhere in this file.
-/
namespace ShpanVerif.Model.Align

/-- Error classes (the Go code returns `fmt.Errorf` texts; the harness maps them to these classes). -/
inductive Err where
  | sameTime      -- "v1Time and v2Time are the same"
  | outOfBounds   -- "targetTime … is out of bounds"
  | unsorted      -- "cluster stream is not sorted"
  | notNumeric    -- AnyToFloat64 / DataType.ToFloat64 refuse the value
  | noFirst       -- FindFirst on an empty cluster stream
  | panic         -- failed type assertion / index out of range (a Go panic, recovered by the terminal)
  | badMode       -- "unsupported fill mode"
  deriving DecidableEq, Repr, Inhabited

def Err.toString : Err → String
  | .sameTime => "same" | .outOfBounds => "oob" | .unsorted => "unsorted" | .notNumeric => "nonnum"
  | .noFirst => "nofirst" | .panic => "panic" | .badMode => "badmode"

/-- `AlignmentPeriod`: `GetStartTime`, `GetEndTime`, and the Location carried by the times it returns. -/
structure Period where
  start : Int → Int
  stop : Int → Int
  loc : Nat := 0

/-- The laws of C12 (hypotheses here; C12 proves them for the concrete periods). -/
structure Tiles (P : Period) : Prop where
  start_le : ∀ t, P.start t ≤ t
  lt_stop : ∀ t, t < P.stop t
  start_idem : ∀ t, P.start (P.start t) = P.start t
  start_stop : ∀ t, P.start (P.stop t) = P.stop t
  mono : ∀ t u, t ≤ u → P.start t ≤ P.start u

/-- `time.Time`: the instant and the identity of the Location object the value carries. -/
structure Stamp where
  inst : Int
  loc : Nat
  deriving DecidableEq, Repr

/-- `TsRecord[T]`. -/
structure Rec (β : Type) where
  ts : Stamp
  val : β
  deriving Repr

instance {β} [DecidableEq β] : DecidableEq (Rec β) := fun a b =>
  match a, b with
  | ⟨t1, v1⟩, ⟨t2, v2⟩ =>
    if h : t1 = t2 ∧ v1 = v2 then isTrue (by rw [h.1, h.2]) else isFalse (by intro e; cases e; exact h ⟨rfl, rfl⟩)

/-- `time.Time.Compare` on instants. -/
def cmpInt (a b : Int) : Ordering := if a < b then .lt else if a = b then .eq else .gt

/-! ## The cluster mechanism (stream/cluster_sorted_stream.go), generic in item `T`, classifier `C`, output `O` -/
section cluster
variable {T C O : Type}

/-- Fields of `clusterSortedStream` + the not yet pulled rest of the source. -/
structure CState (T C : Type) where
  nextItem : Option T               -- fs.nextItem
  curr : C                          -- fs.currClassifier
  last : Option T                   -- fs.lastItemOnPreviousCluster
  src : List T

/-- `Open` (cluster_sorted_stream.go:80-93) on an operator whose fields are `(c0, last0)`.
`lastItemOnPreviousCluster` is NOT reset by `Open` (a fresh operator has `last0 = none`). -/
def copen (cls : T → C) (c0 : C) (last0 : Option T) : List T → CState T C
  | [] => ⟨none, c0, last0, []⟩
  | x :: xs => ⟨some x, cls x, last0, xs⟩

/-- One pull on the "virtual" cluster stream for cluster `cc` (cluster_sorted_stream.go:107-137). -/
def cpull (cls : T → C) (cmp : C → C → Ordering) (cc : C) (s : CState T C) : Option T × CState T C :=
  match s.nextItem with
  | none => (none, s)                                             -- :108
  | some n =>
    if cmp cc (cls n) != .eq then (none, s)                       -- :114 next item belongs to a new cluster
    else
      match s.src with                                            -- :121-134
      | [] => (some n, { s with last := some n, nextItem := none })
      | x :: xs => (some n, { s with last := some n, nextItem := some x, src := xs })

/-- The skip-to-next-cluster loop (cluster_sorted_stream.go:154-173): `nc`/`r` are `nextClassifier`/
`compareRes`, `n` is `*fs.nextItem`.  Result: (nextClassifier, nextItem, lastItemOnPreviousCluster, rest). -/
def cskip (cls : T → C) (cmp : C → C → Ordering) (cc : C) :
    C → Ordering → T → Option T → List T → Except Err (C × Option T × Option T × List T)
  | nc, r, n, last, src =>
    if r != .eq then .ok (nc, some n, last, src)                  -- loop condition false
    else
      match src with
      | [] => .ok (nc, none, last, [])                            -- :160 EOF: nextItem = nil, loop ends
      | x :: xs =>
        let nc' := cls x
        let r' := cmp cc nc'
        if r' == .gt then .error .unsorted                        -- :167
        else cskip cls cmp cc nc' r' x (some n) xs                -- :170-171

/-- One `Emit` (cluster_sorted_stream.go:95-178), specialised to a factory that pulls the cluster stream
exactly once (`clusterStream.FindFirst()` = `Limit(1).Collect`: `Limit` answers the second pull with EOF
without touching the cluster stream, stream/paging.go:15).  The factory sees the classifier, the result of
that pull and the value `fs.lastItemOnPreviousCluster` had when the factory was called (:141).
`none` = io.EOF. -/
def cemit (cls : T → C) (cmp : C → C → Ordering)
    (fac : C → Option T → Option T → Except Err O) (s : CState T C) :
    Option (Except Err O) × CState T C :=
  match s.nextItem with
  | none => (none, s)                                             -- :96
  | some _ =>
    let cc := s.curr                                              -- :100
    let lastArg := s.last                                         -- :141 (argument evaluated before the pull)
    let (first, s1) := cpull cls cmp cc s
    match fac cc first lastArg with
    | .error e => (some (.error e), s1)                           -- :142-145 "failed merging"
    | .ok o =>
      match s1.nextItem with                                      -- :148
      | none => (some (.ok o), s1)
      | some n =>
        let nc := cls n
        match cskip cls cmp cc nc (cmp cc nc) n s1.last s1.src with
        | .error e => (some (.error e), s1)
        | .ok (nc', n', l', src') => (some (.ok o), ⟨n', nc', l', src'⟩)   -- :174

/-- `Collect`: pull until EOF; the first error aborts (result slice dropped).  Fuel = bound on the pulls. -/
def ccollect (cls : T → C) (cmp : C → C → Ordering) (fac : C → Option T → Option T → Except Err O) :
    Nat → CState T C → Except Err (List O)
  | 0, _ => .ok []
  | fuel+1, s =>
    match cemit cls cmp fac s with
    | (none, _) => .ok []
    | (some (.error e), _) => .error e
    | (some (.ok o), s') =>
      match ccollect cls cmp fac fuel s' with
      | .ok l => .ok (o :: l)
      | .error e => .error e

end cluster

/-! ## Interpolation -/

/-- The operations the code performs on `float64` (and the two conversions to/from `int64`).  No laws. -/
structure Arith (V : Type) where
  secs : Int → V          -- time.Duration.Seconds()
  ofInt : Int → V         -- float64(int64)
  toInt : V → Int         -- int64(float64): truncation toward zero
  add : V → V → V
  sub : V → V → V
  mul : V → V → V
  div : V → V → V

section interp
variable {V : Type} (A : Arith V)

/-- `weight := interpolatedDuration / totalDuration` (timeseries.go:46-48). -/
def Arith.weight (di dt : Int) : V := A.div (A.secs di) (A.secs dt)

/-- `v1 + (v2-v1)*weight` (timeseries.go:51). -/
def Arith.lerp (v1 v2 w : V) : V := A.add v1 (A.mul (A.sub v2 v1) w)

/-- The time checks shared by all four `timeWeightedAverage*` functions (timeseries.go:32-43 and twins);
`core di dt v1 v2` is the arithmetic part, given the two durations `target-t1` and `t2-t1`. -/
def twa {β : Type} (core : Int → Int → β → β → Except Err β)
    (target t1 : Int) (v1 : β) (t2 : Int) (v2 : β) : Except Err β :=
  if t1 = t2 then
    if t1 = target then .ok v1 else .error .sameTime
  else if target < t1 ∨ target > t2 then .error .outOfBounds
  else core (target - t1) (t2 - t1) v1 v2

/-- A numeric kind `N` of `AlignStream[N]`: `float64(v)` and `N(res)`. -/
structure NumKind (V N : Type) where
  toF : N → V
  ofF : V → N

def intKind : NumKind V Int := ⟨A.ofInt, A.toInt⟩
def fltKind : NumKind V V := ⟨id, id⟩

/-- `timeWeightedAverage[N]` arithmetic (timeseries.go:46-53): never fails. -/
def coreTyped {N : Type} (K : NumKind V N) (di dt : Int) (v1 v2 : N) : Except Err N :=
  .ok (K.ofF (A.lerp (K.toF v1) (K.toF v2) (A.weight di dt)))

/-- A dynamically typed value (`any`): int64, float64, or something not numeric. -/
inductive Cell (V : Type) where
  | int (i : Int)
  | flt (f : V)
  | other (tag : Nat)
  deriving Repr

instance [DecidableEq V] : DecidableEq (Cell V) := fun a b =>
  match a, b with
  | .int i, .int j => if h : i = j then isTrue (by rw [h]) else isFalse (by intro e; cases e; exact h rfl)
  | .flt f, .flt g => if h : f = g then isTrue (by rw [h]) else isFalse (by intro e; cases e; exact h rfl)
  | .other s, .other t => if h : s = t then isTrue (by rw [h]) else isFalse (by intro e; cases e; exact h rfl)
  | .int _, .flt _ => isFalse (by intro e; cases e)
  | .int _, .other _ => isFalse (by intro e; cases e)
  | .flt _, .int _ => isFalse (by intro e; cases e)
  | .flt _, .other _ => isFalse (by intro e; cases e)
  | .other _, .int _ => isFalse (by intro e; cases e)
  | .other _, .flt _ => isFalse (by intro e; cases e)

/-- `util.AnyToFloat64` on the values the harness can build (internal/util/calst_util.go:9-40). -/
def anyToFloat : Cell V → Except Err V
  | .int i => .ok (A.ofInt i)
  | .flt f => .ok f
  | .other _ => .error .notNumeric

/-- `timeWeightedAverageArr` of AlignStreamUntyped (timeseries_untyped_stream_aligner.go:85-102):
every field becomes a `float64`; `v2Arr[i]` on a shorter row is an index panic. -/
def coreUntyped (di dt : Int) : List (Cell V) → List (Cell V) → Except Err (List (Cell V))
  | [], _ => .ok []
  | _ :: _, [] => .error .panic
  | c1 :: r1, c2 :: r2 =>
    match anyToFloat A c1 with
    | .error e => .error e
    | .ok v1 =>
      match anyToFloat A c2 with
      | .error e => .error e
      | .ok v2 =>
        match coreUntyped di dt r1 r2 with
        | .error e => .error e
        | .ok rest => .ok (.flt (A.lerp v1 v2 (A.weight di dt)) :: rest)

/-- tsquery field data types that matter here (`IsNumeric` has been checked by `Filter`). -/
inductive DType where
  | integer | decimal
  deriving DecidableEq, Repr

/-- `DataType.ToFloat64` (tsquery/datatype.go:77-93). -/
def dtToFloat : DType → Cell V → Except Err V
  | .integer, .int i => .ok (A.ofInt i)
  | .integer, .flt f => .ok f
  | .integer, .other _ => .error .notNumeric
  | .decimal, .flt f => .ok f
  | .decimal, _ => .error .panic          -- `val.(float64)` without the ok form

/-- `DataType.FromFloat64` (tsquery/datatype.go:95-104). -/
def dtFromFloat : DType → V → Cell V
  | .integer, v => .int (A.toInt v)
  | .decimal, v => .flt v

/-- datasource `timeWeightedAverage` arithmetic (datasource/aligner_filter.go:135-155). -/
def coreField (dt : DType) (di dtot : Int) (c1 c2 : Cell V) : Except Err (Cell V) :=
  match dtToFloat A dt c1 with
  | .error e => .error e
  | .ok v1 =>
    match dtToFloat A dt c2 with
    | .error e => .error e
    | .ok v2 => .ok (dtFromFloat A dt (A.lerp v1 v2 (A.weight di dtot)))

/-- report `timeWeightedAverageArr` arithmetic (report/aligner_report_filter.go:133-152): field `i` uses
`fieldsMeta[i]`; a missing meta or a shorter second row is an index panic. -/
def coreRow (di dtot : Int) : List DType → List (Cell V) → List (Cell V) → Except Err (List (Cell V))
  | _, [], _ => .ok []
  | [], _ :: _, _ => .error .panic
  | _ :: _, _ :: _, [] => .error .panic
  | dt :: dts, c1 :: r1, c2 :: r2 =>
    match coreField A dt di dtot c1 c2 with
    | .error e => .error e
    | .ok c =>
      match coreRow di dtot dts r1 r2 with
      | .error e => .error e
      | .ok rest => .ok (c :: rest)

end interp

/-! ## The aligner factory and the four aligners -/
section align
variable {β : Type}

/-- The cluster factory shared (textually) by AlignStream, AlignStreamUntyped and both tsquery filters
(timeseries_stream_aligner.go:19-64): `FindFirst`, first-cluster case, boundary test with `Equal`,
otherwise the time-weighted average between the last item of the previous cluster and the first item. -/
def alignFactory (ploc : Nat) (core : Int → Int → β → β → Except Err β)
    (cc : Int) (first last : Option (Rec β)) : Except Err (Rec β) :=
  match first with
  | none => .error .noFirst                                       -- :26-29
  | some f =>
    match last with
    | none => .ok ⟨⟨cc, ploc⟩, f.val⟩                             -- :32-36 first cluster
    | some l =>
      if f.ts.inst = cc then .ok ⟨⟨cc, ploc⟩, f.val⟩              -- :41 Equal
      else
        match twa core cc l.ts.inst l.val f.ts.inst f.val with    -- :48-54
        | .error e => .error e
        | .ok v => .ok ⟨⟨cc, ploc⟩, v⟩

/-- `AlignmentPeriodClassifierFunc`: the instant of `GetStartTime(a.Timestamp)`. -/
def classify (P : Period) (r : Rec β) : Int := P.start r.ts.inst

/-- An aligned stream, collected, on an operator whose `lastItemOnPreviousCluster` field is `last0`. -/
def alignFrom (P : Period) (core : Int → Int → β → β → Except Err β) (last0 : Option (Rec β))
    (xs : List (Rec β)) : Except Err (List (Rec β)) :=
  ccollect (classify P) cmpInt (alignFactory P.loc core) (xs.length + 2) (copen (classify P) 0 last0 xs)

/-- First materialisation of a freshly built aligned stream. -/
def alignWith (P : Period) (core : Int → Int → β → β → Except Err β) (xs : List (Rec β)) :
    Except Err (List (Rec β)) := alignFrom P core none xs

variable {V : Type} (A : Arith V)

/-- `AlignStream[N]`. -/
def alignStream {N : Type} (K : NumKind V N) (P : Period) (xs : List (Rec N)) :=
  alignWith P (coreTyped A K) xs
/-- `AlignStreamUntyped`. -/
def alignUntyped (P : Period) (xs : List (Rec (List (Cell V)))) := alignWith P (coreUntyped A) xs
/-- datasource `NewAlignerFilter(P).Filter` on a field of type `dt`. -/
def alignField (dt : DType) (P : Period) (xs : List (Rec (Cell V))) := alignWith P (coreField A dt) xs
/-- report `NewAlignerFilter(P).Filter` on rows with field types `dts`. -/
def alignRows (dts : List DType) (P : Period) (xs : List (Rec (List (Cell V)))) :=
  alignWith P (fun di dt => coreRow A di dt dts) xs

end align

/-! ## Executable instances used by the driver -/

/-- `time.Duration.Seconds()`: `float64(d / 1e9) + float64(d % 1e9) / 1e9` with Go's truncated division. -/
def floatSecs (d : Int) : Float := Float.ofInt (d.tdiv 1000000000) + Float.ofInt (d.tmod 1000000000) / 1e9

/-- IEEE binary64, as Go on amd64 (no fused multiply-add).  `toInt` is `Float.toInt64` (truncation toward
zero; agrees with Go's `int64(f)` for every in-range `f`; out-of-range is implementation-defined in Go and
excluded by the generators). -/
def floatArith : Arith Float where
  secs := floatSecs
  ofInt := Float.ofInt
  toInt := fun f => f.toInt64.toInt
  add := (· + ·)
  sub := (· - ·)
  mul := (· * ·)
  div := (· / ·)

/-- Truncation toward zero of a rational. -/
def ratTrunc (q : Rat) : Int := if 0 ≤ q then q.floor else -((-q).floor)

/-- Exact arithmetic (used by the value theorems). -/
def ratArith : Arith Rat where
  secs := fun d => (d : Rat) / 1000000000
  ofInt := fun i => (i : Rat)
  toInt := ratTrunc
  add := (· + ·)
  sub := (· - ·)
  mul := (· * ·)
  div := (· / ·)

/-- Fixed duration `d > 0` in a fixed-offset zone whose local 1970-01-01T00:00 is the instant `epoch`
(alignment_period.go:105-119, after the D13 repair = rounding down).  UTC: `epoch = 0`. -/
def fixedPeriod (d : Int) (epoch : Int := 0) (loc : Nat := 0) : Period where
  start := fun t => epoch + d * ((t - epoch) / d)
  stop := fun t => epoch + d * ((t - epoch) / d) + d
  loc := loc

end ShpanVerif.Model.Align
