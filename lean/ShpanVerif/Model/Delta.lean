/-
C15 — model of delta and rate.

  utils/timeseries/timeseries_delta_stream.go            DeltaStream (previous-item memo, "not after previous" error)
  utils/timeseries/timeseries_delta_aligner.go           AlignDeltaStream (aligned stream ++ lazily appended last
                                                         reading moved to its period end, then DeltaStream)
  utils/timeseries/tsquery/datasource/non_negative_delta.go   newNonNegativeCounterDeltaFunc (with / without max)
  utils/timeseries/tsquery/datasource/delta_filter.go    DeltaFilter (plain and non-negative)
  utils/timeseries/tsquery/datasource/rate_filter.go     RateFilter

Modelled as the code is now (timestamps compared with `Equal`, fix 270479a).  The models only ever look
at the instant of a timestamp; the Location id is carried along where the code copies a timestamp.
-/
import ShpanVerif.Model.TsBase1415
import ShpanVerif.Model.Reduce

namespace ShpanVerif.Model.Delta
open ShpanVerif.Model.TsB ShpanVerif.Model.Reduce

variable {ν δ : Type}

/-! ### DeltaStream (timeseries_delta_stream.go:8-29) -/

/-- The mapper of `MapWhileFilteringWithErr` run over the source, `prevItem` as explicit state. -/
def deltaGo (N : Num ν δ) : Option (Rec ν) → List (Rec ν) → SRes (Rec ν)
  | _, [] => ([], none)
  | none, x :: xs => deltaGo N (some x) xs                      -- lines 13-15: remember, emit nothing
  | some pr, x :: xs =>
    if !decide (pr.ts.inst < x.ts.inst) then ([], some .notAfter)      -- line 17: !item.Timestamp.After(prev)
    else
      let r := deltaGo N (some x) xs
      ({ ts := x.ts, v := N.sub x.v pr.v } :: r.1, r.2)         -- lines 20-25

/-- `DeltaStream(s).Collect()` for a source that delivers `s.1` and then ends with `s.2`. -/
def deltaStream (N : Num ν δ) (s : SRes (Rec ν)) : SRes (Rec ν) :=
  let r := deltaGo N none s.1
  (r.1, match r.2 with | some e => some e | none => s.2)

/-! ### AlignDeltaStream (timeseries_delta_aligner.go:14-100) -/

/-- The cluster factory (lines 20-77) for a cluster `g` with classifier `c`; `lp` = lastItemOnPreviousCluster. -/
def adFactory (N : Num ν δ) (D : Dec δ) (p : Period) (c : Int) (lp : Option (Rec ν)) (g : List (Rec ν)) :
    Except Err (Rec ν) :=
  match g.head? with
  | none => .error .emptyCluster                                   -- lines 36-38
  | some lf =>
    match lp with
    | none => .ok { ts := ⟨c, p.loc⟩, v := lf.v }                 -- lines 44-48: first cluster
    | some l =>
      if lf.ts.inst == c then .ok { ts := ⟨c, p.loc⟩, v := lf.v }  -- lines 53-57
      else (twa N D c l.ts.inst l.v lf.ts.inst lf.v).map (fun a => { ts := ⟨c, p.loc⟩, v := a })   -- lines 60-73

/-- The lazily appended element (lines 86-97), from the shared cells `globalFirstItem` / `globalLastItem`
as they stand when the aligned stream has been consumed. -/
def adTail (p : Period) (gf gl : Option (Rec ν)) : List (Rec ν) :=
  match gl, gf with
  | some l, some f =>
    if l.ts.inst != p.start l.ts.inst && l.ts.inst != f.ts.inst then [{ ts := p.endTime l.ts, v := l.v }]
    else []
  | _, _ => []

/-- `AlignDeltaStream(s, ap).Collect()`. -/
def alignDelta (N : Num ν δ) (D : Dec δ) (p : Period) (xs : List (Rec ν)) : SRes (Rec ν) :=
  let cl := clustersAll (fun (r : Rec ν) => p.start r.ts.inst) xs
  let aligned := mapUntilErr (fun c => adFactory N D p c.1 c.2.1 c.2.2) cl
  match aligned.2 with
  | some e => deltaStream N (aligned.1, some e)
  | none =>
    -- globalFirstItem = first item of the first cluster, globalLastItem = last item of the last cluster
    let gf := cl.head?.bind (fun c => c.2.2.head?)
    let gl := cl.getLast?.bind (fun c => c.2.2.getLast?)
    deltaStream N (aligned.1 ++ adTail p gf gl, none)

/-! ### newNonNegativeCounterDeltaFunc (non_negative_delta.go:8-29) -/

/-- returns (delta, shouldEmit) -/
def nonNegDelta (D : Dec δ) (maxC : δ) (curr prev : δ) : δ × Bool :=
  if D.lt D.zero maxC then                                           -- maxCounterValue > 0
    if D.lt curr D.zero then (D.zero, false)
    else if D.lt curr prev then (D.add (D.sub maxC prev) curr, true)
    else (D.sub curr prev, true)
  else
    if D.lt curr D.zero then (D.zero, false)
    else if D.lt curr prev then (curr, true)
    else (D.sub curr prev, true)

/-! ### DeltaFilter (delta_filter.go:23-116) -/

/-- `BinaryNumericOperatorSub.GetFuncImpl(dataType)` applied: SubInt / SubDecimal with their type assertions. -/
def subVal (D : Dec δ) (dt : DType) (a b : Val δ) : Except Err (Val δ) :=
  match dt with
  | .integer => do let x ← asInt a; let y ← asInt b; return .i (x - y)
  | .decimal => do let x ← asDec a; let y ← asDec b; return .d (D.sub x y)
  | _ => .error .notNumeric

def deltaFilterGo (D : Dec δ) (dt : DType) (nn : Bool) (maxC : δ) :
    Option (Rec (Val δ)) → List (Rec (Val δ)) → SRes (Rec (Val δ))
  | _, [] => ([], none)
  | none, x :: xs => deltaFilterGo D dt nn maxC (some x) xs           -- lines 52-55 / 102-105
  | some pr, x :: xs =>
    if nn then
      match toFloat64 D dt x.v with                                   -- lines 57-60
      | .error e => ([], some e)
      | .ok cv =>
        match toFloat64 D dt pr.v with                                -- lines 61-64
        | .error e => ([], some e)
        | .ok pv =>
          let de := nonNegDelta D maxC cv pv
          if !de.2 then deltaFilterGo D dt nn maxC (some pr) xs       -- lines 66-69: dropped, prevItem stays
          else if D.lt cv pv then                                     -- lines 72-82: reset, float round trip
            match fromFloat64 D dt de.1 with
            | .error e => ([], some e)
            | .ok conv =>
              let r := deltaFilterGo D dt nn maxC (some x) xs
              ({ ts := x.ts, v := conv } :: r.1, r.2)
          else
            match subVal D dt x.v pr.v with                           -- lines 85-90
            | .error e => ([], some e)
            | .ok dl =>
              let r := deltaFilterGo D dt nn maxC (some x) xs
              ({ ts := x.ts, v := dl } :: r.1, r.2)
    else
      match subVal D dt x.v pr.v with                                 -- lines 107-112
      | .error e => ([], some e)
      | .ok dl =>
        let r := deltaFilterGo D dt nn maxC (some x) xs
        ({ ts := x.ts, v := dl } :: r.1, r.2)

/-- `DeltaFilter.Filter(result)`: the declared type (unchanged) and the collected data, or the rejection. -/
def deltaFilter (D : Dec δ) (dt : DType) (required : Bool) (nn : Bool) (maxC : δ) (xs : List (Rec (Val δ))) :
    Except Err (DType × SRes (Rec (Val δ))) :=
  if !dt.isNumeric then .error .notNumeric            -- lines 25-30
  else if !required then .error .notRequired          -- lines 31-35
  else .ok (dt, deltaFilterGo D dt nn maxC none xs)

/-! ### RateFilter (rate_filter.go:29-107) -/

def rateGo (D : Dec δ) (dt : DType) (perSeconds : Int) (nn : Bool) (maxC : δ) :
    Option (Rec (Val δ)) → List (Rec (Val δ)) → SRes (Rec (Val δ))
  | _, [] => ([], none)
  | none, x :: xs => rateGo D dt perSeconds nn maxC (some x) xs       -- lines 75-78
  | some pr, x :: xs =>
    match toFloat64 D dt x.v with                                     -- lines 80-83
    | .error e => ([], some e)
    | .ok cv =>
      match toFloat64 D dt pr.v with                                  -- lines 84-87
      | .error e => ([], some e)
      | .ok pv =>
        let de := if nn then nonNegDelta D maxC cv pv else (D.sub cv pv, true)   -- lines 59-66, 89
        if !de.2 then rateGo D dt perSeconds nn maxC (some pr) xs     -- lines 90-92
        else
          let td := secs D (x.ts.inst - pr.ts.inst)                   -- line 94
          if !D.lt td D.zero && !D.lt D.zero td then ([], some .timeDiffZero)   -- lines 95-97: timeDiff == 0
          else
            let r := rateGo D dt perSeconds nn maxC (some x) xs
            ({ ts := x.ts, v := .d (D.mul (D.div de.1 td) (D.ofInt perSeconds)) } :: r.1, r.2)   -- lines 99-103

/-- `RateFilter.Filter(result)`: declared type decimal, and the collected data. -/
def rateFilter (D : Dec δ) (dt : DType) (required : Bool) (perSeconds : Int) (nn : Bool) (maxC : δ)
    (xs : List (Rec (Val δ))) : Except Err (DType × SRes (Rec (Val δ))) :=
  if !dt.isNumeric then .error .notNumeric            -- lines 31-36
  else if !required then .error .notRequired          -- lines 37-41
  else
    let ps := if perSeconds ≤ 0 then 1 else perSeconds    -- lines 54-57
    .ok (.decimal, rateGo D dt ps nn maxC none xs)

end ShpanVerif.Model.Delta
