import ShpanVerif.Model.Lazy
/-
DSL of the C04 "L lazy" cases: named user functions (the same names are implemented in
harness/run/c04_ext.go) and lazy expressions, with two evaluators:
  * `LExpr.build` : builds the model `Lazy Int` with the MODEL combinators of Model/Lazy.lean
    (which mirror shpan_lazy.go), choosing the plain / WithErr / WithErrAndCtx variant named in the case;
  * `LExpr.den` / `LExpr.sup` : the meaning over plain options — an `Except Err (Option Int)` term
    written with `bind`, `Option.filter`, `Option.mapM`, … — and the empty-value error that `Get` reports.
`Props/C04Ext.lean` proves `build` = (`den`, `sup`) for every well-formed expression tree.
-/
namespace ShpanVerif.Model.LazyDsl
open ShpanVerif.Model.Lazy

/-- which API variant of a combinator the case uses -/
inductive Variant where
  | plain | err | ctx
  deriving DecidableEq, Repr

def Variant.level : Variant → Nat
  | .plain => 0 | .err => 1 | .ctx => 2

inductive Pred where
  | tt | ff | even | pos | fail | failodd | ctx
  deriving DecidableEq, Repr

/-- 0: pure, 1: may return an error, 2: looks at the context -/
def Pred.level : Pred → Nat
  | .fail | .failodd => 1 | .ctx => 2 | _ => 0

def Pred.pure : Pred → Int → Bool
  | .tt, _ => true
  | .ff, _ => false
  | .even, x => x.tmod 2 == 0
  | .pos, x => decide (x > 0)
  | _, _ => true

def Pred.eval : Pred → Ctx → Int → Except Err Bool
  | .fail, _, _ => .error (.user 9)
  | .failodd, _, x => if x.tmod 2 != 0 then .error (.user 9) else .ok true
  | .ctx, c, _ => match c.err with | some e => .error e | none => .ok true
  | p, _, x => .ok (p.pure x)

inductive Fn where
  | id | add1 | mul2 | neg | fail | failodd | ctx
  deriving DecidableEq, Repr

def Fn.level : Fn → Nat
  | .fail | .failodd => 1 | .ctx => 2 | _ => 0

def Fn.pure : Fn → Int → Int
  | .id, x => x
  | .add1, x => x + 1
  | .mul2, x => x * 2
  | .neg, x => -x
  | _, x => x

def Fn.eval : Fn → Ctx → Int → Except Err Int
  | .fail, _, _ => .error (.user 8)
  | .failodd, _, x => if x.tmod 2 != 0 then .error (.user 8) else .ok (x + 10)
  | .ctx, c, x => match c.err with | some e => .error e | none => .ok (x + 100)
  | f, _, x => .ok (f.pure x)

/-- mappers to `*int` (MapWhileFiltering) -/
inductive PFn where
  | keep | drop | evenonly | add1 | fail | failodd | ctx
  deriving DecidableEq, Repr

def PFn.level : PFn → Nat
  | .fail | .failodd => 1 | .ctx => 2 | _ => 0

def PFn.pure : PFn → Int → Option Int
  | .keep, x => some x
  | .drop, _ => none
  | .evenonly, x => if x.tmod 2 == 0 then some x else none
  | .add1, x => some (x + 1)
  | _, x => some x

def PFn.eval : PFn → Ctx → Int → Except Err (Option Int)
  | .fail, _, _ => .error (.user 8)
  | .failodd, _, x => if x.tmod 2 != 0 then .error (.user 8) else .ok (some x)
  | .ctx, c, x => match c.err with | some e => .error e | none => .ok (some x)
  | f, _, x => .ok (f.pure x)

/-- mappers to a Lazy (FlatMap) -/
inductive LFn where
  | fjust | fempty | ferr | femptyT | fevenT
  deriving DecidableEq, Repr

def LFn.eval : LFn → Int → Lazy Int
  | .fjust, x => Lazy.just (x + 1)
  | .fempty, _ => Lazy.empty
  | .ferr, _ => Lazy.error (.user 7)
  | .femptyT, _ => Lazy.justOptionalOrElseThrow none (.emptyCustom 5)
  | .fevenT, x => if x.tmod 2 == 0 then Lazy.just x else Lazy.justOptionalOrElseThrow none (.emptyCustom 6)

/-- the meaning of the lazies returned by an `LFn` -/
def LFn.den : LFn → Int → Except Err (Option Int)
  | .fjust, x => .ok (some (x + 1))
  | .fempty, _ => .ok none
  | .ferr, _ => .error (.user 7)
  | .femptyT, _ => .ok none
  | .fevenT, x => .ok (if x.tmod 2 == 0 then some x else none)

/-- consumers -/
inductive CFn where
  | cok | cfail | cfailodd | cctx
  deriving DecidableEq, Repr

def CFn.level : CFn → Nat
  | .cok => 0 | .cctx => 2 | _ => 1

def CFn.eval : CFn → Ctx → Int → Option Err
  | .cok, _, _ => none
  | .cfail, _, _ => some (.user 6)
  | .cfailodd, _, x => if x.tmod 2 != 0 then some (.user 6) else none
  | .cctx, c, _ => c.err

inductive LExpr where
  | just (v : Int)
  | jwe (v : Int) (e : Option Err)
  | jopt (v : Option Int)
  | jowe (v : Option Int) (e : Option Err)
  | joet (v : Option Int) (tag : Nat)
  | new (r : Except Err Int)
  | newc
  | nopt (r : Except Err (Option Int))
  | noet (r : Except Err (Option Int)) (tag : Nat)
  | empty
  | error (e : Err)
  | oet (tag : Nat) (x : LExpr)
  | filter (v : Variant) (p : Pred) (x : LExpr)
  | map (v : Variant) (f : Fn) (x : LExpr)
  | mwf (v : Variant) (f : PFn) (x : LExpr)
  | flatMap (f : LFn) (x : LExpr)
  | or (x y : LExpr)

namespace LExpr

/-- the named function fits the API variant (a function that can fail needs a WithErr variant, …) -/
def WF : LExpr → Prop
  | .oet _ x => x.WF
  | .filter v p x => p.level ≤ v.level ∧ x.WF
  | .map v f x => f.level ≤ v.level ∧ x.WF
  | .mwf v f x => f.level ≤ v.level ∧ x.WF
  | .flatMap _ x => x.WF
  | .or x y => x.WF ∧ y.WF
  | _ => True

def wf : LExpr → Bool
  | .oet _ x => x.wf
  | .filter v p x => decide (p.level ≤ v.level) && x.wf
  | .map v f x => decide (f.level ≤ v.level) && x.wf
  | .mwf v f x => decide (f.level ≤ v.level) && x.wf
  | .flatMap _ x => x.wf
  | .or x y => x.wf && y.wf
  | _ => true

/-- the model lazy, built with the combinators of Model/Lazy.lean exactly as the harness builds the real one -/
def build : LExpr → Lazy Int
  | .just v => Lazy.just v
  | .jwe v e => Lazy.justWithErr v e
  | .jopt v => Lazy.justOptional v
  | .jowe v e => Lazy.justOptionalWithErr v e
  | .joet v tag => Lazy.justOptionalOrElseThrow v (.emptyCustom tag)
  | .new r => Lazy.new (fun _ => r)
  | .newc => Lazy.new (fun c => match c.err with | some e => .error e | none => .ok 7)
  | .nopt r => Lazy.newLazyOptional (fun _ => r)
  | .noet r tag => Lazy.newLazyOptionalOrElseThrow (fun _ => r) (.emptyCustom tag)
  | .empty => Lazy.empty
  | .error e => Lazy.error e
  | .oet tag x => x.build.orElseThrow (.emptyCustom tag)
  | .filter .plain p x => x.build.filter p.pure
  | .filter .err p x => x.build.filterWithErr (p.eval .background)
  | .filter .ctx p x => x.build.filterWithErrAndCtx p.eval
  | .map .plain f x => x.build.map f.pure
  | .map .err f x => x.build.mapWithErr (f.eval .background)
  | .map .ctx f x => x.build.mapWithErrAndCtx f.eval
  | .mwf .plain f x => x.build.mapWhileFiltering f.pure
  | .mwf .err f x => x.build.mapWhileFilteringWithErr (f.eval .background)
  | .mwf .ctx f x => x.build.mapWhileFilteringWithErrAndCtx f.eval
  | .flatMap f x => x.build.flatMap f.eval
  | .or x y => x.build.or y.build

/-- keep the value iff the (possibly failing) predicate holds -/
def optFilterM (p : Int → Except Err Bool) : Option Int → Except Err (Option Int)
  | none => pure none
  | some v => do let b ← p v; pure (if b then some v else none)

/-- the meaning of a lazy expression over plain options -/
def den : LExpr → Ctx → Except Err (Option Int)
  | .just v, _ => pure (some v)
  | .jwe v e, _ => match e with | some e => throw e | none => pure (some v)
  | .jopt v, _ => pure v
  | .jowe v e, _ => match e with | some e => throw e | none => pure v
  | .joet v _, _ => pure v
  | .new r, _ => r.map some
  | .newc, c => match c.err with | some e => throw e | none => pure (some 7)
  | .nopt r, _ => r
  | .noet r _, _ => r
  | .empty, _ => pure none
  | .error e, _ => throw e
  | .oet _ x, c => x.den c
  | .filter _ p x, c => x.den c >>= optFilterM (p.eval c)
  | .map _ f x, c => x.den c >>= Option.mapM (f.eval c)
  | .mwf _ f x, c => x.den c >>= fun o => match o with | none => pure none | some v => f.eval c v
  | .flatMap f x, c => x.den c >>= fun o => match o with | none => pure none | some v => f.den v
  | .or x y, c => x.den c >>= fun o => if o.isSome then pure o else y.den c

/-- which empty-value error `Get` reports (shpan_lazy.go: Filter/Map/MapWhileFiltering/FlatMap keep the
source's supplier, OrElseThrow replaces it, Or takes the ALTERNATIVE's) -/
def sup : LExpr → Err
  | .joet _ tag => .emptyCustom tag
  | .noet _ tag => .emptyCustom tag
  | .oet tag _ => .emptyCustom tag
  | .filter _ _ x => x.sup
  | .map _ _ x => x.sup
  | .mwf _ _ x => x.sup
  | .flatMap _ x => x.sup
  | .or _ y => y.sup
  | _ => .emptyDefault

end LExpr
end ShpanVerif.Model.LazyDsl
