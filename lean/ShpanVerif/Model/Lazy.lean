/-
Model of the `lazy` package (/repo/lazy/shpan_lazy.go), property C04 (second part).

A Go `Lazy[T]` is a pair (shpan_lazy.go:17-20)
    fetcher               func(ctx) (*T, error)
    emptyValueErrSupplier func() error
modelled as `Lazy α` with `fetcher : Ctx → Except Err (Option α)` and `emptyErr : Err` (a supplier is a
thunk without arguments; the DSL's suppliers are pure, so it is identified with the error it returns).

`(*T, error)` is read as: `err != nil` → `.error err` (every reader in the library tests `err` first, so a
non-nil pointer next to a non-nil error is never looked at — `JustWithErr(v, err)`), else `nil` →
`.ok none`, else `.ok (some v)`.

Every function of shpan_lazy.go is mirrored (same order of checks), except MarshalJSON / UnmarshalJSON
(property C20).  `Must*` forms return `Must α` (`ret` / `panic e`).  Consumers are modelled by the list of
values the consumer callback was invoked with and the returned error.
-/
namespace ShpanVerif.Model.Lazy

/-- error classes (the harness canonicalises errors to their root class) -/
inductive Err where
  | user (n : Nat)        -- an error made by the caller (`e<n>`)
  | eof                   -- io.EOF
  | cancelled             -- context.Canceled
  | emptyDefault          -- defaultEmptyValueErr, shpan_lazy.go:11-13
  | emptyCustom (tag : Nat) -- a caller supplied empty-value error
  | noFirst               -- shpan_stream.go:168-170
  | noLast                -- shpan_stream.go:183-185
  | noFirstLast           -- shpan_stream.go:211-213
  | dupKey                -- shpan_stream_collectors.go:20,39
  deriving DecidableEq, Repr, Inhabited

/-- the part of a `context.Context` the modelled code can see -/
structure Ctx where
  cancelled : Bool
  deriving DecidableEq, Repr, Inhabited

/-- `context.Background()` -/
def Ctx.background : Ctx := ⟨false⟩

/-- `ctx.Err()` -/
def Ctx.err (c : Ctx) : Option Err := if c.cancelled then some .cancelled else none

/-- outcome of a `Must*` form -/
inductive Must (α : Type) where
  | ret (a : α)
  | panic (e : Err)
  deriving DecidableEq, Repr

structure Lazy (α : Type) where
  fetcher : Ctx → Except Err (Option α)
  emptyErr : Err

namespace Lazy
variable {α β : Type}

/-- shpan_lazy.go:82-87 -/
def newLazy (f : Ctx → Except Err (Option α)) (sup : Err) : Lazy α := ⟨f, sup⟩

/-- shpan_lazy.go:23-25 -/
def newLazyOptional (f : Ctx → Except Err (Option α)) : Lazy α := newLazy f .emptyDefault

/-- shpan_lazy.go:28-33 -/
def newLazyOptionalOrElseThrow (f : Ctx → Except Err (Option α)) (sup : Err) : Lazy α := newLazy f sup

/-- shpan_lazy.go:36-40 -/
def just (v : α) : Lazy α := newLazy (fun _ => .ok (some v)) .emptyDefault

/-- shpan_lazy.go:42-46: the fetcher returns `(&v, err)` -/
def justWithErr (v : α) (err : Option Err) : Lazy α :=
  newLazy (fun _ => match err with | some e => .error e | none => .ok (some v)) .emptyDefault

/-- shpan_lazy.go:49-53 -/
def justOptional (v : Option α) : Lazy α := newLazy (fun _ => .ok v) .emptyDefault

/-- shpan_lazy.go:55-59 -/
def justOptionalWithErr (v : Option α) (err : Option Err) : Lazy α :=
  newLazy (fun _ => match err with | some e => .error e | none => .ok v) .emptyDefault

/-- shpan_lazy.go:62-66 -/
def justOptionalOrElseThrow (v : Option α) (sup : Err) : Lazy α := newLazy (fun _ => .ok v) sup

/-- shpan_lazy.go:69-80: a fetcher that cannot return "no value" -/
def new (f : Ctx → Except Err α) : Lazy α :=
  newLazy (fun ctx => match f ctx with
    | .error e => .error e          -- :73-75
    | .ok v => .ok (some v))        -- :76
    .emptyDefault

/-- shpan_lazy.go:90-94 -/
def empty : Lazy α := newLazy (fun _ => .ok none) .emptyDefault

/-- shpan_lazy.go:97-101 -/
def error (e : Err) : Lazy α := newLazy (fun _ => .error e) .emptyDefault

/-- shpan_lazy.go:105-114 -/
def get (o : Lazy α) (ctx : Ctx) : Except Err α :=
  match o.fetcher ctx with
  | .error e => .error e            -- :107-109
  | .ok none => .error o.emptyErr   -- :110-112
  | .ok (some v) => .ok v           -- :113

/-- shpan_lazy.go:117-119 -/
def getOptional (o : Lazy α) (ctx : Ctx) : Except Err (Option α) := o.fetcher ctx

/-- shpan_lazy.go:123-129 -/
def mustGetOptional (o : Lazy α) : Must (Option α) :=
  match o.getOptional .background with
  | .error e => .panic e
  | .ok v => .ret v

/-- shpan_lazy.go:132-141 -/
def orElse (o : Lazy α) (ctx : Ctx) (v : α) : Except Err α :=
  match o.fetcher ctx with
  | .error e => .error e
  | .ok none => .ok v
  | .ok (some d) => .ok d

/-- shpan_lazy.go:145-154 -/
def mustOrElse (o : Lazy α) (v : α) : Must α :=
  match o.fetcher .background with
  | .error e => .panic e
  | .ok none => .ret v
  | .ok (some d) => .ret d

/-- shpan_lazy.go:157-159 -/
def orElseThrow (o : Lazy α) (sup : Err) : Lazy α := newLazy o.fetcher sup

/-- shpan_lazy.go:172-191 -/
def filterWithErrAndCtx (o : Lazy α) (p : Ctx → α → Except Err Bool) : Lazy α :=
  newLazy (fun ctx =>
    match o.fetcher ctx with
    | .error e => .error e              -- :175-177
    | .ok none => .ok none              -- :178-181
    | .ok (some v) =>
      match p ctx v with
      | .error e => .error e            -- :183-185
      | .ok false => .ok none           -- :186-188
      | .ok true => .ok (some v))       -- :189
    o.emptyErr                          -- :190

/-- shpan_lazy.go:167-169 (`ToErrCtx`, utils.go) -/
def filterWithErr (o : Lazy α) (p : α → Except Err Bool) : Lazy α := o.filterWithErrAndCtx (fun _ v => p v)

/-- shpan_lazy.go:162-164 -/
def filter (o : Lazy α) (p : α → Bool) : Lazy α := o.filterWithErrAndCtx (fun _ v => .ok (p v))

/-- shpan_lazy.go:207-223 -/
def mapWithErrAndCtx (src : Lazy α) (f : Ctx → α → Except Err β) : Lazy β :=
  newLazy (fun ctx =>
    match src.getOptional ctx with
    | .error e => .error e              -- :210-212
    | .ok (some v) =>
      match f ctx v with
      | .error e => .error e            -- :215-217
      | .ok t => .ok (some t)           -- :218
    | .ok none => .ok none)             -- :219-221
    src.emptyErr                        -- :222

/-- shpan_lazy.go:201-203 -/
def mapWithErr (src : Lazy α) (f : α → Except Err β) : Lazy β := src.mapWithErrAndCtx (fun _ v => f v)

/-- shpan_lazy.go:195-197 -/
def map (src : Lazy α) (f : α → β) : Lazy β := src.mapWithErrAndCtx (fun _ v => .ok (f v))

/-- shpan_lazy.go:231-243: the mapper's `(*TGT, error)` is returned as it is -/
def mapWhileFilteringWithErrAndCtx (src : Lazy α) (f : Ctx → α → Except Err (Option β)) : Lazy β :=
  newLazy (fun ctx =>
    match src.getOptional ctx with
    | .error e => .error e              -- :234-236
    | .ok (some v) => f ctx v           -- :237-238
    | .ok none => .ok none)             -- :239-241
    src.emptyErr                        -- :242

/-- shpan_lazy.go:228-230 -/
def mapWhileFilteringWithErr (src : Lazy α) (f : α → Except Err (Option β)) : Lazy β :=
  src.mapWhileFilteringWithErrAndCtx (fun _ v => f v)

/-- shpan_lazy.go:225-227 -/
def mapWhileFiltering (src : Lazy α) (f : α → Option β) : Lazy β :=
  src.mapWhileFilteringWithErrAndCtx (fun _ v => .ok (f v))

/-- shpan_lazy.go:246-255; second component: number of calls of `alt` -/
def orElseGet (o : Lazy α) (ctx : Ctx) (alt : Unit → α) : Except Err α × Nat :=
  match o.getOptional ctx with
  | .error e => (.error e, 0)
  | .ok (some r) => (.ok r, 0)
  | .ok none => (.ok (alt ()), 1)

/-- shpan_lazy.go:259-265 -/
def mustOrElseGet (o : Lazy α) (alt : Unit → α) : Must α × Nat :=
  match o.mustGetOptional with
  | .panic e => (.panic e, 0)
  | .ret (some r) => (.ret r, 0)
  | .ret none => (.ret (alt ()), 1)

/-- shpan_lazy.go:267-278: NOTE the result keeps `alt`'s empty-value error supplier -/
def or (o alt : Lazy α) : Lazy α :=
  newLazy (fun ctx =>
    match o.fetcher ctx with
    | .error e => .error e              -- :270-272
    | .ok (some v) => .ok (some v)      -- :273-275
    | .ok none => alt.fetcher ctx)      -- :276
    alt.emptyErr                        -- :277

/-- shpan_lazy.go:312-318 -/
def isEmpty (o : Lazy α) (ctx : Ctx) : Except Err Bool :=
  match o.getOptional ctx with
  | .error e => .error e
  | .ok v => .ok v.isNone

/-- shpan_lazy.go:322-328 -/
def mustGet (o : Lazy α) : Must α :=
  match o.get .background with
  | .error e => .panic e
  | .ok v => .ret v

/-- shpan_lazy.go:332-338 -/
def mustIsEmpty (o : Lazy α) : Must Bool :=
  match o.isEmpty .background with
  | .error e => .panic e
  | .ok b => .ret b

/-- shpan_lazy.go:342-346: built on MapWhileFiltering, hence keeps `src`'s supplier (not the inner lazy's) -/
def flatMap (src : Lazy α) (f : α → Lazy β) : Lazy β :=
  src.mapWhileFilteringWithErrAndCtx (fun ctx v => (f v).getOptional ctx)

/-- shpan_lazy.go:376-385.  Result: (values the consumer was called with, returned error). -/
def consumeWithErrAndCtx (o : Lazy α) (ctx : Ctx) (f : Ctx → α → Option Err) : List α × Option Err :=
  match o.fetcher ctx with
  | .error e => ([], some e)            -- :378-380
  | .ok (some v) => ([v], f ctx v)      -- :381-383
  | .ok none => ([], none)              -- :384

/-- shpan_lazy.go:368-372 -/
def consumeWithErr (o : Lazy α) (ctx : Ctx) (f : α → Option Err) : List α × Option Err :=
  o.consumeWithErrAndCtx ctx (fun _ v => f v)

/-- shpan_lazy.go:350-355 -/
def consume (o : Lazy α) (ctx : Ctx) : List α × Option Err :=
  o.consumeWithErrAndCtx ctx (fun _ _ => none)

/-- shpan_lazy.go:359-364 -/
def mustConsume (o : Lazy α) : List α × Must Unit :=
  match o.consume .background with
  | (calls, some e) => (calls, .panic e)
  | (calls, none) => (calls, .ret ())

end Lazy
end ShpanVerif.Model.Lazy
