/-
Model of the custom-metadata MAPS of tsquery field metadata over a heap of map objects (C17, planning time).

A Go `map[string]any` is a mutable reference: `FieldMeta.customMeta`, `ValueMeta.CustomMeta` and
`AddFieldMeta.CustomMeta` hold references, nothing copies them (`NewFieldMetaWithCustomData`
time_series_query.go:53-75 stores the argument; `FieldMeta.CustomMeta()` :45-47 returns it).
`Heap (Nat × Int)` (Model/Slice.lean) is reused as the heap of all map objects ever made: map id = position, the
contents are an association list sorted by key (a finite map in canonical form); a reference is `Option Nat`
(`none` = the nil map).

  * `tsquery.MergeCustomMeta(base, override)`            tsquery_utils.go:11-29
        both nil → nil ; base nil → `override` ITSELF ; override nil → `base` ITSELF ;
        otherwise `make(map)` + copy base + copy override (override wins)  → a FRESH map object.
  * `RefFieldValue.Execute`                               report/ref_report_field_value.go:21-38
        `ValueMeta.CustomMeta = fm.CustomMeta()` — the referenced field's map itself.
  * `ConstantFieldValue.Execute`                          report/constant_field_report_value.go:22-41
        returns the caller's `ValueMeta` (its map itself).
  * `NumericExpressionFieldValue.Execute`                 report/numeric_expression_report_field_value.go:31-84
        op1 is executed, then op2, then `MergeCustomMeta(op2Meta.CustomMeta, op1Meta.CustomMeta)`.
  * `PrepareField`                                        report/report_filter.go:11-37
        `MergeCustomMeta(valueMeta.CustomMeta, meta.CustomMeta)` becomes the new field's map.
  * AppendFieldFilter (append_field_report_filter.go:26,38): new field behind the incoming ones;
    SelectFieldsFilter (select_fields_report_filter.go:36-54): every selected field is prepared against
    `incoming ++ selected so far`, the result is the selected ones;
    ReplaceFieldFilter (replace_field_report_filter.go:30,52-54): prepared against the incoming ones, put at the index of
    the replaced field; JoinDatasource (join_datasource.go:53-78): the sides' field metadata one after the other, the
    map references as they are.

A *metadata program* (`MOp` list) reads earlier registers (lists of map references = the custom metadata of the fields
of a result) and pushes its result; register 0.. are the caller's sources; literal references inside the operations
(`AddFieldMeta.CustomMeta`, constants' `ValueMeta.CustomMeta`) are the caller's maps too.  Any number of pipelines over
shared sources, planned in any order and any number of times, is such a program.
`mergeCustomMetaInPlace` is a wrong variant (`result := base; maps.Copy(result, override)`), used only by the witness
theorem.
-/
import ShpanVerif.Model.Slice

namespace ShpanVerif.Model.MetaMap
open ShpanVerif.Model.Slice

/-- Contents of a map object: sorted by key, keys unique. -/
abbrev MapV := List (Nat × Int)

/-- `m[k] = v`. -/
def mapInsert : MapV → Nat → Int → MapV
  | [], k, v => [(k, v)]
  | (k', v') :: rest, k, v =>
    if k < k' then (k, v) :: (k', v') :: rest
    else if k = k' then (k, v) :: rest
    else (k', v') :: mapInsert rest k v

/-- Copy `base`, then copy `override` over it (tsquery_utils.go:21-27). -/
def mergeVal (base override : MapV) : MapV := override.foldl (fun m kv => mapInsert m kv.1 kv.2) base

/-- A map reference (`none` = nil). -/
abbrev MRef := Option Nat

abbrev MHeap := Heap (Nat × Int)

/-- tsquery_utils.go:11-29. -/
def mergeCustomMeta (h : MHeap) (base override : MRef) : MHeap × MRef :=
  match base, override with
  | none, none => (h, none)
  | none, some o => (h, some o)
  | some b, none => (h, some b)
  | some b, some o => (h ++ [mergeVal (arrOf h b) (arrOf h o)], some h.length)

/-- The wrong variant: `result := base; maps.Copy(result, override); return result`. -/
def mergeCustomMetaInPlace (h : MHeap) (base override : MRef) : MHeap × MRef :=
  match base, override with
  | none, none => (h, none)
  | none, some o => (h, some o)
  | some b, none => (h, some b)
  | some b, some o => (h.set b (mergeVal (arrOf h b) (arrOf h o)), some b)

/-- A report value, as far as custom metadata goes. -/
inductive MExpr
  | ref (idx : Nat)          -- field `idx` of the fields available to the stage
  | const (cm : MRef)        -- constant with the caller's `ValueMeta.CustomMeta`
  | num (a b : MExpr)        -- numeric expression `a op b`
  deriving Repr

/-- `Value.Execute(ctx, fieldsMeta)`: the `ValueMeta.CustomMeta` handed out. -/
def evalExprWith (mg : MHeap → MRef → MRef → MHeap × MRef) (h : MHeap) (fields : List MRef) : MExpr → MHeap × MRef
  | .ref i => (h, fields.getD i none)
  | .const cm => (h, cm)
  | .num a b =>
    let ra := evalExprWith mg h fields a
    let rb := evalExprWith mg ra.1 fields b
    mg rb.1 rb.2 ra.2                                  -- :84 MergeCustomMeta(op2Meta.CustomMeta, op1Meta.CustomMeta)

/-- report_filter.go:11-37. -/
def prepareFieldWith (mg : MHeap → MRef → MRef → MHeap × MRef) (h : MHeap) (fields : List MRef) (e : MExpr)
    (cm : MRef) : MHeap × MRef :=
  let r := evalExprWith mg h fields e
  mg r.1 r.2 cm                                         -- :30 MergeCustomMeta(valueMeta.CustomMeta, meta.CustomMeta)

/-- select_fields_report_filter.go:36-54. -/
def selectFieldsLoopWith (mg : MHeap → MRef → MRef → MHeap × MRef) (h : MHeap) (fields sel : List MRef) :
    List (MExpr × MRef) → MHeap × List MRef
  | [] => (h, sel)
  | (e, cm) :: rest =>
    let r := prepareFieldWith mg h (fields ++ sel) e cm
    selectFieldsLoopWith mg r.1 fields (sel ++ [r.2]) rest

inductive MOp
  | appendField (src : Nat) (e : MExpr) (cm : MRef)
  | selectFields (src : Nat) (items : List (MExpr × MRef))
  | replaceField (src : Nat) (idx : Nat) (e : MExpr) (cm : MRef)
  | concat (a b : Nat)
  deriving Repr

structure MState where
  heap : MHeap
  regs : List (List MRef)
  deriving Repr

def MState.reg (st : MState) (i : Nat) : List MRef := st.regs.getD i []

def stepMWith (mg : MHeap → MRef → MRef → MHeap × MRef) (st : MState) : MOp → MState
  | .appendField src e cm =>
    let r := prepareFieldWith mg st.heap (st.reg src) e cm
    { heap := r.1, regs := st.regs ++ [st.reg src ++ [r.2]] }
  | .selectFields src items =>
    let r := selectFieldsLoopWith mg st.heap (st.reg src) [] items
    { heap := r.1, regs := st.regs ++ [r.2] }
  | .replaceField src idx e cm =>
    let r := prepareFieldWith mg st.heap (st.reg src) e cm
    { heap := r.1, regs := st.regs ++ [(st.reg src).set idx r.2] }
  | .concat a b => { heap := st.heap, regs := st.regs ++ [st.reg a ++ st.reg b] }

def evalExpr := evalExprWith mergeCustomMeta
def prepareField := prepareFieldWith mergeCustomMeta
def selectFieldsLoop := selectFieldsLoopWith mergeCustomMeta
def stepM : MState → MOp → MState := stepMWith mergeCustomMeta
def stepMInPlace : MState → MOp → MState := stepMWith mergeCustomMetaInPlace

def runM (st : MState) (ops : List MOp) : MState := ops.foldl stepM st
def runMInPlace (st : MState) (ops : List MOp) : MState := ops.foldl stepMInPlace st

/-! ### value level: what a field's custom metadata IS (nil, or the contents); no heap, no references -/

abbrev CMV := Option MapV

/-- What a reference denotes in heap `h`. -/
def deref (h : MHeap) (r : MRef) : CMV := r.map (arrOf h)

def MState.vals (st : MState) : List (List CMV) := st.regs.map (fun fs => fs.map (deref st.heap))

/-- The documented meaning of MergeCustomMeta: override wins, nil only if both are nil. -/
def specMerge : CMV → CMV → CMV
  | none, o => o
  | some b, none => some b
  | some b, some o => some (mergeVal b o)

/-- `lit` gives the contents of the caller's literal maps. -/
def specExpr (lit : MRef → CMV) (fields : List CMV) : MExpr → CMV
  | .ref i => fields.getD i none
  | .const cm => lit cm
  | .num a b => specMerge (specExpr lit fields b) (specExpr lit fields a)

def specPrepare (lit : MRef → CMV) (fields : List CMV) (e : MExpr) (cm : MRef) : CMV :=
  specMerge (specExpr lit fields e) (lit cm)

def specSelectLoop (lit : MRef → CMV) (fields sel : List CMV) : List (MExpr × MRef) → List CMV
  | [] => sel
  | (e, cm) :: rest => specSelectLoop lit fields (sel ++ [specPrepare lit (fields ++ sel) e cm]) rest

def specStepM (lit : MRef → CMV) (vals : List (List CMV)) : MOp → List CMV
  | .appendField src e cm => vals.getD src [] ++ [specPrepare lit (vals.getD src []) e cm]
  | .selectFields src items => specSelectLoop lit (vals.getD src []) [] items
  | .replaceField src idx e cm => (vals.getD src []).set idx (specPrepare lit (vals.getD src []) e cm)
  | .concat a b => vals.getD a [] ++ vals.getD b []

def specRunM (lit : MRef → CMV) (vals : List (List CMV)) (ops : List MOp) : List (List CMV) :=
  ops.foldl (fun vs op => vs ++ [specStepM lit vs op]) vals

end ShpanVerif.Model.MetaMap
