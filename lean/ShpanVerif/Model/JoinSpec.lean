/-
List-level specification of the relational joins (property C09): nested-loop definitions, no pointers, no state.
Used by the theorems (`Props/C09.lean`: operational model = these) and by the driver (spec verdict on what the
real code returned).  Core only, executable.
-/
namespace ShpanVerif.Model.JoinSpec

section two
variable {α β : Type} (kl : α → Int) (kr : β → Int)

/-- Two-stream inner join: every left element, in order, with every right element of equal key. -/
def innerJoin2 (l : List α) (r : List β) : List (α × β) :=
  l.flatMap fun a => (r.filter fun b => kr b == kl a).map fun b => (a, b)

/-- Rows of one left element given its matches: one row per match, or one row with an absent right. -/
def leftRows (a : α) : List β → List (α × Option β)
  | [] => [(a, none)]
  | b :: ms => (b :: ms).map fun b => (a, some b)

/-- Two-stream left join: as above, an unmatched left element is kept once with an absent right. -/
def leftJoin2 (l : List α) (r : List β) : List (α × Option β) :=
  l.flatMap fun a => leftRows a (r.filter fun b => kr b == kl a)

end two

section multi
variable {α : Type} (key : α → Int)

/-- The element of `l` with key `k` (the first one; unique when keys are distinct). -/
def lookupKey (k : Int) (l : List α) : Option α := l.find? (fun a => key a == k)

/-- `some` of all the values if none is absent. -/
def allSome : List (Option α) → Option (List α)
  | [] => some []
  | none :: _ => none
  | some a :: r => (allSome r).map (a :: ·)

/-- N-stream inner join: one row per element of the first input whose key occurs in every other input. -/
def innerJoinN : List (List α) → List (List α)
  | [] => []
  | first :: others => first.filterMap fun a => (allSome (others.map (lookupKey key (key a)))).map (a :: ·)

/-- N-stream left join: one row per element of the first input; slot `i` = input `i`'s element with that key. -/
def leftJoinN : List (List α) → List (α × List (Option α))
  | [] => []
  | first :: others => first.map fun a => (a, others.map (lookupKey key (key a)))

/-- Insert into a strictly increasing list (no duplicates). -/
def insertKey (k : Int) : List Int → List Int
  | [] => [k]
  | x :: xs => if k < x then k :: x :: xs else if k == x then x :: xs else x :: insertKey k xs

/-- All keys occurring in any input, strictly increasing. -/
def keysUnion (ins : List (List α)) : List Int := (ins.flatten.map key).foldr insertKey []

/-- N-stream full join with the row's key: one row per key of the union, slot `i` = input `i`'s element with that key. -/
def fullJoinNK (ins : List (List α)) : List (Int × List (Option α)) :=
  (keysUnion key ins).map fun k => (k, ins.map (lookupKey key k))

def fullJoinN (ins : List (List α)) : List (List (Option α)) := (fullJoinNK key ins).map (fun p => p.2)

/-- Sortedness hypotheses of the property. -/
def NonDec (l : List α) : Prop := l.Pairwise (fun a b => key a ≤ key b)
def StrictInc (l : List α) : Prop := l.Pairwise (fun a b => key a < key b)

/-- Executable versions for the driver. -/
def isNonDec : List α → Bool
  | [] => true
  | [_] => true
  | a :: b :: r => decide (key a ≤ key b) && isNonDec (b :: r)
def isStrictInc : List α → Bool
  | [] => true
  | [_] => true
  | a :: b :: r => decide (key a < key b) && isStrictInc (b :: r)

end multi

end ShpanVerif.Model.JoinSpec
