/-
Value terminals of the sequential pipeline family: `FindFirstAndLast`, `FindLast`, `Count`
(stream/shpan_stream.go: FindLast 167-182, FindFirstAndLast 186-212, Count 265-275).

All three have the same shape:

    var first, last *T / var result *T / count := 0          -- captured variables           (`Seen`, `Seen.init`)
    err := s.Consume(ctx, func(v T) { ... })                  -- callback: keeps first / last / a counter  (`Seen.step`)
    if err != nil { return nil, err }  /  return 0, err       -- `err` is tested FIRST          (`Post.finish`, first clause)
    if first == nil { return nil, nil }                       -- then "nothing seen"
    return &Tuple2{*first, *last}, nil                        -- then the value

`Consume(ctx, f)` is `ConsumeWithErrAndCtx` with a callback that cannot fail = the model's `consume fuel .collect`
(Model/Pipe.lean): the callback runs once per delivered element, in order, on failed runs for the elements delivered
before the failure.  The captured variables after the run are therefore the fold of `Seen.step` over the delivered
elements of the outcome (`seenOf`), whether the run ended well or not.

The answer is written as an `Outcome` in the harness' convention (harness/run/pipe.go, terminals `ffl` / `flast` /
`count`): what the terminal hands back is the "delivered" list - `[first, last]`, `[last]`, `[count]`, nothing for an
empty stream (`GetOptional` returns nil) and nothing when the terminal fails.

`Post.finishSeeded`: the variant of `FindFirstAndLast` that tests "nothing seen" BEFORE `err` (seeded defect C03r14-1);
only used by the witness theorem `C03_witness_nothing_seen_first` (Props/C03Terminals.lean).
-/
import ShpanVerif.Model.Pipe

namespace ShpanVerif.Model.Pipe

/-- terminals built on `Consume` that hand back a value instead of the elements (`asIs` = Collect / Consume itself) -/
inductive Post where
  | asIs | firstLast | last | count
  deriving DecidableEq, Repr

/-- the captured variables of the three closures (a nil pointer = `none`) -/
structure Seen where
  first : Option V := none
  last : Option V := none
  count : Nat := 0
  deriving Repr

def Seen.init : Seen := {}

/-- one invocation of the callback:
    `if first == nil { first = &v }; last = &v` (192-197) / `result = &v` (171-173) / `count++` (267-269) -/
def Seen.step (s : Seen) (v : V) : Seen :=
  { first := match s.first with | none => some v | some a => some a,
    last := some v,
    count := s.count + 1 }

/-- the captured variables when `Consume` returns: the callback ran once per delivered element -/
def seenOf (d : List V) : Seen := d.foldl Seen.step Seen.init

/-- after `Consume` returned `err` (`none` = nil): the code of the three functions below the `Consume` call -/
def Post.finish : Post → Option Root → Seen → Outcome
  | .asIs, none, _ => .ok []              -- not a value terminal (never used: `Post.app` answers `asIs` itself)
  | .asIs, some e, _ => .err e []
  -- shpan_stream.go:198-200 / 174-176 / 270-272: `if err != nil { return nil, err }`  - FIRST
  | _, some e, _ => .err e []
  -- 201-203: `if first == nil { return nil, nil }`; 204-207: the tuple
  | .firstLast, none, s =>
    match s.first, s.last with
    | some a, some b => .ok [a, b]
    | _, _ => .ok []
  -- 177: `return result, nil` (nil for an empty stream)
  | .last, none, s =>
    match s.last with
    | some b => .ok [b]
    | none => .ok []
  -- 273: `return count, nil`
  | .count, none, s => .ok [V.int s.count]

/-- the answer of a value terminal from the outcome of the `Consume` it runs -/
def Post.app : Post → Outcome → Outcome
  | .asIs, o => o
  | _, .oof => .oof
  | t, .ok d => t.finish none (seenOf d)
  | t, .err e d => t.finish (some e) (seenOf d)

/-- one value terminal on the operator object `p` in world `w`: `Consume` with the collecting callback, then the
    terminal's own code -/
def valueTerminal (fuel : Nat) (t : Post) (p : Pipe) (w : World) : Outcome × Pipe × World :=
  match consume fuel .collect p w with
  | (o, p, w) => (t.app o, p, w)

/-- the list-level answer: `first/last`, `last`, `length` -/
def Post.answer : Post → List V → List V
  | .asIs, l => l
  | .firstLast, l => match l.head?, l.getLast? with | some a, some b => [a, b] | _, _ => []
  | .last, l => match l.getLast? with | some b => [b] | none => []
  | .count, l => [V.int l.length]

/-! ### the seeded variant (C03r14-1): "nothing seen" is tested before `err` -/

def Post.finishSeeded : Post → Option Root → Seen → Outcome
  | .firstLast, e, s =>
    match s.first with
    | none => .ok []                      -- `if first == nil { return nil, nil }` moved up
    | some a =>
      match e with
      | some e => .err e []
      | none => match s.last with | some b => .ok [a, b] | none => .ok []
  | t, e, s => t.finish e s

def Post.appSeeded : Post → Outcome → Outcome
  | .asIs, o => o
  | _, .oof => .oof
  | t, .ok d => t.finishSeeded none (seenOf d)
  | t, .err e d => t.finishSeeded (some e) (seenOf d)

end ShpanVerif.Model.Pipe
