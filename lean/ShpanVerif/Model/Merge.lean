/-
Model of `stream/merge_sorted_streams.go` (MergeSortedStreams).

Go state: `nextBuffer []*T` (one look-ahead slot per input) + the not yet pulled rest of every input.
One `emitMerged` call:
  1. for every input whose slot is nil, pull once (an exhausted input is re-polled and answers EOF again);
  2. scan the slots left to right keeping the first minimal one (`comparator(*v, *minVal) < 0` replaces);
  3. nothing buffered → EOF; else clear the chosen slot and return its value.
`lt a b` stands for `comparator(a, b) < 0`.
-/
namespace ShpanVerif.Model.Merge

variable {α : Type}

/-- One input as seen by the operator: its look-ahead slot and the elements not pulled yet. -/
abbrev Input (α : Type) := Option α × List α

/-- Step 1: pull once into an empty slot. -/
def refill1 : Input α → Input α
  | (none, x :: xs) => (some x, xs)
  | (none, [])      => (none, [])
  | (some v, xs)    => (some v, xs)

def refill (st : List (Input α)) : List (Input α) := st.map refill1

/-- Step 2: the left-to-right scan, `acc` = (index, value) of the current minimum. -/
def scanMin (lt : α → α → Bool) : Nat → List (Input α) → Option (Nat × α) → Option (Nat × α)
  | _, [], acc => acc
  | i, (none, _) :: st, acc => scanMin lt (i+1) st acc
  | i, (some v, _) :: st, none => scanMin lt (i+1) st (some (i, v))
  | i, (some v, _) :: st, some (j, m) =>
      scanMin lt (i+1) st (if lt v m then some (i, v) else some (j, m))

/-- Step 3: clear slot `j`. -/
def clearSlot : Nat → List (Input α) → List (Input α)
  | _, [] => []
  | 0, (_, r) :: st => (none, r) :: st
  | j+1, x :: st => x :: clearSlot j st

/-- One `emitMerged` call: `none` = io.EOF. -/
def emit (lt : α → α → Bool) (st : List (Input α)) : Option α × List (Input α) :=
  let st' := refill st
  match scanMin lt 0 st' none with
  | none => (none, st')
  | some (j, m) => (some m, clearSlot j st')

/-- Collect: pull until EOF (fuel = an upper bound on the number of emits). -/
def collect (lt : α → α → Bool) : Nat → List (Input α) → List α
  | 0, _ => []
  | fuel+1, st =>
    match emit lt st with
    | (none, _) => []
    | (some v, st') => v :: collect lt fuel st'

/-- Fresh operator state over the given inputs (what `Open` establishes). -/
def init (ins : List (List α)) : List (Input α) := ins.map (fun l => (none, l))

def total (ins : List (List α)) : Nat := (ins.map List.length).sum

/-- `MergeSortedStreams(cmp, ins...).Collect()`. -/
def mergeStreams (lt : α → α → Bool) (ins : List (List α)) : List α :=
  collect lt (total ins + 1) (init ins)

end ShpanVerif.Model.Merge
