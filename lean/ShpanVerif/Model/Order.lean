/-
Model of `utils/timeseries/tsquery/queryopenapi/report_field_ordering.go`
(`OrderReportFieldUrnsByDependency`, Kahn's algorithm) and of the reference extraction
`report_field_refs.go` (`ApiReportFieldValue.GetReferencedUrns`).

The Go code keeps four maps keyed by URN (`urnSet`, `deps`, `dependents`, `inDegree`), a FIFO `queue`
and the `result` slice.  The model keeps the same state:
  * Go maps are total functions with the Go zero value as default (`nil` slice, `0`), updated with `upd`;
    `deps` is written but never read again by the Go code (only its length, stored in `inDegree`), so it is
    not a state variable of the model;
  * `inDegree` is an `Int` (Go `int`): with duplicate URNs in the input the code can decrement below zero;
  * the loops run in the same order as the Go loops (fields in input order, references in the order
    `GetReferencedUrns` returns them, `dependents[curr]` in insertion order, queue FIFO).
-/
namespace ShpanVerif.Model.Order

variable {α : Type} [DecidableEq α]

/-! ### report_field_refs.go — which URNs a report field value references -/

/-- An `ApiReportFieldValue` as far as `GetReferencedUrns` looks at it (report_field_refs.go:13-101). -/
inductive FieldExpr (α : Type) where
  | ref (urn : α)                          -- "ref": `[]string{v.Urn}`                       :22-27
  | const                                  -- "constant": nil                                :29-30
  | cond (op1 op2 : FieldExpr α)           -- "condition": operand1 ++ operand2              :32-37
  | logic (op1 op2 : FieldExpr α)          -- "logicalExpression": operand1 ++ operand2      :39-44
  | selector (sel t f : FieldExpr α)       -- "selector": selector ++ trueField ++ falseField :46-55
  | nvl (src alt : FieldExpr α)            -- "nvl": source ++ altField                      :57-62
  | cast (src : FieldExpr α)               -- "cast": source                                 :64-69
  | numeric (op1 op2 : FieldExpr α)        -- "numericExpression": op1 ++ op2                :71-76
  | unary (operand : FieldExpr α)          -- "unaryNumericOperator": operand                :78-83
  | reduce (urns : List α)                 -- "reduce": `v.FieldUrns` verbatim               :85-91
  | other                                  -- "nil" / anything else without an extractor: nil :93-102

/-- `GetReferencedUrns`: left-to-right concatenation (`appendUrns`, report_field_refs.go:105-111). -/
def refsOf : FieldExpr α → List α
  | .ref u => [u]
  | .const => []
  | .cond a b => refsOf a ++ refsOf b
  | .logic a b => refsOf a ++ refsOf b
  | .selector s t f => refsOf s ++ refsOf t ++ refsOf f
  | .nvl s a => refsOf s ++ refsOf a
  | .cast s => refsOf s
  | .numeric a b => refsOf a ++ refsOf b
  | .unary a => refsOf a
  | .reduce us => us
  | .other => []

/-! ### report_field_ordering.go -/

/-- One `ReportFieldForOrdering` with its value already passed through `GetReferencedUrns`. -/
structure Field (α : Type) where
  uri : α
  refs : List α

/-- Go map update `m[k] = v`. -/
def upd {β : Type} (m : α → β) (k : α) (v : β) : α → β := fun x => if x = k then v else m x

/-- The maps built by the first loop (report_field_ordering.go:32-51). -/
structure Graph (α : Type) where
  dependents : α → List α
  inDegree : α → Int

/-- Inner loop, report_field_ordering.go:42-48: `acc = (relevantDeps, dependents)`.
    A reference counts iff it is in the URN set and is not the field itself; duplicates are kept. -/
def scanRefs (urns : List α) (uri : α) : List α → List α × (α → List α) → List α × (α → List α)
  | [], acc => acc
  | ref :: rest, (rel, dep) =>
    if ref ∈ urns ∧ ref ≠ uri then
      scanRefs urns uri rest (rel ++ [ref], upd dep ref (dep ref ++ [uri]))
    else scanRefs urns uri rest (rel, dep)

/-- Outer loop, report_field_ordering.go:39-51 (`inDegree[f.Uri] = len(relevantDeps)`: last write wins). -/
def buildGraph (urns : List α) : List (Field α) → Graph α → Graph α
  | [], g => g
  | f :: fs, g =>
    let r := scanRefs urns f.uri f.refs ([], g.dependents)
    buildGraph urns fs ⟨r.2, upd g.inDegree f.uri (r.1.length : Int)⟩

/-- State of the main loop: `queue`, `result`, `inDegree`. -/
structure St (α : Type) where
  queue : List α
  result : List α
  inDegree : α → Int

/-- report_field_ordering.go:70-75: for every dependent of `curr`, decrement; enqueue on reaching 0. -/
def decLoop : List α → (α → Int) × List α → (α → Int) × List α
  | [], s => s
  | d :: ds, (deg, q) =>
    let deg' := upd deg d (deg d - 1)
    if deg' d = 0 then decLoop ds (deg', q ++ [d]) else decLoop ds (deg', q)

/-- One iteration of `for len(queue) > 0` (report_field_ordering.go:63-76) with `queue = curr :: rest`. -/
def step (dependents : α → List α) (curr : α) (rest : List α) (s : St α) : St α :=
  let r := decLoop (dependents curr) (s.inDegree, rest)
  ⟨r.2, s.result ++ [curr], r.1⟩

/-- The main loop with fuel. -/
def loop (dependents : α → List α) : Nat → St α → St α
  | 0, s => s
  | n + 1, s =>
    match s.queue with
    | [] => s
    | curr :: rest => loop dependents n (step dependents curr rest s)

def urnsOf (fs : List (Field α)) : List α := fs.map (·.uri)

def emptyGraph : Graph α := ⟨fun _ => [], fun _ => 0⟩

def graphOf (fs : List (Field α)) : Graph α := buildGraph (urnsOf fs) fs emptyGraph

/-- report_field_ordering.go:55-60: fields whose in-degree is 0, in input order. -/
def initQueue (fs : List (Field α)) (g : Graph α) : List α :=
  (urnsOf fs).filter (fun u => g.inDegree u = 0)

def initState (fs : List (Field α)) : St α :=
  ⟨initQueue fs (graphOf fs), [], (graphOf fs).inDegree⟩

/-- Every pop is paid for by an initial queue entry or by one key's in-degree reaching 0, so
    `2 * len(fields)` iterations suffice for every input (`Props.C19.C19_order_terminates_all`). -/
def fuelFor (fs : List (Field α)) : Nat := 2 * fs.length + 1

def finalState (fs : List (Field α)) : St α :=
  loop (graphOf fs).dependents (fuelFor fs) (initState fs)

/-- `OrderReportFieldUrnsByDependency`: `ok order` or `error cycleNodes`
    (`cycleNodes` = the URNs named in the "circular dependency detected involving: …" message,
    report_field_ordering.go:79-87: fields with remaining in-degree > 0, in input order). -/
def order (fs : List (Field α)) : Except (List α) (List α) :=
  if fs.isEmpty then .ok []                                             -- :21-23
  else
    let s := finalState fs
    if s.result.length ≠ fs.length then
      .error ((urnsOf fs).filter (fun u => s.inDegree u > 0))
    else .ok s.result

/-- Ordering of real fields: extraction followed by Kahn. -/
def orderExprs (fs : List (α × FieldExpr α)) : Except (List α) (List α) :=
  order (fs.map (fun f => ⟨f.1, refsOf f.2⟩))

end ShpanVerif.Model.Order
