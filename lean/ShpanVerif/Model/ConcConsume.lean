/-
Model of the concurrent consume terminal (`stream/shpan_stream_concurrent.go:38-160`, reached through
`ConsumeWithErrAndCtx(ctx, f, WithConcurrentConsumeOption(c))`) over one source provider P, as a small-step
transition system.

Goroutines: the caller (runs consumeConcurrently: opens, spawns, `wg.Wait()` :147, `<-producerDone` :150, computes the
result :153-159, then the deferred calls in LIFO order: workerCancel :71, doCloseSubStream + cancelFunc :61-64),
one producer (:87-112, the only goroutine that calls P.Emit) and c workers (:116-144, they run the callback `f`).

Contexts: ctx0 = caller ctx; workerCtx = WithCancel(ctx0) (:70), cancelled by the first error (setErr :76-81) or by
the deferred workerCancel; the producer passes workerCtx to P.Emit (:94).  (doOpenStream's own ctx is cancelled at
`close1`; nobody selects on it.)

Elements are identified by their source index.  Workers are anonymous.  The model starts after doOpenStream
succeeded (:56-59: nothing is spawned when it fails).
-/
import ShpanVerif.Model.ConcCore

namespace ShpanVerif.Model.ConcConsume
open ShpanVerif.Model.Conc

inductive Item
  | val (i : Nat)
  | err
  deriving DecidableEq, Repr, Hashable

/-- Producer goroutine (:87-112). -/
inductive PPc
  | check     -- :91 `if workerCtx.Err() != nil { return }`
  | inEmit    -- :94 inside P.Emit(workerCtx)
  | have (it : Item) -- :99-103 / :106-109 `select { case itemChan <- it; case <-workerCtx.Done(): return }`
  | closing   -- deferred close(itemChan) :89 and close(producerDone) :88 pending
  | done
  deriving DecidableEq, Repr, Hashable

/-- The caller's goroutine. -/
inductive TPc
  | waitWg    -- :147
  | waitProd  -- :150
  | result    -- :153-159
  | cancelW   -- deferred workerCancel :71
  | close0    -- deferred doCloseSubStream :62: P.Close pending
  | close1    -- deferred cancelFunc :63
  | ret
  deriving DecidableEq, Repr, Hashable

inductive Res
  | ok | errCtx | errOther
  deriving DecidableEq, Repr, Hashable

structure Cfg where
  n : Nat
  c : Nat          -- ≥ 1 (:39-41)
  e : Nat := 0     -- source failure budget
  deriving DecidableEq, Repr

structure St where
  cursor : Nat
  emitting : Nat
  closes : Nat              -- ghost: number of calls of P.Close
  srcClosed : Bool
  badWindow : Bool
  badOverlap : Bool
  prod : PPc
  ch : List Item            -- itemChan, capacity c (:67)
  chClosed : Bool
  wIdle : Nat               -- at the select :121
  wCb : List Nat            -- inside the consumer callback for index i (:135)
  wDrain : Nat              -- in `for range itemChan {}` :124
  wExit : Nat
  called : List Nat         -- indices the callback was invoked for, in invocation order
  firstErr : Bool           -- errOnce fired (:77-80): firstErr set, workerCancel called
  ctx0 : Bool
  wcancel : Bool            -- workerCancel was called (by setErr or by the deferred call)
  term : TPc
  res : Option Res
  errBudget : Nat
  faulted : Bool            -- ghost: a source or callback failure was injected
  deriving DecidableEq, Repr, Hashable

@[inline] def St.wctx (s : St) : Bool := s.ctx0 || s.wcancel

inductive Label
  | pCheck | pEmitVal | pEmitEof | pEmitErr | pSend | pDrop | pClose
  | wRecv | wExitClosed | wToDrain | wDrainRecv | wDrainExit | wCbOk (i : Nat) | wCbErr (i : Nat)
  | tWaitWg | tWaitProd | tResult | tCancelW | tClose0 | tClose1
  | cancel
  deriving DecidableEq, Repr

def init (cfg : Cfg) : St :=
  { cursor := 0, emitting := 0, closes := 0, srcClosed := false, badWindow := false, badOverlap := false,
    prod := .check, ch := [], chClosed := false,
    wIdle := cfg.c, wCb := [], wDrain := 0, wExit := 0, called := [], firstErr := false,
    ctx0 := false, wcancel := false, term := .waitWg, res := none, errBudget := cfg.e, faulted := false }

def step (cfg : Cfg) (s : St) : Label → Option St
  | .pCheck =>     -- :91-94
    if s.prod = .check then
      if s.wctx then some { s with prod := .closing }
      else some { s with prod := .inEmit, emitting := s.emitting + 1, badWindow := s.badWindow || s.srcClosed }
    else none
  | .pEmitVal =>
    if s.prod = .inEmit ∧ s.cursor < cfg.n then
      some { s with prod := .have (.val s.cursor), cursor := s.cursor + 1, emitting := s.emitting - 1 }
    else none
  | .pEmitEof =>   -- :96-98 return
    if s.prod = .inEmit ∧ s.cursor = cfg.n then some { s with prod := .closing, emitting := s.emitting - 1 } else none
  | .pEmitErr =>   -- :99 any other error (incl. recovered panic)
    if s.prod = .inEmit ∧ 0 < s.errBudget then
      some { s with prod := .have .err, emitting := s.emitting - 1, faulted := true, errBudget := s.errBudget - 1 }
    else none
  | .pSend =>      -- :100 then return :104  /  :107 then loop
    match s.prod with
    | .have .err => if s.ch.length < cfg.c then some { s with prod := .closing, ch := s.ch ++ [.err] } else none
    | .have (.val i) => if s.ch.length < cfg.c then some { s with prod := .check, ch := s.ch ++ [.val i] } else none
    | _ => none
  | .pDrop =>      -- :101 / :108
    match s.prod with
    | .have _ => if s.wctx then some { s with prod := .closing } else none
    | _ => none
  | .pClose =>     -- :89, :88
    if s.prod = .closing then some { s with prod := .done, chClosed := true } else none
  | .wRecv =>      -- :127; value → callback :135; error → setErr, return :131-133
    if 0 < s.wIdle then
      match s.ch with
      | .val i :: r => some { s with wIdle := s.wIdle - 1, ch := r, wCb := s.wCb ++ [i], called := s.called ++ [i] }
      | .err :: r => some { s with wIdle := s.wIdle - 1, ch := r, wExit := s.wExit + 1, firstErr := true, wcancel := true }
      | [] => none
    else none
  | .wExitClosed => -- :128-130
    if 0 < s.wIdle ∧ s.ch = [] ∧ s.chClosed then some { s with wIdle := s.wIdle - 1, wExit := s.wExit + 1 } else none
  | .wToDrain =>   -- :122-124
    if 0 < s.wIdle ∧ s.wctx then some { s with wIdle := s.wIdle - 1, wDrain := s.wDrain + 1 } else none
  | .wDrainRecv => -- :124 loop body
    if 0 < s.wDrain then
      match s.ch with
      | _ :: r => some { s with ch := r }
      | [] => none
    else none
  | .wDrainExit => -- :124-126 channel closed and empty
    if 0 < s.wDrain ∧ s.ch = [] ∧ s.chClosed then some { s with wDrain := s.wDrain - 1, wExit := s.wExit + 1 } else none
  | .wCbOk i =>    -- callback returned nil: back to the select
    if i ∈ s.wCb then some { s with wCb := s.wCb.erase i, wIdle := s.wIdle + 1 } else none
  | .wCbErr i =>   -- callback failed / panicked (recovered): setErr, return :137-139
    if i ∈ s.wCb then
      some { s with wCb := s.wCb.erase i, wExit := s.wExit + 1, firstErr := true, wcancel := true, faulted := true }
    else none
  | .tWaitWg => if s.term = .waitWg ∧ s.wExit = cfg.c then some { s with term := .waitProd } else none
  | .tWaitProd => if s.term = .waitProd ∧ s.prod = .done then some { s with term := .result } else none
  | .tResult =>    -- :153-159
    if s.term = .result then
      some { s with term := .cancelW,
                    res := some (if s.firstErr then .errOther else if s.ctx0 then .errCtx else .ok) }
    else none
  | .tCancelW => if s.term = .cancelW then some { s with term := .close0, wcancel := true } else none
  | .tClose0 =>
    if s.term = .close0 then
      some { s with term := .close1, srcClosed := true, closes := s.closes + 1, badOverlap := s.badOverlap || decide (0 < s.emitting) }
    else none
  | .tClose1 => if s.term = .close1 then some { s with term := .ret } else none
  | .cancel => if s.ctx0 then none else some { s with ctx0 := true }

def sys (cfg : Cfg) : Sys St Label := { init := init cfg, step := step cfg }

def final (cfg : Cfg) (s : St) : Bool := s.term = .ret && s.prod = .done && s.wExit = cfg.c

def Item.isVal (i : Nat) : Item → Bool
  | .val j => i == j
  | .err => false

def cntItems (i : Nat) (l : List Item) : Nat := l.countP (Item.isVal i)

def inHand (i : Nat) : PPc → Nat
  | .have it => if Item.isVal i it then 1 else 0
  | _ => 0

/-- Where element `i` is: in the producer's hand, in the channel, or handed to the callback. -/
def cnt (i : Nat) (s : St) : Nat := inHand i s.prod + cntItems i s.ch + s.called.count i

def internalLabels (_s : St) : List Label :=
  [.tWaitWg, .tWaitProd, .tResult, .tCancelW, .tClose0, .tClose1,
   .wRecv, .wExitClosed, .wToDrain, .wDrainRecv, .wDrainExit, .pSend, .pDrop, .pCheck, .pClose]

end ShpanVerif.Model.ConcConsume
