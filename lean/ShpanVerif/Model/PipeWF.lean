/-
Well-formedness vocabulary for the pipeline model: resource ids, "closed" / "ready" operator states,
the reusable subset.  Definitions only (core Lean); the theorems that use them are in Props/C01, C03, C04,
C05, C18.
-/
import ShpanVerif.Model.Pipe

namespace ShpanVerif.Model.Pipe

mutual
/-- probe resources (source providers and lifecycle elements) of a pipeline -/
def ids : Pipe → List Nat
  | .src r _ _ => [r]
  | .lc r p => ids p ++ [r]
  | .map _ p => ids p
  | .filter _ p => ids p
  | .limit _ _ p => ids p
  | .skip _ _ p => ids p
  | .concat ps _ _ _ => idsList ps
  | .zip ps _ => idsList ps
  | .merge ps _ _ => idsList ps
  | .window _ _ _ _ _ _ p => ids p
  | .cluster _ _ _ _ _ _ p => ids p
def idsList : PipeList → List Nat
  | .nil => []
  | .cons p ps => ids p ++ idsList ps
end

mutual
/-- The operator object holds nothing open: every "sub stream is open" flag is off, recursively.
    This is the state between materialisations. -/
def Closed : Pipe → Prop
  | .src _ _ _ => True
  | .lc _ p => Closed p
  | .map _ p => Closed p
  | .filter _ p => Closed p
  | .limit _ _ p => Closed p
  | .skip _ _ p => Closed p
  | .concat ps _ curOpen outerOpen => curOpen = false ∧ outerOpen = false ∧ ClosedList ps
  | .zip ps opened => opened = 0 ∧ ClosedList ps
  | .merge ps opened _ => opened = 0 ∧ ClosedList ps
  | .window _ _ _ _ _ subOpen p => subOpen = false ∧ Closed p
  | .cluster _ _ _ _ _ subOpen p => subOpen = false ∧ Closed p
def ClosedList : PipeList → Prop
  | .nil => True
  | .cons p ps => Closed p ∧ ClosedList ps
end

mutual
/-- Closed, and the operators whose state is *not* reset by Open (Limit, Skip, Window, Cluster) are in
    their initial state. For the reusable subset `Ready` and `Closed` coincide. -/
def Ready : Pipe → Prop
  | .src _ _ _ => True
  | .lc _ p => Ready p
  | .map _ p => Ready p
  | .filter _ p => Ready p
  | .limit _ c p => c = 1 ∧ Ready p
  | .skip _ d p => d = false ∧ Ready p
  | .concat ps _ curOpen outerOpen => curOpen = false ∧ outerOpen = false ∧ ReadyList ps
  | .zip ps opened => opened = 0 ∧ ReadyList ps
  | .merge ps opened _ => opened = 0 ∧ ReadyList ps
  | .window _ _ _ buf d subOpen p => buf = [] ∧ d = false ∧ subOpen = false ∧ Ready p
  | .cluster _ _ _ _ last subOpen p => last = none ∧ subOpen = false ∧ Ready p
def ReadyList : PipeList → Prop
  | .nil => True
  | .cons p ps => Ready p ∧ ReadyList ps
end

mutual
/-- C18's reusable subset: re-openable sources and stateless / self-resetting operators. -/
def Reusable : Pipe → Prop
  | .src _ _ _ => True
  | .lc _ p => Reusable p
  | .map _ p => Reusable p
  | .filter _ p => Reusable p
  | .limit _ _ _ => False
  | .skip _ _ _ => False
  | .concat ps _ _ _ => ReusableList ps
  | .zip ps _ => ReusableList ps
  | .merge ps _ _ => ReusableList ps
  | .window _ _ _ _ _ _ _ => False
  | .cluster _ _ _ _ _ _ _ => False
def ReusableList : PipeList → Prop
  | .nil => True
  | .cons p ps => Reusable p ∧ ReusableList ps
end

/-- a world in which nothing goes wrong: no fault plan, not cancelled -/
def World.Clean (w : World) : Prop := w.fault = none ∧ w.cancelled = false

/-- number of `Emit` calls a probe source received -/
def pulls (tr : List Event) (r : Nat) : Nat := tr.count (.emit r)

def Outcome.delivered : Outcome → List V
  | .ok d => d
  | .err _ d => d
  | .oof => []

/-- the error class a surfaced fault of kind `k` must have -/
def expectedRoot : FaultKind → Root
  | .panicVal => .panicVal
  | _ => .user

end ShpanVerif.Model.Pipe
