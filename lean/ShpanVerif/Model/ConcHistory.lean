/-
Histories of materialisations of ONE stream value over ONE source provider.

The four asynchronous models describe a single materialisation.  A stream value can be materialised again; the caller
is sequential (it starts the next terminal operation only after the previous one has returned), but the goroutines a
materialisation started are not: unless the library waits for them they may still be running when the next
materialisation begins.  `History sys o` is the transition system of such a history: all materialisations started so far
(newest first), each of which may take any of its own steps at any time, and a `start` step that is enabled only when
the newest materialisation has returned.  Core Lean only.
-/
import ShpanVerif.Model.ConcCore

namespace ShpanVerif.Model.Conc

variable {σ L : Type}

/-- What a history observes of one materialisation. -/
structure RunObs (σ : Type) where
  /-- number of goroutines of this materialisation that are inside the provider's Emit -/
  emitting : σ → Nat
  /-- the terminal operation has returned to the caller -/
  returned : σ → Bool

inductive HLabel (L : Type)
  | inner (k : Nat) (l : L)   -- materialisation number k (0 = newest) takes its step l
  | start                     -- the caller materialises the same stream value again
  deriving Repr

def hstep (sys : Sys σ L) (o : RunObs σ) (rs : List σ) : HLabel L → Option (List σ)
  | .inner k l =>
    match rs[k]? with
    | some s => (sys.step s l).map (fun s' => rs.set k s')
    | none => none
  | .start =>
    match rs with
    | [] => some [sys.init]
    | s :: _ => if o.returned s then some (sys.init :: rs) else none

def History (sys : Sys σ L) (o : RunObs σ) : Sys (List σ) (HLabel L) :=
  { init := [], step := hstep sys o }

/-- goroutines inside the provider's Emit, over all materialisations of the history -/
def totalEmitting (o : RunObs σ) (rs : List σ) : Nat := (rs.map o.emitting).sum

end ShpanVerif.Model.Conc
