/-
Model of the tsquery value language (`/repo/utils/timeseries/tsquery`), part 1:
data types, operator tables, field metadata, and the planning (`Execute`) of field values of BOTH packages
(`datasource/*_field_value.go`, `report/*_field_value.go` / `*_report_field_value.go`).

Conventions
* `D` is the carrier of Go `float64`; all float operations come from an `Ops D` record (the theorems hold for every
  `D` and every `Ops D`; the compiled driver instantiates `D := Float`).
* Go `int64` values are `Int`s kept in range by `wrap64` (two's complement wrap-around of + - * / unary minus).
* A row function returns `Option`: `none` = the data-dependent failure of that pull (an `error` returned by a
  supplier, or a Go panic — failed type assertion `v.(int64)` on a wrong dynamic type, integer division by zero,
  index out of range — which the stream terminal recovers into an error, `stream/shpan_stream.go:108-119`).
* `Execute` of a value = `plan…` : metadata checks first, the row function is returned only on success.
  Every check is in the order of the Go code; `PlanErr` names the check that fired.
-/
namespace ShpanVerif.Model.Query

/-! ## data types and operator alphabets -/

/-- `tsquery.DataType` (datatype.go:9-17); `bogus` stands for every string outside the five constants. -/
inductive DataType | integer | decimal | string | boolean | timestamp | bogus
  deriving DecidableEq, Repr, Inhabited

/-- datatype.go:67-73 `Validate` -/
def DataType.valid : DataType → Bool
  | .bogus => false
  | _ => true

/-- datatype.go:75-77 `IsNumeric` -/
def DataType.isNumeric : DataType → Bool
  | .integer => true
  | .decimal => true
  | _ => false

inductive BinOp | add | sub | mul | div | mod | bogus
  deriving DecidableEq, Repr, Inhabited
inductive UnOp | abs | neg | sqrt | ceil | floor | round | log | log10 | exp | sin | cos | tan | bogus
  deriving DecidableEq, Repr, Inhabited
inductive CondOp | eq | ne | gt | lt | ge | le | bogus
  deriving DecidableEq, Repr, Inhabited
inductive LogicOp | and | or | bogus
  deriving DecidableEq, Repr, Inhabited
inductive RedType | sum | avg | min | max | count | bogus
  deriving DecidableEq, Repr, Inhabited

/-- A Go `any` cell: `nil`, `int64`, `float64`, `string`, `bool`, `time.Time` (unix nanos). -/
inductive Val (D : Type) | nil | int (i : Int) | dec (d : D) | str (s : String) | bool (b : Bool) | ts (t : Int)
  deriving Repr, Inhabited

def Val.isNil {D} : Val D → Bool
  | .nil => true
  | _ => false

/-- The platform operations on `float64` (and the few string/time conversions of the Go standard library). -/
structure Ops (D : Type) where
  add : D → D → D
  sub : D → D → D
  mul : D → D → D
  div : D → D → D
  eq : D → D → Bool
  lt : D → D → Bool
  le : D → D → Bool
  /-- `float64(int64)` -/
  ofInt : Int → D
  /-- `int64(float64)` (result is an int64) -/
  toInt : D → Int
  /-- `math.Abs`, unary minus, `math.Sqrt`, … `math.Tan` (`bogus` unused) -/
  un : UnOp → D → D
  /-- `strconv.FormatFloat(v,'f',-1,64)` -/
  fmt : D → String
  /-- `strconv.ParseFloat(s,64)` -/
  parse : String → Option D
  /-- `time.Duration.Seconds()` of a nanosecond count -/
  secs : Int → D
  /-- `time.Parse(time.RFC3339, s)` as unix nanos -/
  parseTime : String → Option Int
  /-- `fmt.Sprintf("%s", float64)` and `fmt.Sprintf("%s", time.Time)` -/
  sprintDec : D → String
  sprintTime : Int → String

/-! ## int64 arithmetic -/

def two63 : Int := 9223372036854775808
def two64 : Int := 18446744073709551616

/-- two's complement wrap-around into [-2^63, 2^63) -/
def wrap64 (x : Int) : Int := (x + two63) % two64 - two63

def isDigit (c : Char) : Bool := '0' ≤ c && c ≤ '9'

def digitsVal (cs : List Char) : Nat := cs.foldl (fun a c => a * 10 + (c.toNat - 48)) 0

/-- `strconv.ParseInt(s, 10, 64)`: optional sign, at least one digit, digits only, in range. -/
def parseInt64 (s : String) : Option Int :=
  let cs := s.toList
  let (neg, body) := match cs with
    | '+' :: r => (false, r)
    | '-' :: r => (true, r)
    | r => (false, r)
  if body.isEmpty || !body.all isDigit then none
  else
    let n : Int := digitsVal body
    let v : Int := if neg then -n else n
    if -two63 ≤ v ∧ v < two63 then some v else none

/-- `strconv.ParseBool` -/
def parseBool (s : String) : Option Bool :=
  if s == "1" || s == "t" || s == "T" || s == "TRUE" || s == "true" || s == "True" then some true
  else if s == "0" || s == "f" || s == "F" || s == "FALSE" || s == "false" || s == "False" then some false
  else none

/-! ## finite operator tables (validated exhaustively by the `tbl` correspondence cases) -/

section tables
variable {D : Type} (O : Ops D)

/-- numeric_operators.go:13-31 (integer), `a / b` and `a % b` panic for `b = 0`. -/
def binInt : BinOp → Option (Int → Int → Option Int)
  | .add => some fun a b => some (wrap64 (a + b))
  | .sub => some fun a b => some (wrap64 (a - b))
  | .mul => some fun a b => some (wrap64 (a * b))
  | .div => some fun a b => if b = 0 then none else some (wrap64 (a.tdiv b))
  | .mod => some fun a b => if b = 0 then none else some (a.tmod b)
  | .bogus => none

/-- numeric_operators.go:35-49 (decimal) -/
def binDec : BinOp → Option (D → D → D)
  | .add => some O.add
  | .sub => some O.sub
  | .mul => some O.mul
  | .div => some O.div
  | _ => none

/-- `BinaryNumericOperatorType.GetFuncImpl` numeric_operators.go:51-84; the returned Go func asserts the operand types. -/
def binFunc (op : BinOp) : DataType → Option (Val D → Val D → Option (Val D))
  | .integer => (binInt op).map fun f v1 v2 =>
      match v1, v2 with
      | .int a, .int b => (f a b).map Val.int
      | _, _ => none
  | .decimal => (binDec O op).map fun f v1 v2 =>
      match v1, v2 with
      | .dec a, .dec b => some (.dec (f a b))
      | _, _ => none
  | _ => none

/-- numeric_operators.go:112-128 (integer unary) -/
def unInt : UnOp → Option (Int → Int)
  | .abs => some fun a => if a < 0 then wrap64 (-a) else a
  | .neg => some fun a => wrap64 (-a)
  | .sqrt => some fun a => O.toInt (O.un .sqrt (O.ofInt a))
  | _ => none

/-- `UnaryNumericOperatorType.GetFuncImpl` numeric_operators.go:179-222 -/
def unFunc (op : UnOp) : DataType → Option (Val D → Option (Val D))
  | .integer => (unInt O op).map fun f v =>
      match v with
      | .int a => some (.int (f a))
      | _ => none
  | .decimal => if op = .bogus then none else some fun v =>
      match v with
      | .dec a => some (.dec (O.un op a))
      | _ => none
  | _ => none

def condInt : CondOp → Option (Int → Int → Bool)
  | .eq => some fun a b => a == b
  | .ne => some fun a b => a != b
  | .gt => some fun a b => decide (a > b)
  | .lt => some fun a b => decide (a < b)
  | .ge => some fun a b => decide (a ≥ b)
  | .le => some fun a b => decide (a ≤ b)
  | .bogus => none

def condDec : CondOp → Option (D → D → Bool)
  | .eq => some fun a b => O.eq a b
  | .ne => some fun a b => !O.eq a b
  | .gt => some fun a b => O.lt b a
  | .lt => some fun a b => O.lt a b
  | .ge => some fun a b => O.le b a
  | .le => some fun a b => O.le a b
  | .bogus => none

/-- `ConditionOperatorType.GetFuncImpl` logical_expressions.go:87-140 -/
def condFunc (op : CondOp) : DataType → Option (Val D → Val D → Option Bool)
  | .integer => (condInt op).map fun f v1 v2 =>
      match v1, v2 with
      | .int a, .int b => some (f a b)
      | _, _ => none
  | .decimal => (condDec O op).map fun f v1 v2 =>
      match v1, v2 with
      | .dec a, .dec b => some (f a b)
      | _, _ => none
  | .string =>
      match op with
      | .eq => some fun v1 v2 => match v1, v2 with
          | .str a, .str b => some (a == b)
          | _, _ => none
      | .ne => some fun v1 v2 => match v1, v2 with
          | .str a, .str b => some (a != b)
          | _, _ => none
      | _ => none
  | .boolean =>
      match op with
      | .eq => some fun v1 v2 => match v1, v2 with
          | .bool a, .bool b => some (a == b)
          | _, _ => none
      | .ne => some fun v1 v2 => match v1, v2 with
          | .bool a, .bool b => some (a != b)
          | _, _ => none
      | _ => none
  | _ => none

/-- `LogicalOperatorType.GetCompareFunc` logical_expressions.go:153-170; Go's `&&`/`||` short-circuit the second assertion. -/
def logicFunc : LogicOp → Option (Val D → Val D → Option (Val D))
  | .and => some fun v1 v2 =>
      match v1 with
      | .bool false => some (.bool false)
      | .bool true => (match v2 with
          | .bool b => some (.bool b)
          | _ => none)
      | _ => none
  | .or => some fun v1 v2 =>
      match v1 with
      | .bool true => some (.bool true)
      | .bool false => (match v2 with
          | .bool b => some (.bool b)
          | _ => none)
      | _ => none
  | .bogus => none

/-- `GetCastFuncForDataType` numeric_operators.go:260-307 -/
def castFunc (src tgt : DataType) : Option (Val D → Option (Val D)) :=
  if src = tgt then some fun v => some v
  else if src = .boolean ∨ tgt = .boolean then none
  else if src = .timestamp ∨ tgt = .timestamp then none
  else match src, tgt with
    | .integer, .decimal => some fun v => match v with
        | .int a => some (.dec (O.ofInt a))
        | _ => none
    | .integer, .string => some fun v => match v with
        | .int a => some (.str (toString a))
        | _ => none
    | .decimal, .integer => some fun v => match v with
        | .dec a => some (.int (O.toInt a))
        | _ => none
    | .decimal, .string => some fun v => match v with
        | .dec a => some (.str (O.fmt a))
        | _ => none
    | .string, .integer => some fun v => match v with
        | .str s => (parseInt64 s).map Val.int
        | _ => none
    | .string, .decimal => some fun v => match v with
        | .str s => (O.parse s).map Val.dec
        | _ => none
    | _, _ => none

/-- reductions.go:26-37 `GetResultDataType` -/
def redResultType (rt : RedType) (dt : DataType) : DataType :=
  match rt with
  | .avg => .decimal
  | .count => .integer
  | _ => dt

/-- reductions.go:15-25 `UseIdentityWhenSingleValue` -/
def redIdentity : RedType → Bool
  | .sum => true
  | .avg => true
  | .max => true
  | .min => true
  | _ => false

def allInts : List (Val D) → Option (List Int)
  | [] => some []
  | .int a :: r => (allInts r).map (a :: ·)
  | _ :: _ => none

def allDecs : List (Val D) → Option (List D)
  | [] => some []
  | .dec a :: r => (allDecs r).map (a :: ·)
  | _ :: _ => none

def sumInts (l : List Int) : Int := l.foldl (fun s a => wrap64 (s + a)) 0
def sumDecs (l : List D) : D := l.foldl O.add (O.ofInt 0)

/-- `GetReducerFunc` reductions.go:40-77 and the reducers :80-156 (`values[0]` on an empty slice panics). -/
def redFunc (rt : RedType) (dt : DataType) : Option (List (Val D) → Option (Val D)) :=
  let isInt := dt = .integer
  match rt with
  | .sum => some fun vs =>
      if isInt then (allInts vs).map fun l => .int (sumInts l)
      else (allDecs vs).map fun l => .dec (sumDecs O l)
  | .avg => some fun vs =>
      if isInt then (allInts vs).map fun l => .dec (O.div (O.ofInt (sumInts l)) (O.ofInt l.length))
      else (allDecs vs).map fun l => .dec (O.div (sumDecs O l) (O.ofInt l.length))
  | .min => some fun vs =>
      if isInt then (allInts vs).bind fun l => match l with
        | [] => none
        | a :: r => some (.int (r.foldl (fun m x => if x < m then x else m) a))
      else (allDecs vs).bind fun l => match l with
        | [] => none
        | a :: r => some (.dec (r.foldl (fun m x => if O.lt x m then x else m) a))
  | .max => some fun vs =>
      if isInt then (allInts vs).bind fun l => match l with
        | [] => none
        | a :: r => some (.int (r.foldl (fun m x => if x > m then x else m) a))
      else (allDecs vs).bind fun l => match l with
        | [] => none
        | a :: r => some (.dec (r.foldl (fun m x => if O.lt m x then x else m) a))
  | .count => some fun vs => some (.int vs.length)
  | .bogus => none

end tables

/-! ## metadata -/

/-- `map[string]any` restricted to string values; `none` = nil map. Keys are unique in generated inputs. -/
abbrev CustomMeta := Option (List (String × String))

structure FieldMeta where
  urn : String
  dt : DataType
  unit : String
  required : Bool
  custom : CustomMeta
  deriving Repr, Inhabited, DecidableEq

structure ValueMeta where
  dt : DataType
  unit : String
  required : Bool
  custom : CustomMeta
  deriving Repr, Inhabited, DecidableEq

structure AddFieldMeta where
  urn : String
  custom : CustomMeta
  overrideUnit : String
  deriving Repr, Inhabited, DecidableEq

/-- Which check of the Go code rejected the query (the harness maps error messages to the same names). -/
inductive PlanErr
  | metaEmptyUrn | metaInvalidType | constRequiredNil | constBadData | refNotFound | castUnsupported
  | condTypeMismatch | condOpUnsupported | numNonNumeric1 | numNonNumeric2 | numIncompatible | numMod
  | unNonNumeric | opUnsupported | logicOptional1 | logicOptional2 | logicNonBool1 | logicNonBool2 | logicBadOp
  | nvlIncompatible | nvlAltOptional | selNonBool | selOptional | selType | selUnit | selRequired
  | reduceMissing | reduceNone | reduceTypeMix | reduceNonNumeric | reduceBadType | reduceOptional
  | redNoPeriod | redFallbackNotStatic | redNoSources | redNoUrn | alignNonNumeric
  | appendDup | dropAll | dropMissing | selectEmpty | selectDup | replaceMissing | overrideConflict
  | replaceDup | whereNonBool | whereOptional | staticEmpty | staticDup | joinDup | todsNotFound
  | deltaNonNumeric | deltaOptional | rateNonNumeric | rateOptional
  deriving DecidableEq, Repr, Inhabited

/-- tsquery_utils.go:12-30 `MergeCustomMeta` (override wins on key conflicts). -/
def mergeCustom (base override : CustomMeta) : CustomMeta :=
  match base, override with
  | none, none => none
  | none, some o => some o
  | some b, none => some b
  | some b, some o => some (b.filter (fun kv => !(o.any (fun kv' => kv'.1 == kv.1))) ++ o)

/-- `NewFieldMetaWithCustomData` time_series_query.go:51-77 -/
def newFieldMeta (urn : String) (dt : DataType) (required : Bool) (unit : String) (custom : CustomMeta) :
    Except PlanErr FieldMeta :=
  if urn = "" then .error .metaEmptyUrn
  else if !dt.valid then .error .metaInvalidType
  else .ok { urn := urn, dt := dt, unit := unit, required := required, custom := custom }

/-- tsquery_utils.go:32-41 `FieldAndIdxByUrn`: the FIRST field with that urn. -/
def findField (urn : String) : List FieldMeta → Option (FieldMeta × Nat)
  | [] => none
  | m :: ms => if m.urn = urn then some (m, 0) else (findField urn ms).map fun p => (p.1, p.2 + 1)

def hasField (fms : List FieldMeta) (urn : String) : Bool := fms.any (fun m => m.urn == urn)

def FieldMeta.toValueMeta (m : FieldMeta) : ValueMeta :=
  { dt := m.dt, unit := m.unit, required := m.required, custom := m.custom }

/-! ## value planning: the part of every `Execute` after its operands have been executed
(shared by both packages: the twins differ only in the row type `ρ`) -/

section combinators
variable {D : Type} (O : Ops D) {ρ : Type}

abbrev RowFn (ρ D : Type) := ρ → Option (Val D)
abbrev Planned (ρ D : Type) := ValueMeta × RowFn ρ D

/-- datatype.go:105-120 `ForceCastAndValidate` on a non-nil constant payload. -/
def forceCast (dt : DataType) (v : Val D) : Option (Val D) :=
  match dt with
  | .integer => (match v with
      | .int a => some (.int a)
      | .dec d => some (.int (O.toInt d))
      | .str s => (parseInt64 s).map Val.int
      | _ => none)
  | .decimal => (match v with
      | .dec d => some (.dec d)
      | .int a => some (.dec (O.ofInt a))
      | .str s => (O.parse s).map Val.dec
      | _ => none)
  | .string => (match v with
      | .str s => some (.str s)
      | .int a => some (.str ("%!s(int64=" ++ toString a ++ ")"))
      | .bool b => some (.str ("%!s(bool=" ++ (if b then "true" else "false") ++ ")"))
      | .dec d => some (.str (O.sprintDec d))
      | .ts t => some (.str (O.sprintTime t))
      | .nil => none)
  | .boolean => (match v with
      | .bool b => some (.bool b)
      | .str s => (parseBool s).map Val.bool
      | _ => none)
  | .timestamp => (match v with
      | .ts t => some (.ts t)
      | .str s => (O.parseTime s).map Val.ts
      | _ => none)
  | .bogus => none

/-- constant_field_value.go:24-45 / constant_field_report_value.go:22-41 -/
def constK (vm : ValueMeta) (v : Val D) : Except PlanErr (Planned ρ D) :=
  match v with
  | .nil => if vm.required then .error .constRequiredNil else .ok (vm, fun _ => some .nil)
  | v => match forceCast O vm.dt v with
    | none => .error .constBadData
    | some v' => .ok (vm, fun _ => some v')

/-- the nil-propagating wrapper of a unary Go func (installed only for optional operands) -/
def nilWrap1 (f : Val D → Option (Val D)) : Val D → Option (Val D)
  | .nil => some .nil
  | v => f v

def nilWrap2 (f : Val D → Val D → Option (Val D)) (a b : Val D) : Option (Val D) :=
  if a.isNil || b.isNil then some .nil else f a b

/-- cast_field_value.go:30-77 -/
def castK (t : DataType) (s : Planned ρ D) : Except PlanErr (Planned ρ D) :=
  match castFunc O s.1.dt t with
  | none => .error .castUnsupported
  | some cf =>
    let vm : ValueMeta := { dt := t, unit := s.1.unit, required := s.1.required, custom := s.1.custom }
    let cf' := if vm.required then cf else nilWrap1 cf
    .ok (vm, fun row => (s.2 row).bind cf')

/-- condition_field_value.go:27-77; `WrapComparisonWithNilChecks` logical_expressions.go:142-149 -/
def condK (op : CondOp) (a b : Planned ρ D) : Except PlanErr (Planned ρ D) :=
  if a.1.dt ≠ b.1.dt then .error .condTypeMismatch
  else match condFunc O op a.1.dt with
    | none => .error .condOpUnsupported
    | some cf =>
      let cf' : Val D → Val D → Option Bool :=
        if !a.1.required || !b.1.required then fun x y => if x.isNil || y.isNil then some false else cf x y
        else cf
      let vm : ValueMeta := { dt := .boolean, unit := "", required := a.1.required && b.1.required, custom := none }
      .ok (vm, fun row => (a.2 row).bind fun x => (b.2 row).bind fun y => (cf' x y).map Val.bool)

/-- numeric_expression_field_value.go:31-110 -/
def numK (op : BinOp) (a b : Planned ρ D) : Except PlanErr (Planned ρ D) :=
  if !a.1.dt.isNumeric then .error .numNonNumeric1
  else if !b.1.dt.isNumeric then .error .numNonNumeric2
  else if a.1.dt ≠ b.1.dt then .error .numIncompatible
  else if op = .mod ∧ a.1.dt ≠ .integer then .error .numMod
  else match binFunc O op a.1.dt with
    | none => .error .opUnsupported
    | some f =>
      let vm : ValueMeta := {
        dt := a.1.dt
        unit := if a.1.unit = b.1.unit then a.1.unit else ""
        required := a.1.required && b.1.required
        custom := mergeCustom b.1.custom a.1.custom }
      let f' := if !vm.required then nilWrap2 f else f
      .ok (vm, fun row => (a.2 row).bind fun x => (b.2 row).bind fun y => f' x y)

/-- unary_numeric_operator_field_value.go:29-73 -/
def unK (op : UnOp) (a : Planned ρ D) : Except PlanErr (Planned ρ D) :=
  if !a.1.dt.isNumeric then .error .unNonNumeric
  else match unFunc O op a.1.dt with
    | none => .error .opUnsupported
    | some f =>
      let vm : ValueMeta := { dt := a.1.dt, unit := a.1.unit, required := a.1.required, custom := a.1.custom }
      let f' := if !vm.required then nilWrap1 f else f
      .ok (vm, fun row => (a.2 row).bind f')

/-- logical_expression_field_value.go:31-88 -/
def logicK (op : LogicOp) (a b : Planned ρ D) : Except PlanErr (Planned ρ D) :=
  if !a.1.required then .error .logicOptional1
  else if !b.1.required then .error .logicOptional2
  else if a.1.dt ≠ .boolean then .error .logicNonBool1
  else if b.1.dt ≠ .boolean then .error .logicNonBool2
  else match logicFunc (D := D) op with
    | none => .error .logicBadOp
    | some f =>
      let vm : ValueMeta := { dt := .boolean, unit := "", required := a.1.required && b.1.required, custom := none }
      .ok (vm, fun row => (a.2 row).bind fun x => (b.2 row).bind fun y => f x y)

/-- nvl_field_value.go:28-88 -/
def nvlK (s alt : Planned ρ D) : Except PlanErr (Planned ρ D) :=
  if s.1.dt ≠ alt.1.dt then .error .nvlIncompatible
  else if !alt.1.required then .error .nvlAltOptional
  else
    let vm : ValueMeta := { dt := s.1.dt, unit := s.1.unit, required := true, custom := s.1.custom }
    .ok (vm, fun row =>
      if s.1.required then s.2 row
      else match s.2 row with
        | none => none
        | some .nil => alt.2 row
        | some v => some v)

/-- selector_field_value.go:31-123 -/
def selK (c t f : Planned ρ D) : Except PlanErr (Planned ρ D) :=
  if c.1.dt ≠ .boolean then .error .selNonBool
  else if !c.1.required then .error .selOptional
  else if t.1.dt ≠ f.1.dt then .error .selType
  else if t.1.unit ≠ f.1.unit then .error .selUnit
  else if t.1.required ≠ f.1.required then .error .selRequired
  else
    let vm : ValueMeta := { dt := t.1.dt, unit := t.1.unit, required := t.1.required, custom := none }
    .ok (vm, fun row =>
      match c.2 row with
      | some (.bool true) => t.2 row
      | some (.bool false) => f.2 row
      | _ => none)

end combinators

/-! ## the two value ASTs and their `Execute` -/

/-- values of package `report` -/
inductive RVal (D : Type)
  | const (vm : ValueMeta) (v : Val D)
  | ref (urn : String)
  | cast (s : RVal D) (t : DataType)
  | cond (op : CondOp) (a b : RVal D)
  | num (op : BinOp) (a b : RVal D)
  | un (op : UnOp) (a : RVal D)
  | logic (op : LogicOp) (a b : RVal D)
  | nvl (s alt : RVal D)
  | sel (c t f : RVal D)
  | reduce (rt : RedType) (urns : Option (List String))
  deriving Repr, Inhabited

/-- values of package `datasource` (no `reduce`; `ref` has no urn) -/
inductive DVal (D : Type)
  | const (vm : ValueMeta) (v : Val D)
  | ref
  | cast (s : DVal D) (t : DataType)
  | cond (op : CondOp) (a b : DVal D)
  | num (op : BinOp) (a b : DVal D)
  | un (op : UnOp) (a : DVal D)
  | logic (op : LogicOp) (a b : DVal D)
  | nvl (s alt : DVal D)
  | sel (c t f : DVal D)
  deriving Repr, Inhabited

section plan
variable {D : Type} (O : Ops D)

/-- ref_report_field_value.go:20-37 (`currRow.Value[idx]` panics when the row is too short) -/
def refR (urn : String) (fms : List FieldMeta) : Except PlanErr (Planned (List (Val D)) D) :=
  match findField urn fms with
  | none => .error .refNotFound
  | some (m, idx) => .ok (m.toValueMeta, fun row => row[idx]?)

/-- ref_field_value.go:18-30 -/
def refD (fm : FieldMeta) : Except PlanErr (Planned (Val D) D) :=
  .ok (fm.toValueMeta, fun v => some v)

/-- the fields a `ReduceFieldValue` reduces, with their indices (reduce_field_report_value.go:38-78);
`fieldUrnsToReduce` is a set: duplicates in the urn list collapse. -/
def reducePick (urns : Option (List String)) (fms : List FieldMeta) : List (FieldMeta × Nat) :=
  match urns with
  | none => fms.zipIdx
  | some us => fms.zipIdx.filter fun p => us.contains p.1.urn

/-- the per-field checks of reduce_field_report_value.go:86-111 / reduction_datasource.go:103-126, in order -/
def reduceCheckRest (dt : DataType) : List FieldMeta → Except PlanErr Unit
  | [] => .ok ()
  | m :: ms =>
    if m.dt ≠ dt then .error .reduceTypeMix
    else if !m.required then .error .reduceOptional
    else reduceCheckRest dt ms

def allSameUnit (u : String) (ms : List FieldMeta) : Bool := ms.all (fun m => m.unit == u)

/-- "Verify all requested fields were found" reduce_field_report_value.go:59-82 (`n` = number of DISTINCT urns found:
`len(foundUrns)`, fix 5caebc0 — the available fields may hold one urn twice inside a select) -/
def reduceIsMissing (urns : Option (List String)) (n : Nat) : Bool :=
  match urns with
  | none => false
  | some us => n != us.eraseDups.length

/-- reduce_field_report_value.go:38-146 -/
def reduceR (rt : RedType) (urns : Option (List String)) (fms : List FieldMeta) :
    Except PlanErr (Planned (List (Val D)) D) :=
  let picked := reducePick urns fms
  if reduceIsMissing urns (picked.map (·.1.urn)).eraseDups.length then .error .reduceMissing
  else match picked with
    | [] => .error .reduceNone
    | (m0, _) :: rest =>
      if !m0.dt.isNumeric then .error .reduceNonNumeric
      else if !m0.required then .error .reduceOptional
      else match reduceCheckRest m0.dt (rest.map (·.1)) with
        | .error e => .error e
        | .ok () =>
          match redFunc O rt m0.dt with
          | none => .error .reduceBadType
          | some rf =>
            let vm : ValueMeta := {
              dt := redResultType rt m0.dt
              unit := if allSameUnit m0.unit (rest.map (·.1)) then m0.unit else ""
              required := true
              custom := none }
            .ok (vm, fun row => (picked.mapM fun p => row[p.2]?).bind rf)

/-- `Value.Execute` of package `report` -/
def planRVal : RVal D → List FieldMeta → Except PlanErr (Planned (List (Val D)) D)
  | .const vm v, _ => constK O vm v
  | .ref urn, fms => refR urn fms
  | .cast s t, fms => planRVal s fms >>= castK O t
  | .cond op a b, fms => planRVal a fms >>= fun pa => planRVal b fms >>= fun pb => condK O op pa pb
  | .num op a b, fms => planRVal a fms >>= fun pa => planRVal b fms >>= fun pb => numK O op pa pb
  | .un op a, fms => planRVal a fms >>= unK O op
  | .logic op a b, fms => planRVal a fms >>= fun pa => planRVal b fms >>= fun pb => logicK op pa pb
  | .nvl s alt, fms => planRVal s fms >>= fun ps => planRVal alt fms >>= fun pa => nvlK ps pa
  | .sel c t f, fms =>
      planRVal c fms >>= fun pc => planRVal t fms >>= fun pt => planRVal f fms >>= fun pf => selK pc pt pf
  | .reduce rt urns, fms => reduceR O rt urns fms

/-- `Value.Execute` of package `datasource` -/
def planDVal : DVal D → FieldMeta → Except PlanErr (Planned (Val D) D)
  | .const vm v, _ => constK O vm v
  | .ref, fm => refD fm
  | .cast s t, fm => planDVal s fm >>= castK O t
  | .cond op a b, fm => planDVal a fm >>= fun pa => planDVal b fm >>= fun pb => condK O op pa pb
  | .num op a b, fm => planDVal a fm >>= fun pa => planDVal b fm >>= fun pb => numK O op pa pb
  | .un op a, fm => planDVal a fm >>= unK O op
  | .logic op a b, fm => planDVal a fm >>= fun pa => planDVal b fm >>= fun pb => logicK op pa pb
  | .nvl s alt, fm => planDVal s fm >>= fun ps => planDVal alt fm >>= fun pa => nvlK ps pa
  | .sel c t f, fm =>
      planDVal c fm >>= fun pc => planDVal t fm >>= fun pt => planDVal f fm >>= fun pf => selK pc pt pf

/-- `PrepareField` report_filter.go:11-36 / `PrepareFieldValue` datasource_filter.go:11-37 (after the value's Execute) -/
def prepareK {ρ : Type} (afm : AddFieldMeta) (p : Planned ρ D) : Except PlanErr (FieldMeta × RowFn ρ D) :=
  let unit := if afm.overrideUnit ≠ "" then afm.overrideUnit else p.1.unit
  match newFieldMeta afm.urn p.1.dt p.1.required unit (mergeCustom p.1.custom afm.custom) with
  | .error e => .error e
  | .ok fm => .ok (fm, p.2)

end plan

end ShpanVerif.Model.Query
