import ShpanVerif.Model.Lazy
/-
Model of the terminals, collectors, random sampling, Iterator and of the sources / thin operators that
the pipeline model (Model/Pipe*.lean) does not contain.  Property C04, second part.

A stream is abstracted by what its provider function delivers in a fault-free world (`Src α`):
  * `openErr = some e` : opening the stream fails with `e` (stream.Error, a failing collector in Open), else
  * the values `elems`, one per provider call, followed by
      `fail = some e` : the provider returns the error `e`, or
      `fail = none`   : the provider returns io.EOF.
The state machines of Limit / Skip / Map / Filter / Concat themselves are modelled operationally in
Model/Pipe.lean (theorem C04_pipe); here their effect on `Src` is written down directly (with the failure
position), because this file is about the TERMINALS, which are mirrored as folds over the consume loop
(`consumeLoop`, shpan_stream.go:133-152) with the captured variables of the Go closures as the fold state.
The context is either cancelled before the terminal starts or never (cancellation in flight: C07).
-/
namespace ShpanVerif.Model.Terminals
open ShpanVerif.Model.Lazy

structure Src (α : Type) where
  elems : List α
  fail : Option Err := none
  openErr : Option Err := none

namespace Src
variable {α β κ ν : Type}

/-! ### sources -/

/-- slice_sourced_stream.go:10-16 (`Just`, `FromSlice`: a clone of the slice, index reset on Open/Close) -/
def fromSlice (xs : List α) : Src α := { elems := xs }
def just (xs : List α) : Src α := fromSlice xs

/-- empty_stream.go:9-13 (no lifecycle element) -/
def empty : Src α := { elems := [] }

/-- error_stream.go:8-16: the lifecycle element's Open returns `err` (and the provider would, too) -/
def error (e : Err) : Src α := { elems := [], fail := some e, openErr := some e }

/-- from_iterator.go:11-36: `iter.Pull(seq)` on Open; `seq` = the values the iter.Seq yields when run to its end -/
def fromIterator (seq : List α) : Src α := { elems := seq }

/-- from_iterator.go:38-64 (entries) -/
def fromIterator2 (seq : List (κ × ν)) : Src (κ × ν) := { elems := seq }

/-- from_map.go:14-16 over maps.Keys: `order` = the map's entries in the order this iteration visits them
(unspecified by Go: a permutation of the map's entries) -/
def fromMapKeys (order : List (κ × ν)) : Src κ := fromIterator (order.map (·.1))
/-- from_map.go:9-11 -/
def fromMapValues (order : List (κ × ν)) : Src ν := fromIterator (order.map (·.2))
/-- from_map.go:19-21 -/
def fromMapEntries (order : List (κ × ν)) : Src (κ × ν) := fromIterator2 order

/-- channel_stream_provider.go:22-38: `buffered` = the values received before the channel is closed -/
def fromChannel (buffered : List α) : Src α := { elems := buffered }

/-- shpan_stream.go:355-375 (repaired: the lazy's error is wrapped, so io.EOF is an error like any other):
first provider call fetches the lazy, every later call is EOF. -/
def fromLazy (l : Lazy α) (ctx : Ctx) : Src α :=
  match l.getOptional ctx with
  | .error e => { elems := [], fail := some e }     -- :365-368
  | .ok none => { elems := [] }                     -- :369-371
  | .ok (some v) => { elems := [v] }                -- :372, then :359

/-! ### operators (effect on the delivered sequence) -/

/-- paging.go:9-27 -/
def limit (s : Src α) (n : Int) : Src α :=
  if n ≤ 0 then empty                                -- :10-12 (the source is never opened)
  else { elems := s.elems.take n.toNat
         fail := if s.elems.length < n.toNat then s.fail else none   -- :19-23 / :15-17
         openErr := s.openErr }

/-- paging.go:29-46 -/
def skip (s : Src α) (n : Int) : Src α :=
  { elems := s.elems.drop n.toNat, fail := s.fail, openErr := s.openErr }

/-- paging.go:48-54 -/
def page (s : Src α) (pageNum pageSize : Int) : Src α :=
  if pageNum < 0 ∨ pageSize ≤ 0 then empty else (s.skip (pageNum * pageSize)).limit pageSize

def mapLoop (f : α → Except Err β) : List α → Option Err → List β × Option Err
  | [], fail => ([], fail)
  | x :: xs, fail =>
    match f x with
    | .error e => ([], some e)                       -- map_stream.go:70-73 (wrapped, same root)
    | .ok y => let r := mapLoop f xs fail; (y :: r.1, r.2)

/-- map_stream.go:50-78 (sequential) -/
def mapE (s : Src α) (f : α → Except Err β) : Src β :=
  let r := mapLoop f s.elems s.fail
  { elems := r.1, fail := r.2, openErr := s.openErr }

def filterLoop (p : α → Except Err Bool) : List α → Option Err → List α × Option Err
  | [], fail => ([], fail)
  | x :: xs, fail =>
    match p x with
    | .error e => ([], some e)                       -- shpan_stream.go:259-262
    | .ok keep => let r := filterLoop p xs fail; (if keep then x :: r.1 else r.1, r.2)

/-- shpan_stream.go:251-268 -/
def filterE (s : Src α) (p : α → Except Err Bool) : Src α :=
  let r := filterLoop p s.elems s.fail
  { elems := r.1, fail := r.2, openErr := s.openErr }

/-- untyped_stream.go:3-7 -/
def untyped (s : Src α) : Src α := s.mapE (fun v => .ok v)

/-- shpan_stream.go:345-352: Map with a mapper that calls `f` and returns its argument.  The values `f` is
called with are the values delivered (see `peekCalls`). -/
def peek (s : Src α) : Src α := s.mapE (fun v => .ok v)

/-- map_stream.go:108-130: Map(mapper) ∘ Filter(≠ nil) ∘ Map(deref) -/
def mapWhileFilteringE [Inhabited β] (s : Src α) (f : α → Except Err (Option β)) : Src β :=
  ((s.mapE f).filterE (fun o => .ok o.isSome)).mapE (fun o => .ok (o.getD default))

def flatLoop (f : α → Src β) : List α → Option Err → List β × Option Err
  | [], fail => ([], fail)
  | x :: xs, fail =>
    let inner := f x
    match inner.openErr with
    | some e => ([], some e)                          -- concat_streams.go: opening the next stream fails
    | none =>
      match inner.fail with
      | some e => (inner.elems, some e)
      | none => let r := flatLoop f xs fail; (inner.elems ++ r.1, r.2)

/-- map_stream.go:133-135 + concat_streams.go: Concat(Map(src, mapper)) -/
def flatMap (s : Src α) (f : α → Src β) : Src β :=
  let r := flatLoop f s.elems s.fail
  { elems := r.1, fail := r.2, openErr := s.openErr }

/-! ### the consume loop -/

/-- shpan_stream.go:133-152 with the consumer's captured variables as the state `σ`.
Returns the state at the point the loop ended and the error it ended with. -/
def consumeLoop {σ : Type} (f : σ → α → Except Err σ) : List α → Option Err → σ → σ × Option Err
  | [], fail, st => (st, fail)                        -- provider: EOF (:143-145) or its error (:146)
  | x :: xs, fail, st =>
    match f st x with
    | .error e => (st, some e)                        -- :148-151
    | .ok st' => consumeLoop f xs fail st'

/-- shpan_stream.go:99-153 (sequential): open (:121-124), then the loop, the context tested first (:136-140) -/
def consumeWithErr {σ : Type} (s : Src α) (ctx : Ctx) (f : σ → α → Except Err σ) (init : σ) : σ × Option Err :=
  match s.openErr with
  | some e => (init, some e)
  | none =>
    match ctx.err with
    | some e => (init, some e)
    | none => consumeLoop f s.elems s.fail init

/-- shpan_stream.go:71-76 -/
def consume {σ : Type} (s : Src α) (ctx : Ctx) (f : σ → α → σ) (init : σ) : σ × Option Err :=
  s.consumeWithErr ctx (fun st v => .ok (f st v)) init

/-! ### terminals -/

/-- shpan_stream.go:219-228 -/
def collect (s : Src α) (ctx : Ctx) : Except Err (List α) :=
  match s.consume ctx (fun result v => result ++ [v]) [] with
  | (_, some e) => .error e
  | (result, none) => .ok result

/-- shpan_stream.go:232-241 -/
def mustCollect (s : Src α) : Must (List α) :=
  match s.consume .background (fun result v => result ++ [v]) [] with
  | (_, some e) => .panic e
  | (result, none) => .ret result

/-- shpan_stream.go:271-280 -/
def count (s : Src α) (ctx : Ctx) : Except Err Nat :=
  match s.consume ctx (fun count _ => count + 1) 0 with
  | (_, some e) => .error e
  | (count, none) => .ok count

/-- shpan_stream.go:284-290 -/
def mustCount (s : Src α) : Must Nat :=
  match s.count .background with
  | .error e => .panic e
  | .ok n => .ret n

/-- shpan_stream.go:155-171 -/
def findFirst (s : Src α) : Lazy α :=
  (Lazy.newLazyOptional (fun ctx =>
    match (s.limit 1).collect ctx with
    | .error e => .error e                            -- :158-160
    | .ok (x :: _) => .ok (some x)                    -- :161-164
    | .ok [] => .ok none)).orElseThrow .noFirst       -- :166, :168-170

/-- shpan_stream.go:173-187 -/
def findLast (s : Src α) : Lazy α :=
  (Lazy.newLazyOptional (fun ctx =>
    match s.consume ctx (fun (_ : Option α) v => some v) none with
    | (_, some e) => .error e
    | (result, none) => .ok result)).orElseThrow .noLast

/-- the consumer closure of FindFirstAndLast, shpan_stream.go:195-200; state = (first, last) -/
def firstLastStep (st : Option α × Option α) (v : α) : Option α × Option α :=
  ((match st.1 with | none => some v | some f => some f), some v)

/-- shpan_stream.go:191-215 -/
def findFirstAndLast (s : Src α) : Lazy (α × α) :=
  (Lazy.newLazyOptional (fun ctx =>
    match s.consume ctx firstLastStep (none, none) with
    | (_, some e) => .error e                         -- :201-203
    | ((some f, some l), none) => .ok (some (f, l))   -- :207-210
    | (_, none) => .ok none)).orElseThrow .noFirstLast -- :204-206

/-- shpan_stream.go:292-294 -/
def isEmpty (s : Src α) (ctx : Ctx) : Except Err Bool := (s.findFirst).isEmpty ctx

variable {ρ : Type}

/-- reduce_stream.go:41-58 -/
def reduceWithErrAndCtx (s : Src α) (ctx : Ctx) (init : ρ) (f : Ctx → ρ → α → Except Err ρ) : Except Err ρ :=
  match s.consumeWithErr ctx (fun ret v => f ctx ret v) init with
  | (_, some e) => .error e
  | (ret, none) => .ok ret

/-- reduce_stream.go:26-37 -/
def reduceWithErr (s : Src α) (ctx : Ctx) (init : ρ) (f : ρ → α → Except Err ρ) : Except Err ρ :=
  s.reduceWithErrAndCtx ctx init (fun _ acc v => f acc v)

/-- reduce_stream.go:14-22 -/
def reduce (s : Src α) (ctx : Ctx) (init : ρ) (f : ρ → α → ρ) : Except Err ρ :=
  s.reduceWithErr ctx init (fun acc v => .ok (f acc v))

/-- reduce_stream.go:158-166 -/
def mustReduce (s : Src α) (init : ρ) (f : ρ → α → ρ) : Must ρ :=
  match s.reduce .background init f with
  | .error e => .panic e
  | .ok r => .ret r

/-- reduce_stream.go:147-155 -/
def reduceLazyWithErrAndCtx (s : Src α) (init : ρ) (f : Ctx → ρ → α → Except Err ρ) : Lazy ρ :=
  Lazy.new (fun ctx => s.reduceWithErrAndCtx ctx init f)

/-- reduce_stream.go:125-133 -/
def reduceLazy (s : Src α) (init : ρ) (f : ρ → α → ρ) : Lazy ρ :=
  s.reduceLazyWithErrAndCtx init (fun _ acc v => .ok (f acc v))

/-- reduce_stream.go:106-114: a nil accumulator means no element was seen yet -/
def extremumReduce (pick : α → α → α) (acc : Option α) (v : α) : Option α :=
  match acc with
  | none => some v
  | some a => some (pick a v)

/-- reduce_stream.go:117-122 -/
def valueOrDefault [Inhabited α] : Option α → α
  | none => default
  | some v => v

/-- reduce_stream.go:60-66 -/
def max [Max α] [Inhabited α] (s : Src α) (ctx : Ctx) : Except Err α :=
  match s.reduce ctx (none : Option α) (extremumReduce Max.max) with
  | .error e => .error e
  | .ok res => .ok (valueOrDefault res)

/-- reduce_stream.go:90-96 -/
def min [Min α] [Inhabited α] (s : Src α) (ctx : Ctx) : Except Err α :=
  match s.reduce ctx (none : Option α) (extremumReduce Min.min) with
  | .error e => .error e
  | .ok res => .ok (valueOrDefault res)

/-- reduce_stream.go:67-72 -/
def maxLazy [Max α] [Inhabited α] (s : Src α) : Lazy α :=
  Lazy.map (s.reduceLazy (none : Option α) (extremumReduce Max.max)) valueOrDefault

/-- reduce_stream.go:73-78 -/
def minLazy [Min α] [Inhabited α] (s : Src α) : Lazy α :=
  Lazy.map (s.reduceLazy (none : Option α) (extremumReduce Min.min)) valueOrDefault

/-- reduce_stream.go:80-86 -/
def mustMax [Max α] [Inhabited α] (s : Src α) : Must α :=
  match s.max .background with
  | .error e => .panic e
  | .ok v => .ret v

/-- reduce_stream.go:98-104 -/
def mustMin [Min α] [Inhabited α] (s : Src α) : Must α :=
  match s.min .background with
  | .error e => .panic e
  | .ok v => .ret v

end Src

/-! ### Go maps and the collectors -/

/-- A Go `map[K]V` as an association list with pairwise distinct keys; its order carries no meaning. -/
abbrev GoMap (κ ν : Type) := List (κ × ν)

namespace GoMap
variable {κ ν : Type} [DecidableEq κ]

/-- `v, ok := m[k]` -/
def get? (m : GoMap κ ν) (k : κ) : Option ν :=
  match m with
  | [] => none
  | (k', v) :: rest => if k' = k then some v else get? rest k

/-- `m[k] = v` -/
def set (m : GoMap κ ν) (k : κ) (v : ν) : GoMap κ ν :=
  match m with
  | [] => [(k, v)]
  | (k', v') :: rest => if k' = k then (k, v) :: rest else (k', v') :: set rest k v

def keys (m : GoMap κ ν) : List κ := m.map (·.1)

end GoMap

namespace Src
variable {α κ ν : Type} [DecidableEq κ]

/-- the consumer closure of CollectToMap, shpan_stream_collectors.go:17-24 -/
def collectToMapStep (kvFactory : α → κ × ν) (result : GoMap κ ν) (src : α) : Except Err (GoMap κ ν) :=
  match result.get? (kvFactory src).1 with
  | some _ => .error .dupKey                          -- :19-21
  | none => .ok (result.set (kvFactory src).1 (kvFactory src).2)   -- :22

/-- shpan_stream_collectors.go:11-29 -/
def collectToMap (s : Src α) (ctx : Ctx) (kvFactory : α → κ × ν) : Except Err (GoMap κ ν) :=
  match s.consumeWithErr ctx (collectToMapStep kvFactory) [] with
  | (_, some e) => .error e
  | (result, none) => .ok result

/-- the consumer closure of CollectToSet, shpan_stream_collectors.go:38-44 -/
def collectToSetStep (result : GoMap κ Bool) (k : κ) : Except Err (GoMap κ Bool) :=
  match result.get? k with
  | some _ => .error .dupKey
  | none => .ok (result.set k true)

/-- shpan_stream_collectors.go:33-49 -/
def collectToSet (s : Src κ) (ctx : Ctx) : Except Err (GoMap κ Bool) :=
  match s.consumeWithErr ctx collectToSetStep [] with
  | (_, some e) => .error e
  | (result, none) => .ok result

/-- shpan_stream_collectors.go:54-62 (panics with a string made from the error) -/
def mustCollectToSet (s : Src κ) : Must (GoMap κ Bool) :=
  match s.collectToSet .background with
  | .error e => .panic e
  | .ok m => .ret m

/-- `result[grouper(v)]++`, shpan_stream_collectors.go:73 -/
def countStep (grouper : α → κ) (result : GoMap κ Nat) (v : α) : GoMap κ Nat :=
  result.set (grouper v) ((result.get? (grouper v)).getD 0 + 1)

/-- shpan_stream_collectors.go:66-79 -/
def collectCountGroupedBy (s : Src α) (ctx : Ctx) (grouper : α → κ) : Except Err (GoMap κ Nat) :=
  match s.consume ctx (countStep grouper) [] with
  | (_, some e) => .error e
  | (result, none) => .ok result

/-- `result[grouper(v)] = v`, shpan_stream_collectors.go:87 -/
def overrideStep (grouper : α → κ) (result : GoMap κ α) (v : α) : GoMap κ α :=
  result.set (grouper v) v

/-- shpan_stream_collectors.go:84-93 -/
def collectToMapOverrideDuplicates (s : Src α) (ctx : Ctx) (grouper : α → κ) : Except Err (GoMap κ α) :=
  match s.consume ctx (overrideStep grouper) [] with
  | (_, some e) => .error e
  | (result, none) => .ok result

end Src

/-! ### random sampling (reservoir, random_sample.go) -/

namespace Src
variable {α : Type}

/-- one call of the consumer closure, random_sample.go:17-26.  State: (reservoir, index).
`oracle index` is the answer of `rand.Intn(index + 1)` (any value at all: the theorems hold for every oracle). -/
def sampleStep (k : Nat) (oracle : Nat → Nat) (st : List α × Nat) (v : α) : List α × Nat :=
  if st.2 < k then (st.1 ++ [v], st.2 + 1)            -- :18-19
  else
    let j := oracle st.2                               -- :21
    (if j < k then st.1.set j v else st.1, st.2 + 1)   -- :22-24, :26

/-- random_sample.go:8-33 -/
def collectRandomSample (s : Src α) (ctx : Ctx) (sampleSize : Int) (oracle : Nat → Nat) : Except Err (List α) :=
  if sampleSize ≤ 0 then .ok []                        -- :9-11: the stream is not even materialised
  else
    match s.consume ctx (sampleStep sampleSize.toNat oracle) ([], 0) with
    | (_, some e) => .error e
    | ((reservoir, _), none) => .ok reservoir

/-- random_sample.go:35-39 + stream_from_collector.go: the collector runs inside Open -/
def randomSample (s : Src α) (ctx : Ctx) (sampleSize : Int) (oracle : Nat → Nat) : Src α :=
  match s.collectRandomSample ctx sampleSize oracle with
  | .error e => { elems := [], fail := some e, openErr := some e }
  | .ok l => { elems := l }

/-! ### Iterator / IndexedIterator (to_iterator.go) -/

/-- `s.Filter(func(v) bool { return !yield(v) }).FindFirst()`: Filter's loop (shpan_stream.go:253-266) pulls
and calls `yield` until one element is kept (= `yield` returned false, the loop body broke); Limit(1)
(paging.go:14-17) then ends the stream without another pull.  `yield st v = (st', continue?)`. -/
def iterFirst {σ : Type} (yield : σ → α → σ × Bool) : List α → Option Err → σ → σ × Except Err (Option α)
  | [], fail, st => (st, match fail with | some e => .error e | none => .ok none)
  | x :: xs, fail, st =>
    let r := yield st x
    if r.2 then iterFirst yield xs fail r.1 else (r.1, .ok (some x))

/-- to_iterator.go:3-9: `.MustGetOptional()` uses context.Background() and panics on error -/
def iterator {σ : Type} (s : Src α) (yield : σ → α → σ × Bool) (init : σ) : σ × Must Unit :=
  match s.openErr with
  | some e => (init, .panic e)
  | none =>
    match iterFirst yield s.elems s.fail init with
    | (st, .error e) => (st, .panic e)
    | (st, .ok _) => (st, .ret ())

/-- to_iterator.go:11-20: `index` starts at -1 and is incremented before each yield; the model keeps `index + 1` -/
def indexedIterator {σ : Type} (s : Src α) (yield : σ → Nat → α → σ × Bool) (init : σ) : σ × Must Unit :=
  match s.iterator (fun (st : σ × Nat) v => (((yield st.1 st.2 v).1, st.2 + 1), (yield st.1 st.2 v).2)) (init, 0) with
  | (st, m) => (st.1, m)

end Src
end ShpanVerif.Model.Terminals
