/-
Model of `utils/jsonstream` (writer framing + token-loop readers) and of `lazy.Lazy`'s JSON methods.

Writer side (json_stream_io.go):
  * `StreamJsonToWriterWithInit` (:17-71)  — consumer callback: first element → `first=false`, `initFunc()`,
    write "[" ; later elements → write "," ; then `json.Marshal(v)`, write raw.  After the stream: empty
    stream → `initFunc()`, write "[]" ; else write "]".  An error of the callback ends the consumption and is
    returned; nothing more is written (bytes already written stay written).
  * `StreamJsonAsReaderAndReturn` (:73-137) — the same framing on the pipe writer (no init hook; `first=false`
    is assigned after the delimiter write).  The consumer in the harness is `io.ReadAll`, so "bytes read" =
    bytes written before the error (if any).
  `StreamJsonToWriter` (:11-15) = WithInit with an init hook that does nothing;
  `StreamJsonToHttpResponseWriter` / `ExecuteStreamingHttpPostRequest` (http_json_streaming_util.go) are the two
  helpers instantiated with an http init hook / an http request as consumer.

Reader side (json_array_stream_provider.go, json_object_stream_provider.go): the providers drive a
`json.Decoder` with `Token()`, `More()`, `Decode()`.  The decoder is abstracted as a list of tokens `Tok`
(`lex` = what the decoder sees in a document); an element codec `enc/dec` abstracts `json.Marshal`/`Decode`.

Everything is over `Bytes = List UInt8`.
-/

set_option autoImplicit false
namespace ShpanVerif.Model.JsonFrame

abbrev Bytes := List UInt8

def bLBr : UInt8 := 0x5B   -- [
def bRBr : UInt8 := 0x5D   -- ]
def bLBc : UInt8 := 0x7B   -- {
def bRBc : UInt8 := 0x7D   -- }
def bComma : UInt8 := 0x2C
def bColon : UInt8 := 0x3A
def bQuote : UInt8 := 0x22
def bBackslash : UInt8 := 0x5C

/-- "null" -/
def nullLit : Bytes := [0x6E, 0x75, 0x6C, 0x6C]

/-! ## Writers -/

inductive WErr where
  | init      -- initFunc returned an error
  | marshal   -- json.Marshal failed
  deriving DecidableEq, Repr

/-- State shared by the callback and the epilogue: the captured `first`, the bytes written so far, and how
often the init hook ran. -/
structure WState where
  first : Bool := true
  out : Bytes := []
  initCalls : Nat := 0
  deriving DecidableEq, Repr

/-- One call of the consumer callback of `StreamJsonToWriterWithInit` (json_stream_io.go:24-48).
`initOk = false` models an init hook that fails; `enc v = none` models a `json.Marshal` error. -/
def stepWithInit {α} (initOk : Bool) (enc : α → Option Bytes) (s : WState) (v : α) : WState × Option WErr :=
  let r : WState × Option WErr :=
    if s.first then
      -- first = false ; err := initFunc()
      let s := { s with first := false, initCalls := s.initCalls + 1 }
      if !initOk then (s, some .init)
      else ({ s with out := s.out ++ [bLBr] }, none)
    else ({ s with out := s.out ++ [bComma] }, none)
  match r with
  | (s, some e) => (s, some e)
  | (s, none) =>
    match enc v with
    | none => (s, some .marshal)
    | some raw => ({ s with out := s.out ++ raw }, none)

/-- One call of the consumer callback of `StreamJsonAsReaderAndReturn` (json_stream_io.go:88-112). -/
def stepAsReader {α} (enc : α → Option Bytes) (s : WState) (v : α) : WState × Option WErr :=
  let s := if s.first then { s with out := s.out ++ [bLBr] } else { s with out := s.out ++ [bComma] }
  let s := { s with first := false }
  match enc v with
  | none => (s, some .marshal)
  | some raw => ({ s with out := s.out ++ raw }, none)

/-- `ConsumeWithErr`: apply the callback to every element until it fails. -/
def consume {α} (step : WState → α → WState × Option WErr) : WState → List α → WState × Option WErr
  | s, [] => (s, none)
  | s, v :: vs =>
    match step s v with
    | (s', some e) => (s', some e)
    | (s', none) => consume step s' vs

/-- `StreamJsonToWriterWithInit` on the stream `xs`: (bytes written, init calls, returned error). -/
def writeWithInit {α} (initOk : Bool) (enc : α → Option Bytes) (xs : List α) : Bytes × Nat × Option WErr :=
  match consume (stepWithInit initOk enc) {} xs with
  | (s, some e) => (s.out, s.initCalls, some e)          -- :49-51
  | (s, none) =>
    if s.first then                                       -- :54-61 empty stream
      if !initOk then (s.out, s.initCalls + 1, some .init)
      else (s.out ++ [bLBr, bRBr], s.initCalls + 1, none)
    else (s.out ++ [bRBr], s.initCalls, none)             -- :62-63

/-- `StreamJsonAsReaderAndReturn` with `io.ReadAll` as consumer: (bytes read, error seen by the reader). -/
def writeAsReader {α} (enc : α → Option Bytes) (xs : List α) : Bytes × Option WErr :=
  match consume (stepAsReader enc) {} xs with
  | (s, some e) => (s.out, some e)                        -- :114-119 CloseWithError
  | (s, none) =>
    if s.first then (s.out ++ [bLBr, bRBr], none)         -- :122-129
    else (s.out ++ [bRBr], none)                          -- :130-137

/-- The JSON array text of already encoded elements: "[" e1 "," e2 … "]". -/
def joinBytes (sep : Bytes) : List Bytes → Bytes
  | [] => []
  | [e] => e
  | e :: es => e ++ sep ++ joinBytes sep es

def frame (es : List Bytes) : Bytes := [bLBr] ++ joinBytes [bComma] es ++ [bRBr]

/-! ## Readers -/

/-- What the `json.Decoder` presents to the providers. `key`/`val` carry the raw text of an object key /
of a complete value; `bad` is a position where the decoder reports a syntax error. End of the list = end of
input (`io.EOF` from `Token`, `More() = false`). -/
inductive Tok where
  | arrOpen | arrClose | objOpen | objClose
  | key (k : Bytes)
  | val (raw : Bytes)
  | bad
  deriving DecidableEq, Repr

inductive RErr where
  | openErr    -- Open failed: first token unreadable or not the expected delimiter
  | emitErr    -- Emit failed: element / key / value / closing delimiter
  deriving DecidableEq, Repr

/-- `Decoder.More()`: a next token exists and is not a closing delimiter. -/
def more : List Tok → Bool
  | [] => false
  | .arrClose :: _ => false
  | .objClose :: _ => false
  | _ => true

/-- The Emit loop of `jsonArrayStreamProvider` (json_array_stream_provider.go:57-96) run to the end
(`Collect`): `More()` → `Decode` one element; else `Token()` must be `]`.
Note :83-85: the error of `Token()` is returned as it is; at end of input it is `io.EOF`, which the stream
takes for the end of the stream — a truncated array ends without an error. -/
def arrayLoop {α} (dec : Bytes → Option α) : List Tok → List α → Except RErr (List α)
  | [], acc => .ok acc.reverse                                   -- Token() = io.EOF, unwrapped
  | .arrClose :: _, acc => .ok acc.reverse                       -- `]` → io.EOF
  | .objClose :: _, _ => .error .emitErr                         -- Token() error / "expected end of json array"
  | .val raw :: ts, acc =>
    match dec raw with
    | some v => arrayLoop dec ts (v :: acc)
    | none => .error .emitErr                                    -- "error parsing array element"
  | _ :: _, _ => .error .emitErr                                 -- Decode fails on anything else

/-- `ReadJsonArray(...).Collect`: Open (:26-46) reads the opening delimiter, then the loop. -/
def readArray {α} (dec : Bytes → Option α) : List Tok → Except RErr (List α)
  | .arrOpen :: ts => arrayLoop dec ts []
  | _ => .error .openErr          -- Token() error ("failed to open JSON array stream") or "input is not a JSON array"

/-- The Emit loop of `jsonObjectStreamProvider` (json_object_stream_provider.go:56-101): `More()` → key by
`Token()` (must be a string), value by `Decode`; else `Token()` must be `}` (errors are wrapped here, so a
truncated object is an error). -/
def objectLoop {α} (dec : Bytes → Option α) : List Tok → List (Bytes × α) → Except RErr (List (Bytes × α))
  | [], _ => .error .emitErr                                     -- "failed to read closing token: EOF"
  | .objClose :: _, acc => .ok acc.reverse
  | .arrClose :: _, _ => .error .emitErr                         -- "expected end of object"
  | .key k :: .val raw :: ts, acc =>
    match dec raw with
    | some v => objectLoop dec ts ((k, v) :: acc)
    | none => .error .emitErr                                    -- "error decoding value"
  | _ :: _, _ => .error .emitErr                                 -- key token error / non-string key / value error

def readObject {α} (dec : Bytes → Option α) : List Tok → Except RErr (List (Bytes × α))
  | .objOpen :: ts => objectLoop dec ts []
  | _ => .error .openErr

/-! ## A concrete lexer (what `json.Decoder` sees), used by the driver

Elements are delimited without validating their inside: a string runs to its closing quote (escapes
honoured), an array/object to its matching bracket (strings inside honoured), any other scalar to the next
`,` `]` `}` or white space.  That is all the providers need from the decoder for documents whose elements are
valid JSON values (the generators only produce such elements; malformed documents are malformed at the top
level).  That the scanner returns exactly the element for EVERY well-formed JSON text (Model/JsonText.lean) is
`Proofs.JsonScan.scanValue_render`; the token lists of whole documents are `jsonLex_array` / `jsonLex_object`. -/

def isWs (b : UInt8) : Bool := b == 0x20 || b == 0x09 || b == 0x0A || b == 0x0D

def skipWs : Bytes → Bytes
  | [] => []
  | b :: r => if isWs b then skipWs r else b :: r

/-- After an opening quote: returns (string body incl. the closing quote, reversed onto `acc`; rest). -/
def scanStr : Bytes → Bytes → Option (Bytes × Bytes)
  | [], _ => none
  | [b], acc => if b == bQuote then some ((b :: acc).reverse, []) else none
  | b :: c :: r, acc =>
    if b == bQuote then some ((b :: acc).reverse, c :: r)
    else if b == bBackslash then scanStr r (c :: b :: acc)
    else scanStr (c :: r) (b :: acc)

/-- Inside an array/object at nesting `depth ≥ 1`: runs to the bracket that closes depth 1. -/
def scanNested : Nat → Bool → Bool → Bytes → Bytes → Option (Bytes × Bytes)
  | _, _, _, [], _ => none
  | d, true, true, b :: r, acc => scanNested d true false r (b :: acc)
  | d, true, false, b :: r, acc =>
    if b == bBackslash then scanNested d true true r (b :: acc)
    else if b == bQuote then scanNested d false false r (b :: acc)
    else scanNested d true false r (b :: acc)
  | d, false, _, b :: r, acc =>
    if b == bQuote then scanNested d true false r (b :: acc)
    else if b == bLBr || b == bLBc then scanNested (d + 1) false false r (b :: acc)
    else if b == bRBr || b == bRBc then
      if d ≤ 1 then some ((b :: acc).reverse, r) else scanNested (d - 1) false false r (b :: acc)
    else scanNested d false false r (b :: acc)

def isScalarEnd (b : UInt8) : Bool := b == bComma || b == bRBr || b == bRBc || isWs b

def scanScalar : Bytes → Bytes → Bytes × Bytes
  | [], acc => (acc.reverse, [])
  | b :: r, acc => if isScalarEnd b then (acc.reverse, b :: r) else scanScalar r (b :: acc)

/-- One value at the head of the input (no leading white space): (raw text, rest). -/
def scanValue : Bytes → Option (Bytes × Bytes)
  | [] => none
  | b :: r =>
    if b == bQuote then scanStr r [b]
    else if b == bLBr || b == bLBc then scanNested 1 false false r [b]
    else if isScalarEnd b || b == bColon then none
    else some (scanScalar r [b])

/-- Elements of an array after "[" or after a value. `expectValue`: a value must come next (after "[" a
"]" may come instead — `first`). -/
def lexArr : Nat → Bool → Bool → Bytes → List Tok
  | 0, _, _, _ => [.bad]
  | fuel + 1, expectValue, first, b =>
    match skipWs b with
    | [] => if expectValue && !first then [.bad] else []     -- after "," the decoder wants a value: EOF error
    | c :: r =>
      if expectValue then
        if c == bRBr && first then [.arrClose]
        else if c == bRBc && first then [.objClose]
        else match scanValue (c :: r) with
          | none => [.bad]
          | some (raw, rest) => .val raw :: lexArr fuel false false rest
      else
        if c == bComma then lexArr fuel true false r
        else if c == bRBr then [.arrClose]
        else if c == bRBc then [.objClose]
        else [.bad]

/-- Entries of an object after "{" or after a value. -/
def lexObj : Nat → Bool → Bool → Bytes → List Tok
  | 0, _, _, _ => [.bad]
  | fuel + 1, expectKey, first, b =>
    match skipWs b with
    | [] => if expectKey && !first then [.bad] else []
    | c :: r =>
      if expectKey then
        if c == bRBc && first then [.objClose]
        else if c == bRBr && first then [.arrClose]
        else if c == bQuote then
          match scanStr r [c] with
          | none => [.bad]
          | some (k, rest) =>
            match skipWs rest with
            | c2 :: r2 =>
              if c2 == bColon then
                match scanValue (skipWs r2) with
                | none => [.key k, .bad]
                | some (raw, rest2) => .key k :: .val raw :: lexObj fuel false false rest2
              else [.key k, .bad]
            | [] => [.key k, .bad]
        else [.bad]
      else
        if c == bComma then lexObj fuel true false r
        else if c == bRBc then [.objClose]
        else if c == bRBr then [.arrClose]
        else [.bad]

/-- The token view of a whole document. -/
def jsonLex (doc : Bytes) : List Tok :=
  match skipWs doc with
  | [] => []
  | c :: r =>
    if c == bLBr then .arrOpen :: lexArr (doc.length + 1) true true r
    else if c == bLBc then .objOpen :: lexObj (doc.length + 1) true true r
    else [.bad]

/-! ## Lazy (lazy/shpan_lazy.go:280-305) -/

/-- The `fetcher` field: `nilFn` = the zero value of `Lazy` (nil func), otherwise what the fetcher returns:
an error, or an optional value. -/
inductive Fetcher (α : Type) where
  | nilFn
  | fails
  | gives (v : Option α)
  deriving Repr

/-- `emptySup` = the field `emptyValueErrSupplier` is not nil (every constructor of the package sets it; the
zero value of `Lazy` and a `Lazy` filled only by `UnmarshalJSON` do not). -/
structure Lazy (α : Type) where
  fetcher : Fetcher α
  emptySup : Bool
  deriving Repr

inductive LOut (β : Type) where
  | ok (v : β)
  | err          -- an error was returned
  | emptyErr     -- "lazy value is empty"
  | panic        -- nil func call
  deriving Repr, DecidableEq

/-- `Lazy.Get` (shpan_lazy.go:103-112): an empty value calls `emptyValueErrSupplier()`. -/
def Lazy.get {α} (l : Lazy α) : LOut α :=
  match l.fetcher with
  | .nilFn => .panic
  | .fails => .err
  | .gives none => if l.emptySup then .emptyErr else .panic
  | .gives (some v) => .ok v

/-- `Lazy.GetOptional` (:115-117). -/
def Lazy.getOptional {α} (l : Lazy α) : LOut (Option α) :=
  match l.fetcher with
  | .nilFn => .panic
  | .fails => .err
  | .gives o => .ok o

/-- `Lazy.MarshalJSON` (:280-286): `json.Marshal(data)` of the fetched `*T` — nil pointer → "null". -/
def Lazy.marshal {α} (enc : α → Option Bytes) (l : Lazy α) : LOut Bytes :=
  match l.fetcher with
  | .nilFn => .panic
  | .fails => .err
  | .gives none => .ok nullLit
  | .gives (some v) => match enc v with | some b => .ok b | none => .err

/-- `(*Lazy).UnmarshalJSON` (:288-311), pointer receiver: first a nil `emptyValueErrSupplier` is replaced by the
default one, then the receiver's `fetcher` is replaced.  Returns the receiver after the call and whether it
succeeded (on a decoding error the fetcher is unchanged). -/
def Lazy.unmarshal {α} (dec : Bytes → Option α) (recv : Lazy α) (data : Bytes) : Lazy α × Bool :=
  let recv := { recv with emptySup := true }
  if data = nullLit then ({ recv with fetcher := .gives none }, true)
  else match dec data with
    | none => (recv, false)
    | some v => ({ recv with fetcher := .gives (some v) }, true)

/-- The unrepaired D19 variant (value receiver): the assignment hits a copy. Only used by the witness. -/
def Lazy.unmarshalValueReceiver {α} (dec : Bytes → Option α) (recv : Lazy α) (data : Bytes) : Lazy α × Bool :=
  if data = nullLit then (recv, true)
  else match dec data with
    | none => (recv, false)
    | some _ => (recv, true)

end ShpanVerif.Model.JsonFrame
