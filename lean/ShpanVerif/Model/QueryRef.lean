/-
Reference semantics of tsquery (the "Spec/QueryRef" of DESIGN.md §5 C11): an independent, eager interpreter written
from the documented behaviour, not from the code:

* a static type checker (`typeR`/`typeD`) that knows the documented typing rules and the metadata propagation rules;
* a row-at-a-time evaluator (`evalR`/`evalD`) with ONE uniform nil rule (nil operand → nil result; a comparison with a
  nil operand is false) that never looks at declared optionality, and that dispatches on the dynamic tags of the values;
* filters and datasources as whole-table transformations (`List` of rows in, `List` of rows out); joins are the
  relational joins on the timestamp.

`none` from an evaluator = a data-dependent failure (division by zero, unparsable string, value of an unexpected kind).
A whole-table result is `none` as soon as any row that has to be produced fails.
-/
import ShpanVerif.Model.QueryExec

namespace ShpanVerif.Model.Query.Ref

open ShpanVerif.Model.Query

section values
variable {D : Type} (O : Ops D)

/-- documented cast matrix: identity, and between integer / decimal / string -/
def castAllowed (src tgt : DataType) : Bool :=
  src == tgt ||
    ((src == .integer || src == .decimal || src == .string) && (tgt == .integer || tgt == .decimal || tgt == .string))

def condAllowed (op : CondOp) (dt : DataType) : Bool :=
  match dt with
  | .integer | .decimal => op != .bogus
  | .string | .boolean => op == .eq || op == .ne
  | _ => false

def unAllowed (op : UnOp) (dt : DataType) : Bool :=
  match dt with
  | .integer => op == .abs || op == .neg || op == .sqrt
  | .decimal => op != .bogus
  | _ => false

/-- convert a non-nil value to the target type by its dynamic kind -/
def castVal (tgt : DataType) (v : Val D) : Option (Val D) :=
  match v, tgt with
  | .int a, .integer => some (.int a)
  | .int a, .decimal => some (.dec (O.ofInt a))
  | .int a, .string => some (.str (toString a))
  | .dec d, .decimal => some (.dec d)
  | .dec d, .integer => some (.int (O.toInt d))
  | .dec d, .string => some (.str (O.fmt d))
  | .str s, .string => some (.str s)
  | .str s, .integer => (parseInt64 s).map Val.int
  | .str s, .decimal => (O.parse s).map Val.dec
  | .bool b, .boolean => some (.bool b)
  | .ts t, .timestamp => some (.ts t)
  | _, _ => none

def cmpInt (op : CondOp) (a b : Int) : Option Bool :=
  match op with
  | .eq => some (a == b)
  | .ne => some (a != b)
  | .gt => some (decide (a > b))
  | .lt => some (decide (a < b))
  | .ge => some (decide (a ≥ b))
  | .le => some (decide (a ≤ b))
  | .bogus => none

def cmpDec (op : CondOp) (a b : D) : Option Bool :=
  match op with
  | .eq => some (O.eq a b)
  | .ne => some (!O.eq a b)
  | .gt => some (O.lt b a)
  | .lt => some (O.lt a b)
  | .ge => some (O.le b a)
  | .le => some (O.le a b)
  | .bogus => none

def cmpVal (op : CondOp) (x y : Val D) : Option Bool :=
  match x, y with
  | .nil, _ => some false
  | _, .nil => some false
  | .int a, .int b => cmpInt op a b
  | .dec a, .dec b => cmpDec O op a b
  | .str a, .str b => (match op with
      | .eq => some (a == b)
      | .ne => some (a != b)
      | _ => none)
  | .bool a, .bool b => (match op with
      | .eq => some (a == b)
      | .ne => some (a != b)
      | _ => none)
  | _, _ => none

def arithInt (op : BinOp) (a b : Int) : Option Int :=
  match op with
  | .add => some (wrap64 (a + b))
  | .sub => some (wrap64 (a - b))
  | .mul => some (wrap64 (a * b))
  | .div => if b = 0 then none else some (wrap64 (a.tdiv b))
  | .mod => if b = 0 then none else some (a.tmod b)
  | .bogus => none

def arithDec (op : BinOp) (a b : D) : Option D :=
  match op with
  | .add => some (O.add a b)
  | .sub => some (O.sub a b)
  | .mul => some (O.mul a b)
  | .div => some (O.div a b)
  | _ => none

def arithVal (op : BinOp) (x y : Val D) : Option (Val D) :=
  match x, y with
  | .nil, _ => some .nil
  | _, .nil => some .nil
  | .int a, .int b => (arithInt op a b).map Val.int
  | .dec a, .dec b => (arithDec O op a b).map Val.dec
  | _, _ => none

def unaryVal (op : UnOp) (x : Val D) : Option (Val D) :=
  match x with
  | .nil => some .nil
  | .int a => (match op with
      | .abs => some (.int (if a < 0 then wrap64 (-a) else a))
      | .neg => some (.int (wrap64 (-a)))
      | .sqrt => some (.int (O.toInt (O.un .sqrt (O.ofInt a))))
      | _ => none)
  | .dec d => if op = .bogus then none else some (.dec (O.un op d))
  | _ => none

def logicVal (op : LogicOp) (x y : Val D) : Option (Val D) :=
  match x, y with
  | .bool a, .bool b => (match op with
      | .and => some (.bool (a && b))
      | .or => some (.bool (a || b))
      | .bogus => none)
  | _, _ => none

/-- reduce a list of non-nil numeric values of one kind -/
def reduceVals (rt : RedType) (vs : List (Val D)) : Option (Val D) :=
  match allInts vs with
  | some l => (match rt with
      | .sum => some (.int (sumInts l))
      | .avg => some (.dec (O.div (O.ofInt (sumInts l)) (O.ofInt l.length)))
      | .min => (match l with
          | [] => none
          | a :: r => some (.int (r.foldl (fun m x => if x < m then x else m) a)))
      | .max => (match l with
          | [] => none
          | a :: r => some (.int (r.foldl (fun m x => if x > m then x else m) a)))
      | .count => some (.int l.length)
      | .bogus => none)
  | none =>
    match allDecs vs with
    | some l => (match rt with
        | .sum => some (.dec (sumDecs O l))
        | .avg => some (.dec (O.div (sumDecs O l) (O.ofInt l.length)))
        | .min => (match l with
            | [] => none
            | a :: r => some (.dec (r.foldl (fun m x => if O.lt x m then x else m) a)))
        | .max => (match l with
            | [] => none
            | a :: r => some (.dec (r.foldl (fun m x => if O.lt m x then x else m) a)))
        | .count => some (.int l.length)
        | .bogus => none)
    | none => none

/-- the fields a reduce value ranges over (all, or those whose urn is listed), with their positions -/
def reduceFields (urns : Option (List String)) (fms : List FieldMeta) : List (FieldMeta × Nat) :=
  match urns with
  | none => fms.zipIdx
  | some us => fms.zipIdx.filter fun p => p.1.urn ∈ us

/-- every listed urn names a field -/
def reduceAllFound (urns : Option (List String)) (fms : List FieldMeta) : Bool :=
  match urns with
  | none => true
  | some us => us.all fun u => fms.any fun m => m.urn == u

/-- typing of a reduce value over the picked fields: at least one field, all numeric of one type and required -/
def reduceType (rt : RedType) (allFound : Bool) (picked : List FieldMeta) : Option ValueMeta :=
  match picked with
  | [] => none
  | m0 :: _ =>
    if allFound && rt != .bogus && m0.dt.isNumeric && picked.all (fun m => m.dt == m0.dt && m.required) then
      some { dt := redResultType rt m0.dt, unit := if picked.all (fun m => m.unit == m0.unit) then m0.unit else "",
             required := true, custom := none }
    else none

/-- static typing + metadata propagation of a report value; `none` = the query must be rejected -/
def typeR : RVal D → List FieldMeta → Option ValueMeta
  | .const vm v, _ =>
    match v with
    | .nil => if vm.required then none else some vm
    | v => (forceCast O vm.dt v).map fun _ => vm
  | .ref urn, fms => (fms.find? (fun m => m.urn == urn)).map FieldMeta.toValueMeta
  | .cast s t, fms => (typeR s fms).bind fun sm =>
      if castAllowed sm.dt t then some { sm with dt := t } else none
  | .cond op a b, fms => (typeR a fms).bind fun am => (typeR b fms).bind fun bm =>
      if am.dt == bm.dt && condAllowed op am.dt then
        some { dt := .boolean, unit := "", required := am.required && bm.required, custom := none }
      else none
  | .num op a b, fms => (typeR a fms).bind fun am => (typeR b fms).bind fun bm =>
      if am.dt.isNumeric && am.dt == bm.dt && op != .bogus && (op != .mod || am.dt == .integer) then
        some { dt := am.dt, unit := if am.unit == bm.unit then am.unit else "",
               required := am.required && bm.required, custom := mergeCustom bm.custom am.custom }
      else none
  | .un op a, fms => (typeR a fms).bind fun am => if unAllowed op am.dt then some am else none
  | .logic op a b, fms => (typeR a fms).bind fun am => (typeR b fms).bind fun bm =>
      if am.required && bm.required && am.dt == .boolean && bm.dt == .boolean && op != .bogus then
        some { dt := .boolean, unit := "", required := true, custom := none }
      else none
  | .nvl s alt, fms => (typeR s fms).bind fun sm => (typeR alt fms).bind fun am =>
      if sm.dt == am.dt && am.required then some { sm with required := true } else none
  | .sel c t f, fms => (typeR c fms).bind fun cm => (typeR t fms).bind fun tm => (typeR f fms).bind fun fm =>
      if cm.dt == .boolean && cm.required && tm.dt == fm.dt && tm.unit == fm.unit && tm.required == fm.required then
        some { dt := tm.dt, unit := tm.unit, required := tm.required, custom := none }
      else none
  | .reduce rt urns, fms => reduceType rt (reduceAllFound urns fms) ((reduceFields urns fms).map (·.1))

/-- row-at-a-time evaluation of a report value on the row's cells -/
def evalR : RVal D → List FieldMeta → List (Val D) → Option (Val D)
  | .const vm v, _, _ =>
    match v with
    | .nil => some .nil
    | v => forceCast O vm.dt v
  | .ref urn, fms, row => (fms.findIdx? (fun m => m.urn == urn)).bind fun i => row[i]?
  | .cast s t, fms, row => (evalR s fms row).bind fun v =>
      match v with
      | .nil => some .nil
      | v => castVal O t v
  | .cond op a b, fms, row => (evalR a fms row).bind fun x => (evalR b fms row).bind fun y =>
      (cmpVal O op x y).map Val.bool
  | .num op a b, fms, row => (evalR a fms row).bind fun x => (evalR b fms row).bind fun y => arithVal O op x y
  | .un op a, fms, row => (evalR a fms row).bind (unaryVal O op)
  | .logic op a b, fms, row => (evalR a fms row).bind fun x => (evalR b fms row).bind fun y => logicVal op x y
  | .nvl s alt, fms, row => (evalR s fms row).bind fun v =>
      match v with
      | .nil => evalR alt fms row
      | v => some v
  | .sel c t f, fms, row => (evalR c fms row).bind fun v =>
      match v with
      | .bool true => evalR t fms row
      | .bool false => evalR f fms row
      | _ => none
  | .reduce rt urns, fms, row =>
    ((reduceFields urns fms).mapM fun p => row[p.2]?).bind (reduceVals O rt)

/-- a datasource-package value is the report value over the one-field schema (this IS the documented relation
between the two APIs) -/
def liftVal (urn : String) : DVal D → RVal D
  | .const vm v => .const vm v
  | .ref => .ref urn
  | .cast s t => .cast (liftVal urn s) t
  | .cond op a b => .cond op (liftVal urn a) (liftVal urn b)
  | .num op a b => .num op (liftVal urn a) (liftVal urn b)
  | .un op a => .un op (liftVal urn a)
  | .logic op a b => .logic op (liftVal urn a) (liftVal urn b)
  | .nvl s alt => .nvl (liftVal urn s) (liftVal urn alt)
  | .sel c t f => .sel (liftVal urn c) (liftVal urn t) (liftVal urn f)

def typeD (v : DVal D) (fm : FieldMeta) : Option ValueMeta := typeR O (liftVal fm.urn v) [fm]
def evalD (v : DVal D) (fm : FieldMeta) (x : Val D) : Option (Val D) := evalR O (liftVal fm.urn v) [fm] [x]

end values

/-! ## whole-table semantics -/

/-- a reference result: `none` = rejected; rows `none` = some row that has to be produced fails -/
abbrev RRes (D : Type) := Option (List FieldMeta × Option (List (Row D)))

section tables
variable {D : Type} (O : Ops D)

def mkMeta (afm : AddFieldMeta) (vm : ValueMeta) : Option FieldMeta :=
  if afm.urn == "" || !vm.dt.valid then none
  else some { urn := afm.urn, dt := vm.dt, required := vm.required,
              unit := if afm.overrideUnit != "" then afm.overrideUnit else vm.unit,
              custom := mergeCustom vm.custom afm.custom }

/-- the field a value yields under the requested name: its type checks and the metadata is constructible -/
def typeField (v : RVal D) (afm : AddFieldMeta) (fms : List FieldMeta) : Option FieldMeta :=
  (typeR O v fms).bind (mkMeta afm)

def mapTable (f : Row D → Option (Row D)) (rows : Option (List (Row D))) : Option (List (Row D)) :=
  rows.bind fun l => l.mapM f

/-- custom metadata after a report override: the given one replaces the old one; nothing (or an empty map) given
clears it.  `fixD22`: the variant in which nothing given keeps the old one (what the datasource twin does). -/
def refCustom (fixD22 : Bool) (c : CustomMeta) (orig : FieldMeta) : CustomMeta :=
  if fixD22 then (match c with
    | some x => some x
    | none => orig.custom)
  else (match c with
    | some x => if x.length > 0 then some x else none
    | none => none)

/-- keep the rows whose condition is true; the whole table fails if the condition of some row fails or is not a boolean -/
def whereTable {α : Type} (p : α → Option (Val D)) : List α → Option (List α)
  | [] => some []
  | a :: l =>
    match p a with
    | some (.bool true) => (whereTable p l).map (a :: ·)
    | some (.bool false) => whereTable p l
    | _ => none

/-- one selected field after the other; later fields see the earlier ones -/
def selectMetas (fms : List FieldMeta) : List (RVal D × AddFieldMeta) → List FieldMeta → Option (List FieldMeta)
  | [], acc => some acc
  | (v, afm) :: rest, acc =>
    if acc.any (fun m => m.urn == afm.urn) then none
    else (typeR O v (fms ++ acc)).bind fun vm => (mkMeta afm vm).bind fun fm => selectMetas fms rest (acc ++ [fm])

def selectVals (fms : List FieldMeta) : List (RVal D × AddFieldMeta) → List FieldMeta → List (Val D) → Option (List (Val D))
  | [], _, cur => some cur
  | (v, afm) :: rest, acc, cur =>
    (evalR O v (fms ++ acc) cur).bind fun x =>
      match (typeR O v (fms ++ acc)).bind (mkMeta afm) with
      | some fm => selectVals fms rest (acc ++ [fm]) (cur ++ [x])
      | none => none

def setAt {α : Type} (l : List α) (i : Nat) (a : α) : List α := l.set i a

def filterR (fixD22 : Bool) (f : RFilter D) (res : List FieldMeta × Option (List (Row D))) : RRes D :=
  let (fms, rows) := res
  match f with
  | .append v afm =>
    (typeField O v afm fms).bind fun fm =>
      if fms.any (fun m => m.urn == afm.urn) then none
      else some (fms ++ [fm], mapTable (fun r => (evalR O v fms r.vals).map fun x => { r with vals := r.vals ++ [x] }) rows)
  | .drop urns =>
    let keep := fms.zipIdx.filter fun p => !(urns.contains p.1.urn)
    if keep.isEmpty || !(urns.all fun u => fms.any fun m => m.urn == u) then none
    else some (keep.map (·.1), mapTable (fun r => (keep.mapM fun p => r.vals[p.2]?).map fun vs => { r with vals := vs }) rows)
  | .select fs =>
    if fs.isEmpty then none
    else (selectMetas O fms fs []).map fun metas =>
      (metas, mapTable (fun r => (selectVals O fms fs [] r.vals).map fun cur => { r with vals := cur.drop r.vals.length }) rows)
  | .replace urn v afm =>
    (fms.findIdx? (fun m => m.urn == urn)).bind fun idx =>
      (typeField O v afm fms).bind fun fm =>
        if fm.urn != urn && fms.any (fun m => m.urn == fm.urn) then none
        else some (setAt fms idx fm, mapTable (fun r => (evalR O v fms r.vals).bind fun x =>
          if idx < r.vals.length then some { r with vals := setAt r.vals idx x } else none) rows)
  | .single v afm =>
    (typeField O v afm fms).map fun fm =>
      ([fm], mapTable (fun r => (evalR O v fms r.vals).map fun x => { r with vals := [x] }) rows)
  | .override u nu nn c =>
    (fms.findIdx? (fun m => m.urn == u)).bind fun idx =>
      (fms[idx]?).bind fun orig =>
        let newUrn := nu.getD orig.urn
        if newUrn != orig.urn && fms.any (fun m => m.urn == newUrn) then none
        else if newUrn == "" then none
        else
          let cm := refCustom fixD22 c orig
          some (setAt fms idx { orig with urn := newUrn, unit := nn.getD orig.unit, custom := cm }, rows)
  | .where_ v =>
    (typeR O v fms).bind fun vm =>
      if vm.dt == .boolean && vm.required then
        some (fms, rows.bind (whereTable fun r => evalR O v fms r.vals))
      else none
  -- note: `override` keeps dataType/required; a field whose type is invalid cannot exist in a well-formed result

def filtersR (fixD22 : Bool) : List (RFilter D) → List FieldMeta × Option (List (Row D)) → RRes D
  | [], res => some res
  | f :: fs, res => (filterR O fixD22 f res).bind (filtersR fixD22 fs)

/-- datasource-package filters, stated through the report semantics of the one-field table -/
def liftFilter (cur : String) : DFilter D → RFilter D × String
  | .fval v afm => (.single (liftVal cur v) afm, afm.urn)
  | .where_ v => (.where_ (liftVal cur v), cur)
  | .override nu nn c => (.override cur nu nn c, nu.getD cur)

def liftFilters : String → List (DFilter D) → List (RFilter D)
  | _, [] => []
  | cur, f :: fs => (liftFilter cur f).1 :: liftFilters (liftFilter cur f).2 fs

/-- the second report-API rendering of a datasource-package filter chain: `fval` as ReplaceFieldFilter -/
def liftFilterC (cur : String) : DFilter D → RFilter D × String
  | .fval v afm => (.replace cur (liftVal cur v) afm, afm.urn)
  | .where_ v => (.where_ (liftVal cur v), cur)
  | .override nu nn c => (.override cur nu nn c, nu.getD cur)

def liftFiltersC : String → List (DFilter D) → List (RFilter D)
  | _, [] => []
  | cur, f :: fs => (liftFilterC cur f).1 :: liftFiltersC (liftFilterC cur f).2 fs

/-- the urn of the single field after a datasource-package filter chain -/
def finalUrn : String → List (DFilter D) → String
  | cur, [] => cur
  | cur, f :: fs => finalUrn (liftFilter cur f).2 fs

/-- relational joins on the timestamp (every source has distinct, increasing timestamps) -/
def lookupTs (t : Int) (rows : List (Row D)) : Option (Row D) := rows.find? (fun r => r.ts == t)

def insertSorted (t : Int) : List Int → List Int
  | [] => [t]
  | a :: r => if t < a then t :: a :: r else if t == a then a :: r else a :: insertSorted t r

def unionTs (tables : List (List (Row D))) : List Int :=
  (tables.map fun l => l.map (·.ts)).flatten.foldl (fun acc t => insertSorted t acc) []

def padded (w : Nat) : Option (Row D) → List (Val D)
  | some r => r.vals
  | none => List.replicate w .nil

def joinTables (jt : JoinType) (tables : List (List FieldMeta × List (Row D))) : List (Row D) :=
  match tables with
  | [] => []
  | first :: others =>
    match jt with
    | .inner =>
      first.2.filterMap fun r =>
        if others.all (fun o => (lookupTs r.ts o.2).isSome) then
          some { ts := r.ts, vals := r.vals ++ (others.map fun o => padded o.1.length (lookupTs r.ts o.2)).flatten }
        else none
    | .left =>
      first.2.map fun r =>
        { ts := r.ts, vals := r.vals ++ (others.map fun o => padded o.1.length (lookupTs r.ts o.2)).flatten }
    | .full =>
      (unionTs (tables.map (·.2))).map fun t =>
        { ts := t, vals := (tables.map fun o => padded o.1.length (lookupTs t o.2)).flatten }

def joinMetasRef (jt : JoinType) (tables : List (List FieldMeta)) : Option (List FieldMeta) :=
  let all := tables.flatten
  let urns : List String := all.map (·.urn)
  if !decide urns.Nodup then none
  else
    let n := tables.length
    some ((tables.zipIdx.map fun p =>
      let nullable := (jt == .full && n > 1) || (jt == .left && p.2 > 0)
      if nullable then p.1.map fun m => { m with required := false } else p.1).flatten)

mutual
  /-- reference semantics of a report datasource over [from_, to) -/
  def semR (fixD22 : Bool) (from_ to : Int) : RDs D → RRes D
    | .static metas rows =>
      if metas.isEmpty || !decide (metas.map (·.urn)).Nodup then none
      else some (metas, some (rows.filter fun r => decide (from_ ≤ r.ts ∧ r.ts < to)))
    | .filtered ds fs => (semR fixD22 from_ to ds).bind (filtersR O fixD22 fs)
    | .xfiltered _ _ => none            -- stream filters (aligner) are outside the reference semantics (C13/C16 own them)
    | .join jt srcs =>
      (semRL fixD22 from_ to srcs).bind fun results =>
        (joinMetasRef jt (results.map (·.1))).map fun metas =>
          (metas, (results.mapM fun (r : List FieldMeta × Option (List (Row D))) =>
            r.2.map fun rows => (r.1, rows)).map (joinTables jt))
    | .fromDs ds => semD fixD22 from_ to ds
  def semRL (fixD22 : Bool) (from_ to : Int) : RDsL D → Option (List (List FieldMeta × Option (List (Row D))))
    | .nil => some []
    | .cons d l => (semR fixD22 from_ to d).bind fun r => (semRL fixD22 from_ to l).map (r :: ·)
  /-- reference semantics of a datasource-package datasource, as a one-field table -/
  def semD (fixD22 : Bool) (from_ to : Int) : DDs D → RRes D
    | .static fm rows =>
      some ([fm], some ((rows.filter fun r => decide (from_ ≤ r.ts ∧ r.ts < to)).map fun r => { ts := r.ts, vals := [r.val] }))
    | .filtered ds fs =>
      (semD fixD22 from_ to ds).bind fun res =>
        match res.1 with
        | [fm] => filtersR O true (liftFilters fm.urn fs) res
        | _ => none
    | .xfiltered _ _ => none            -- stream filters (aligner / delta / rate): C13, C15, C16 own them
    | .reduction _ _ _ _ _ => none      -- the reduction datasource is outside the reference semantics (C14 owns it)
    | .fromReport r urn =>
      (semR fixD22 from_ to r).bind fun res =>
        (res.1.findIdx? (fun m => m.urn == urn)).bind fun idx =>
          (res.1[idx]?).map fun fm =>
            ([fm], res.2.map fun rows => rows.map fun row => { ts := row.ts, vals := [(row.vals[idx]?).getD .nil] })
end

/- does the tree contain a reduction datasource or a stream filter (aligner / delta / rate) — the constructors that
are not covered by the reference semantics? -/
mutual
  def hasReductionR : RDs D → Bool
    | .static _ _ => false
    | .filtered ds _ => hasReductionR ds
    | .xfiltered _ _ => true
    | .join _ srcs => hasReductionRL srcs
    | .fromDs ds => hasReductionD ds
  def hasReductionRL : RDsL D → Bool
    | .nil => false
    | .cons d l => hasReductionR d || hasReductionRL l
  def hasReductionD : DDs D → Bool
    | .static _ _ => false
    | .filtered ds _ => hasReductionD ds
    | .xfiltered _ _ => true
    | .reduction _ _ _ _ _ => true
    | .fromReport r _ => hasReductionR r
end

end tables

end ShpanVerif.Model.Query.Ref
