/-
Lifecycle model of the sorted-stream joins over the probe world of `PipeBase.lean` (C01 / C03 for joins).  Stand-alone:
it shares only the probe world (`World`, `openRes`, `emitRes`, `closeRes`, `userCall`, `Res`, fault plans), the terminal's
vocabulary (`Consumer`, `recovered`, `hitRes`, `castRes`, `noErr`, `limOff`) and the error classes of the C09 model
(`Join.JErr`).

Pipelines covered:

    terminal( [Limit k]( Join( probe source r0 over xs0 , probe source r1 over xs1 [, …] ) ) )

Two layers.

(1) *The frame* — what `newUnsafeStream` / `NewDownMultiStream` and the terminal do around ANY emit function:
    open all inputs in index order, roll back (close the opened ones in reverse order) when an Open fails or panics,
    close the still-open ones in reverse order when the terminal returns, `Limit`, `ConsumeWithErrAndCtx`.
    The emit function is a parameter: a *program* `Prog σ` over the operations an emit function of a multi-input operator
    can perform on the world: check the context, pull input `i`, invoke a user callback, return a row / EOF / an error.
    `runW` interprets a program in the probe world (pulls are `emitRes` call positions, the callback is a `userCall`
    call position); `runL` interprets it over plain lists (no world) — the tie to the C09 model.

(2) *The programs* — the emit functions of the joins, written line by line as programs:
    `join2`     stream/join_stream.go:43-131         JoinSortedStreams
    `leftJoin2` stream/left_join_stream.go:45-146    LeftJoinSortedStreams
    `joinN`     stream/join_multiple_streams.go:39-145   JoinMultipleSortedStreams (N-way inner; `joiner` = call position)
    Every effect node of a program carries the values of the captured variables at that moment (`s`): that is the state the
    operator object keeps when the emit function returns there with a failure.

Go sources mirrored (file:line of the current tree):
  stream/join_stream.go:15-28, left_join_stream.go:16-30   addStreamUnsafe ×2, captured variables (`J2`)
  stream/join_stream.go:29-42 = left_join_stream.go:31-44   open func: openSubStreamUnsafe 0, then 1 (`openIns`)
  stream/down_multiple_streams.go:13-42                     NewDownMultiStream: addStreamUnsafe per input, open func opens
                                                            them in index order, simple provider's Open/Close are no-ops
  stream/unsafe_stream_provider.go:25-52                    openSubStreamUnsafe: doOpenStream; failure = `nil, err`, nothing recorded
  stream/unsafe_stream_provider.go:81-113                   closeFunc: streamOpenOrder in reverse, builder restored (`closeFunc`)
  stream/unsafe_stream_provider.go:118-140                  lifecycle Open: roll-back on error AND on panic (`openC`)
  stream/shpan_stream.go:99-153                             ConsumeWithErrAndCtx (`pullLoopJ`, `consumeJ`)
  stream/paging.go:9-27                                     Limit (`emitT`; `Limit(n ≤ 0)` = Empty: no lifecycle element at all)

Representation choices (none changes behaviour):
* a probe source keeps `rest = xs[idx:]`; Open and Close reset it (`rest := xs`), as the harness probe does;
* the inputs are opened in index order, so `streamOpenOrder = [0, …, opened-1]` and the builder state that matters is `opened`;
* a `for` loop of an emit function is a function on `fuel`; running out yields `oof`, propagated unchanged, never handled;
* keys are `Int`, `comparator(a,b) < 0` ⇔ `kf a < kf b` with one key function `kf` for all inputs; values are `Int`, Go's zero
  value of KEY / R is `0`;
* `JoinMultipleSortedStreams` over zero inputs is `Empty()` (join_multiple_streams.go:24-26) and is not modelled (N ≥ 1).
-/
import ShpanVerif.Model.PipeDyn
import ShpanVerif.Model.Join

namespace ShpanVerif.Model.JoinLife
open ShpanVerif.Model.Pipe
open ShpanVerif.Model.PipeDyn (hitRes castRes noErr limOff)
open ShpanVerif.Model.Join (JErr)

/-- a delivered row: one slot per input (`none` = nil) -/
abbrev Row := List (Option Int)

/-- a probe source `stream.NewStream(probe r)` over `xs`; `rest = xs[idx:]` -/
structure Inp where
  r : Nat
  xs : List Int
  rest : List Int
  deriving DecidableEq, Repr

/-- error class of a sortedness error -/
def errTag : JErr → String
  | .leftUnsorted => "left-unsorted"
  | .rightUnsorted => "right-unsorted"
  | .streamUnsorted _ => "stream-unsorted"
  | .fuel => "fuel"

/-! ### programs: what an emit function can do -/

/-- an emit function of a multi-input operator, as a tree of its effects; `σ` = the captured variables, every node carries
    their values at that moment -/
inductive Prog (σ : Type) where
  /-- `return row, nil` -/
  | ret (row : Row) (s : σ)
  /-- `return _, io.EOF` -/
  | eof (s : σ)
  /-- `return _, fmt.Errorf(…)` -/
  | fail (e : JErr) (s : σ)
  /-- a loop ran out of fuel (model artefact) -/
  | oof (s : σ)
  /-- `if ctx.Err() != nil { return _, ctx.Err() }` -/
  | ctx (s : σ) (k : Prog σ)
  /-- `v, err := srcProviders[i](ctx)`: a value (`some v`) or `io.EOF` (`none`) goes on; any other error is returned as is -/
  | pull (i : Nat) (s : σ) (k : Option Int → Prog σ)
  /-- a user callback that cannot return an error (the joiner) -/
  | call (s : σ) (k : Prog σ)

/-- the provider function of input `i` (a probe source): `Emit` is a call position -/
def pullAt (i : Nat) (ins : List Inp) (w : World) : Res Int × List Inp × World :=
  match ins[i]? with
  | none => (.fail (.lib "no-such-input"), ins, w)          -- not reached by the join programs
  | some p =>
    match emitRes p.r w with
    | (.none, w) =>
      match p.rest with
      | y :: rest => (.val y, ins.set i { p with rest := rest }, w)
      | [] => (.eof, ins, w)
    | (h, w) => (hitRes h, ins, w)

/-- a program in the probe world -/
def runW {σ : Type} : Prog σ → List Inp → World → Res Row × σ × List Inp × World
  | .ret row s, ins, w => (.val row, s, ins, w)
  | .eof s, ins, w => (.eof, s, ins, w)
  | .fail e s, ins, w => (.fail (.lib (errTag e)), s, ins, w)
  | .oof s, ins, w => (.oof, s, ins, w)
  | .ctx s k, ins, w => if w.cancelled then (.fail .ctx, s, ins, w) else runW k ins w
  | .pull i s k, ins, w =>
    match pullAt i ins w with
    | (.val v, ins, w) => runW (k (some v)) ins w
    | (.eof, ins, w) => runW (k none) ins w
    | (res, ins, w) => (castRes res, s, ins, w)
  | .call s k, ins, w =>
    match userCall w with
    | (.none, w) => runW k ins w
    | (h, w) => (hitRes (noErr h), s, ins, w)

/-- result of a program over plain lists -/
inductive LRes (σ : Type) where
  | row (v : Row) (s : σ) (ls : List (List Int))
  | eof (s : σ) (ls : List (List Int))
  | err (e : JErr) (s : σ) (ls : List (List Int))
  | oof
  | noInput

/-- the same program over plain lists: no world, no context, callbacks do nothing (`ls[i]` = what input `i` has left) -/
def runL {σ : Type} : Prog σ → List (List Int) → LRes σ
  | .ret row s, ls => .row row s ls
  | .eof s, ls => .eof s ls
  | .fail e s, ls => .err e s ls
  | .oof _, _ => .oof
  | .ctx _ k, ls => runL k ls
  | .pull i _ k, ls =>
    match ls[i]? with
    | none => .noInput
    | some [] => runL (k none) ls
    | some (y :: rest) => runL (k (some y)) (ls.set i rest)
  | .call _ k, ls => runL k ls

/-! ### the frame: builder, lifecycle, Limit, terminal -/

/-- the operator object: the inputs, the builder (`opened = len(streamOpenOrder)`), the captured variables -/
structure Obj (σ : Type) where
  ins : List Inp
  opened : Nat
  js : σ

/-- the open func: `openSubStreamUnsafe(ctx, b, i)` for i = 0, 1, …; stops at the first failure.  Returns how many were
    opened.  (down_multiple_streams.go:26-33, join_stream.go:31-40) -/
def openIns : List Inp → World → Res Unit × List Inp × Nat × World
  | [], w => (.val (), [], 0, w)
  | p :: ps, w =>
    match openRes p.r w with
    | (.val _, w) =>
      match openIns ps w with
      | (res, ps, n, w) => (res, { p with rest := p.xs } :: ps, n + 1, w)       -- probe Open: idx = 0
    | (res, w) => (castRes res, p :: ps, 0, w)

/-- closeFunc's loop: the first `n` inputs (= `streamOpenOrder`) in reverse order -/
def closeIns : Nat → List Inp → World → List Inp × World
  | 0, ps, w => (ps, w)
  | _+1, [], w => ([], w)
  | n+1, p :: ps, w =>
    match closeIns n ps w with
    | (ps, w) => ({ p with rest := p.xs } :: ps, closeRes p.r w)               -- probe Close: idx = 0

/-- closeFunc of newUnsafeStream: the open sub streams in reverse order of opening; the builder goes back to its snapshot -/
def closeFunc {σ : Type} (c : Obj σ) (w : World) : Obj σ × World :=
  match closeIns c.opened c.ins w with
  | (ins, w) => ({ c with ins := ins, opened := 0 }, w)

/-- the lifecycle Open of the unsafe stream: on an error or a panic of the open func, closeFunc, then propagate -/
def openC {σ : Type} (c : Obj σ) (w : World) : Res Unit × Obj σ × World :=
  match openIns c.ins w with
  | (.val _, ins, n, w) => (.val (), { c with ins := ins, opened := n }, w)
  | (res, ins, n, w) =>
    match closeIns n ins w with
    | (ins, w) => (res, { c with ins := ins, opened := 0 }, w)

/-- the provider function of the join: the emit function on the captured variables -/
def emitJ {σ : Type} (prog : σ → Prog σ) (c : Obj σ) (w : World) : Res Row × Obj σ × World :=
  match runW (prog c.js) c.ins w with
  | (res, s, ins, w) => (res, { c with ins := ins, js := s }, w)

/-- the provider of `[Limit n](Join …)`; `consumed` = alreadyConsumed (starts at 1) -/
def emitT {σ : Type} (prog : σ → Prog σ) (lim : Option Int) (consumed : Int) (c : Obj σ) (w : World) :
    Res Row × Obj σ × World :=
  match lim with
  | none => emitJ prog c w
  | some n => if consumed > n then (.eof, c, w) else emitJ prog c w

/-- pull loop of ConsumeWithErrAndCtx (`acc` reversed) -/
def pullLoopJ {σ : Type} (prog : σ → Prog σ) : Nat → Consumer → Option Int → Int → Obj σ → List Row → World →
    Res Unit × List Row × Obj σ × World
  | 0, _, _, _, c, acc, w => (.oof, acc, c, w)
  | fuel+1, k, lim, consumed, c, acc, w =>
    if w.cancelled then (.fail .ctx, acc, c, w)
    else
      match emitT prog lim consumed c w with
      | (.val v, c, w) =>
        match k with
        | .collect => pullLoopJ prog fuel k lim (consumed + 1) c (v :: acc) w
        | .user =>
          match userCall w with
          | (.none, w) => pullLoopJ prog fuel k lim (consumed + 1) c (v :: acc) w
          | (h, w) => (hitRes h, acc, c, w)
      | (.eof, c, w) => (.val (), acc, c, w)
      | (res, c, w) => (castRes res, acc, c, w)

inductive JOutcome where
  | ok (delivered : List Row)
  | err (e : Root) (delivered : List Row)
  | oof
  deriving DecidableEq, Repr

def JOutcome.delivered : JOutcome → List Row
  | .ok d => d
  | .err _ d => d
  | .oof => []

/-- what the terminal returns for the way its pull loop ended -/
def outcomeOf : Res Unit → List Row → JOutcome
  | .val _, acc => .ok acc.reverse
  | .eof, acc => .ok acc.reverse
  | .fail e, acc => .err e acc.reverse
  | .panic b, acc => .err (recovered b) acc.reverse
  | .oof, _ => .oof

/-- `[Limit lim](Join …).ConsumeWithErrAndCtx`: recover; doOpenStream; deferred close (only when the open succeeded);
    pull loop.  `Limit(n ≤ 0)` = `Empty()` has no lifecycle element: only the loop's ctx check is left. -/
def consumeJ {σ : Type} (prog : σ → Prog σ) (fuel : Nat) (k : Consumer) (lim : Option Int) (c : Obj σ) (w : World) :
    JOutcome × Obj σ × World :=
  if limOff lim then
    (if w.cancelled then .err .ctx [] else .ok [], c, w)
  else
    match openC c w with
    | (.val _, c, w) =>
      match pullLoopJ prog fuel k lim 1 c [] w with
      | (.oof, _, c, w) => (.oof, c, w)
      | (res, acc, c, w) => match closeFunc c w with | (c, w) => (outcomeOf res acc, c, w)
    | (.fail e, c, w) => (.err e [], c, w)                  -- "failed to open stream: %w"
    | (.panic b, c, w) => (.err (recovered b) [], c, w)    -- recovered; the roll-back has closed everything
    | (_, c, w) => (.oof, c, w)

/-- a freshly constructed join over probe sources `(r, xs)` -/
def Obj.mk0 {σ : Type} (srcs : List (Nat × List Int)) (s0 : σ) : Obj σ :=
  { ins := srcs.map (fun p => { r := p.1, xs := p.2, rest := p.2 }), opened := 0, js := s0 }

/-! ### the two-stream joins -/

/-- captured variables of `JoinSortedStreams` / `LeftJoinSortedStreams` (join_stream.go:19-25, left_join_stream.go:19-27) -/
structure J2 where
  firstElement : Bool := true
  rightDone : Bool := false          -- `rightStreamIsDone`, left join only
  lastLeftKey : Int := 0
  lastRightKey : Int := 0
  lastRightValue : Int := 0
  deriving DecidableEq, Repr

section two
variable (kf : Int → Int)

/-- join_stream.go:85-104 = left_join_stream.go:101-128: `for comparator(leftKey, lastRightKey) > 0 { ctx; pull right;
    sortedness }`.  `onEof`: what the caller does with the right stream's EOF; `k`: after the loop. -/
def advR (onEof k : J2 → Prog J2) (lk : Int) : Nat → J2 → Prog J2
  | 0, s => .oof s
  | n+1, s =>
    if lk > s.lastRightKey then
      .ctx s (.pull 1 s fun
        | none => onEof s
        | some rv =>
          if kf rv < s.lastRightKey then .fail .rightUnsorted s
          else advR onEof k lk n { s with lastRightValue := rv, lastRightKey := kf rv })
    else k s

/-- join_stream.go:92-95: the right stream's EOF ends the join -/
def eofK (s : J2) : Prog J2 := .eof s

/-- join_stream.go:119-129: the answer of the next left pull; `again` = the next round of the outer `for` -/
def joinPull (again : Int → J2 → Prog J2) (s : J2) : Option Int → Prog J2
  | none => .eof s
  | some lv' =>
    if kf lv' < s.lastLeftKey then .fail .leftUnsorted s                       -- :126-128
    else again lv' { s with lastLeftKey := kf lv' }                            -- :129

/-- join_stream.go:106-129: after the inner loop -/
def joinK (again : Int → J2 → Prog J2) (lv : Int) (s : J2) : Prog J2 :=
  if s.lastLeftKey == s.lastRightKey then .ret [some lv, some s.lastRightValue] s      -- :107-112
  else .ctx s (.pull 0 s (joinPull kf again s))                                  -- :116-119

/-- join_stream.go:83-130, the outer `for`; `lv` = leftValue, `s.lastLeftKey` = leftKey.  `F` = fuel of the inner loop. -/
def joinLoop (F : Nat) : Nat → Int → J2 → Prog J2
  | 0, _, s => .oof s
  | n+1, lv, s => advR kf eofK (joinK kf (joinLoop F n) lv) s.lastLeftKey F s

/-- join_stream.go:43-131, one call of the provider function -/
def join2 (F : Nat) (s : J2) : Prog J2 :=
  .ctx s (.pull 0 s fun                                                        -- :45-50
    | none => .eof s
    | some lv =>
      if s.firstElement then                                                   -- :58
        .ctx s (.pull 1 s fun                                                  -- :60-64
          | none => .eof s
          | some rv =>                                                         -- :70-72, :80
            joinLoop kf F F lv { s with lastRightValue := rv, lastRightKey := kf rv, firstElement := false,
                                        lastLeftKey := kf lv })
      else if kf lv < s.lastLeftKey then .fail .leftUnsorted s                 -- :75-77
      else joinLoop kf F F lv { s with lastLeftKey := kf lv })

/-- left_join_stream.go:88-146: after the first-element block (`s.lastLeftKey` = leftKey) -/
def leftFin (F : Nat) (lv : Int) (s : J2) : Prog J2 :=
  if s.rightDone then .ret [some lv, none] s                                   -- :91-96
  else
    advR kf (fun s => .ret [some lv, none] { s with rightDone := true })       -- :109-116
      (fun s =>
        if s.lastLeftKey == s.lastRightKey then .ret [some lv, some s.lastRightValue] s     -- :131-137
        else .ret [some lv, none] s)                                           -- :140-143
      s.lastLeftKey F s

/-- left_join_stream.go:45-146, one call of the provider function -/
def leftJoin2 (F : Nat) (s : J2) : Prog J2 :=
  .ctx s (.pull 0 s fun                                                        -- :47-52
    | none => .eof s
    | some lv =>
      if s.firstElement then                                                   -- :60
        let s1 := { s with firstElement := false }                             -- :61
        .ctx s1 (.pull 1 s1 fun                                                -- :64-68
          | none => leftFin kf F lv { s1 with rightDone := true, lastLeftKey := kf lv }     -- :71-72
          | some rv => leftFin kf F lv { s1 with lastRightValue := rv, lastRightKey := kf rv, lastLeftKey := kf lv })
      else if kf lv < s.lastLeftKey then .fail .leftUnsorted s                 -- :83-85
      else leftFin kf F lv { s with lastLeftKey := kf lv })

end two

/-! ### the N-way inner join -/

/-- `joinMultipleSortedStreamsProvider`: `nextBuffer` (nil ⇔ `inited = false`), `lastKeys` -/
structure NS where
  inited : Bool := false
  bufs : List (Option Int) := []
  lasts : List (Option Int) := []
  deriving DecidableEq, Repr

section multi
variable (kf : Int → Int)

/-- join_multiple_streams.go:45-56: the first call pulls every input once (EOF leaves the slot empty) -/
def initLoop (k : NS → Prog NS) : Nat → Nat → NS → Prog NS
  | 0, _, s => k s
  | m+1, i, s =>
    .ctx s (.pull i s fun
      | none => initLoop k m (i + 1) s
      | some v => initLoop k m (i + 1) { s with bufs := s.bufs.set i (some v) })

/-- :63-78: pull into every empty slot; EOF of any input ends the join -/
def refill (k : NS → Prog NS) : Nat → Nat → NS → Prog NS
  | 0, _, s => k s
  | m+1, i, s =>
    match s.bufs.getD i none with
    | some _ => refill k m (i + 1) s
    | none =>
      .ctx s (.pull i s fun
        | none => .eof s
        | some v => refill k m (i + 1) { s with bufs := s.bufs.set i (some v) })

/-- :86-92: index of the first input whose buffered element is below its `lastKeys` entry -/
def firstUnsorted : Nat → List (Option Int) → List (Option Int) → Option Nat
  | i, some b :: bs, some p :: ps => if kf b < kf p then some i else firstUnsorted (i + 1) bs ps
  | i, _ :: bs, _ :: ps => firstUnsorted (i + 1) bs ps
  | _, _, _ => none

/-- :126-143: every input strictly behind the maximum is advanced by one element -/
def advance (mx : Int) (k : NS → Prog NS) : Nat → Nat → NS → Prog NS
  | 0, _, s => k s
  | m+1, i, s =>
    match s.bufs.getD i none with
    | some b =>
      if kf b < mx then
        .ctx s (.pull i s fun
          | none => .eof s
          | some v => advance mx k m (i + 1) { s with lasts := s.lasts.set i (some b), bufs := s.bufs.set i (some v) })
      else advance mx k m (i + 1) s
    | none => advance mx k m (i + 1) s                        -- not reached: every slot is filled here

/-- :61-144, the `for` loop of `emitJoin`; `N` = number of inputs -/
def mainLoop (N : Nat) : Nat → NS → Prog NS
  | 0, s => .oof s
  | f+1, s =>
    refill (fun s =>
      .ctx s (                                                                  -- :81-83
        match firstUnsorted kf 0 s.bufs s.lasts with                            -- :86-92
        | some i => .fail (.streamUnsorted i) s
        | none =>
          let vals := s.bufs.filterMap id
          match Join.maxKey (vals.map kf) with                                  -- :95-100
          | none => .eof s                                                      -- not reached (N ≥ 1, every slot filled)
          | some mx =>
            if (vals.map kf).all (fun k => k == mx) then                        -- :103-109
              -- :111-118 values collected, lastKeys[i] = nextBuffer[i], slots cleared; :121 the joiner
              let s' := { s with lasts := s.bufs, bufs := s.bufs.map (fun _ => none) }
              .call s' (.ret (vals.map some) s')
            else advance kf mx (fun s => mainLoop N f s) N 0 s)) N 0 s

/-- `joinMultipleSortedStreamsProvider.emitJoin` -/
def joinN (N F : Nat) (s : NS) : Prog NS :=
  if s.inited then mainLoop kf N F s
  else
    -- :42-44 `make`: from here on `nextBuffer != nil`, whatever happens in the loop
    initLoop (mainLoop kf N F) N 0 { inited := true, bufs := List.replicate N none, lasts := List.replicate N none }

end multi

end ShpanVerif.Model.JoinLife
