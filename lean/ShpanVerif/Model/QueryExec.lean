/-
Model of tsquery, part 2: filters, datasources, joins, the aligner used by the reduction datasource, and the
`Execute` of whole query trees of both packages.

A result stream is the list of its pull results: `some row` = a delivered record, `none` = a pull that failed
(error or recovered panic).  Consumption by the terminal stops at the first `none` (`collect`).
-/
import ShpanVerif.Model.Query
import ShpanVerif.Model.Delta
import ShpanVerif.Model.Period

namespace ShpanVerif.Model.Query

structure Row (D : Type) where
  ts : Int
  vals : List (Val D)
  deriving Repr, Inhabited

/-- `timeseries.TsRecord[any]` -/
structure DRec (D : Type) where
  ts : Int
  val : Val D
  deriving Repr, Inhabited

abbrev RStream (D : Type) := List (Option (Row D))
abbrev DStream (D : Type) := List (Option (DRec D))
abbrev RResult (D : Type) := List FieldMeta × RStream D
abbrev DResult (D : Type) := FieldMeta × DStream D

/-- what `Collect` returns: the rows, or `none` if some pull failed before the end -/
def collect {α : Type} : List (Option α) → Option (List α)
  | [] => some []
  | none :: _ => none
  | some a :: r => (collect r).map (a :: ·)

/-! ## filters of package `report` -/

inductive RFilter (D : Type)
  | append (v : RVal D) (afm : AddFieldMeta)
  | drop (urns : List String)
  | select (fs : List (RVal D × AddFieldMeta))
  | replace (urn : String) (v : RVal D) (afm : AddFieldMeta)
  | single (v : RVal D) (afm : AddFieldMeta)
  | override (fieldUrn : String) (newUrn newUnit : Option String) (custom : CustomMeta)
  | where_ (v : RVal D)
  deriving Repr, Inhabited

inductive DFilter (D : Type)
  | fval (v : DVal D) (afm : AddFieldMeta)
  | where_ (v : DVal D)
  | override (newUrn newUnit : Option String) (custom : CustomMeta)
  deriving Repr, Inhabited

section filters
variable {D : Type} (O : Ops D)

def mapRows (f : Row D → Option (Row D)) (s : RStream D) : RStream D := s.map (·.bind f)
def mapRecs (f : DRec D → Option (DRec D)) (s : DStream D) : DStream D := s.map (·.bind f)

/-- `FilterWithErAndCtx` with a predicate that may fail -/
def whereStream {α : Type} (p : α → Option (Val D)) (s : List (Option α)) : List (Option α) :=
  s.filterMap fun e =>
    match e with
    | none => some none
    | some r =>
      match p r with
      | some (.bool true) => some (some r)
      | some (.bool false) => none
      | _ => some none            -- supplier failed, or `conditionValue.(bool)` panicked

/-- append_field_report_filter.go:23-49 -/
def appendF (v : RVal D) (afm : AddFieldMeta) (res : RResult D) : Except PlanErr (RResult D) :=
  match planRVal O v res.1 >>= prepareK afm with
  | .error e => .error e
  | .ok (fm, fn) =>
    if hasField res.1 afm.urn then .error .appendDup
    else .ok (res.1 ++ [fm],
      mapRows (fun r => (fn r.vals).map fun x => { r with vals := r.vals ++ [x] }) res.2)

/-- drop_fields_filter.go:17-77 (the urns are a set) -/
def dropF (urns : List String) (res : RResult D) : Except PlanErr (RResult D) :=
  let set := urns.eraseDups
  let keep := res.1.zipIdx.filter fun p => !set.contains p.1.urn
  let found := (res.1.filter fun m => set.contains m.urn).length
  if keep.isEmpty then .error .dropAll
  else if found != set.length then .error .dropMissing
  else .ok (keep.map (·.1),
    mapRows (fun r => (keep.mapM fun p => r.vals[p.2]?).map fun vs => { r with vals := vs }) res.2)

/-- the planning loop of select_fields_report_filter.go:23-57 -/
def selectPlan (fms : List FieldMeta) :
    List (RVal D × AddFieldMeta) → List String → List FieldMeta →
      Except PlanErr (List FieldMeta × List (RowFn (List (Val D)) D))
  | [], _, nm => .ok (nm, [])
  | (v, afm) :: rest, seen, nm =>
    if seen.contains afm.urn then .error .selectDup
    else match planRVal O v (fms ++ nm) >>= prepareK afm with
      | .error e => .error e
      | .ok (fm, fn) =>
        match selectPlan fms rest (afm.urn :: seen) (nm ++ [fm]) with
        | .error e => .error e
        | .ok (metas, fns) => .ok (metas, fn :: fns)

/-- the row loop of select_fields_report_filter.go:60-76: every supplier sees the fields appended so far -/
def selectRow : List (RowFn (List (Val D)) D) → List (Val D) → Option (List (Val D))
  | [], cur => some cur
  | fn :: fns, cur => (fn cur).bind fun x => selectRow fns (cur ++ [x])

def selectF (fs : List (RVal D × AddFieldMeta)) (res : RResult D) : Except PlanErr (RResult D) :=
  if fs.isEmpty then .error .selectEmpty
  else match selectPlan O res.1 fs [] [] with
    | .error e => .error e
    | .ok (metas, fns) =>
      .ok (metas, mapRows (fun r =>
        (selectRow fns r.vals).map fun cur => { r with vals := cur.drop r.vals.length }) res.2)

/-- replace_field_report_filter.go:23-72 -/
def replaceF (urn : String) (v : RVal D) (afm : AddFieldMeta) (res : RResult D) : Except PlanErr (RResult D) :=
  match findField urn res.1 with
  | none => .error .replaceMissing
  | some (_, idx) =>
    match planRVal O v res.1 >>= prepareK afm with
    | .error e => .error e
    | .ok (fm, fn) =>
      -- the replacing field must not collide with another existing field (fix 946fce4)
      if fm.urn ≠ urn ∧ hasField res.1 fm.urn then .error .replaceDup
      else .ok (res.1.set idx fm,
        mapRows (fun r => (fn r.vals).bind fun x =>
          if idx < r.vals.length then some { r with vals := r.vals.set idx x } else none) res.2)

/-- single_field_report_filter.go:24-45 -/
def singleF (v : RVal D) (afm : AddFieldMeta) (res : RResult D) : Except PlanErr (RResult D) :=
  match planRVal O v res.1 >>= prepareK afm with
  | .error e => .error e
  | .ok (fm, fn) => .ok ([fm], mapRows (fun r => (fn r.vals).map fun x => { r with vals := [x] }) res.2)

/-- the new urn of an overridden field: unchanged, or a urn that does not exist yet
(override_field_metadata_report_filter.go:43-52) -/
def overrideUrn (fms : List FieldMeta) (orig : FieldMeta) (newUrn : Option String) : Except PlanErr String :=
  match newUrn with
  | some u => if u ≠ orig.urn then (if hasField fms u then .error .overrideConflict else .ok u) else .ok orig.urn
  | none => .ok orig.urn

/-- override_field_metadata_filter.go:52-56 (datasource twin): the given custom metadata, else the original one -/
def keepCustom (custom : CustomMeta) (orig : FieldMeta) : CustomMeta :=
  match custom with
  | some c => some c
  | none => orig.custom

/-- override_field_metadata_report_filter.go:60-66: the custom metadata is REPLACED; none (or an empty map) given →
none.  `fixD22 = true` is the repaired variant (kept when none is given, as the datasource twin does). -/
def overrideCustom (fixD22 : Bool) (custom : CustomMeta) (orig : FieldMeta) : CustomMeta :=
  if fixD22 then keepCustom custom orig
  else (match custom with
    | some c => if c.length > 0 then some c else none
    | none => none)

/-- override_field_metadata_report_filter.go:29-87.  The code corresponds to `fixD22 = false`. -/
def overrideRF (fixD22 : Bool) (fieldUrn : String) (newUrn newUnit : Option String) (custom : CustomMeta)
    (res : RResult D) : Except PlanErr (RResult D) :=
  match findField fieldUrn res.1 with
  | none => .error .refNotFound
  | some (orig, idx) =>
    match overrideUrn res.1 orig newUrn with
    | .error e => .error e
    | .ok u =>
      match newFieldMeta u orig.dt orig.required (newUnit.getD orig.unit) (overrideCustom fixD22 custom orig) with
      | .error e => .error e
      | .ok fm => .ok (res.1.set idx fm, res.2)

/-- condition_report_filter.go:20-58 -/
def whereRF (v : RVal D) (res : RResult D) : Except PlanErr (RResult D) :=
  match planRVal O v res.1 with
  | .error e => .error e
  | .ok (vm, fn) =>
    if vm.dt ≠ .boolean then .error .whereNonBool
    else if !vm.required then .error .whereOptional
    else .ok (res.1, whereStream (fun r : Row D => fn r.vals) res.2)

def applyRF (fixD22 : Bool) (f : RFilter D) (res : RResult D) : Except PlanErr (RResult D) :=
  match f with
  | .append v afm => appendF O v afm res
  | .drop urns => dropF urns res
  | .select fs => selectF O fs res
  | .replace urn v afm => replaceF O urn v afm res
  | .single v afm => singleF O v afm res
  | .override u nu nn c => overrideRF fixD22 u nu nn c res
  | .where_ v => whereRF O v res

/-- `ApplyFilters` report_filter.go:42-51 -/
def applyRFs (fixD22 : Bool) : List (RFilter D) → RResult D → Except PlanErr (RResult D)
  | [], res => .ok res
  | f :: fs, res => applyRF O fixD22 f res >>= applyRFs fixD22 fs

/-! ## filters of package `datasource` -/

/-- field_value_report_filter.go:27-50 -/
def fvalF (v : DVal D) (afm : AddFieldMeta) (res : DResult D) : Except PlanErr (DResult D) :=
  match planDVal O v res.1 >>= prepareK afm with
  | .error e => .error e
  | .ok (fm, fn) => .ok (fm, mapRecs (fun r => (fn r.val).map fun x => { r with val := x }) res.2)

/-- condition_filter.go:22-61 -/
def whereDF (v : DVal D) (res : DResult D) : Except PlanErr (DResult D) :=
  match planDVal O v res.1 with
  | .error e => .error e
  | .ok (vm, fn) =>
    if vm.dt ≠ .boolean then .error .whereNonBool
    else if !vm.required then .error .whereOptional
    else .ok (res.1, whereStream (fun r : DRec D => fn r.val) res.2)

/-- override_field_metadata_filter.go:38-76 -/
def overrideDF (newUrn newUnit : Option String) (custom : CustomMeta) (res : DResult D) :
    Except PlanErr (DResult D) :=
  match newFieldMeta (newUrn.getD res.1.urn) res.1.dt res.1.required (newUnit.getD res.1.unit)
      (keepCustom custom res.1) with
  | .error e => .error e
  | .ok fm => .ok (fm, res.2)

def applyDF (f : DFilter D) (res : DResult D) : Except PlanErr (DResult D) :=
  match f with
  | .fval v afm => fvalF O v afm res
  | .where_ v => whereDF O v res
  | .override nu nn c => overrideDF nu nn c res

def applyDFs : List (DFilter D) → DResult D → Except PlanErr (DResult D)
  | [], res => .ok res
  | f :: fs, res => applyDF O f res >>= applyDFs fs

end filters

/-! ## sorted-stream joins (`stream/{join,left_join,full_join}_multiple_streams.go`) over streams of pull results.
One source = its look-ahead buffer and the pulls not yet made. The machines are modelled for what decides the
observation: which records are joined and whether a failing pull is reached before the join ends. -/

section joins
variable {α : Type} (key : α → Int)

abbrev Src (α : Type) := Option α × List (Option α)

inductive Step (σ : Type) | done | fail | next (s : σ)

def Step.map {σ τ : Type} (f : σ → τ) : Step σ → Step τ
  | .done => .done
  | .fail => .fail
  | .next s => .next (f s)

/-- first call: pull every source once, EOF tolerated (all three machines) -/
def initSrcs : List (List (Option α)) → Option (List (Src α))
  | [] => some []
  | [] :: ss => (initSrcs ss).map ((none, []) :: ·)
  | (some a :: t) :: ss => (initSrcs ss).map ((some a, t) :: ·)
  | (none :: _) :: _ => none

/-- inner join: refill empty buffers in order; an exhausted source ends the join (join_multiple_streams.go:64-80) -/
def refillInner : List (Src α) → Step (List (Src α))
  | [] => .next []
  | (some a, r) :: ss => (refillInner ss).map ((some a, r) :: ·)
  | (none, []) :: _ => .done
  | (none, some a :: t) :: ss => (refillInner ss).map ((some a, t) :: ·)
  | (none, none :: _) :: _ => .fail

/-- advance every source that is behind the maximum key by one pull (join_multiple_streams.go:125-143) -/
def advanceBehind (mx : Int) : List (Src α) → Step (List (Src α))
  | [] => .next []
  | (some a, r) :: ss =>
    if key a < mx then
      match r with
      | [] => .done
      | some b :: t => (advanceBehind mx ss).map ((some b, t) :: ·)
      | none :: _ => .fail
    else (advanceBehind mx ss).map ((some a, r) :: ·)
  | (none, r) :: ss => (advanceBehind mx ss).map ((none, r) :: ·)

def maxKey : List α → Int → Int
  | [], m => m
  | a :: r, m => maxKey r (if key a > m then key a else m)

def innerLoop : Nat → List (Src α) → List (Option (List α))
  | 0, _ => []
  | fuel + 1, st =>
    match refillInner st with
    | .done => []
    | .fail => [none]
    | .next st =>
      let heads := st.filterMap (·.1)
      match heads with
      | [] => []
      | h :: hs =>
        let mx := maxKey key hs (key h)
        if heads.all (fun a => key a == mx) then
          some heads :: innerLoop fuel (st.map fun s => (none, s.2))
        else
          match advanceBehind key mx st with
          | .done => []
          | .fail => [none]
          | .next st' => innerLoop fuel st'

def totalLen (srcs : List (List (Option α))) : Nat := (srcs.map List.length).sum

/-- `JoinMultipleSortedStreams` -/
def innerJoin (srcs : List (List (Option α))) : List (Option (List α)) :=
  if srcs.isEmpty then []
  else match initSrcs srcs with
    | none => [none]
    | some st => innerLoop key (2 * totalLen srcs + 2) st

/-- left join: advance another source while its key is below the left key (left_join_multiple_streams.go:88-108) -/
def advanceTo (k : Int) (b : α) : List (Option α) → Option (Src α)
  | [] => if key b < k then some (none, []) else some (some b, [])
  | p :: t =>
    if key b < k then
      match p with
      | some v => advanceTo k v t
      | none => none
    else some (some b, p :: t)

def leftOthers (k : Int) : List (Src α) → Option (List (Src α))
  | [] => some []
  | (none, r) :: ss => (leftOthers k ss).map ((none, r) :: ·)
  | (some b, r) :: ss =>
    match advanceTo key k b r with
    | none => none
    | some s => (leftOthers k ss).map (s :: ·)

/-- the buffered record of a source if its key is `k` -/
def matchBuf (k : Int) (s : Src α) : Option α :=
  match s.1 with
  | some b => if key b == k then some b else none
  | none => none

/-- one emitted left-join row for the left record `left`, then the rest of the stream (`loop` on the next state) -/
def leftEmit (loop : List (Src α) → List (Option (α × List (Option α)))) (left : α) (r0' : List (Option α))
    (others : List (Src α)) : List (Option (α × List (Option α))) :=
  match leftOthers key (key left) others with
  | none => [none]
  | some others' => some (left, others'.map (matchBuf key (key left))) :: loop ((none, r0') :: others')

def leftLoop : Nat → List (Src α) → List (Option (α × List (Option α)))
  | 0, _ => []
  | _, [] => []
  | fuel + 1, (some a, r0) :: others => leftEmit key (leftLoop fuel) a r0 others
  | _ + 1, (none, []) :: _ => []
  | fuel + 1, (none, some a :: t) :: others => leftEmit key (leftLoop fuel) a t others
  | _ + 1, (none, none :: _) :: _ => [none]

/-- `LeftJoinMultipleSortedStreams` -/
def leftJoin (srcs : List (List (Option α))) : List (Option (α × List (Option α))) :=
  if srcs.isEmpty then []
  else match initSrcs srcs with
    | none => [none]
    | some st => leftLoop key (totalLen srcs + 2) st

/-- full join: refill empty buffers, EOF tolerated (full_join_multiple_streams.go:64-79) -/
def refillFull : List (Src α) → Option (List (Src α))
  | [] => some []
  | (some a, r) :: ss => (refillFull ss).map ((some a, r) :: ·)
  | (none, []) :: ss => (refillFull ss).map ((none, []) :: ·)
  | (none, some a :: t) :: ss => (refillFull ss).map ((some a, t) :: ·)
  | (none, none :: _) :: _ => none

def minKey : List α → Int → Int
  | [], m => m
  | a :: r, m => minKey r (if key a < m then key a else m)

/-- clear the buffer of a source whose buffered key is `k` -/
def clearMatched (k : Int) (s : Src α) : Src α :=
  match s.1 with
  | some b => if key b == k then (none, s.2) else s
  | none => s

def fullLoop : Nat → List (Src α) → List (Option (List (Option α)))
  | 0, _ => []
  | fuel + 1, st =>
    match refillFull st with
    | none => [none]
    | some st =>
      match st.filterMap (·.1) with
      | [] => []
      | h :: hs =>
        let mn := minKey key hs (key h)
        some (st.map (matchBuf key mn)) :: fullLoop fuel (st.map (clearMatched key mn))

/-- `FullJoinMultipleSortedStreams` -/
def fullJoin (srcs : List (List (Option α))) : List (Option (List (Option α))) :=
  if srcs.isEmpty then []
  else match initSrcs srcs with
    | none => [none]
    | some st => fullLoop key (totalLen srcs + 2) st

end joins

inductive JoinType | inner | left | full
  deriving DecidableEq, Repr, Inhabited

/-! ## the aligner filters (datasource/aligner_filter.go, report/aligner_report_filter.go; fixed AND calendar
alignment periods: `PeriodK`) over `stream.ClusterSortedStream` (one cluster per period; the emit of a cluster has
pulled the whole cluster and the first record of the next one).  Used stand-alone (`DXFilter.align`, `RXFilter.align`)
and by the reduction datasource.  The cluster machine is generic in the record type `α` (`TsRecord[any]` /
`TsRecord[[]any]`) and in the period's `GetStartTime` (a function `S : Int → Int` on UnixNano instants); the gap
filler is generic in `GetEndTime` (`E`). -/

/-- `FixedAlignmentPeriod.GetStartTime` alignment_period.go:105-115 (UTC): round down to a multiple of the period -/
def periodStart (p : Int) (t : Int) : Int := t - t % p

/-- the calendar alignment periods of alignment_period.go:120-183 (`New{Day,Week,Month,Quarter,HalfYear,Year}AlignmentPeriod`) -/
inductive CalUnit | day | week | month | quarter | half | year
  deriving DecidableEq, Repr, Inhabited

/-- the period kind of Model/Period.lean (the functions the C12 theorems are about) -/
def CalUnit.kind : CalUnit → Period.Kind
  | .day => .day
  | .week => .week
  | .month => .month
  | .quarter => .quarter
  | .half => .half
  | .year => .year

/-- the alignment period of an aligner filter: `NewFixedAlignmentPeriod(p ns, UTC)`, or a calendar period in a zone
(the zone = its offset table, Model/Period.lean) -/
inductive PeriodK
  | fixed (p : Int)
  | cal (u : CalUnit) (z : Period.Zone)
  deriving DecidableEq, Repr, Inhabited

/-- `AlignmentPeriod.GetStartTime` on UnixNano instants -/
def PeriodK.start : PeriodK → Int → Int
  | .fixed p, t => periodStart p t
  | .cal u z, t => Period.start u.kind z t

/-- `AlignmentPeriod.GetEndTime` on UnixNano instants (fixed: alignment_period.go:117-119, start + duration) -/
def PeriodK.end_ : PeriodK → Int → Int
  | .fixed p, t => periodStart p t + p
  | .cal u z, t => Period.«end» u.kind z t

/-- an upper bound on the number of periods that END inside a span of `span` nanoseconds (step budget of the gap
filler only): a fixed period lasts `p`; a calendar period ends on a whole second, so it lasts at least one -/
def PeriodK.steps : PeriodK → Int → Nat
  | .fixed p, span => (span / p).toNat
  | .cal _ _, span => (span / Period.NS).toNat

/-- the two laws of C12 the stream machines rely on for their OUTPUT ORDER (Props/C12.lean proves all six for fixed
periods and for calendar periods in every zone with well-behaved period-start midnights): `GetStartTime` is monotone
(the aligner's clusters come out in increasing order) and `t < GetEndTime t` (the gap filler advances) -/
structure PeriodLaws (S E : Int → Int) : Prop where
  mono : ∀ a b, a ≤ b → S a ≤ S b
  lt : ∀ t, t < E t

/-- what a query may assume of its alignment periods: fixed — the duration is positive (`NewFixedAlignmentPeriod`
panics otherwise, alignment_period.go:71-79); calendar — the two laws (they FAIL in zones with a skipped or repeated
period-start midnight: known finding D14) -/
def PeriodK.ok : PeriodK → Prop
  | .fixed p => 0 < p
  | .cal u z => PeriodLaws (Period.start u.kind z) (Period.«end» u.kind z)

/-- the next pull of the source fails -/
def headFails {α : Type} : List (Option α) → Bool
  | none :: _ => true
  | _ => false

section cluster
variable {α : Type} (ts : α → Int)

/-- the skipping loop of cluster_sorted_stream.go:154-173, entered with `nextItem = cur` in the current cluster:
`none` = a failing pull or "cluster stream is not sorted" (:167-169), else
(lastItemOnPreviousCluster, first record of the next cluster if any, remaining pulls) -/
def skipCluster (S : Int → Int) (start : Int) (cur : α) : List (Option α) → Option (α × Option α × List (Option α))
  | [] => some (cur, none, [])
  | none :: _ => none
  | some y :: t =>
    if S (ts y) = start then skipCluster S start y t
    else if S (ts y) < start then none
    else some (cur, some y, t)

/-- what is left after the cluster factory took the FIRST record of the cluster (`FindFirst`, which pulls one more
record, cluster_sorted_stream.go:119-136) and the skipping loop ran -/
def restOfCluster (S : Int → Int) (start : Int) (first : α) : List (Option α) → Option (α × Option α × List (Option α))
  | [] => some (first, none, [])
  | none :: _ => none
  | some r :: t => if S (ts r) = start then skipCluster ts S start r t else some (first, some r, t)

/-- `ClusterSortedStreamComparable(factory, classifier = period start, src)` where the factory is
`mk start lastItemOnPreviousCluster firstItemOfCluster` (aligner_filter.go:44-94 / aligner_report_filter.go:40-90) -/
def alignLoop (mk : Int → Option α → α → Option α) (S : Int → Int) : Nat → Option α → α → List (Option α) → List (Option α)
  | 0, _, _, _ => []
  | fuel + 1, prev, first, rest =>
    let start := S (ts first)
    -- `FindFirst` yields `first` and pulls one more record
    if headFails rest then [none]
    else
      match mk start prev first with
      | none => [none]
      | some out =>
        match restOfCluster ts S start first rest with
        | none => [none]
        | some (_, none, _) => [some out]
        | some (last, some nxt, rest') => some out :: alignLoop mk S fuel (some last) nxt rest'

def alignStreamG (mk : Int → Option α → α → Option α) (S : Int → Int) (s : List (Option α)) : List (Option α) :=
  match s with
  | [] => []
  | none :: _ => [none]
  | some first :: rest => alignLoop ts mk S (s.length + 1) none first rest

end cluster

/-- `timeseries.FillMode` (fill_mode.go); `other` = any other string -/
inductive FillMode | linear | forwardFill | other
  deriving DecidableEq, Repr, Inhabited

/-! ### the gap filler `timeseries.NewTsGapFillerStream` (ts_gap_filler_stream.go) over a stream of pull results;
generic in the record type: `ts`/`val` read a record, `mk` builds `TsRecord{Value, Timestamp}`.  The output ends
at the first failure (`[none]`): nothing after a failed pull is observable. -/
section gapfill
variable {α β : Type} (ts : α → Int) (val : α → β) (mk : Int → β → α)

/-- the advance loop ts_gap_filler_stream.go:51-63: consume points whose timestamp is not after `e`;
`none` = a failing pull; else (prevPoint, nextPoint, remaining pulls) -/
def fillAdvance (e : Int) : Option α → Option α → List (Option α) → Option (Option α × Option α × List (Option α))
  | prev, none, src => some (prev, none, src)
  | prev, some n, [] => if ts n ≤ e then some (some n, none, []) else some (prev, some n, [])
  | prev, some n, none :: t => if ts n ≤ e then none else some (prev, some n, none :: t)
  | prev, some n, some x :: t =>
    if ts n ≤ e then fillAdvance e (some n) (some x) t else some (prev, some n, some x :: t)

/-- the emits of ts_gap_filler_stream.go:33-110 after initialisation; `e` = expectedTs,
`interp target t1 v1 t2 v2` = interpolateFn (`none` = error) -/
def fillLoop (E : Int → Int) (mode : FillMode) (interp : Int → Int → β → Int → β → Option β) :
    Nat → Option α → Option α → Int → List (Option α) → List (Option α)
  | 0, _, _, _, _ => []
  | fuel + 1, prev, next, e, src =>
    match fillAdvance ts e prev next src with
    | none => [none]
    | some (prev', next', src') =>
      let e' := E e                                                   -- ap.GetEndTime(expectedTs)
      match prev' with
      | none => []                                                     -- :77-79 / :107-108
      | some pp =>
        if ts pp = e then                                              -- :66-74 exact match
          some (mk e (val pp)) ::
            (match next' with
             | none => []                                              -- exhausted := true
             | some _ => fillLoop E mode interp fuel prev' next' e' src')
        else
          match next' with
          | none => []                                                 -- :77-79
          | some n =>
            match mode with                                            -- :85-101
            | .linear =>
              match interp e (ts pp) (val pp) (ts n) (val n) with
              | none => [none]
              | some v => some (mk e v) :: fillLoop E mode interp fuel prev' next' e' src'
            | .forwardFill => some (mk e (val pp)) :: fillLoop E mode interp fuel prev' next' e' src'
            | .other => [none]                                         -- "unsupported fill mode"

/-- the largest timestamp delivered by the source (for the step budget only) -/
def maxTs (s : List (Option α)) (m : Int) : Int :=
  s.foldl (fun acc e => match e with
    | some a => if ts a > acc then ts a else acc
    | none => acc) m

/-- `NewTsGapFillerStream(src, period, mode, interp, copy)` for a period with `GetEndTime = E`; the first emit pulls the
first point (:35-43).  The step budget covers every period between the first and the last point (`steps span` = a
bound on the number of periods ending inside a span). -/
def gapFillStream (E : Int → Int) (steps : Int → Nat) (mode : FillMode) (interp : Int → Int → β → Int → β → Option β) (s : List (Option α)) :
    List (Option α) :=
  match s with
  | [] => []
  | none :: _ => [none]
  | some first :: rest =>
    fillLoop ts val mk E mode interp (steps (maxTs ts rest (ts first) - ts first) + s.length + 3)
      none (some first) (ts first) rest

end gapfill

section aligner
variable {D : Type} (O : Ops D)

/-- datatype.go:79-94 `ToFloat64` -/
def toFloat64 (dt : DataType) (v : Val D) : Option D :=
  match dt, v with
  | .integer, .int a => some (O.ofInt a)
  | .integer, .dec d => some d
  | .decimal, .dec d => some d
  | _, _ => none

/-- datatype.go:96-104 `FromFloat64` -/
def fromFloat64 (dt : DataType) (d : D) : Option (Val D) :=
  match dt with
  | .integer => some (.int (O.toInt d))
  | .decimal => some (.dec d)
  | _ => none

/-- aligner_filter.go:122-156 `timeWeightedAverage` -/
def timeWeightedAverage (dt : DataType) (target t1 : Int) (v1 : Val D) (t2 : Int) (v2 : Val D) : Option (Val D) :=
  if t1 = t2 then (if t1 = target then some v1 else none)
  else if target < t1 ∨ target > t2 then none
  else
    let weight := O.div (O.secs (target - t1)) (O.secs (t2 - t1))
    match toFloat64 O dt v1, toFloat64 O dt v2 with
    | some f1, some f2 => fromFloat64 O dt (O.add f1 (O.mul (O.sub f2 f1) weight))
    | _, _ => none

/-- the loop of aligner_report_filter.go:136-152 over the cells (`fieldsMeta[i]`, `v2Arr[i]` panic when too short) -/
def twaCells (weight : D) : List DataType → List (Val D) → List (Val D) → Option (List (Val D))
  | _, [], _ => some []
  | dt :: dts, a :: as, b :: bs =>
    match toFloat64 O dt a, toFloat64 O dt b with
    | some f1, some f2 =>
      (fromFloat64 O dt (O.add f1 (O.mul (O.sub f2 f1) weight))).bind fun x => (twaCells weight dts as bs).map (x :: ·)
    | _, _ => none
  | _, _ :: _, _ => none

/-- aligner_report_filter.go:118-155 `timeWeightedAverageArr` -/
def timeWeightedAverageArr (dts : List DataType) (target t1 : Int) (v1 : List (Val D)) (t2 : Int) (v2 : List (Val D)) :
    Option (List (Val D)) :=
  if t1 = t2 then (if t1 = target then some v1 else none)
  else if target < t1 ∨ target > t2 then none
  else twaCells O (O.div (O.secs (target - t1)) (O.secs (t2 - t1))) dts v1 v2

/-- the value emitted for the cluster starting at `start` whose first record is `first` (aligner_filter.go:52-90) -/
def alignValue (dt : DataType) (start : Int) (prev : Option (DRec D)) (first : DRec D) : Option (DRec D) :=
  match prev with
  | none => some { ts := start, val := first.val }
  | some p =>
    if first.ts = start then some { ts := start, val := first.val }
    else (timeWeightedAverage O dt start p.ts p.val first.ts first.val).map fun v => { ts := start, val := v }

/-- aligner_report_filter.go:48-86, the report twin -/
def alignRowValue (dts : List DataType) (start : Int) (prev : Option (Row D)) (first : Row D) : Option (Row D) :=
  match prev with
  | none => some { ts := start, vals := first.vals }
  | some p =>
    if first.ts = start then some { ts := start, vals := first.vals }
    else (timeWeightedAverageArr O dts start p.ts p.vals first.ts first.vals).map fun v => { ts := start, vals := v }

/-- `datasource.AlignerFilter.Filter` without fill mode, on an executed result (numeric check done by the caller) -/
def alignStream (dt : DataType) (P : PeriodK) (s : DStream D) : DStream D :=
  alignStreamG (fun r : DRec D => r.ts) (alignValue O dt) P.start s

/-- `report.AlignerFilter.Filter` without fill mode -/
def alignRows (dts : List DataType) (P : PeriodK) (s : RStream D) : RStream D :=
  alignStreamG (fun r : Row D => r.ts) (alignRowValue O dts) P.start s

/-- the fill wrapper aligner_filter.go:97-108 (interpolateFn = `timeWeightedAverage`, copyFn = identity) -/
def fillStream (dt : DataType) (P : PeriodK) (fill : Option FillMode) (s : DStream D) : DStream D :=
  match fill with
  | none => s
  | some mode =>
    gapFillStream (fun r : DRec D => r.ts) (fun r => r.val) (fun t v => { ts := t, val := v }) P.end_ P.steps mode
      (timeWeightedAverage O dt) s

/-- the fill wrapper aligner_report_filter.go:93-104 (copyFn = a fresh copy of the row: the same value) -/
def fillRows (dts : List DataType) (P : PeriodK) (fill : Option FillMode) (s : RStream D) : RStream D :=
  match fill with
  | none => s
  | some mode =>
    gapFillStream (fun r : Row D => r.ts) (fun r => r.vals) (fun t v => { ts := t, vals := v }) P.end_ P.steps mode
      (timeWeightedAverageArr O dts) s

end aligner

/-! ## the stream filters: aligner (both packages), delta and rate (package `datasource`).
They are `Filter`s like the row-wise ones above; in a query TREE they are kept apart (`RDs.xfiltered`,
`DDs.xfiltered`) because the reference semantics of C11 (Model/QueryRef.lean) covers the row-wise filters only.
`chainR`/`chainD` below give `NewFilteredDataSource(ds, f1, …, fn)` for a mixed filter list. -/

/-- report/aligner_report_filter.go: `NewAlignerFilter(period)` / `NewInterpolatingAlignerFilter(period, mode)` -/
inductive RXFilter
  | align (period : PeriodK) (fill : Option FillMode)
  deriving Repr, Inhabited

/-- datasource/{aligner_filter,delta_filter,rate_filter}.go -/
inductive DXFilter (D : Type)
  | align (period : PeriodK) (fill : Option FillMode)
  | delta (nonNegative : Bool) (maxCounter : D)
  | rate (overrideUnit : String) (perSeconds : Int) (nonNegative : Bool) (maxCounter : D)
  deriving Repr, Inhabited

/-- `NewFixedAlignmentPeriod` panics on a non-positive duration (alignment_period.go:71-79): a constructor
precondition of the query, not a planning error; calendar periods: `PeriodK.ok` -/
def RXFilter.periodOk : RXFilter → Prop
  | .align p _ => p.ok

def DXFilter.periodOk {D : Type} : DXFilter D → Prop
  | .align p _ => p.ok
  | _ => True

section xfilters
variable {D : Type} (O : Ops D)

/-- the float64 operations of `Ops` as the `Dec` record of the C15 model (Model/TsBase1415.lean), to reuse
`Delta.nonNegDelta` (non_negative_delta.go) -/
def decOfOps : ShpanVerif.Model.TsB.Dec D :=
  { zero := O.ofInt 0, add := O.add, sub := O.sub, mul := O.mul, div := O.div, lt := O.lt, ofInt := O.ofInt,
    trunc := O.toInt }

/-- `MapWhileFilteringWithErr(src, mapper)` with the `prevItem` memo of delta_filter.go / rate_filter.go:
`step prev item` = `none` (mapper error / panic) or (record to emit if any, new `prevItem`) -/
def memoStream (step : DRec D → DRec D → Option (Option (DRec D) × DRec D)) : Option (DRec D) → DStream D → DStream D
  | _, [] => []
  | prev, none :: t => none :: memoStream step prev t
  | none, some x :: t => memoStream step (some x) t                      -- first item: stored, nothing emitted
  | some pr, some x :: t =>
    match step pr x with
    | none => none :: memoStream step (some pr) t
    | some (none, pr') => memoStream step (some pr') t
    | some (some out, pr') => some out :: memoStream step (some pr') t

/-- the mapper of delta_filter.go:48-91 (nonNegative) / :98-112 (plain); `sub` = `BinaryNumericOperatorSub` for the type -/
def deltaStep (dt : DataType) (sub : Val D → Val D → Option (Val D)) (nn : Bool) (maxC : D) (pr x : DRec D) :
    Option (Option (DRec D) × DRec D) :=
  if nn then
    match toFloat64 O dt x.val with                                      -- :55-58
    | none => none
    | some cv =>
      match toFloat64 O dt pr.val with                                   -- :59-62
      | none => none
      | some pv =>
        let de := ShpanVerif.Model.Delta.nonNegDelta (decOfOps O) maxC cv pv   -- :64
        if !de.2 then some (none, pr)                                    -- :65-67 dropped point, prevItem stays
        else if O.lt cv pv then                                          -- :70-80 reset: float round trip
          (fromFloat64 O dt de.1).map fun c => (some { ts := x.ts, val := c }, x)
        else (sub x.val pr.val).map fun d => (some { ts := x.ts, val := d }, x)   -- :83-88
  else (sub x.val pr.val).map fun d => (some { ts := x.ts, val := d }, x)         -- :105-110

/-- delta_filter.go:23-116 -/
def deltaF (nn : Bool) (maxC : D) (res : DResult D) : Except PlanErr (DResult D) :=
  if !res.1.dt.isNumeric then .error .deltaNonNumeric
  else if !res.1.required then .error .deltaOptional
  else match binFunc O .sub res.1.dt with
    | none => .error .opUnsupported                                      -- unreachable for a numeric type
    | some sub => .ok (res.1, memoStream (deltaStep O res.1.dt sub nn maxC) none res.2)

/-- the mapper of rate_filter.go:73-104; `ps` = the effective perSeconds -/
def rateStep (dt : DataType) (ps : Int) (nn : Bool) (maxC : D) (pr x : DRec D) : Option (Option (DRec D) × DRec D) :=
  match toFloat64 O dt x.val with                                        -- :80-83
  | none => none
  | some cv =>
    match toFloat64 O dt pr.val with                                     -- :84-87
    | none => none
    | some pv =>
      let de := if nn then ShpanVerif.Model.Delta.nonNegDelta (decOfOps O) maxC cv pv else (O.sub cv pv, true)
      if !de.2 then some (none, pr)                                      -- :89-92
      else
        let td := O.secs (x.ts - pr.ts)                                  -- :94
        if O.eq td (O.ofInt 0) then none                                 -- :95-97
        else some (some { ts := x.ts, val := .dec (O.mul (O.div de.1 td) (O.ofInt ps)) }, x)   -- :99-103

/-- rate_filter.go:29-107: the result is a required decimal field with the override unit -/
def rateF (unit : String) (perSeconds : Int) (nn : Bool) (maxC : D) (res : DResult D) : Except PlanErr (DResult D) :=
  if !res.1.dt.isNumeric then .error .rateNonNumeric
  else if !res.1.required then .error .rateOptional
  else match newFieldMeta res.1.urn .decimal true unit res.1.custom with
    | .error e => .error e
    | .ok fm =>
      let ps := if perSeconds ≤ 0 then 1 else perSeconds               -- :54-57
      .ok (fm, memoStream (rateStep O res.1.dt ps nn maxC) none res.2)

/-- aligner_filter.go:36-115 -/
def alignDF (p : PeriodK) (fill : Option FillMode) (res : DResult D) : Except PlanErr (DResult D) :=
  if !res.1.dt.isNumeric then .error .alignNonNumeric
  else .ok (res.1, fillStream O res.1.dt p fill (alignStream O res.1.dt p res.2))

/-- aligner_report_filter.go:28-111: EVERY field must be numeric -/
def alignRF (p : PeriodK) (fill : Option FillMode) (res : RResult D) : Except PlanErr (RResult D) :=
  if res.1.any (fun m => !m.dt.isNumeric) then .error .alignNonNumeric
  else
    let dts := res.1.map (·.dt)
    .ok (res.1, fillRows O dts p fill (alignRows O dts p res.2))

def applyRXF (f : RXFilter) (res : RResult D) : Except PlanErr (RResult D) :=
  match f with
  | .align p fill => alignRF O p fill res

def applyDXF (f : DXFilter D) (res : DResult D) : Except PlanErr (DResult D) :=
  match f with
  | .align p fill => alignDF O p fill res
  | .delta nn maxC => deltaF O nn maxC res
  | .rate unit ps nn maxC => rateF O unit ps nn maxC res

end xfilters

/-! ## datasources of both packages -/

mutual
  /-- `report.DataSource` -/
  inductive RDs (D : Type)
    | static (metas : List FieldMeta) (rows : List (Row D))
    | filtered (ds : RDs D) (fs : List (RFilter D))
    /-- `report.NewFilteredDataSource(ds, f)` for a stream filter (aligner) -/
    | xfiltered (ds : RDs D) (f : RXFilter)
    | join (jt : JoinType) (srcs : RDsL D)
    | fromDs (ds : DDs D)
  inductive RDsL (D : Type)
    | nil
    | cons (d : RDs D) (l : RDsL D)
  /-- `datasource.DataSource` -/
  inductive DDs (D : Type)
    | static (fm : FieldMeta) (rows : List (DRec D))
    | filtered (ds : DDs D) (fs : List (DFilter D))
    /-- `datasource.NewFilteredDataSource(ds, f)` for a stream filter (aligner / delta / rate) -/
    | xfiltered (ds : DDs D) (f : DXFilter D)
    | reduction (rt : RedType) (period : Int) (afm : AddFieldMeta) (fallback : Option (DVal D)) (srcs : DDsL D)
    | fromReport (r : RDs D) (urn : String)
  inductive DDsL (D : Type)
    | nil
    | cons (d : DDs D) (l : DDsL D)
end

section exec
variable {D : Type} (O : Ops D)

/-- first duplicate urn check of static_report_datasource.go:22-31 -/
def hasDupUrn : List FieldMeta → List String → Bool
  | [], _ => false
  | m :: ms, seen => seen.contains m.urn || hasDupUrn ms (m.urn :: seen)

def inRange (from_ to : Int) (t : Int) : Bool := decide (from_ ≤ t) && decide (t < to)

/-- join_datasource.go:55-72: the fields of one joined source (duplicate check, nullable sides become optional) -/
def joinMetasOne (nullable : Bool) : List FieldMeta → List String → Except PlanErr (List FieldMeta × List String)
  | [], seen => .ok ([], seen)
  | m :: ms, seen =>
    if seen.contains m.urn then .error .joinDup
    else
      let mE : Except PlanErr FieldMeta :=
        if nullable && m.required then newFieldMeta m.urn m.dt false m.unit m.custom else .ok m
      match mE with
      | .error e => .error e
      | .ok m' =>
        match joinMetasOne nullable ms (m.urn :: seen) with
        | .error e => .error e
        | .ok (out, seen') => .ok (m' :: out, seen')

/-- join_datasource.go:45-73: metadata of the joined result -/
def joinMetas (jt : JoinType) (n : Nat) : Nat → List (List FieldMeta) → List String → Except PlanErr (List FieldMeta)
  | _, [], _ => .ok []
  | idx, fms :: rest, seen =>
    let nullable := (jt == .full && n > 1) || (jt == .left && idx > 0)
    match joinMetasOne nullable fms seen with
    | .error e => .error e
    | .ok (out, seen') =>
      match joinMetas jt n (idx + 1) rest seen' with
      | .error e => .error e
      | .ok outs => .ok (out ++ outs)

def nils (n : Nat) : List (Val D) := List.replicate n .nil

/-- the cells a source contributes to a joined row: its row, or nils when it is absent (join_datasource.go:92-95,110-113) -/
def padVals (q : Option (Row D) × Nat) : List (Val D) :=
  match q.1 with
  | some r => r.vals
  | none => nils q.2

/-- join_datasource.go:74-135: the joined stream -/
def joinStreams (jt : JoinType) (results : List (RResult D)) : RStream D :=
  let srcs := results.map (·.2)
  let widths := results.map (·.1.length)
  match jt with
  | .inner =>
    (innerJoin (fun r : Row D => r.ts) srcs).map fun e => e.map fun rows =>
      { ts := (rows.head?.map (·.ts)).getD 0, vals := (rows.map (·.vals)).flatten }
  | .left =>
    (leftJoin (fun r : Row D => r.ts) srcs).map fun e => e.map fun p =>
      { ts := p.1.ts, vals := p.1.vals ++ ((p.2.zip (widths.drop 1)).map padVals).flatten }
  | .full =>
    (fullJoin (fun r : Row D => r.ts) srcs).map fun e => e.map fun vals =>
      { ts := ((vals.filterMap id).head?.map (·.ts)).getD 0, vals := ((vals.zip widths).map padVals).flatten }

/-- the checks of reduction_datasource.go:96-170 on the executed (aligned) sources -/
def reductionMeta (rt : RedType) (afm : AddFieldMeta) (metas : List FieldMeta) : Except PlanErr (FieldMeta × DataType) :=
  match metas with
  | [] => .error .redNoSources
  | m0 :: rest =>
    if !m0.dt.isNumeric then .error .reduceNonNumeric
    else if !m0.required then .error .reduceOptional
    else match reduceCheckRest m0.dt rest with
      | .error e => .error e
      | .ok () =>
        let resultDt := redResultType rt m0.dt
        let resultUnit := if allSameUnit m0.unit rest && rt != .count then m0.unit else ""
        if afm.urn = "" then .error .redNoUrn
        else
          let cm := match afm.custom with
            | some c => some c
            | none => m0.custom
          let unit := if afm.overrideUnit ≠ "" then afm.overrideUnit else resultUnit
          match newFieldMeta afm.urn resultDt true unit cm with
          | .error e => .error e
          | .ok fm => .ok (fm, m0.dt)

/-- `AlignedTimestampsStream` alignment_period.go:26-44 for a fixed period -/
def alignedTimestamps (p from_ to : Int) : Nat → Int → List Int
  | 0, _ => []
  | fuel + 1, cur => if cur < to then cur :: alignedTimestamps p from_ to fuel (cur + p) else []

/-- `executeEmptyDatasourceFallback` reduction_datasource.go:203-246; only constants are `StaticValue`s -/
def reductionFallback (afm : AddFieldMeta) (period from_ to : Int) (fb : Option (DVal D)) : Except PlanErr (DResult D) :=
  match fb with
  | none => .error .redNoSources
  | some (.const vm v) =>
    if afm.urn = "" then .error .redNoUrn
    else match constK (ρ := Val D) O vm v with
      | .error e => .error e
      | .ok (m, fn) =>
        let unit := if afm.overrideUnit ≠ "" then afm.overrideUnit else m.unit
        match newFieldMeta afm.urn m.dt m.required unit afm.custom with
        | .error e => .error e
        | .ok fm =>
          let n := ((to - periodStart period from_) / period + 2).toNat
          .ok (fm, (alignedTimestamps period from_ to n (periodStart period from_)).map fun t =>
            (fn .nil).map fun x => { ts := t, val := x })
  | some _ => .error .redFallbackNotStatic

/-- `timeseries.InnerJoinStreams(streams, reducerFunc)` reduction_datasource.go:192-194 -/
def reduceStreams (rf : List (Val D) → Option (Val D)) (streams : List (DStream D)) : DStream D :=
  (innerJoin (fun r : DRec D => r.ts) streams).map fun e => e.bind fun recs =>
    (rf (recs.map (·.val))).map fun x => { ts := (recs.head?.map (·.ts)).getD 0, val := x }

/-- "emptyDatasourceValue must be a StaticValue" reduction_datasource.go:63-70: only constants are -/
def fallbackIsStatic (fb : Option (DVal D)) : Bool :=
  match fb with
  | none => true
  | some (.const _ _) => true
  | some _ => false

mutual
  /-- `report.DataSource.Execute(ctx, from, to)` -/
  def execR (fixD22 : Bool) (from_ to : Int) : RDs D → Except PlanErr (RResult D)
    | .static metas rows =>
      -- static_report_datasource.go:16-48 (constructor checks, then the half-open range filter)
      if metas.isEmpty then .error .staticEmpty
      else if hasDupUrn metas [] then .error .staticDup
      else .ok (metas, (rows.filter fun r => inRange from_ to r.ts).map some)
    | .filtered ds fs => execR fixD22 from_ to ds >>= applyRFs O fixD22 fs
    | .xfiltered ds f => execR fixD22 from_ to ds >>= applyRXF O f
    | .join jt srcs =>
      -- join_datasource.go:35-135
      match execRL fixD22 from_ to srcs with
      | .error e => .error e
      | .ok results =>
        match joinMetas jt results.length 0 (results.map (·.1)) [] with
        | .error e => .error e
        | .ok metas => .ok (metas, joinStreams jt results)
    | .fromDs ds =>
      -- from_datasource.go:22-39
      match execD fixD22 from_ to ds with
      | .error e => .error e
      | .ok (m, s) => .ok ([m], s.map fun e => e.map fun r => { ts := r.ts, vals := [r.val] })
  def execRL (fixD22 : Bool) (from_ to : Int) : RDsL D → Except PlanErr (List (RResult D))
    | .nil => .ok []
    | .cons d l =>
      match execR fixD22 from_ to d with
      | .error e => .error e
      | .ok r =>
        match execRL fixD22 from_ to l with
        | .error e => .error e
        | .ok rs => .ok (r :: rs)
  /-- `datasource.DataSource.Execute(ctx, from, to)` -/
  def execD (fixD22 : Bool) (from_ to : Int) : DDs D → Except PlanErr (DResult D)
    | .static m rows =>
      -- static_datasource.go:14-36
      .ok (m, (rows.filter fun r => inRange from_ to r.ts).map some)
    | .filtered ds fs => execD fixD22 from_ to ds >>= applyDFs O fs
    | .xfiltered ds f => execD fixD22 from_ to ds >>= applyDXF O f
    | .reduction rt period afm fb srcs =>
      -- reduction_datasource.go:56-200
      if period ≤ 0 then .error .redNoPeriod
      else
        if !fallbackIsStatic fb then .error .redFallbackNotStatic
        else match execDLAligned fixD22 from_ to period srcs with
          | .error e => .error e
          | .ok [] => reductionFallback O afm period from_ to fb
          | .ok results =>
            match reductionMeta rt afm (results.map (·.1)) with
            | .error e => .error e
            | .ok (fm, dt) =>
              match redFunc O rt dt with
              | none => .error .reduceBadType
              | some rf =>
                match results with
                | [single] =>
                  if redIdentity rt && fm.dt == dt then .ok (fm, single.2)
                  else .ok (fm, reduceStreams rf [single.2])
                | _ => .ok (fm, reduceStreams rf (results.map (·.2)))
    | .fromReport r urn =>
      -- to_datasource.go:29-64
      match execR fixD22 from_ to r with
      | .error e => .error e
      | .ok (metas, s) =>
        match findField urn metas with
        | none => .error .todsNotFound
        | some (m, idx) => .ok (m, s.map fun e => e.map fun row => { ts := row.ts, val := (row.vals[idx]?).getD .nil })
  /-- every source executed and passed through the aligner filter (reduction_datasource.go:73-80, aligner_filter.go:36-42) -/
  def execDLAligned (fixD22 : Bool) (from_ to : Int) (period : Int) : DDsL D → Except PlanErr (List (DResult D))
    | .nil => .ok []
    | .cons d l =>
      match execD fixD22 from_ to d with
      | .error e => .error e
      | .ok (m, s) =>
        if !m.dt.isNumeric then .error .alignNonNumeric
        else match execDLAligned fixD22 from_ to period l with
          | .error e => .error e
          | .ok rs => .ok ((m, alignStream O m.dt (.fixed period) s) :: rs)
end

end exec

/-! ## `NewFilteredDataSource(ds, f1, …, fn)` with row-wise and stream filters mixed
(report_filter.go:42-51 / datasource_filter.go:59-65: `Execute` of the source, then `ApplyFilters` one after the
other).  `chainR`/`chainD` build the tree for such a list; `execR_chainR`/`execD_chainD` (Proofs/QueryXFilters.lean)
show that its `Execute` is exactly that sequential application. -/

inductive RStage (D : Type)
  | plain (f : RFilter D)
  | x (f : RXFilter)

inductive DStage (D : Type)
  | plain (f : DFilter D)
  | x (f : DXFilter D)

section chain
variable {D : Type} (O : Ops D)

def chainR : RDs D → List (RStage D) → RDs D
  | ds, [] => ds
  | ds, .plain f :: r => chainR (.filtered ds [f]) r
  | ds, .x f :: r => chainR (.xfiltered ds f) r

def chainD : DDs D → List (DStage D) → DDs D
  | ds, [] => ds
  | ds, .plain f :: r => chainD (.filtered ds [f]) r
  | ds, .x f :: r => chainD (.xfiltered ds f) r

def applyRStage (fixD22 : Bool) (st : RStage D) (res : RResult D) : Except PlanErr (RResult D) :=
  match st with
  | .plain f => applyRF O fixD22 f res
  | .x f => applyRXF O f res

def applyDStage (st : DStage D) (res : DResult D) : Except PlanErr (DResult D) :=
  match st with
  | .plain f => applyDF O f res
  | .x f => applyDXF O f res

/-- `ApplyFilters` over a mixed list -/
def applyRStages (fixD22 : Bool) : List (RStage D) → RResult D → Except PlanErr (RResult D)
  | [], res => .ok res
  | st :: r, res => applyRStage O fixD22 st res >>= applyRStages fixD22 r

def applyDStages : List (DStage D) → DResult D → Except PlanErr (DResult D)
  | [], res => .ok res
  | st :: r, res => applyDStage O st res >>= applyDStages r

end chain

end ShpanVerif.Model.Query
