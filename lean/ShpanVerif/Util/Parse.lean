/-
Small text helpers for the line protocol (core only; used by the compiled driver).
-/
namespace ShpanVerif.Util

/-- Split on single spaces, dropping empty tokens. -/
def words (s : String) : List String :=
  (s.splitOn " ").filter (fun t => t != "")

/-- "1,2,-3" → [1,2,-3]; "-" → [] (explicit empty marker so that tokens never vanish). -/
def parseIntList (s : String) : Option (List Int) :=
  if s == "-" then some []
  else (s.splitOn ",").mapM (fun t => t.toInt?)

def parseNatList (s : String) : Option (List Nat) :=
  if s == "-" then some []
  else (s.splitOn ",").mapM (fun t => t.toNat?)

def fmtList {α} (f : α → String) (l : List α) : String :=
  if l.isEmpty then "-" else ",".intercalate (l.map f)

def fmtIntList (l : List Int) : String := fmtList toString l
def fmtNatList (l : List Nat) : String := fmtList toString l

/-- Split a token list at every occurrence of `sep`. -/
def splitAt (sep : String) (ts : List String) : List (List String) :=
  let rec go (acc : List String) (out : List (List String)) : List String → List (List String)
    | [] => (acc.reverse :: out).reverse
    | t :: ts => if t == sep then go [] (acc.reverse :: out) ts else go (t :: acc) out ts
  go [] [] ts

def boolStr (b : Bool) : String := if b then "1" else "0"

end ShpanVerif.Util
