/-
Line-protocol helpers shared by the C13 and C16 drivers (core only): cells, points, periods, results.
-/
import ShpanVerif.Util.Parse
import ShpanVerif.Model.Align

namespace ShpanVerif.Util.TsProto
open ShpanVerif.Util ShpanVerif.Model.Align

def hexVal (c : Char) : Option Nat :=
  if '0' ≤ c ∧ c ≤ '9' then some (c.toNat - '0'.toNat)
  else if 'a' ≤ c ∧ c ≤ 'f' then some (c.toNat - 'a'.toNat + 10)
  else none

def parseHex (s : String) : Option Nat :=
  if s.isEmpty then none
  else s.toList.foldlM (fun acc c => do let d ← hexVal c; pure (acc * 16 + d)) 0

def hexDigit (n : Nat) : Char := if n < 10 then Char.ofNat ('0'.toNat + n) else Char.ofNat ('a'.toNat + n - 10)

/-- 16 lower-case hex digits. -/
def hex16 (n : Nat) : String :=
  String.ofList ((List.range 16).reverse.map (fun i => hexDigit ((n / 16 ^ i) % 16)))

abbrev FCell := Cell Float

def parseCell (s : String) : Option FCell :=
  match s.toList with
  | 'i' :: rest => (String.ofList rest).toInt?.map Cell.int
  | 'o' :: rest => (String.ofList rest).toNat?.map Cell.other
  | 'f' :: rest => (parseHex (String.ofList rest)).map (fun n => Cell.flt (Float.ofBits n.toUInt64))
  | _ => none

def fmtCell : FCell → String
  | .int i => s!"i{i}"
  | .flt f => "f" ++ hex16 f.toBits.toNat
  | .other n => s!"o{n}"

/-- Bit-level equality of cells (Float has no lawful `==`: compare the encodings). -/
def cellEq (a b : FCell) : Bool := fmtCell a == fmtCell b

def fmtRow (r : List FCell) : String := ";".intercalate (r.map fmtCell)

/-- "<unixNanos>:<cell>;<cell>…" -/
def parsePoint (s : String) : Option (Int × List FCell) :=
  match s.splitOn ":" with
  | [t, cs] => do
    let t ← t.toInt?
    let cells ← (cs.splitOn ";").mapM parseCell
    pure (t, cells)
  | _ => none

def parsePoints (ts : List String) : Option (List (Int × List FCell)) :=
  match ts with
  | ["-"] => some []
  | _ => ts.mapM parsePoint

/-- A period given by the table of its consecutive starts `bs` (strictly increasing), valid for instants in
`[bs.head, bs.last)`: used for calendar periods in zones with daylight-saving changes, where the harness
obtains the table from the real `GetStartTime` alone (never from `GetEndTime`). -/
def tablePeriod (bs : List Int) : Period where
  start := fun t => ((bs.filter (fun b => b ≤ t)).getLast?).getD t
  stop := fun t => (bs.find? (fun b => t < b)).getD (t + 1)

/-- "fix:<ns>" | "fix:<ns>@<offsetSec>" | "day" (UTC) | "tab:<kind>@<zone>:<b0>,<b1>,…" (table of period starts). -/
def parsePeriod (s : String) : Option Period :=
  if s.startsWith "tab:" then
    match s.splitOn ":" with
    | [_, _, bs] => (parseIntList bs).map tablePeriod
    | _ => none
  else if s == "day" then some (fixedPeriod 86400000000000)
  else if s.startsWith "fix:" then
    let body := (s.drop 4).toString
    match body.splitOn "@" with
    | [d] => do
      let d ← d.toInt?
      if d ≤ 0 then none else some (fixedPeriod d)
    | [d, off] => do
      let d ← d.toInt?
      let off ← off.toInt?
      if d ≤ 0 then none else some (fixedPeriod d (-(off * 1000000000)))
    | _ => none
  else none

def kv (tok key : String) : Option String :=
  if tok.startsWith (key ++ "=") then some (tok.drop (key.length + 1)).toString else none

/-- A result: `ok` records (instant, row) or an error class, or not applicable. -/
inductive Res where
  | ok (l : List (Int × List FCell))
  | err (c : String)
  | na

def fmtRes : Res → String
  | .na => "na"
  | .err c => "err:" ++ c
  | .ok [] => "ok:-"
  | .ok l => "ok:" ++ ",".intercalate (l.map (fun (t, r) => s!"{t}={fmtRow r}"))

def parseRes (s : String) : Option Res :=
  if s == "na" then some .na
  else if s.startsWith "err:" then some (.err (s.drop 4).toString)
  else if s == "ok:-" then some (.ok [])
  else if s.startsWith "ok:" then
    (((s.drop 3).toString.splitOn ",").mapM parseRec).map Res.ok
  else none
where
  parseRec (tok : String) : Option (Int × List FCell) :=
    match tok.splitOn "=" with
    | [t, cs] => do
      let t ← t.toInt?
      let cells ← (cs.splitOn ";").mapM parseCell
      pure (t, cells)
    | _ => none

def resEq (a b : Res) : Bool := fmtRes a == fmtRes b

end ShpanVerif.Util.TsProto
