/-
Text helpers shared by the C14 / C15 driver handlers (core only): floats travel as the 16 hex digits
of their IEEE-754 bits, exact rational reconstruction of a float, record lists `t:v,t:v`.
-/
import ShpanVerif.Util.Parse
import ShpanVerif.Model.TsBase1415

namespace ShpanVerif.Util.N1415
open ShpanVerif.Util ShpanVerif.Model.TsB

def hexDigit? (c : Char) : Option Nat :=
  if '0' ≤ c ∧ c ≤ '9' then some (c.toNat - '0'.toNat)
  else if 'a' ≤ c ∧ c ≤ 'f' then some (c.toNat - 'a'.toNat + 10)
  else none

def parseHex? (s : String) : Option Nat :=
  if s.isEmpty then none
  else s.toList.foldlM (fun acc c => (hexDigit? c).map (fun d => acc * 16 + d)) 0

/-- 16 hex digits → float64 with these bits. -/
def parseFloatBits? (s : String) : Option Float :=
  if s.length != 16 then none else (parseHex? s).map (fun n => Float.ofBits (UInt64.ofNat n))

def hexChar (d : Nat) : Char :=
  if d < 10 then Char.ofNat ('0'.toNat + d) else Char.ofNat ('a'.toNat + d - 10)

def fmtHex16 (n : Nat) : String :=
  String.ofList ((List.range 16).reverse.map (fun i => hexChar ((n / 16 ^ i) % 16)))

def fmtFloatBits (x : Float) : String := fmtHex16 x.toBits.toNat

/-- The exact rational value of a finite float (none for NaN / ±Inf). -/
def floatToRat? (x : Float) : Option Rat :=
  let b : Nat := x.toBits.toNat
  let sign : Int := if b / 2 ^ 63 = 1 then -1 else 1
  let e : Nat := (b / 2 ^ 52) % 2048
  let m : Nat := b % 2 ^ 52
  if e = 2047 then none
  else
    let (mant, ex) : Nat × Int := if e = 0 then (m, -1074) else (2 ^ 52 + m, (e : Int) - 1075)
    let q : Rat := if ex ≥ 0 then ((mant * 2 ^ ex.toNat : Nat) : Rat) else (mant : Rat) / ((2 ^ (-ex).toNat : Nat) : Rat)
    some (sign * q)

def ratAbs (q : Rat) : Rat := if q < 0 then -q else q

/-- 2^-52 as a rational (twice the unit round-off of float64). -/
def eps52 : Rat := 1 / ((2 ^ 52 : Nat) : Rat)

/-- A numeric carrier as it travels on the wire. -/
structure Wire (ν : Type) where
  parse : String → Option ν
  fmt : ν → String

def wireInt : Wire Int := ⟨fun s => s.toInt?, fun n => toString n⟩
def wireFloat : Wire Float := ⟨parseFloatBits?, fmtFloatBits⟩

/-- "t:v" or "t@L:v" (L = id of the Location object the timestamp is expressed in). -/
def parseRec? {ν : Type} (w : Wire ν) (s : String) : Option (Rec ν) :=
  match s.splitOn ":" with
  | [t, v] =>
    match t.splitOn "@" with
    | [ti] => do let ti ← ti.toInt?; let v ← w.parse v; pure ⟨⟨ti, 0⟩, v⟩
    | [ti, l] => do let ti ← ti.toInt?; let l ← l.toNat?; let v ← w.parse v; pure ⟨⟨ti, l⟩, v⟩
    | _ => none
  | _ => none

def parseRecs? {ν : Type} (w : Wire ν) (s : String) : Option (List (Rec ν)) :=
  if s == "-" then some [] else (s.splitOn ",").mapM (parseRec? w)

/-- Observations carry instants only. -/
def fmtRecs {ν : Type} (w : Wire ν) (l : List (Rec ν)) : String :=
  fmtList (fun (r : Rec ν) => s!"{r.ts.inst}:{w.fmt r.v}") l

def parseVals? {ν : Type} (w : Wire ν) (s : String) : Option (List ν) :=
  if s == "-" then some [] else (s.splitOn ",").mapM w.parse

end ShpanVerif.Util.N1415
