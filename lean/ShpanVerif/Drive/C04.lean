import ShpanVerif.Drive.PipeCommon
import ShpanVerif.Drive.PipeDyn
import ShpanVerif.Drive.C04Ext
/-
Driver handler for C04: fault-free single materialisations of ordered pipelines vs the list model.
Spec predicate (on the observation): terminal succeeded and delivered exactly `Spec.eval` of the pipeline
(its prefix of length n under take:n), whenever `Spec.eval` is defined (preconditions hold).
-/
namespace ShpanVerif.Drive.C04
open ShpanVerif.Util ShpanVerif.Model.Pipe ShpanVerif.Drive.PipeCommon ShpanVerif

def specRun (p : Pipe) (r : Run) (o : ObsRun) : Bool × String :=
  match r.fault, Spec.eval p with
  | none, some l =>
    let want := match r.take with
      | none => l
      | some n => if n ≤ 0 then [] else l.take n.toNat
    if o.ok && o.delivered == fmtVs want then (true, "")
    else (false, s!"want ok {fmtVs want}")
  | _, _ => (true, "")

/- The list-level meaning with the cluster clause of the property taken literally: "maximal runs of equal classifier"
needs no sortedness when the factory reads its whole cluster (`sum`): the code then closes a cluster exactly where the
classifier changes, in either direction.  (`Spec.eval`, about which `C04_pipe` is proved, is defined on sorted input only,
because factories that stop early make the code check the order while it skips; outside that domain this function is
used spec-only.) -/
-- (doc comment above belongs to `evalLoose`)
mutual
def evalLoose : Pipe → Option (List V)
  | .src _ xs _ => some (xs.map V.int)
  | .lc _ p => evalLoose p
  | .map f p => (evalLoose p).map (·.map f.app)
  | .filter g p => (evalLoose p).map (·.filter g.app)
  | .limit n _ p => if n ≤ 0 then some [] else (evalLoose p).map (·.take n.toNat)
  | .skip n _ p => (evalLoose p).map (·.drop n)
  | .concat ps _ _ _ => (evalLooseList ps).map List.flatten
  | .zip ps _ => (evalLooseList ps).map Spec.zipRows
  | .merge ps _ _ =>
    match evalLooseList ps with
    | some ls => if ls.all (Spec.sortedBy V.key) then some (ls.flatten.mergeSort (fun a b => a.key ≤ b.key)) else none
    | none => none
  | .window s st o _ _ _ p =>
    if !windowParamsOk s st then none
    else (evalLoose p).map (fun l => (Spec.windows s st o (l.length + 1) l).map (fun w => V.arr (w.flatMap V.flat)))
  | .cluster k fac _ _ _ _ p =>
    match evalLoose p with
    | some l =>
      if k > 0 && (Spec.sortedBy (classify k) l || fac == .sum) then some (Spec.clusterOut k fac none (Spec.runs k l))
      else none
    | none => none
def evalLooseList : PipeList → Option (List (List V))
  | .nil => some []
  | .cons p ps =>
    match evalLoose p, evalLooseList ps with
    | some l, some ls => some (l :: ls)
    | _, _ => none
end

def handle (c obs : String) : String × Bool × String :=
  if c.startsWith "DYN " then ShpanVerif.Drive.PipeDyn.handle c obs else   -- FlatMap family (Model/PipeDyn.lean)
  if c.startsWith "L " then ShpanVerif.Drive.C04Ext.handle c obs else   -- second part of the family
  match parseCase c with
  | none => ("bad-case", false, "unparsable case")
  | some (p, rs) =>
    let model := agreeOr { } (modelText p rs) obs
    -- outside the property's domain (list-level meaning undefined: unsorted cluster/merge input, invalid
    -- window parameters) nothing is claimed and nothing is compared
    if (Spec.eval p).isNone then
      -- … except the cluster clause over unsorted input with a whole-cluster factory (spec-only, `evalLoose`)
      match evalLoose p, parseObs obs, rs with
      | some l, some [o], [r] =>
        if r.fault.isSome then (obs, true, "") else
        let want := match r.take with
          | none => l
          | some n => if n ≤ 0 then [] else l.take n.toNat
        let ok := o.ok && o.delivered == fmtVs want
        (obs, ok, if ok then "" else s!"want ok {fmtVs want} (maximal runs of equal classifier, unsorted input)")
      | _, _, _ => (obs, true, "")
    else
    match parseObs obs, rs with
    | some [o], [r] =>
      let (ok, why) := specRun p r o
      (model, ok, why)
    | some os, _ =>
      -- histories are C18's business - except over `srcv` sources, whose contents change between the materialisations:
      -- every fault-free run must deliver the list-level meaning of the contents it ran over (whatever the runs before did)
      if rs.all (fun r => r.setSrcs.isEmpty) || os.length != rs.length then (model, true, "") else
      match ((rs.zip os).filterMap (fun (r, o) =>
          match Spec.eval (pipeAt p r) with
          | some _ => let v := specRun (pipeAt p r) r o; if v.1 then none else some v.2
          | none => none)).head? with
      | none => (model, true, "")
      | some why => (model, false, why ++ " (a run over changed contents)")
    | none, _ => (model, false, "unparsable observation")

end ShpanVerif.Drive.C04
