import ShpanVerif.Drive.PipeCommon
import ShpanVerif.Drive.C04Ext
/-
Driver handler for C04: fault-free single materialisations of ordered pipelines vs the list model.
Spec predicate (on the observation): terminal succeeded and delivered exactly `Spec.eval` of the pipeline
(its prefix of length n under take:n), whenever `Spec.eval` is defined (preconditions hold).
-/
namespace ShpanVerif.Drive.C04
open ShpanVerif.Util ShpanVerif.Model.Pipe ShpanVerif.Drive.PipeCommon ShpanVerif

def specRun (p : Pipe) (r : Run) (o : ObsRun) : Bool × String :=
  match r.fault, Spec.eval p with
  | none, some l =>
    let want := match r.take with
      | none => l
      | some n => if n ≤ 0 then [] else l.take n.toNat
    if o.ok && o.delivered == fmtVs want then (true, "")
    else (false, s!"want ok {fmtVs want}")
  | _, _ => (true, "")

def handle (c obs : String) : String × Bool × String :=
  if c.startsWith "L " then ShpanVerif.Drive.C04Ext.handle c obs else   -- second part of the family
  match parseCase c with
  | none => ("bad-case", false, "unparsable case")
  | some (p, rs) =>
    let model := agreeOr { } (modelText p rs) obs
    -- outside the property's domain (list-level meaning undefined: unsorted cluster/merge input, invalid
    -- window parameters) nothing is claimed and nothing is compared
    if (Spec.eval p).isNone then (obs, true, "") else
    match parseObs obs, rs with
    | some [o], [r] =>
      let (ok, why) := specRun p r o
      (model, ok, why)
    | some _, _ => (model, true, "")   -- histories are C18's business
    | none, _ => (model, false, "unparsable observation")

end ShpanVerif.Drive.C04
