import ShpanVerif.Util.Parse
import ShpanVerif.Drive.QueryIO
import ShpanVerif.Model.QueryRef
/-
Driver handler for C10 (tsquery is type-sound).  Case grammar and observation format: notes/C10-protocol.md.
  model  = the executable model (`execR`/`execD` with the Float instance of `Ops`) rendered in the observation format
  spec   = the property's clauses evaluated on the OBSERVATION by independent list-level checks:
           no record pulled during Execute; unique non-empty URNs, valid types; every row has one cell per field,
           nil only under a not-required field, dynamic Go type = declared type; strictly increasing timestamps;
           and a query the reference type checker rejects must have been rejected.
  The stream filters (aligner of both packages with/without fill mode, delta, rate; fixed AND calendar alignment
  periods, `PeriodK`) are ordinary `q` cases since they are part of the model (`RDs.xfiltered` / `DDs.xfiltered`, chains
  via `chainR`/`chainD`); a calendar aligner carries its zone's offset table (`parseAlign` in Drive/QueryIO.lean).
  X cases (the table-less form of a calendar aligner; no longer generated): model = the observation; only the spec
  predicate is evaluated.
-/
namespace ShpanVerif.Drive.C10
open ShpanVerif.Util ShpanVerif.Model.Query ShpanVerif.Drive.QueryIO

def O := floatOps

def sampleFor : DataType → V × V
  | .integer => (.int 7, .int 2)
  | .decimal => (.dec 7.5, .dec 2.0)
  | .string => (.str "a", .str "b")
  | .boolean => (.bool true, .bool false)
  | _ => (.nil, .nil)

def isTranscendental : UnOp → Bool
  | .log | .log10 | .exp | .sin | .cos | .tan => true
  | _ => false

/-- the hand-written operator tables of the model, printed like the real table functions -/
def tblModel (ws : List String) : Option String :=
  match ws with
  | ["bin", op, dt] => do
    let op ← parseBinOp op
    let dt ← parseDt dt
    match binFunc O op dt with
    | none => pure "reject"
    | some f =>
      let (a, b) := sampleFor dt
      match f a b with
      | some v => pure ("ok " ++ fmtCell false v)
      | none => pure "ok x:unexpected"
  | ["un", op, dt] => do
    let op ← parseUnOp op
    let dt ← parseDt dt
    match unFunc O op dt with
    | none => pure "reject"
    | some f =>
      let a : V := if dt == .integer then .int 9 else .dec 2.25
      match f a with
      | some v => pure ("ok " ++ fmtCell (isTranscendental op) v)
      | none => pure "ok x:unexpected"
  | ["cond", op, dt] => do
    let op ← parseCondOp op
    let dt ← parseDt dt
    match condFunc O op dt with
    | none => pure "reject"
    | some f =>
      let (a, b) := sampleFor dt
      match f a b with
      | some v => pure ("ok " ++ fmtCell false (.bool v))
      | none => pure "ok x:unexpected"
  | ["cast", a, b] => do
    let a ← parseDt a
    let b ← parseDt b
    match castFunc O a b with
    | none => pure "reject"
    | some f =>
      let s : V := match a with
        | .integer => .int 42
        | .decimal => .dec 2.5
        | .string => .str "17"
        | .boolean => .bool true
        | .timestamp => .ts 5
        | .bogus => .nil
      match f s with
      | some v => pure ("ok " ++ fmtCell false v)
      | none => pure "ok casterr"
  | ["red", rt, dt] => do
    let rt ← parseRedType rt
    let dt ← parseDt dt
    match redFunc O rt dt with
    | none => pure "reject"
    | some f =>
      let cell := match dt with
        | .integer => (f [.int 7, .int 2, .int 9]).map (fmtCell false)
        | .decimal => (f [.dec 7.5, .dec 2.0, .dec 9.25]).map (fmtCell false)
        | _ => some "-"
      pure s!"ok {fmtDt (redResultType rt dt)} {boolStr (redIdentity rt)} {cell.getD "x:unexpected"}"
  | ["dtype", dt] => do
    let dt ← parseDt dt
    pure s!"ok valid={boolStr dt.valid} numeric={boolStr dt.isNumeric}"
  | _ => none

/-! ### the documented typing rules of the stream filters, checked independently of the operational model:
the metadata of the filter's INPUT comes from the reference type checker of C11 (Model/QueryRef.lean, `semR`/`semD`,
available when the sub-tree has a reference semantics); the rule itself is the documented one — aligner: numeric
fields only; delta / rate: a numeric and required field.  `true` = some stream filter of the tree is applied to a
well-typed input it must refuse, hence the whole query must be rejected. -/
def badForAlign (fms : List FieldMeta) : Bool := fms.any fun m => !m.dt.isNumeric
def badForDelta (fms : List FieldMeta) : Bool := fms.any fun m => !m.dt.isNumeric || !m.required

mutual
  def xMustRejectR (f t : Int) : RDs Float → Bool
    | .static _ _ => false
    | .filtered ds _ => xMustRejectR f t ds
    | .xfiltered ds _ =>
      xMustRejectR f t ds ||
        (!Ref.hasReductionR ds && match Ref.semR O false f t ds with
          | some (fms, _) => badForAlign fms
          | none => false)
    | .join _ srcs => xMustRejectRL f t srcs
    | .fromDs d => xMustRejectD f t d
  def xMustRejectRL (f t : Int) : RDsL Float → Bool
    | .nil => false
    | .cons d l => xMustRejectR f t d || xMustRejectRL f t l
  def xMustRejectD (f t : Int) : DDs Float → Bool
    | .static _ _ => false
    | .filtered d _ => xMustRejectD f t d
    | .xfiltered d x =>
      xMustRejectD f t d ||
        (!Ref.hasReductionD d && match Ref.semD O false f t d with
          | some (fms, _) => (match x with
              | .align _ _ => badForAlign fms
              | .delta _ _ => badForDelta fms
              | .rate _ _ _ _ => badForDelta fms)
          | none => false)
    | .reduction _ _ _ _ srcs => xMustRejectDL f t srcs
    | .fromReport r _ => xMustRejectR f t r
  def xMustRejectDL (f t : Int) : DDsL Float → Bool
    | .nil => false
    | .cons d l => xMustRejectD f t d || xMustRejectDL f t l
end

/-- returns (model output, spec verdict on the observation, reason) -/
def handle (c obs : String) : String × Bool × String :=
  match words c with
  | "tbl" :: ws =>
    match tblModel ws with
    | some m => (m, true, "")
    | none => ("bad-case", false, "unparsable tbl case")
  | "X" :: _ =>
    -- spec-only cases (outside the model: aligner filters over calendar alignment periods): only the property's
    -- clauses are evaluated on the observation of the real code; the observation itself is returned as the model text
    match parseObs obs with
    | none => (obs, false, "spec-only: observation not in the protocol format (plan-time panic or malformed)")
    | some o =>
      let (ok, why) := soundObs o
      (obs, ok, if ok then "" else "spec-only: " ++ why)
  | _ =>
    match parseQCase c with
    | none => ("bad-case", false, "unparsable case")
    | some qc =>
      let (model, inputsOk, refRejects, xRejects) : String × Bool × Bool × Bool :=
        match qc with
        | .rep mask f t q =>
          ((match inputErrR q with
              | some e => rejectStr e
              | none => fmtRResult mask (execR O false f t q)), inputsOkR q,
            !Ref.hasReductionR q && (Ref.semR O false f t q).isNone, xMustRejectR f t q)
        | .ds mask f t q =>
          ((match inputErrD q with
              | some e => rejectStr e
              | none => fmtDResult mask (execD O false f t q)), inputsOkD q,
            !Ref.hasReductionD q && (Ref.semD O false f t q).isNone, xMustRejectD f t q)
        | .tw .. => ("bad-case", false, false, false)
      let model := rejectProj model obs
      if !inputsOk then (model, true, "inputs not schema-conforming: property does not apply")
      else match parseObs obs with
        | none => (model, false, "observation not in the protocol format (plan-time panic or malformed)")
        | some o =>
          let (ok, why) := soundObs o
          if !ok then (model, false, why)
          else if refRejects && o.reject.isNone then (model, false, "ill-typed query (reference type checker) was not rejected")
          else if xRejects && o.reject.isNone then
            (model, false, "a stream filter over an unsuitable field (aligner: non-numeric; delta/rate: non-numeric or optional) was not rejected")
          else (model, true, "")

end ShpanVerif.Drive.C10
