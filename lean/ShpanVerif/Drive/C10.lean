import ShpanVerif.Util.Parse
/- Driver handler for C10 (stub: replaced when the property's model lands). -/
namespace ShpanVerif.Drive.C10

/-- returns (model output, spec verdict on the observation, reason) -/
def handle (_c _obs : String) : String × Bool × String :=
  ("unimplemented", false, "no model yet")

end ShpanVerif.Drive.C10
