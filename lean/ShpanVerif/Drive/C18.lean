import ShpanVerif.Drive.PipeCommon
import ShpanVerif.Drive.PipeDyn
/-
Driver handler for C18: a reusable stream re-materialises identically whatever happened before.
Spec predicate: every fault-free materialisation of the history delivers the list-level meaning of the
pipeline (its first n elements under take:n), independent of the earlier materialisations.
-/
namespace ShpanVerif.Drive.C18
open ShpanVerif.Util ShpanVerif.Model.Pipe ShpanVerif.Drive.PipeCommon ShpanVerif

def check (l : List V) : List Run → List ObsRun → Nat → Bool × String
  | r :: rs, o :: os, i =>
    match r.fault with
    | some _ => check l rs os (i+1)
    | none =>
      let want := match r.take with | none => l | some n => if n ≤ 0 then [] else l.take n.toNat
      if o.ok && o.delivered == fmtVs want then check l rs os (i+1)
      else (false, s!"materialisation {i}: want ok {fmtVs want}")
  | _, _, _ => (true, "")

def handle (c obs : String) : String × Bool × String :=
  if c.startsWith "DYN " then ShpanVerif.Drive.PipeDyn.handle c obs else   -- FlatMap family (Model/PipeDyn.lean)
  if isSpecOnly c then
    -- reusable sources / operators outside the model (FromIterator, FromMap*, FlatMap, Peek): the harness compares every
    -- fault-free materialisation of the history with a fresh stream value of the same description (Go vs Go)
    let ok := (obs.splitOn "rematerialise=ok").length > 1
    (obs, ok, if ok then "" else "spec-only: a materialisation differs from a fresh stream value: " ++ ((obs.splitOn "rematerialise=").getLast?.getD ""))
  else if isAsync c then
    -- histories over asynchronous stages of the reusable subset (Map with the concurrent option; Buffered around them):
    -- schedule dependent, so spec-only: every fault-free materialisation delivers the list-level meaning as a multiset
    -- (any n of its elements under take:n), whatever the earlier materialisations did; a crash or a hang of the case
    -- is an unparsable observation
    match parseCase c, parseObs obs with
    | some (p, rs), some os =>
      match Spec.eval p with
      | none => (obs, true, "")
      | some l =>
        let full := fmtVs (l.mergeSort (fun a b => fmtV a ≤ fmtV b))
        let rec go : List Run → List ObsRun → Nat → Bool × String
          | r :: rs, o :: os, i =>
            match r.fault with
            | some _ => go rs os (i+1)
            | none =>
              let cnt := if o.delivered == "-" then 0 else (o.delivered.splitOn ",").length
              let good := match r.take with
                | none => o.ok && o.delivered == full
                | some n => o.ok && cnt == min (if n ≤ 0 then 0 else n.toNat) l.length && subMultisetStr o.delivered full
              if good then go rs os (i+1)
              else (false, s!"async materialisation {i}: got {o.cls} {o.delivered}, want (a sub-multiset of) {full}")
          | _ :: _, [], i => (false, s!"materialisation {i} has no observation")
          | _, _, _ => (true, "")
        let (ok, why) := go rs os 0
        (obs, ok, why)
    | _, _ => (obs, false, "async history: unparsable case or observation (crash / hang?)")
  else
  match parseCase c with
  | none => ("bad-case", false, "unparsable case")
  | some (p, rs) =>
    if (Spec.eval p).isNone then (obs, true, "") else
    let model := agreeOr { } (modelText p rs) obs
    match parseObs obs, Spec.eval p with
    | some os, some l => let (ok, why) := check l rs os 0; (model, ok, why)
    | some _, none => (model, true, "")
    | none, _ => (model, false, "unparsable observation")

end ShpanVerif.Drive.C18
