import ShpanVerif.Util.Parse
import ShpanVerif.Drive.QueryIO
import ShpanVerif.Model.QueryRef
/-
Driver handler for C11 (evaluation matches the reference semantics; datasource/report twins agree).
Case grammar and observation format: notes/C10-protocol.md.
  q  cases: model = executable model; spec = the observation equals the rendering of the REFERENCE interpreter
            (`Ref.semR` / `Ref.semD`, Model/QueryRef.lean) — metadata and rows; a query the reference rejects must be
            rejected; where the reference says some row fails, the observation must be a row error (join-free trees).
            Trees with a reduction datasource have no reference semantics here (C14): only model = obs is compared.
  tw cases: the same datasource-API chain built three ways (A datasource API, B report API over FromDatasource,
            C report API + ToDatasource); spec = the three observations are identical and equal the reference.
            A disagreement that disappears when the report override filter keeps the custom metadata (the repaired
            variant `fixD22`) and that involves an override without custom metadata is classified `KF:D22`.
-/
namespace ShpanVerif.Drive.C11
open ShpanVerif.Util ShpanVerif.Model.Query ShpanVerif.Drive.QueryIO

def O := floatOps

def fmtRef (mask : Bool) (r : Ref.RRes Float) : Option String :=
  match r with
  | none => some "reject"
  | some (metas, some rows) =>
    some ("ok prepull=0 meta" ++ String.join (metas.map fun m => " " ++ fmtFm m) ++ " | rows" ++
      String.join (rows.map fun r => " " ++ fmtRow mask r))
  | some (metas, none) =>
    some ("ok prepull=0 meta" ++ String.join (metas.map fun m => " " ++ fmtFm m) ++ " | rowerr")

mutual
  def hasJoinR : RDs Float → Bool
    | .static _ _ => false
    | .filtered ds _ => hasJoinR ds
    | .xfiltered ds _ => hasJoinR ds
    | .join _ _ => true
    | .fromDs d => hasJoinD d
  def hasJoinD : DDs Float → Bool
    | .static _ _ => false
    | .filtered d _ => hasJoinD d
    | .xfiltered d _ => hasJoinD d
    | .reduction _ _ _ _ _ => true
    | .fromReport r _ => hasJoinR r
end

/-- compare an observation with the reference rendering -/
def refVerdict (obs : String) (ref : Option String) (lazyOk : Bool) : Bool × String :=
  match ref with
  | none => (true, "")
  | some "reject" =>
    if obs.startsWith "reject " then (true, "") else (false, "reference semantics rejects this query")
  | some want =>
    if obs == want then (true, "")
    else if obs.startsWith "reject " then (false, s!"reference semantics accepts this query; want {want}")
    else if want.endsWith "| rowerr" && lazyOk && (obs.splitOn " | ").head? == (want.splitOn " | ").head? then
      -- a join may end before it pulls the failing row
      (true, "")
    else (false, s!"want {want}")

def splitTw (obs : String) : Option (String × String × String) :=
  -- "A{ x } B{ y } C{ z }"
  match obs.splitOn " } B{ " with
  | [a, rest] =>
    match rest.splitOn " } C{ " with
    | [b, c] =>
      if a.startsWith "A{ " && c.endsWith " }" then some ((a.drop 3).toString, b, (c.dropEnd 2).toString) else none
    | _ => none
  | _ => none

def hasEmptyOverride (fs : List (DFilter Float)) : Bool :=
  fs.any fun f => match f with
    | .override _ _ none => true
    | .override _ _ (some c) => c.isEmpty
    | _ => false

def twModels (fix : Bool) (mask : Bool) (f t : Int) (fm : FieldMeta) (rows : List (DRec Float))
    (fs : List (DFilter Float)) : String × String × String :=
  let st : DDs Float := .static fm rows
  let a := fmtDResult mask (execD O fix f t (.filtered st fs))
  let b := fmtRResult mask (execR O fix f t (.filtered (.fromDs st) (Ref.liftFilters fm.urn fs)))
  let c := fmtDResult mask (execD O fix f t
    (.fromReport (.filtered (.fromDs st) (Ref.liftFiltersC fm.urn fs)) (Ref.finalUrn fm.urn fs)))
  (a, b, c)

/-- returns (model output, spec verdict on the observation, reason) -/
def handle (c obs : String) : String × Bool × String :=
  match parseQCase c with
  | none => ("bad-case", false, "unparsable case")
  | some (.rep mask f t q) =>
    let model := match inputErrR q with
      | some e => rejectStr e
      | none => fmtRResult mask (execR O false f t q)
    let model := rejectProj model obs
    if !inputsOkR q then (model, true, "inputs not schema-conforming: property does not apply")
    else
      let ref := if Ref.hasReductionR q then none else fmtRef mask (Ref.semR O false f t q)
      let (ok, why) := refVerdict obs ref (hasJoinR q)
      (model, ok, why)
  | some (.ds mask f t q) =>
    let model := match inputErrD q with
      | some e => rejectStr e
      | none => fmtDResult mask (execD O false f t q)
    let model := rejectProj model obs
    if !inputsOkD q then (model, true, "inputs not schema-conforming: property does not apply")
    else
      let ref := if Ref.hasReductionD q then none else fmtRef mask (Ref.semD O false f t q)
      let (ok, why) := refVerdict obs ref (hasJoinD q)
      (model, ok, why)
  | some (.tw mask f t fm rows fs) =>
    let (a, b, cc) := twModels false mask f t fm rows fs
    let model := match fmErr fm with
      | some e => rejectStr e
      | none => "A{ " ++ a ++ " } B{ " ++ b ++ " } C{ " ++ cc ++ " }"
    if !inputsOkD (.static fm rows) then (model, true, "inputs not schema-conforming: property does not apply")
    else match splitTw obs with
      | none => (model, false, "observation not in the A{ } B{ } C{ } format")
      | some (oa, ob, oc) =>
        let ref := fmtRef mask (Ref.semD O false f t (.filtered (.static fm rows) fs))
        let (okRef, whyRef) := refVerdict oa ref false
        if oa == ob && oa == oc && okRef then (model, true, "")
        else
          -- classify: explained by the recorded finding D22?
          let (fa, fb, fc) := twModels true mask f t fm rows fs
          if hasEmptyOverride fs && obs == model && fa == a && fa == fb && fa == fc && okRef then
            (model, false, "KF:D22 report OverrideFieldMetadataFilter drops custom metadata when none is given; datasource twin keeps it")
          else if !(oa == ob && oa == oc) then (model, false, "twins disagree: A/B/C observations differ")
          else (model, false, whyRef)

end ShpanVerif.Drive.C11
