import Std.Data.HashSet
import ShpanVerif.Drive.ConcShared
/-
Trace acceptance for the concurrent map: does the transition system of `Model/ConcMap.lean` admit the linearised
log the harness observed?  The log's events are the *visible* labels (source Emit start / return, source Close,
release of a gated mapper call, release of the gated consumer callback, cancel); all other transitions are internal
and are closed under (τ-closure by breadth-first search over a hash set of states).  Finally some state of the frontier
must be final and agree with the observed result class and delivered multiset.
Used for scripted (sync=1) cases of small size; larger ones fall back to the summary comparison.
-/
namespace ShpanVerif.Drive.Conc
open ShpanVerif.Util ShpanVerif.Model ShpanVerif.Model.Conc ShpanVerif.Model.ConcMap

structure AccCfg where
  cfg : ConcMap.Cfg
  mg : Bool
  cg : Bool
  limit : Nat      -- 0 = none
  cf : Nat         -- consumer fails on its k-th call (0 = never)
  mfail : Int      -- mapper fails / panics for this element (-1 = never)
  ofail : Bool := false  -- a lifecycle element after the stage fails to open: the terminal never pulls

def dedupItems (l : List Item) : List Item := l.eraseDups

/-- Internal (unobserved) transitions enabled in `s`. -/
def tauLabels (a : AccCfg) (s : St) : List Label :=
  let base : List Label := [.pStop, .pCloseSrc, .pWait, .pSend, .pDrop, .wRecv, .wExitClosed, .wExitCtx,
    .cCheck, .cSelCtx, .cRecv, .cClosed, .cClose0, .cCloseW, .cClose1, .cClose2]
  let holds := dedupItems s.wHold
  let k := s.delivered.length
  base ++ (if a.ofail then [.cOpenFail] else []) ++ holds.map .wSend ++ holds.map .wDrop
    ++ (if s.pctx then [.pTop] else [])                       -- the producer sees producerCtx.Done at the top of its loop
    ++ (if s.ctx1 || !a.mg then                               -- a mapper call returns by itself: not gated, or its ctx is done
          s.wMap.map (fun (i : Nat) => if s.ctx1 && a.mg then Label.wMapErr i
                               else if Int.ofNat i == a.mfail then Label.wMapErr i else Label.wMapOk i)
        else [])
    ++ (if a.cg && !s.ctx0 then [] else                       -- the consumer callback returns by itself
          (if a.cf != 0 && k == a.cf then [.cFail]
           else if a.limit != 0 && k ≥ a.limit then [.cStop, .cNext]
           else if a.cg then [.cFail] else [.cNext]))

def tauCloseGo (a : AccCfg) (cap : Nat) : Nat → Std.HashSet St → List St → List St → Option (List St)
  | 0, _, _, _ => none
  | fuel + 1, seen, todo, acc =>
    match todo with
    | [] => some acc
    | s :: rest =>
      if seen.size > cap then none else
      let nexts := (tauLabels a s).filterMap (fun l => ConcMap.step a.cfg s l)
      let (seen', newOnes) := nexts.foldl (fun (p : Std.HashSet St × List St) n =>
        if p.1.contains n then p else (p.1.insert n, n :: p.2)) (seen, [])
      tauCloseGo a cap fuel seen' (newOnes ++ rest) (newOnes ++ acc)

/-- all states reachable from `front` by internal transitions (`none`: more than `cap` states) -/
def tauClose (a : AccCfg) (cap : Nat) (front : List St) : Option (List St) :=
  let seen0 := front.foldl (fun h s => h.insert s) (Std.HashSet.emptyWithCapacity 64)
  tauCloseGo a cap (4 * cap + 4 * front.length + 16) seen0 front front

/-- Visible labels an observed event may correspond to. -/
def eventLabels (a : AccCfg) (s : St) (ev : String) : Option (List Label) :=
  match ev.toList with
  | 'o' :: _ => some []            -- Open returned: the model starts after it (no transition)
  | 'e' :: _ => some []            -- a gated source Emit was released: its return is logged separately
  | 's' :: _ => some (if s.pctx then [] else [.pTop])
  | 'r' :: rest =>
    match rest.getLast? with
    | some 'v' => some [.pEmitVal]
    | some 'e' => some [.pEmitEof]
    | some 'x' => some [.pEmitErr]
    | some 'c' => some [.pEmitErr]
    | _ => none
  | 'C' :: _ => some [.cCloseP]
  | 'x' :: _ => some [.cancel]
  | 'm' :: rest =>
    match (String.ofList rest).toNat? with
    | some i => some [if Int.ofNat i == a.mfail then Label.wMapErr i else Label.wMapOk i]
    | none => none
  | 'd' :: _ =>
    let k := s.delivered.length
    some (if a.cf != 0 && k == a.cf then [.cFail]
          else if a.limit != 0 && k ≥ a.limit then [.cStop, .cNext]
          else [.cNext])
  | _ => none

def isSkipEvent (ev : String) : Bool := ev.startsWith "o" || ev.startsWith "e"

def dedupStates (l : List St) : List St :=
  (l.foldl (fun (p : Std.HashSet St × List St) s => if p.1.contains s then p else (p.1.insert s, s :: p.2))
    (Std.HashSet.emptyWithCapacity 64, [])).2

/-- `none` = state space cap exceeded (no verdict); `some (frontier, failingEvent?)`. -/
def acceptEvents (a : AccCfg) (cap : Nat) : List St → List String → Option (List St × Option String)
  | front, [] => (tauClose a cap front).map (fun f => (f, none))
  | front, ev :: evs =>
    if isSkipEvent ev then acceptEvents a cap front evs else
    match tauClose a cap front with
    | none => none
    | some closed =>
      let next := closed.flatMap (fun s =>
        match eventLabels a s ev with
        | some ls => ls.filterMap (fun l => ConcMap.step a.cfg s l)
        | none => [])
      let next := dedupStates next
      if next.isEmpty then some ([], some ev) else acceptEvents a cap next evs

def resMatches (obsRes : String) (r : Option ConcMap.Res) : Bool :=
  match obsRes, r with
  | "ok", some .ok => true
  | "ctx", some .errCtx => true
  | "ctx", some .errOther => true      -- a ctx error that travelled through the stage as an item
  | "user", some .errOther => true
  | "other", some .errOther => true
  | "rec", some .errOther => true
  | _, _ => false

/-- Verdict: "accepted" | "rejected at <event>" | "rejected: no final state matches" | "skipped". -/
def acceptCmap (c : Case) (o : Obs) : String :=
  let mfail : Int := if c.mf ≥ 0 then c.mf else c.mp
  let lim := if c.first then 1 else c.limit
  let a : AccCfg := { cfg := { n := c.n, c := c.c, e := 1000 }, mg := c.mg, cg := c.cg, limit := lim, cf := c.cf, mfail := mfail, ofail := c.ofail != "" }
  if c.n > 6 || c.c > 3 || c.filt != "" || c.rep > 1 then "skipped" else
  match acceptEvents a 20000 [ConcMap.init a.cfg] o.plog with
  | none => "skipped"
  | some (_, some ev) => s!"rejected at {ev}"
  | some (front, none) =>
    let want := o.del.map (· - 1000)
    if front.any (fun s => ConcMap.final a.cfg s && resMatches o.res s.res && sortNats s.delivered == want) then "accepted"
    else "rejected: no final state with the observed result and delivered multiset"

end ShpanVerif.Drive.Conc
