import ShpanVerif.Drive.PipeCommon
import ShpanVerif.Drive.PipeDyn
import ShpanVerif.Model.JoinLife
/-
Driver handler for the `JL` case stream (harness/run/joinlife.go): the sorted-stream joins over probe sources, optional
fresh `Limit` per run, several runs on the same join value.

    JL KIND R0:XS0 R1:XS1 [R2:XS2 ...] || RUN || RUN ...         KIND = join2 | ljoin2 | joinn

Model text: `Model.JoinLife.consumeJ` run after run on the SAME operator object (the captured variables of the join are
kept from run to run, as the code keeps them), fresh world per run, printed in exactly the observation's format
(compared by string equality: result class, delivered rows, calls, per-resource events, full ordered trace).
Spec predicate, from independent definitions only: the per-resource bracket automaton and a replay of the ordered
event log (C01), the C09 list-level model `Model/Join.lean` (`joinSorted`, `leftJoinSorted`, `joinMultiple`) for what a
fault-free first run delivers, surfacing and prefix (C03).
-/
namespace ShpanVerif.Drive.JoinLife
open ShpanVerif.Util ShpanVerif.Model.Pipe ShpanVerif.Drive.PipeCommon
open ShpanVerif.Model.JoinLife
open ShpanVerif.Drive.PipeDyn (fmtSeq seqOf toks)

inductive Kind where
  | join2 | ljoin2 | joinn
  deriving DecidableEq, Repr

structure JCase where
  kind : Kind
  srcs : List (Nat × List Int)
  runs : List Run

/-- key of an element -/
def kf (x : Int) : Int := x.ediv 10

def parseSrc (t : String) : Option (Nat × List Int) :=
  match t.splitOn ":" with
  | [r, xs] => do
    let r ← r.toNat?
    let xs ← parseIntList xs
    pure (r, xs)
  | _ => none

def nodupNat : List Nat → Bool
  | [] => true
  | x :: xs => !xs.contains x && nodupNat xs

def parseJL (c : String) : Option JCase :=
  match splitAt "||" (words c) with
  | ("JL" :: kind :: srcs) :: runs => do
    let kind ← match kind with
      | "join2" => some Kind.join2 | "ljoin2" => some .ljoin2 | "joinn" => some .joinn | _ => none
    let srcs ← srcs.mapM parseSrc
    if !nodupNat (srcs.map (·.1)) then none
    if kind != .joinn && srcs.length != 2 then none
    if srcs.isEmpty then none
    let rs ← runs.mapM parseRun
    pure { kind := kind, srcs := srcs, runs := rs }
  | _ => none

/-! ### model text -/

def fmtSlot : Option Int → String
  | some n => toString n
  | none => "_"

def fmtRow (r : Row) : String := "/".intercalate (r.map fmtSlot)

def fmtRows (l : List Row) : String := if l.isEmpty then "-" else ",".intercalate (l.map fmtRow)

def fmtJO : JOutcome → String
  | .ok d => s!"ok {fmtRows d}"
  | .err e d => s!"err:{rootStr e} {fmtRows d}"
  | .oof => "oof -"

def fuelJ : Nat := 100000

/-- all materialisations in sequence on the same operator object; a fresh world per run -/
def runAllJ {σ : Type} (prog : σ → Prog σ) (obj : Obj σ) : List Run → List String
  | [] => []
  | r :: rs =>
    match consumeJ prog fuelJ r.consumer r.take obj { fault := r.fault } with
    | (o, obj, w) =>
      s!"{fmtJO o} | calls={w.calls} pre=0 | {fmtEvents w.trace} | seq={fmtSeq w.trace}" :: runAllJ prog obj rs

def modelTextJ (d : JCase) : String :=
  " || ".intercalate
    (match d.kind with
     | .join2 => runAllJ (join2 kf fuelJ) (Obj.mk0 d.srcs ({} : J2)) d.runs
     | .ljoin2 => runAllJ (leftJoin2 kf fuelJ) (Obj.mk0 d.srcs ({} : J2)) d.runs
     | .joinn => runAllJ (joinN kf d.srcs.length fuelJ) (Obj.mk0 d.srcs ({} : NS)) d.runs)

/-! ### spec predicate (on the observation) -/

/-- replay the global event log: `op` = resources open now.  `some reason` at the first violation; everything must be
    closed at the end. -/
def replayJ : List Nat → List String → Option String
  | op, [] => if op.isEmpty then none else some s!"resource {op.headD 0} still open when the terminal returned"
  | op, t :: ts =>
    match t.toList with
    | '#' :: _ => replayJ op ts
    | c :: ds =>
      match (String.ofList ds).toNat? with
      | none => some s!"bad seq token {t}"
      | some r =>
        if c == 'O' then
          if op.contains r then some s!"resource {r} opened while open" else replayJ (r :: op) ts
        else if c == 'o' then
          if op.contains r then some s!"open of resource {r} attempted while open" else replayJ op ts
        else if c == 'E' then
          if op.contains r then replayJ op ts else some s!"resource {r} pulled while closed"
        else if c == 'C' then
          if op.contains r then replayJ (op.erase r) ts else some s!"resource {r} closed while closed"
        else some s!"bad seq token {t}"
    | [] => some "empty seq token"

/-- what a fault-free materialisation of a FRESH join delivers, by the C09 model (`Model/Join.lean`): rows, and whether a
    sortedness error ends them -/
def c09 (d : JCase) : List Row × Bool :=
  match d.kind, d.srcs with
  | .join2, [(_, l), (_, r)] =>
    let o := Model.Join.joinSorted kf kf l r
    (o.1.map (fun p => [some p.1, some p.2]), o.2.isSome)
  | .ljoin2, [(_, l), (_, r)] =>
    let o := Model.Join.leftJoinSorted kf kf l r
    (o.1.map (fun p => [some p.1, p.2]), o.2.isSome)
  | .joinn, srcs =>
    let o := Model.Join.joinMultiple kf (srcs.map (·.2))
    (o.1.map (fun vs => vs.map some), o.2.isSome)
  | _, _ => ([], true)

/-- fault-free outcome under an optional Limit -/
def wantOf (take : Option Int) (s : List Row × Bool) : String × List Row :=
  let full := (if s.2 then "err:lib" else "ok", s.1)
  match take with
  | none => full
  | some n => if n.toNat ≤ s.1.length then ("ok", s.1.take n.toNat) else full

/-- verdict of one run; `fresh` = it is the first run on the join value -/
def specRun (d : JCase) (fresh : Bool) (r : Run) (o : ObsRun) (seq : Option (List String)) : Option String :=
  let want := wantOf r.take (c09 d)
  let wantTxt := want.1 ++ " " ++ fmtRows want.2
  let gotTxt := (if o.ok then "ok" else "err:" ++ o.cls) ++ " " ++ o.delivered
  let known := d.srcs.map (·.1)
  if o.pre != 0 then some "(a) effects before the terminal operation (pre != 0)"
  else if !obsBalanced o then some "(b) a resource's events are not (open emit* close)* [failed-open]"
  else if !(o.events.all (fun e => known.contains e.1)) then some "(b) events of a resource that is not an input"
  else
    match seq with
    | none => some "(c) no seq= token in the observation"
    | some ts =>
      match replayJ [] ts with
      | some why => some s!"(c) {why}"
      | none =>
        if fresh && r.fault.isNone && gotTxt != wantTxt then
          some s!"(d) fault-free materialisation of the fresh join returned `{gotTxt}`, the C09 model gives `{wantTxt}`"
        else
          let eBad : Option String :=
            match r.fault with
            | none => none
            | some (_, .cancel) => none
            | some (pos, k) =>
              if pos < o.calls then
                let wantCls := match k with | .panicVal => "panicval" | _ => "user"
                if o.ok then some s!"(e) fault at reached position {pos} swallowed: the terminal returned success (want err:{wantCls})"
                else if o.cls != wantCls then some s!"(e) fault at reached position {pos}: error class {o.cls} (want {wantCls})"
                else none
              else none
          match eBad with
          | some why => some why
          | none =>
            if fresh && !(toks o.delivered).isPrefixOf (want.2.map fmtRow) then
              some s!"(f) delivered `{o.delivered}` is not a prefix of the fault-free delivery `{fmtRows want.2}`"
            else none

def specAll (d : JCase) : List Run → List ObsRun → List String → Nat → Option String
  | [], [], _, _ => none
  | r :: rs, o :: os, t :: ts, i =>
    match specRun d (i == 0) r o (seqOf t) with
    | some why => some s!"run {i}: {why}"
    | none => specAll d rs os ts (i + 1)
  | _, _, _, _ => some "the observation does not have one part per run"

def handle (c obs : String) : String × Bool × String :=
  match parseJL c with
  | none => ("bad-case", false, "unparsable case")
  | some d =>
    let model := modelTextJ d
    match parseObs obs with
    | none => (model, false, "unparsable observation")
    | some os =>
      match specAll d d.runs os (obs.splitOn " || ") 0 with
      | none => (model, true, "")
      | some why => (model, false, why)

end ShpanVerif.Drive.JoinLife
