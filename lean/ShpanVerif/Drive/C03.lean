import ShpanVerif.Drive.PipeCommon
import ShpanVerif.Drive.PipeDyn
import ShpanVerif.Drive.JoinLife
/-
Driver handler for C03 (sequential part): a fault (error / panic(error) / panic(value)) at a call position
of the fault-free run must surface: the terminal returns an error whose chain contains the injected error
(class `user`; for a panic with a non-error value: the "recovered error value" error), and what was
delivered before is a prefix of the fault-free delivery (no invented elements).
-/
namespace ShpanVerif.Drive.C03
open ShpanVerif.Util ShpanVerif.Model.Pipe ShpanVerif.Drive.PipeCommon ShpanVerif

def isPrefixStr (a b : String) : Bool :=
  -- canonical delivered texts: "-" or comma separated; compare as token lists
  let ta := if a == "-" then [] else a.splitOn ","
  let tb := if b == "-" then [] else b.splitOn ","
  ta.isPrefixOf tb

def specRun (p : Pipe) (r : Run) (o : ObsRun) : Bool × String :=
  match r.fault with
  | none => (true, "")
  | some (_, .cancel) => (true, "")
  | some (_, k) =>
    let wantCls := match k with | .panicVal => "panicval" | _ => "user"
    if o.ok then (false, s!"fault swallowed: terminal returned success (want err:{wantCls})")
    else if o.cls != wantCls then (false, s!"wrong error class {o.cls} (want {wantCls})")
    else
      -- delivered prefix w.r.t. the list-level fault-free delivery, when that is defined
      match Spec.eval p with
      | some l =>
        let full := match r.take with | none => l | some n => if n ≤ 0 then [] else l.take n.toNat
        if isPrefixStr o.delivered (fmtVs full) then (true, "")
        else (false, s!"delivered {o.delivered} is not a prefix of the fault-free {fmtVs full}")
      | none => (true, "")

def handle (c obs : String) : String × Bool × String :=
  if c.startsWith "DYN " then ShpanVerif.Drive.PipeDyn.handle c obs else   -- FlatMap family (Model/PipeDyn.lean)
  if c.startsWith "JL " then ShpanVerif.Drive.JoinLife.handle c obs else    -- lifecycle of the joins (Model/JoinLife.lean)
  if isSpecOnly c then
    -- operators outside the model (sequential): a fault whose call position was reached must surface with the
    -- injected root, and what was delivered must be a prefix of what the same case delivers without the fault
    match parseObs obs, parseRunsOnly c with
    | some [o], some [r] =>
      match r.fault with
      | none => (obs, true, "")
      | some (_, .cancel) => (obs, true, "")
      | some (pos, k) =>
        if pos ≥ o.calls then (obs, true, "") else
        let wantCls := match k with | .panicVal => "panicval" | _ => "user"
        if o.ok then (obs, false, s!"spec-only: fault swallowed, terminal returned success (want err:{wantCls})")
        else if o.cls != wantCls then (obs, false, s!"spec-only: wrong error class {o.cls} (want {wantCls})")
        else match (if (words c).contains "sample" then none else o.ff) with   -- random sampling: no fixed delivery
          | some f => if isPrefixStr o.delivered f then (obs, true, "")
                      else (obs, false, s!"spec-only: delivered {o.delivered} is not a prefix of the fault-free {f}")
          | none => (obs, true, "")
    | some _, some _ => (obs, true, "")   -- histories of several materialisations: C01 / C18 business
    | _, _ => (obs, false, "unparsable observation")
  else
  match parseCase c with
  | none => ("bad-case", false, "unparsable case")
  | some (p, rs) =>
    if isAsync c then
      -- asynchronous stages: schedule dependent; evaluate the property on the observation: a fault whose
      -- call position was reached must surface with the injected error in the chain, and what was
      -- delivered must be a sub-multiset of the fault-free delivery (no zero stand-ins, no duplicates)
      match parseObs obs, rs with
      | some [o], [r] =>
        -- unordered stages under an early stop may deliver ANY n of the mapped elements: compare with the
        -- whole fault-free multiset
        let full := Spec.eval p
        -- a fault in read-ahead work that no consumer ever demands need not be observed: the surfacing clause
        -- is checked only where everything pulled is demanded (no early stop, no zip that ends at the first EOF)
        let demandAll := r.take.isNone && !((words c).contains "zip")
        let subOk := match full with
          | some l => subMultisetStr o.delivered (fmtVs (l.mergeSort (fun a b => fmtV a ≤ fmtV b)))
          | none => true
        match r.fault with
        | some (pos, k) =>
          -- under an early-stopping terminal a fault in read-ahead work need not be observed at all
          if k == .cancel || pos ≥ o.calls || !demandAll then (obs, subOk, if subOk then "" else "async: delivered an element the fault-free run does not deliver")
          else
            let wantCls := match k with | .panicVal => "panicval" | _ => "user"
            if o.ok then (obs, false, s!"async: fault swallowed, terminal returned success (want err:{wantCls})")
            else if o.cls != wantCls then (obs, false, s!"async: wrong error class {o.cls} (want {wantCls})")
            else (obs, subOk, if subOk then "" else "async: delivered an element the fault-free run does not deliver")
        | none =>
          let okAll := o.ok && (r.take.isSome || (match full with | some l => o.delivered == fmtVs (l.mergeSort (fun a b => fmtV a ≤ fmtV b)) | none => true)) && subOk
          (obs, okAll, if okAll then "" else "async: fault-free run does not deliver the mapped multiset")
      | _, _ => (obs, false, if obs.startsWith "crash" then "the process crashed: panic on a library goroutine"
                             else if obs.startsWith "hang" then "the terminal operation did not return" else "unparsable observation")
    else
    let model := agreeOr { } (modelText p rs) obs
    match parseObs obs, rs with
    | some [o], [r] => let (ok, why) := specRun p r o; (model, ok, why)
    | some _, _ => (model, true, "")
    | none, _ => (model, false, "unparsable observation")

end ShpanVerif.Drive.C03
