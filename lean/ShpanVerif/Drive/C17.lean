import ShpanVerif.Util.Parse
import ShpanVerif.Model.Derive
import ShpanVerif.Model.RowAlias
import ShpanVerif.Model.MetaMap
/-
Driver handler for C17 (case formats: see harness/run/c17.go).

  D r<root> <derivations> | <order> ; <order> ...
      model : `Derive.runD` over the slice heap (growth oracle: Go-like doubling), then read every stream value's
              lifecycle slice from the final heap
              (kind C = concurrent map: `Derive.concMapLifecycle`, guard ids >= `guardBase` are not probes)
      spec  : every stream opens/closes exactly the ids of its own derivation path (computed by following the
              parent pointers, no heap) and delivers its path's elements (sorted below a concurrent map, counted
              below a Limit/Skip under a concurrent map); an overlapping materialisation (`zip` / `nest` parts) of
              several stream values opens and closes the multiset union of their paths
              (model: `Derive.materialiseMany` on the final heap; theorem `C17_materialise_overlapping`)

  Q <lay> n= w= caps=k:m,... <mode> | P | Q | post
      model : `RowAlias.stepR` operations on a heap built with the given spare capacities / layout; a stage that hands
              rows (or the metadata slice) on reuses the REGISTER; the whole case is run twice, all results are read at
              the end (u = no pre-existing array changed, x = the source rows read as at the start, y = second run = first,
              k = the stage objects are unchanged: stages are immutable data of the row program, always 1)
      spec  : a table-level evaluator (lists only), the same for every capacity, and the bits u, x, y, k must be 1.
              The harness makes every stage object ONCE per distinct construction arguments and uses that object for
              all occurrences / pipelines / executions; the model has value semantics (`C17_stage_sharing_irrelevant`),
              so any state a stage object keeps between executions shows as a spec failure.

  M <seq|join> src=<cm>,<cm>,... | P | Q          (custom-metadata MAPS; planning time)
      model : `MetaMap.stepM` operations on a heap of map objects holding the caller's maps (source fields',
              AddFieldMeta's, constants') in textual order; every result field is printed with its contents and WHICH
              object it is (`#c<i>` caller map i, `#f<j>` j-th fresh map in order of first appearance)
      spec  : contents of every field = the value-level merge (`MetaMap.specRunM`: no heap, no references), P's result
              printed before and after Q ran is the same, and the caller-maps bit must be 1
-/
namespace ShpanVerif.Drive.C17
open ShpanVerif.Util ShpanVerif.Model.Slice ShpanVerif.Model.Derive ShpanVerif.Model.RowAlias

def dropFirst (s : String) (n : Nat) : String := String.ofList (s.toList.drop n)

def stripPrefix? (s p : String) : Option String :=
  if s.startsWith p then some (dropFirst s p.length) else none

/-! ### D cases -/

/-- one observation part after the solo pass: every stream value materialised in the given order on one forest, or
    groups of stream values materialised at overlapping times (zipped / nested) -/
inductive DPart
  | all (ord : List Nat)
  | overlap (kind : String) (groups : List (List Nat))

structure DCase where
  root : Char
  ds : List (Nat × Char)
  ords : List DPart

def parseDeriv (t : String) : Option (Nat × Char) :=
  let cs := t.toList
  match cs.getLast? with
  | none => none
  | some k => do
    let p ← (String.ofList cs.dropLast).toNat?
    if "WKFMLSPC".toList.contains k then pure (p, k) else none

def parseDerivs (s : String) : Option (List (Nat × Char)) :=
  if s == "-" then some [] else (s.splitOn ",").mapM parseDeriv

def parsePart (t : String) : Option DPart :=
  match words t with
  | "zip" :: groups => (groups.mapM parseNatList).map (DPart.overlap "zip")
  | "nest" :: groups => (groups.mapM parseNatList).map (DPart.overlap "nest")
  | [ord] => (parseNatList ord).map DPart.all
  | _ => none

def parseD (text : String) : Option DCase :=
  match text.splitOn " | " with
  | [head, ordText] =>
    match words head with
    | [r, d] => do
      let root ← (match r.toList with | ['r', c] => some c | _ => none)
      let ds ← parseDerivs d
      let ords ← ((ordText.splitOn " ; ").map String.trimAscii |>.map (·.toString) |>.filter (· != "")).mapM parsePart
      pure { root := root, ds := ds, ords := ords }
    | _ => none
  | _ => none

/-- ids ≥ `guardBase` are the producer-stop guards of concurrent-map children: lifecycle elements without an open
    function, not probes of the harness, so they never show in an observation. -/
def guardBase : Nat := 100000

def probesOnly (l : List Nat) : List Nat := l.filter (· < guardBase)

def kindOf (j : Nat) (k : Char) : Kind :=
  match k with
  | 'C' => .concMap (guardBase + j)
  | 'W' => .withLifecycle j
  | 'K' => .withLock j
  | 'F' => .share .filterEven
  | 'M' => .share .mapAdd10
  | 'L' => .share .limit2
  | 'S' => .share .skip1
  | _ => .share .peek

def rootIds (root : Char) : List Nat := if root == '0' then [] else [0]

/-- run the derivation program; the growth oracle doubles (Go's policy for short slices): new cap = 2·len. -/
def runModelD (c : DCase) : DState :=
  let st0 := initState [(rootIds c.root, 0)]
  (c.ds.foldl (fun (acc : DState × Nat) d =>
    let plen := (acc.1.streams.getD d.1 { prov := [], lc := nilSlice }).lc.len
    let grow := if d.2 == 'C' then acc.2 % 2 else plen - 1
    (derive acc.1 { parent := d.1, kind := kindOf acc.2 d.2, grow := grow }, acc.2 + 1)) (st0, 1)).1

def srcData : List Int := [0, 1, 2, 3]

def fmtInts (l : List Int) : String := fmtList toString l

/-- How the elements of stream `i` are compared: 0 = the exact sequence; 1 = as a sorted multiset (a concurrent map on
    the path: order unspecified, Filter/Map/Peek commute with any order); 2 = only their number (Limit/Skip below a
    concurrent map: which elements pass depends on the schedule, how many does not); 3 = not at all (a Filter below
    that: even the number depends on the schedule). -/
def dataMode (c : DCase) : Nat → Nat → Nat
  | 0, _ => 0
  | fuel + 1, i =>
    if i == 0 then 0 else
    match c.ds[i - 1]? with
    | none => 0
    | some (p, k) =>
      let m := dataMode c fuel p
      if k == 'C' then max m 1
      else if (k == 'L' || k == 'S') && m == 1 then 2
      else if k == 'F' && m ≥ 2 then 3
      else m

def fmtData (mode : Nat) (l : List Int) : String :=
  match mode with
  | 0 => fmtInts l
  | 1 => fmtInts (l.toArray.qsort (· < ·)).toList
  | 2 => s!"#{l.length}"
  | _ => "?"

def sortNats (l : List Nat) : List Nat := (l.toArray.qsort (· < ·)).toList

/-- does a concurrent map lie on the path of stream `i`?  (such streams are never materialised at overlapping times) -/
def concOnPath (c : DCase) : Nat → Nat → Bool
  | 0, _ => false
  | fuel + 1, i =>
    if i == 0 then false else
    match c.ds[i - 1]? with
    | none => false
    | some (p, k) => k == 'C' || concOnPath c fuel p

/-- `many` = the ids opened / closed by an overlapping materialisation of the listed stream values, as multisets -/
def fmtD (c : DCase) (lc : Nat → List Nat) (many : List Nat → List Nat × List Nat) (data : Nat → List Int) : String :=
  let n := c.ds.length + 1
  let solo := (List.range n).map (fun i =>
    s!"{i}:{fmtNatList (lc i)}/{fmtNatList (lc i)}/{fmtData (dataMode c n i) (data i)}")
  let parts := c.ords.map (fun part =>
    match part with
    | .all ord => " ; all " ++ " ".intercalate (ord.map (fun i => s!"{i}:{fmtNatList (lc i)}/{fmtNatList (lc i)}"))
    | .overlap kind groups =>
      s!" ; {kind} " ++ " ".intercalate (groups.map (fun g =>
        if g.any (concOnPath c n) then s!"{fmtNatList g}:skip"
        else
          let r := many g
          s!"{fmtNatList g}:{fmtNatList (sortNats r.1)}/{fmtNatList (sortNats r.2)}")))
  "solo " ++ " ".intercalate solo ++ String.join parts

/-- list-level spec: follow the parent pointers (fuel = index bound). -/
def pathIds (c : DCase) : Nat → Nat → List Nat
  | 0, _ => rootIds c.root
  | fuel + 1, i =>
    if i == 0 then rootIds c.root else
    match c.ds[i - 1]? with
    | none => []
    | some (p, k) => pathIds c fuel p ++ (if k == 'W' || k == 'K' then [i] else [])

def dataOpOf (k : Char) : List Int → List Int :=
  match k with
  | 'F' => fun l => l.filter (fun v => v % 2 == 0)
  | 'M' => fun l => l.map (· + 10)
  | 'C' => fun l => l.map (· + 10)
  | 'L' => fun l => l.take 2
  | 'S' => fun l => l.drop 1
  | _ => id

def pathData (c : DCase) : Nat → Nat → List Int
  | 0, _ => srcData
  | fuel + 1, i =>
    if i == 0 then srcData else
    match c.ds[i - 1]? with
    | none => []
    | some (p, k) => dataOpOf k (pathData c fuel p)

def handleD (text obs : String) : String × Bool × String :=
  match parseD text with
  | none => ("bad-case", false, "unparsable case")
  | some c =>
    let st := runModelD c
    let model := fmtD c
      (fun i => match st.streams[i]? with | some s => probesOnly (materialise st.heap s).1 | none => [])
      (fun g =>
        -- the model's overlapping materialisation of the listed stream VALUES, read through the final heap
        let r := materialiseMany st.heap (g.filterMap (fun i => st.streams[i]?))
        (probesOnly r.1, probesOnly r.2))
      (fun i => match st.streams[i]? with | some s => dataOf srcData s.prov | none => [])
    let n := c.ds.length + 1
    -- spec: the multiset union of the listed streams' own derivation paths (parent pointers, no heap)
    let want := fmtD c (pathIds c n) (fun g => (g.flatMap (pathIds c n), g.flatMap (pathIds c n))) (pathData c n)
    -- the parts before the first overlapping materialisation (solo / all passes)
    let seqPart := fun (t : String) => (((t.splitOn " ; zip").headD "").splitOn " ; nest").headD ""
    let why :=
      if seqPart obs == seqPart want then
        "stream values materialised at OVERLAPPING times (zip / nest) do not open and close the multiset union of their own derivation paths (every stream alone does): state of a lifecycle / lock element is shared between the streams derived from it; "
      else "a stream does not run its own derivation path; "
    (model, obs == want, if obs == want then "" else s!"{why}want {want}")

/-! ### Q cases -/

/-- value expressions of a case: `c<int>` | `r<idx>` | `n(v,v)` nvl | `p(v,v)` numeric + | `g(a,b,t,f)` selector over
    the condition a > b | `k(v)` cast integer -> decimal -> integer -/
inductive CVal
  | const (n : Int)
  | ref (i : Nat)
  | nvl (a b : CVal)
  | plus (a b : CVal)
  | sel (a b t f : CVal)
  | cast (a : CVal)
  | red (op : Char) (idxs : Option (List Nat))   -- `u<s|a|m|x|c>(<idx>+..)` / `u<op>(*)`: ReduceFieldValue

structure CStage where
  kind : Char
  vals : List CVal := []
  idx : List Nat := []
  sub : Char := '-'
  per : Nat := 0

def takeNat (cs : List Char) : Option (Nat × List Char) :=
  let ds := cs.takeWhile Char.isDigit
  if ds.isEmpty then none else (String.ofList ds).toNat?.map (fun n => (n, cs.dropWhile Char.isDigit))

def expectC (c : Char) : List Char → Option (List Char)
  | x :: r => if x == c then some r else none
  | [] => none

def parseIdxListC (cs : List Char) : Option (List Nat) :=
  ((String.ofList cs).splitOn "+").mapM String.toNat?

def parseCValC : Nat → List Char → Option (CVal × List Char)
  | 0, _ => none
  | _ + 1, 'c' :: '-' :: rest => (takeNat rest).map (fun nr => (CVal.const (-(nr.1 : Int)), nr.2))
  | _ + 1, 'c' :: rest => (takeNat rest).map (fun nr => (CVal.const (nr.1 : Int), nr.2))
  | _ + 1, 'r' :: rest => (takeNat rest).map (fun nr => (CVal.ref nr.1, nr.2))
  | _ + 1, 'u' :: op :: '(' :: '*' :: ')' :: rest =>
    if "samxc".toList.contains op then some (CVal.red op none, rest) else none
  | _ + 1, 'u' :: op :: '(' :: rest =>
    if "samxc".toList.contains op then
      let body := rest.takeWhile (· != ')')
      match rest.dropWhile (· != ')') with
      | ')' :: r => (parseIdxListC body).map (fun is => (CVal.red op (some is), r))
      | _ => none
    else none
  | f + 1, 'n' :: '(' :: rest => do
    let (a, r) ← parseCValC f rest
    let r ← expectC ',' r
    let (b, r) ← parseCValC f r
    let r ← expectC ')' r
    pure (CVal.nvl a b, r)
  | f + 1, 'p' :: '(' :: rest => do
    let (a, r) ← parseCValC f rest
    let r ← expectC ',' r
    let (b, r) ← parseCValC f r
    let r ← expectC ')' r
    pure (CVal.plus a b, r)
  | f + 1, 'k' :: '(' :: rest => do
    let (a, r) ← parseCValC f rest
    let r ← expectC ')' r
    pure (CVal.cast a, r)
  | f + 1, 'g' :: '(' :: rest => do
    let (a, r) ← parseCValC f rest
    let r ← expectC ',' r
    let (b, r) ← parseCValC f r
    let r ← expectC ',' r
    let (t, r) ← parseCValC f r
    let r ← expectC ',' r
    let (e, r) ← parseCValC f r
    let r ← expectC ')' r
    pure (CVal.sel a b t e, r)
  | _, _ => none

def parseCValFull (cs : List Char) : Option CVal :=
  match parseCValC (cs.length + 1) cs with
  | some (v, []) => some v
  | _ => none

def parseValList : Nat → List Char → Option (List CVal)
  | 0, _ => none
  | f + 1, cs =>
    match parseCValC (cs.length + 1) cs with
    | some (v, []) => some [v]
    | some (v, '+' :: r) => (parseValList f r).map (v :: ·)
    | _ => none

def parseIdxList (cs : List Char) : Option (List Nat) :=
  ((String.ofList cs).splitOn "+").mapM String.toNat?

def parseStage (t : String) : Option CStage :=
  match t.toList with
  | ['D'] => some { kind := 'D' }
  | 'A' :: rest => (parseCValFull rest).map (fun v => { kind := 'A', vals := [v] })
  | 'S' :: rest => (parseValList (rest.length + 1) rest).map (fun vs => { kind := 'S', vals := vs })
  | 'R' :: rest => do
    let (i, r) ← takeNat rest
    let r ← expectC '=' r
    let v ← parseCValFull r
    pure { kind := 'R', vals := [v], idx := [i] }
  | 'O' :: rest =>
    match takeNat rest with
    | some (i, []) => some { kind := 'O', idx := [i] }
    | _ => none
  | 'X' :: rest => (parseIdxList rest).map (fun is => { kind := 'X', idx := is })
  | 'F' :: rest => (parseCValFull rest).map (fun v => { kind := 'F', vals := [v] })
  | 'C' :: rest => do
    let (a, r) ← parseCValC (rest.length + 1) rest
    let r ← expectC ',' r
    let b ← parseCValFull r
    pure { kind := 'C', vals := [a, b] }
  | 'B' :: rest => do
    let (i, r) ← takeNat rest
    match r with
    | [] => pure { kind := 'B', idx := [i] }
    | [c] => if c == 'd' || c == 'r' || c == 'o' then pure { kind := 'B', idx := [i], sub := c } else none
    | c :: r2 =>
      if c == 'a' || c == 'f' || c == 'l' then
        match takeNat r2 with
        | some (p, []) => if p == 0 then none else pure { kind := 'B', idx := [i], sub := c, per := p }
        | _ => none
      else none
  | 'G' :: rest => do
    let (p, r) ← takeNat rest
    if p == 0 then none else
    match r with
    | [] => pure { kind := 'G', per := p }
    | ['f'] => pure { kind := 'G', per := p, sub := 'f' }
    | ['l'] => pure { kind := 'G', per := p, sub := 'l' }
    | _ => none
  | _ => none

def parseChain (s : String) : Option (List CStage) :=
  let s := s.trimAscii.toString
  if s == "-" then some [] else (s.splitOn ".").mapM parseStage

structure QCase where
  lay : String
  n : Nat
  w : Nat
  caps : List (Nat × Nat)
  mode : String
  p : List CStage
  q : List CStage
  post : List CStage

def parseCap (s : String) : Option (Nat × Nat) :=
  match s.splitOn ":" with
  | [a, b] => do pure ((← a.toNat?), (← b.toNat?))
  | _ => none

def parseQ (text : String) : Option QCase :=
  match text.splitOn " | " with
  | [head, p, q, post] =>
    match words head with
    | [lay, n, w, caps, mode] => do
      let n ← (← stripPrefix? n "n=").toNat?
      let w ← (← stripPrefix? w "w=").toNat?
      let caps ← ((← stripPrefix? caps "caps=").splitOn ",").mapM parseCap
      pure { lay := lay, n := n, w := w, caps := caps, mode := mode,
             p := (← parseChain p), q := (← parseChain q), post := (← parseChain post) }
    | _ => none
  | _ => none

/-- urn ids: field j of the source's metadata slices ↦ j (`s`), 100+j (`t`), 200+j (`v`); spare sentinel j ↦ -(1+j);
    new field of pipeline `tag` ↦ base + 10·stage (+ 1 + field). -/
def tagBase (tag : String) : Int := if tag == "p" then 1000 else if tag == "q" then 2000 else 3000

def urnName (v : Int) : String :=
  if v < 0 then s!"zz{-v - 1}"
  else if v < 100 then s!"s{v}"
  else if v < 200 then s!"t{v - 100}"
  else if v < 1000 then s!"v{v - 200}"
  else
    let tag := if v < 2000 then "p" else if v < 3000 then "q" else "j"
    let r := v % 1000
    if r % 10 == 0 then s!"{tag}{r / 10}" else s!"{tag}{r / 10}_{r % 10 - 1}"

def rangeI (n : Nat) : List Int := (List.range n).map Int.ofNat

def fmtVal : Val → String
  | .nil => "n"
  | .int i => toString i

/-- timestamps are counted in half seconds from the base; whole seconds print as seconds -/
def fmtTs (ts : Int) : String := if ts % 2 == 0 then toString (ts / 2) else s!"{ts}h"

def fmtRow (r : Int × List Val) : String := s!"{fmtTs r.1}:{fmtList fmtVal r.2}"

def fmtRows (rows : List (Int × List Val)) : String :=
  if rows.isEmpty then "-" else ";".intercalate (rows.map fmtRow)

def fmtUrns (m : List Val) : String :=
  fmtList (fun v => match v with | .int i => urnName i | .nil => "?") m

def toValFn : CVal → ValFn
  | .const n => .const (.int n)
  | .ref i => .ref i
  | .nvl a b => .nvl (toValFn a) (toValFn b)
  | .plus a b => .bin .add (toValFn a) (toValFn b)
  | .sel a b t f => .selGt (toValFn a) (toValFn b) (toValFn t) (toValFn f)
  | .cast a => .cast (toValFn a)
  | .red op idxs =>
    let rop : RedOp := if op == 's' then .sum else if op == 'a' then .avg else if op == 'm' then .min
      else if op == 'x' then .max else .count
    match idxs with
    | some is => .red rop is
    | none => .redAll rop

def layNil (lay : String) : Bool := lay.endsWith "n"
def layPack (lay : String) : Bool := lay.startsWith "pack"

/-- source row i: cell j = 100·i + j + 1; with an `n` layout the LAST column is optional and nil in the rows i ≡ 1 (mod 3) -/
def srcRow (nilCol : Bool) (w i : Nat) : List Val :=
  (List.range w).map (fun j => if nilCol && j + 1 == w && i % 3 == 1 then Val.nil else Val.int (100 * i + j + 1))

/-! #### aligner / gap filler: which output row is which input row (timestamps only; shared by spec and model) -/

inductive ADir
  | pass (i : Nat)                 -- the input row itself
  | copy (i : Nat)                 -- forward fill: a copy of input row i
  | interp (i j num den : Nat)     -- time-weighted average of rows i and j, weight num/den

/-- the base instant is 1 000 000 s after the epoch = 2 000 000 half seconds; FixedAlignmentPeriod truncates from the epoch -/
def baseHalf : Int := 2000000

def startOf (p : Nat) (t : Int) : Int :=
  let a := baseHalf + t
  a - a % (p : Int) - baseHalf

/-- aligner_report_filter.go:41-91 over cluster_sorted_stream.go: one output per cluster, stamped with the cluster start;
    first cluster / exactly aligned first item: the item; else the average with the previous cluster's last item, which is
    the item just before (clusters are runs of adjacent items) -/
def clusterDirs (p : Nat) (tss : List Int) : List (Int × ADir) :=
  let r := tss.foldl (fun (acc : (List (Int × ADir) × Option (Int × Int)) × Nat) t =>
    let i := acc.2
    let s := startOf p t
    let out := acc.1.1
    match acc.1.2 with
    | none => ((out ++ [(s, ADir.pass i)], some (t, s)), i + 1)
    | some (pt, ps) =>
      if ps == s then ((out, some (t, s)), i + 1)
      else if t == s then ((out ++ [(s, ADir.pass i)], some (t, s)), i + 1)
      else ((out ++ [(s, ADir.interp (i - 1) i (s - pt).toNat (t - pt).toNat)], some (t, s)), i + 1))
    ((([] : List (Int × ADir)), (none : Option (Int × Int))), 0)
  r.1.1

/-- ts_gap_filler_stream.go: one output per period from the first to the last point -/
def gapDirs (p : Nat) (fill : Char) (tss : List Int) : List (Int × ADir) :=
  match tss.head?, tss.getLast? with
  | some t0, some tl =>
    let cnt := ((tl - t0) / (p : Int)).toNat + 1
    (List.range cnt).map (fun (k : Nat) =>
      let e := t0 + Int.ofNat k * Int.ofNat p
      match tss.idxOf? e with
      | some i => (e, ADir.pass i)
      | none =>
        let j := (tss.takeWhile (· < e)).length
        let i := j - 1
        if fill == 'l' then (e, ADir.interp i j (e - tss.getD i 0).toNat (tss.getD j 0 - tss.getD i 0).toNat)
        else (e, ADir.copy i))
  | _, _ => []

/-! #### table-level specification (no heap) -/

/-- a result row: `orig = some i` — the caller's row slice i itself, handed on by every stage so far; `none` — a row
    made by the library (it must not share memory with a caller row or with another row of the result) -/
structure TRow where
  ts : Int
  vals : List Val
  orig : Option Nat := none

structure Tbl where
  urns : List Val
  rows : List TRow

def twaVal (num den : Nat) : Val → Val → Val
  | .int a, .int b => .int (twaInt num den a b)
  | _, _ => .nil

def applyDirsT (rows : List TRow) (dirs : List (Int × ADir)) : List TRow :=
  let rowAt := fun i => rows.getD i { ts := 0, vals := [] }
  dirs.map (fun d => match d.2 with
    | .pass i => { rowAt i with ts := d.1 }
    | .copy i => { ts := d.1, vals := (rowAt i).vals }
    | .interp i j n dn => { ts := d.1, vals := List.zipWith (twaVal n dn) (rowAt i).vals (rowAt j).vals })

def alignT (p : Nat) (fill : Char) (rows : List TRow) : List TRow :=
  let sparse := applyDirsT rows (clusterDirs p (rows.map (·.ts)))
  if fill == 'f' || fill == 'l' then applyDirsT sparse (gapDirs p fill (sparse.map (·.ts))) else sparse

def pairsT (rows : List TRow) (f : Int → Val → Int → Val → Val) : List TRow :=
  (rows.zip rows.tail).map (fun pc =>
    { ts := pc.2.ts, vals := [f pc.1.ts (pc.1.vals.getD 0 Val.nil) pc.2.ts (pc.2.vals.getD 0 Val.nil)] })

def deltaVal : Val → Val → Val
  | .int prev, .int cur => .int (cur - prev)
  | _, _ => .nil

def rateVal (pt : Int) (pv : Val) (ct : Int) (cv : Val) : Val :=
  match pv, cv with
  | .int prev, .int cur => .int ((2 * (cur - prev)).tdiv (ct - pt))
  | _, _ => .nil

def colsOf (row : List Val) (keep : List Nat) : List Val := keep.map (fun i => row.getD i Val.nil)

def keepOf (width : Nat) (dropped : List Nat) : List Nat := (List.range width).filter (fun i => !dropped.contains i)

/-- a stage that builds one new row per row -/
def mkRows (rows : List TRow) (f : List Val → List Val) : List TRow :=
  rows.map (fun r => { ts := r.ts, vals := f r.vals })

def specStageT (tag : String) (si : Nat) (t : Tbl) (st : CStage) : Tbl :=
  let newUrn := Val.int (tagBase tag + 10 * si)
  let i0 := st.idx.headD 0
  match st.kind, st.vals with
  | 'D', _ => { t with rows := t.rows.filter (fun r => (r.ts / 2) % 2 == 0) }
  | 'A', v :: _ => { urns := t.urns ++ [newUrn], rows := mkRows t.rows (fun r => r ++ [(toValFn v).eval r]) }
  | 'S', vs =>
    { urns := (rangeI vs.length).map (fun j => Val.int (tagBase tag + 10 * si + 1 + j)),
      rows := mkRows t.rows (fun r => specSelect r (vs.map toValFn)) }
  | 'R', v :: _ => { urns := t.urns.set i0 newUrn, rows := mkRows t.rows (fun r => r.set i0 ((toValFn v).eval r)) }
  | 'O', _ => { t with urns := t.urns.set i0 newUrn }
  | 'X', _ =>
    let keep := keepOf t.urns.length st.idx
    { urns := colsOf t.urns keep, rows := mkRows t.rows (fun r => colsOf r keep) }
  | 'F', v :: _ => { urns := [newUrn], rows := mkRows t.rows (fun r => [(toValFn v).eval r]) }
  | 'C', [a, b] => { t with rows := t.rows.filter (fun r => valGt ((toValFn a).eval r.vals) ((toValFn b).eval r.vals)) }
  | 'B', _ =>
    let col := mkRows t.rows (fun r => [r.getD i0 Val.nil])
    let rows :=
      if st.sub == 'd' then pairsT col (fun _ pv _ cv => deltaVal pv cv)
      else if st.sub == 'r' then pairsT col rateVal
      else if st.sub == 'a' || st.sub == 'f' || st.sub == 'l' then alignT st.per st.sub col
      else col
    -- `o`: datasource-level OverrideFieldMetadata between the bridges: new urn, data handed through
    { urns := [if st.sub == 'o' then newUrn else t.urns.getD i0 Val.nil], rows := rows }
  | 'G', _ => { t with rows := alignT st.per st.sub t.rows }
  | _, _ => t

def specChainT (tag : String) (t : Tbl) (chain : List CStage) : Tbl :=
  (chain.foldl (fun (acc : Tbl × Nat) st => (specStageT tag acc.2 acc.1 st, acc.2 + 1)) (t, 0)).1

def nils (n : Nat) : List Val := List.replicate n Val.nil

def unionTs (sides : List (List Int)) : List Int :=
  ((sides.flatten.toArray.qsort (· < ·)).toList).eraseDups

/-- kind: 'I' inner, 'L' left, 'F' full; two or more sides: every joined row is a new row -/
def specJoinT (kind : Char) (sides : List Tbl) : Tbl :=
  let tss := unionTs (sides.map (fun s => s.rows.map (·.ts)))
  let rows := tss.filterMap (fun ts =>
    let cells := sides.map (fun s => ((s.rows.find? (fun r => r.ts == ts)).map (·.vals), s.urns.length))
    let padded : TRow := { ts := ts, vals := cells.flatMap (fun c => c.1.getD (nils c.2)) }
    if kind == 'I' then (if cells.all (fun c => c.1.isSome) then some padded else none)
    else if kind == 'L' then (match cells.head? with | some (some _, _) => some padded | _ => none)
    else (if cells.any (fun c => c.1.isSome) then some padded else none))
  { urns := sides.flatMap (·.urns), rows := rows }

def isJoin (mode : String) : Bool := mode.startsWith "join"

/-- modes with a shared tag (`seqs`, `alts`, `tj<I|L|F><s|a>s`, `tk…s`): Q's new urns carry P's tag; in the harness equal
    stages are then the same Go objects in both pipelines.  Stages are values here, so only the urn names change. -/
def sharedMode (mode : String) : Bool :=
  mode == "seqs" || mode == "alts" ||
    (mode.length == 5 && (mode.startsWith "tj" || mode.startsWith "tk") && mode.endsWith "s")

def baseMode (mode : String) : String :=
  if sharedMode mode then String.ofList mode.toList.dropLast else mode

def qTag (mode : String) : String := if sharedMode mode then "p" else "q"

/-- the join letter of a mode: joinI, joinsharedI, j3L, tjFs, tkIa … -/
def joinLetter (mode : String) : Char :=
  let cs := mode.toList
  if mode.startsWith "joinshared" then 'I'
  else if mode.startsWith "join" then cs.getD 4 'I'
  else cs.getD 2 'I'

def srcTbl (c : QCase) (urnBase : Nat) : Tbl :=
  { urns := (List.range c.w).map (fun j => Val.int (Int.ofNat (urnBase + j))),
    rows := (List.range c.n).map (fun i => { ts := ((2 * i : Nat) : Int), vals := srcRow (layNil c.lay) c.w i, orig := some i }) }

/-- the results of one case (one for the join modes, two otherwise) -/
def specOuts (c : QCase) : Option (List Tbl) :=
  let s := srcTbl c 0
  let t := srcTbl c 100
  let v := srcTbl c 200
  let k := joinLetter c.mode
  let tq := qTag c.mode
  let mode := baseMode c.mode
  if mode == "seq" || mode == "alt" then some [specChainT "p" s c.p, specChainT tq s c.q]
  else if isJoin mode then
    some [specChainT "j" (specJoinT k [specChainT "p" s c.p, specChainT "q" s c.q]) c.post]
  else if mode.startsWith "j3" then
    some [specChainT "j" (specJoinT k [specChainT "p" s c.p, t, specChainT "q" v c.q]) c.post]
  else if mode.startsWith "tj" then
    some [specChainT "j" (specJoinT k [s, specChainT "p" t c.p]) c.post,
          specChainT "j" (specJoinT k [s, specChainT tq t c.q]) c.post]
  else if mode.startsWith "tk" then
    some [specChainT "j" (specJoinT k [specChainT "p" t c.p, s]) c.post,
          specChainT "j" (specJoinT k [specChainT tq t c.q, s]) c.post]
  else none

/-- which memory every row of a result is: `c<i>` the caller's row i, `f` a row of its own, `d<j>` the same memory as
    the earlier row j of this result -/
def fmtAlias (toks : List String) : String := if toks.isEmpty then "-" else ",".intercalate toks

def fmtOuts (outs : List (List (Int × List Val) × List String × List Val)) : String :=
  match outs with
  | [j] => s!"J={fmtRows j.1} aJ={fmtAlias j.2.1} mJ={fmtUrns j.2.2}"
  | [p, q] => s!"P={fmtRows p.1} aP={fmtAlias p.2.1} mP={fmtUrns p.2.2} Q={fmtRows q.1} aQ={fmtAlias q.2.1} mQ={fmtUrns q.2.2}"
  | _ => "?"

def specPayload (c : QCase) : String :=
  match specOuts c with
  | none => "bad-case"
  | some outs =>
    fmtOuts (outs.map (fun t => (t.rows.map (fun r => (r.ts, r.vals)),
      t.rows.map (fun r => match r.orig with | some i => s!"c{i}" | none => "f"), t.urns))) ++ " u=1 x=1 y=1 k=1"

/-! #### the heap model -/

/-- A result in flight: metadata register, (timestamp, row register) list, row width. -/
structure HTbl where
  md : Nat
  rows : List (Int × Nat)
  width : Nat

def emit (s : RState) (op : ROp) : RState × Nat := (stepR s op, s.regs.length)

/-- growth-oracle choices: vary with the program position so that in-place and allocating paths both occur. -/
def growOf (s : RState) : Nat := s.regs.length % 3
def growsOf (s : RState) : List Nat :=
  let g := s.regs.length
  [g % 3, (g + 1) % 3, (g + 2) % 3, g % 2, (g + 1) % 2, g % 3, 0, 1]

def mapRows (s : RState) (rows : List (Int × Nat)) (f : RState → Nat → ROp) : RState × List (Int × Nat) :=
  rows.foldl (fun (acc : RState × List (Int × Nat)) r =>
    let e := emit acc.1 (f acc.1 r.2)
    (e.1, acc.2 ++ [(r.1, e.2)])) (s, [])

/-- rows of an aligner / gap filler: a passed-on row keeps its REGISTER (the same slice value), the others are made -/
def applyDirsH (s : RState) (rows : List (Int × Nat)) (dirs : List (Int × ADir))
    (passOp : Option (Nat → ROp)) (interpFs : Nat → Nat → List ValFn) : RState × List (Int × Nat) :=
  let regAt := fun i => (rows.getD i (0, 0)).2
  dirs.foldl (fun (acc : RState × List (Int × Nat)) d =>
    match d.2 with
    | .pass i =>
      match passOp with
      | none => (acc.1, acc.2 ++ [(d.1, regAt i)])
      | some f => let e := emit acc.1 (f (regAt i)); (e.1, acc.2 ++ [(d.1, e.2)])
    | .copy i => let e := emit acc.1 (.copyRow (regAt i)); (e.1, acc.2 ++ [(d.1, e.2)])
    | .interp i j n dn =>
      let e := emit acc.1 (.combineRow (regAt i) (regAt j) (interpFs n dn))
      (e.1, acc.2 ++ [(d.1, e.2)])) (s, [])

def twaFns (w : Nat) (n dn : Nat) : List ValFn :=
  (List.range w).map (fun c => ValFn.bin (.twa n dn) (.ref c) (.ref (w + c)))

def pairsH (s : RState) (rows : List (Int × Nat)) (f : Int → Int → List ValFn) : RState × List (Int × Nat) :=
  (rows.zip rows.tail).foldl (fun (acc : RState × List (Int × Nat)) pc =>
    let e := emit acc.1 (.combineRow pc.1.2 pc.2.2 (f pc.1.1 pc.2.1))
    (e.1, acc.2 ++ [(pc.2.1, e.2)])) (s, [])

def stageH (tag : String) (si : Nat) (s : RState) (t : HTbl) (st : CStage) : RState × HTbl :=
  let newUrn := Val.int (tagBase tag + 10 * si)
  let i0 := st.idx.headD 0
  match st.kind, st.vals with
  | 'D', _ => (s, { t with rows := t.rows.filter (fun r => (r.1 / 2) % 2 == 0) })
  | 'A', v :: _ =>
    let m := emit s (.appendMeta t.md newUrn (growOf s))
    let rs := mapRows m.1 t.rows (fun s r => .appendRow r (toValFn v) (growOf s))
    (rs.1, { md := m.2, rows := rs.2, width := t.width + 1 })
  | 'S', vs =>
    let urns := (rangeI vs.length).map (fun j => Val.int (tagBase tag + 10 * si + 1 + j))
    let m := emit s (.selectMeta t.md urns (growsOf s))
    let rs := mapRows m.1 t.rows (fun s r => .selectRow r (vs.map toValFn) (growsOf s))
    (rs.1, { md := m.2, rows := rs.2, width := vs.length })
  | 'R', v :: _ =>
    let m := emit s (.replaceRow t.md i0 (.const newUrn))
    let rs := mapRows m.1 t.rows (fun _ r => .replaceRow r i0 (toValFn v))
    (rs.1, { md := m.2, rows := rs.2, width := t.width })
  | 'O', _ =>
    -- the row stream is handed on: same registers
    let m := emit s (.replaceRow t.md i0 (.const newUrn))
    (m.1, { t with md := m.2 })
  | 'X', _ =>
    let keep := keepOf t.width st.idx
    let m := emit s (.dropRow t.md keep)
    let rs := mapRows m.1 t.rows (fun _ r => .dropRow r keep)
    (rs.1, { md := m.2, rows := rs.2, width := keep.length })
  | 'F', v :: _ =>
    let m := emit s (.singleRow t.md (.const newUrn))
    let rs := mapRows m.1 t.rows (fun _ r => .singleRow r (toValFn v))
    (rs.1, { md := m.2, rows := rs.2, width := 1 })
  | 'C', [a, b] =>
    -- rows and metadata are handed on; the condition only reads the row
    (s, { t with rows := t.rows.filter (fun r =>
      valGt ((toValFn a).eval (view s.heap (s.reg r.2))) ((toValFn b).eval (view s.heap (s.reg r.2)))) })
  | 'B', _ =>
    let m := emit s (.singleRow t.md (if st.sub == 'o' then .const newUrn else .ref i0))
    let w := t.width
    let rs :=
      if st.sub == 'd' then pairsH m.1 t.rows (fun _ _ => [ValFn.bin .sub (.ref (w + i0)) (.ref i0)])
      else if st.sub == 'r' then
        pairsH m.1 t.rows (fun pt ct => [ValFn.bin (.rate (ct - pt).toNat) (.ref (w + i0)) (.ref i0)])
      else if st.sub == 'a' || st.sub == 'f' || st.sub == 'l' then
        let sp := applyDirsH m.1 t.rows (clusterDirs st.per (t.rows.map (·.1)))
          (some (fun r => ROp.singleRow r (.ref i0)))
          (fun n dn => [ValFn.bin (.twa n dn) (.ref i0) (.ref (w + i0))])
        if st.sub == 'a' then sp
        else applyDirsH sp.1 sp.2 (gapDirs st.per st.sub (sp.2.map (·.1))) none (twaFns 1)
      else mapRows m.1 t.rows (fun _ r => .singleRow r (.ref i0))
    (rs.1, { md := m.2, rows := rs.2, width := 1 })
  | 'G', _ =>
    -- the metadata slice is handed on
    let sp := applyDirsH s t.rows (clusterDirs st.per (t.rows.map (·.1))) none (twaFns t.width)
    let rs := if st.sub == 'f' || st.sub == 'l'
      then applyDirsH sp.1 sp.2 (gapDirs st.per st.sub (sp.2.map (·.1))) none (twaFns t.width) else sp
    (rs.1, { t with rows := rs.2 })
  | _, _ => (s, t)

def chainH (tag : String) (s : RState) (t : HTbl) (chain : List CStage) : RState × HTbl :=
  let r := chain.foldl (fun (acc : (RState × HTbl) × Nat) st => (stageH tag acc.2 acc.1.1 acc.1.2 st, acc.2 + 1)) ((s, t), 0)
  r.1

def joinH (kind : Char) (s : RState) (sides : List HTbl) : RState × HTbl :=
  let m := emit s (.concatJoin (sides.map (fun t => (some t.md, t.width))) (growsOf s))
  let tss := unionTs (sides.map (fun t => t.rows.map (·.1)))
  let rs := tss.foldl (fun (acc : RState × List (Int × Nat)) ts =>
    let s := acc.1
    let cells := sides.map (fun t => (t.rows.lookup ts, t.width))
    let emitRow := fun (_ : Unit) =>
      let e :=
        if kind == 'L' then
          match cells with
          | (some l, _) :: others => emit s (.leftJoin l others (growsOf s))
          | _ => emit s (.concatJoin cells (growsOf s))
        else emit s (.concatJoin cells (growsOf s))
      (e.1, acc.2 ++ [(ts, e.2)])
    if kind == 'I' then (if cells.all (fun c => c.1.isSome) then emitRow () else acc)
    else if kind == 'L' then (match cells.head? with | some (some _, _) => emitRow () | _ => acc)
    else (if cells.any (fun c => c.1.isSome) then emitRow () else acc)) (m.1, [])
  (rs.1, { md := m.2, rows := rs.2, width := (sides.map (·.width)).sum })

def sentinels (k : Nat) : List Val := (rangeI k).map (fun j => Val.int (-1000 - j))

/-- the caller's data: row registers 0..n-1, metadata registers n (`s`), n+1 (`t`), n+2 (`v`). -/
def initR (c : QCase) (k m : Nat) : RState :=
  let metaArr := fun (b : Nat) =>
    (List.range c.w).map (fun j => Val.int (Int.ofNat (b + j))) ++ (rangeI m).map (fun j => Val.int (-1 - j))
  let metas : List (List Val) := [metaArr 0, metaArr 100, metaArr 200]
  let row := srcRow (layNil c.lay) c.w
  if layPack c.lay then
    let big := ((List.range c.n).map row).flatten ++ sentinels k
    { heap := [big] ++ metas,
      regs := (List.range c.n).map (fun i => ({ arr := 0, off := i * c.w, len := c.w, cap := (c.n - i) * c.w + k } : Slice))
              ++ (List.range 3).map (fun j => ({ arr := 1 + j, off := 0, len := c.w, cap := c.w + m } : Slice)) }
  else
    { heap := (List.range c.n).map (fun i => row i ++ sentinels k) ++ metas,
      regs := (List.range c.n).map (fun i => ({ arr := i, off := 0, len := c.w, cap := c.w + k } : Slice))
              ++ (List.range 3).map (fun j => ({ arr := c.n + j, off := 0, len := c.w, cap := c.w + m } : Slice)) }

def valOf (s : RState) (r : Nat) : List Val := view s.heap (s.reg r)

def readRows (s : RState) (rows : List (Int × Nat)) : List (Int × List Val) :=
  rows.map (fun r => (r.1, valOf s r.2))

def srcH (c : QCase) (which : Nat) : HTbl :=
  { md := c.n + which, rows := (List.range c.n).map (fun i => ((2 * i : Nat), i)), width := c.w }

/-- one execution of the whole case on the heap -/
def runOutsH (c : QCase) (s0 : RState) : Option (RState × List HTbl) :=
  let s := srcH c 0
  let t := srcH c 1
  let v := srcH c 2
  let k := joinLetter c.mode
  let tagQ := qTag c.mode
  let mode := baseMode c.mode
  if mode == "seq" || mode == "alt" then
    let (s1, tp) := chainH "p" s0 s c.p
    let (s2, tq) := chainH tagQ s1 s c.q
    some (s2, [tp, tq])
  else if isJoin mode || mode.startsWith "j3" then
    let (s1, tp) := chainH "p" s0 s c.p
    let (s2, tq) := chainH "q" s1 (if isJoin mode then s else v) c.q
    let (s3, tj0) := joinH k s2 (if isJoin mode then [tp, tq] else [tp, t, tq])
    let (s4, tj) := chainH "j" s3 tj0 c.post
    some (s4, [tj])
  else if mode.startsWith "tj" || mode.startsWith "tk" then
    let first := mode.startsWith "tj"
    let (s1, tp) := chainH "p" s0 t c.p
    let (s2, j10) := joinH k s1 (if first then [s, tp] else [tp, s])
    let (s3, j1) := chainH "j" s2 j10 c.post
    let (s4, tq) := chainH tagQ s3 t c.q
    let (s5, j20) := joinH k s4 (if first then [s, tq] else [tq, s])
    let (s6, j2) := chainH "j" s5 j20 c.post
    some (s6, [j1, j2])
  else none

/-- which memory a row register is: the caller's row i (same array, same offset), an earlier row of the result, or its own -/
def aliasOf (s : RState) (n : Nat) (rows : List (Int × Nat)) : List String :=
  let key := fun r => let sl := s.reg r; (sl.arr, sl.off)
  (List.range rows.length).map (fun j =>
    let k := key (rows.getD j (0, 0)).2
    match (List.range n).find? (fun i => key i == k) with
    | some i => s!"c{i}"
    | none =>
      match (List.range j).find? (fun jj => key (rows.getD jj (0, 0)).2 == k) with
      | some jj => s!"d{jj}"
      | none => "f")

def fmtOutsH (s : RState) (n : Nat) (outs : List HTbl) : String :=
  fmtOuts (outs.map (fun t => (readRows s t.rows, aliasOf s n t.rows, valOf s t.md)))

def modelPayload (c : QCase) (k m : Nat) : String :=
  let s0 := initR c k m
  match runOutsH c s0 with
  | none => "bad-case"
  | some (s1, outs1) =>
    -- everything is executed a second time; all results are read at the very end
    match runOutsH c s1 with
    | none => "bad-case"
    | some (s2, outs2) =>
      let u := s2.heap.take s0.heap.length == s0.heap
      let x := (List.range c.n).all (fun i => valOf s2 i == srcRow (layNil c.lay) c.w i)
      let first := fmtOutsH s2 c.n outs1
      let y := fmtOutsH s2 c.n outs2 == first
      -- k: the stages are immutable data of the program (no operation of the model can reach them)
      s!"{first} u={boolStr u} x={boolStr x} y={boolStr y} k=1"

/-- `want` says which memory every row is; a row the model hands on (`c<i>`) may also be observed as a row of its own
    (`f`: copying is never an aliasing problem — it is reported as a model/code mismatch, not as a failure of the
    property); a row that has to be fresh must be fresh -/
def aliasTokOk (got want : String) : Bool :=
  match got.splitOn "=", want.splitOn "=" with
  | [gn, gv], [wn, wv] =>
    let gs := gv.splitOn ","
    let ws := wv.splitOn ","
    gn == wn && gs.length == ws.length && (gs.zip ws).all (fun gw => gw.1 == gw.2 || (gw.2.startsWith "c" && gw.1 == "f"))
  | _, _ => false

def isAliasTok (t : String) : Bool := t.startsWith "aP=" || t.startsWith "aQ=" || t.startsWith "aJ="

def obsMeets (obs want : String) : Bool :=
  let gs := obs.splitOn " "
  let ws := want.splitOn " "
  gs.length == ws.length && (gs.zip ws).all (fun gw => gw.1 == gw.2 || (isAliasTok gw.2 && aliasTokOk gw.1 gw.2))

def handleQ (text obs : String) : String × Bool × String :=
  match parseQ text with
  | none => ("bad-case", false, "unparsable case")
  | some c =>
    let model := " ".intercalate (c.caps.map (fun km => s!"[{km.1}:{km.2} {modelPayload c km.1 km.2}]"))
    let sp := specPayload c
    let want := " ".intercalate (c.caps.map (fun km => s!"[{km.1}:{km.2} {sp}]"))
    if obsMeets obs want then (model, true, "")
    else
      -- classify: which clause of the property fails
      let got := (obs.splitOn "] [")
      let wants := (want.splitOn "] [")
      let bad := (got.zip wants).filter (fun gw => !obsMeets gw.1 gw.2)
      let aliased := ((obs.splitOn " ").zip (want.splitOn " ")).any (fun gw => isAliasTok gw.2 && !aliasTokOk gw.1 gw.2)
      let someOk := bad.length < wants.length && got.length == wants.length
      let mutated := (obs.splitOn "u=0").length > 1
      let reexec := (obs.splitOn "x=0").length > 1
      let rerun := (obs.splitOn "y=0").length > 1
      let ctor := (obs.splitOn "k=0").length > 1
      let why := (if mutated then "caller data modified; " else "") ++
        (if reexec then "the static source executed again does not return the original rows; " else "") ++
        (if rerun then "the same query executed again returns something else; " else "") ++
        (if ctor then "executing the query changed construction-time data of a stage object (urn set / selected-field list / override map / filter list) that is shared with every other use of it; " else "") ++
        (if someOk then "result depends on the spare capacity; " else "") ++
        (if aliased then "a row made by the library shares its memory with a caller row or with another row of the result; " else "") ++
        (match bad.head? with | some gw => s!"first bad combo got `{gw.1}` want `{gw.2}`" | none => s!"want {want}")
      let kf := if c.mode == "joinshared" ++ "I" then "KF:F6 one datasource object materialised by both join sides (shared cursor); " else ""
      (model, false, kf ++ why)

/-! ### M cases: custom-metadata maps -/

section Maps
open ShpanVerif.Model.MetaMap

inductive AExpr
  | ref (i : Nat)
  | const (v : Int) (cm : CMV)
  | num (a b : AExpr)

structure AItem where
  e : AExpr
  cm : CMV

structure AStage where
  kind : Char
  idx : Nat
  items : List AItem

def parseCMV (s : String) : Option CMV :=
  if s == "-" then some none
  else if s == "e" then some (some [])
  else
    ((s.splitOn "+").foldlM (fun (m : MapV) (kv : String) =>
      match kv.splitOn ":" with
      | [k, v] => do pure (mapInsert m (← k.toNat?) (← v.toInt?))
      | _ => none) []).map some

def isCMChar (c : Char) : Bool := c.isDigit || c == ':' || c == '+' || c == '-' || c == 'e'

def parseExprC : Nat → List Char → Option (AExpr × List Char)
  | 0, _ => none
  | _ + 1, 'r' :: rest =>
    let ds := rest.takeWhile Char.isDigit
    (String.ofList ds).toNat?.map (fun n => (AExpr.ref n, rest.dropWhile Char.isDigit))
  | _ + 1, 'c' :: rest =>
    let ds := rest.takeWhile Char.isDigit
    match rest.dropWhile Char.isDigit with
    | '~' :: r2 => do
      let v ← (String.ofList ds).toNat?
      let cm ← parseCMV (String.ofList (r2.takeWhile isCMChar))
      pure (AExpr.const (Int.ofNat v) cm, r2.dropWhile isCMChar)
    | _ => none
  | f + 1, 'x' :: '(' :: rest => do
    let (a, r1) ← parseExprC f rest
    match r1 with
    | ',' :: r2 => do
      let (b, r3) ← parseExprC f r2
      match r3 with
      | ')' :: r4 => pure (AExpr.num a b, r4)
      | _ => none
    | _ => none
  | _, _ => none

def parseItem (t : String) : Option AItem := do
  let cs := t.toList
  let (e, rest) ← parseExprC (cs.length + 1) cs
  match rest with
  | '@' :: cm => pure { e := e, cm := (← parseCMV (String.ofList cm)) }
  | _ => none

def parseMStage (t : String) : Option AStage :=
  match t.toList with
  | 'A' :: rest => (parseItem (String.ofList rest)).map (fun it => { kind := 'A', idx := 0, items := [it] })
  | 'S' :: rest => ((String.ofList rest).splitOn ";").mapM parseItem |>.map (fun its => { kind := 'S', idx := 0, items := its })
  | 'R' :: rest =>
    let ds := rest.takeWhile Char.isDigit
    match rest.dropWhile Char.isDigit with
    | '=' :: r2 => do
      let i ← (String.ofList ds).toNat?
      let it ← parseItem (String.ofList r2)
      pure { kind := 'R', idx := i, items := [it] }
    | _ => none
  | _ => none

def parseMChain (s : String) : Option (List AStage) :=
  let s := s.trimAscii.toString
  if s == "-" then some [] else (s.splitOn ".").mapM parseMStage

structure MCase where
  mode : String
  src : List CMV
  p : List AStage
  q : List AStage

def parseM (text : String) : Option MCase :=
  match text.splitOn " | " with
  | [head, p, q] =>
    match words head with
    | [mode, src] => do
      let src ← ((← stripPrefix? src "src=").splitOn ",").mapM parseCMV
      pure { mode := mode, src := src, p := (← parseMChain p), q := (← parseMChain q) }
    | _ => none
  | _ => none

/-- the caller makes one map object per non-nil literal, in textual order -/
def allocCM (h : MHeap) : CMV → MHeap × MRef
  | none => (h, none)
  | some m => (h ++ [m], some h.length)

def cExpr (h : MHeap) : AExpr → MHeap × MExpr
  | .ref i => (h, .ref i)
  | .const _ cm => let a := allocCM h cm; (a.1, .const a.2)
  | .num a b =>
    let ra := cExpr h a
    let rb := cExpr ra.1 b
    (rb.1, .num ra.2 rb.2)

def cItems (h : MHeap) (its : List AItem) : MHeap × List (MExpr × MRef) :=
  its.foldl (fun (acc : MHeap × List (MExpr × MRef)) it =>
    let re := cExpr acc.1 it.e
    let rc := allocCM re.1 it.cm
    (rc.1, acc.2 ++ [(re.2, rc.2)])) (h, [])

/-- a stage with its literals allocated, waiting for its source register -/
def cStage (h : MHeap) (st : AStage) : MHeap × (Nat → MOp) :=
  let r := cItems h st.items
  match st.kind, r.2 with
  | 'A', (e, cm) :: _ => (r.1, fun src => .appendField src e cm)
  | 'R', (e, cm) :: _ => (r.1, fun src => .replaceField src st.idx e cm)
  | _, items => (r.1, fun src => .selectFields src items)

def cChain (h : MHeap) (ch : List AStage) : MHeap × List (Nat → MOp) :=
  ch.foldl (fun (acc : MHeap × List (Nat → MOp)) st =>
    let r := cStage acc.1 st
    (r.1, acc.2 ++ [r.2])) (h, [])

/-- operations of a chain reading register `src` when `next` registers exist; returns the result register -/
def chainOps (stages : List (Nat → MOp)) (src next : Nat) : List MOp × Nat × Nat :=
  stages.foldl (fun (acc : List MOp × Nat × Nat) st => (acc.1 ++ [st acc.2.1], acc.2.2, acc.2.2 + 1)) ([], src, next)

def fmtMapV (m : MapV) : String := "{" ++ "+".intercalate (m.map (fun kv => s!"{kv.1}:{kv.2}")) ++ "}"

def fmtCMV : CMV → String
  | none => "n"
  | some m => fmtMapV m

/-- one field with its identity tag; `seen` = the fresh map objects printed so far -/
def fmtTagged (nC : Nat) (h : MHeap) (seen : List Nat) (r : MRef) : String × List Nat :=
  match r with
  | none => ("n", seen)
  | some i =>
    let body := fmtMapV (ShpanVerif.Model.Slice.arrOf h i)
    if i < nC then (s!"{body}#c{i}", seen)
    else
      match seen.idxOf? i with
      | some j => (s!"{body}#f{j}", seen)
      | none => (s!"{body}#f{seen.length}", seen ++ [i])

def fmtFieldsTagged (nC : Nat) (h : MHeap) (seen : List Nat) (fs : List MRef) : String × List Nat :=
  let r := fs.foldl (fun (acc : List String × List Nat) f =>
    let x := fmtTagged nC h acc.2 f
    (acc.1 ++ [x.1], x.2)) ([], seen)
  (if r.1.isEmpty then "-" else ",".intercalate r.1, r.2)

def fmtFieldsV (fs : List CMV) : String := if fs.isEmpty then "-" else ",".intercalate (fs.map fmtCMV)

/-- drop the identity tags (`#c3`, `#f0`) of an observation: what is left are the contents -/
def stripTags (s : String) : String :=
  let r := s.toList.foldl (fun (acc : List Char × Bool) c =>
    if acc.2 then (if c == ',' || c == ' ' then (c :: acc.1, false) else acc)
    else if c == '#' then (acc.1, true) else (c :: acc.1, false)) ([], false)
  String.ofList r.1.reverse

def changedMaps (h0 h : MHeap) : String :=
  let bad := (List.range h0.length).filter (fun i => h[i]? != h0[i]?)
  if bad.isEmpty then "u=1" else "u=0:" ++ ",".intercalate (bad.map (fun i => s!"c{i}"))

def handleM (text obs : String) : String × Bool × String :=
  match parseM text with
  | none => ("bad-case", false, "unparsable case")
  | some c =>
    -- the caller's maps, in textual order: source fields, chain P, chain Q
    let srcAlloc := c.src.foldl (fun (acc : MHeap × List MRef) cm =>
      let a := allocCM acc.1 cm
      (a.1, acc.2 ++ [a.2])) (([] : MHeap), [])
    let (h1, stP) := cChain srcAlloc.1 c.p
    let (h0, stQ) := cChain h1 c.q
    let nC := h0.length
    let s0 : MState := { heap := h0, regs := [srcAlloc.2] }
    let lit := deref h0
    let (opsP, rP, n1) := chainOps stP 0 1
    let (opsQ, rQ, n2) := chainOps stQ 0 n1
    if c.mode == "seq" then
      let (opsP2, rP2, _) := chainOps stP 0 n2
      let s1 := runM s0 opsP
      let s2 := runM s1 opsQ
      let s3 := runM s2 opsP2
      let (fP, seen1) := fmtFieldsTagged nC s1.heap [] (s1.reg rP)
      let (fQ, seen2) := fmtFieldsTagged nC s2.heap seen1 (s2.reg rQ)
      let (fP', seen3) := fmtFieldsTagged nC s2.heap seen2 (s2.reg rP)
      let (fP2, _) := fmtFieldsTagged nC s3.heap seen3 (s3.reg rP2)
      let model := s!"P={fP} Q={fQ} P'={fP'} P2={fP2} {changedMaps h0 s3.heap}"
      let sv := specRunM lit s0.vals (opsP ++ opsQ ++ opsP2)
      let vP := fmtFieldsV (sv.getD rP [])
      let want := s!"P={vP} Q={fmtFieldsV (sv.getD rQ [])} P'={vP} P2={fmtFieldsV (sv.getD rP2 [])} u=1"
      let got := stripTags obs
      (model, got == want,
        if got == want then ""
        else (if (obs.splitOn "u=0").length > 1 then "a caller-supplied custom-metadata map was modified; " else "") ++
          s!"custom metadata of the results is not the value-level merge; contents `{got}` want `{want}`")
    else
      let (opsJ, rJ, n3) := ([MOp.concat rP rQ], n2, n2 + 1)
      let (opsP2, rP2, n4) := chainOps stP 0 n3
      let (opsQ2, rQ2, n5) := chainOps stQ 0 n4
      let (opsJ2, rJ2) := ([MOp.concat rP2 rQ2], n5)
      let s1 := runM s0 (opsP ++ opsQ ++ opsJ)
      let s2 := runM s1 (opsP2 ++ opsQ2 ++ opsJ2)
      let (fJ, seen1) := fmtFieldsTagged nC s1.heap [] (s1.reg rJ)
      let (fJ', seen2) := fmtFieldsTagged nC s2.heap seen1 (s2.reg rJ)
      let (fJ2, _) := fmtFieldsTagged nC s2.heap seen2 (s2.reg rJ2)
      let model := s!"J={fJ} J'={fJ'} J2={fJ2} {changedMaps h0 s2.heap}"
      let sv := specRunM lit s0.vals (opsP ++ opsQ ++ opsJ ++ opsP2 ++ opsQ2 ++ opsJ2)
      let vJ := fmtFieldsV (sv.getD rJ [])
      let want := s!"J={vJ} J'={vJ} J2={fmtFieldsV (sv.getD rJ2 [])} u=1"
      let got := stripTags obs
      (model, got == want,
        if got == want then ""
        else (if (obs.splitOn "u=0").length > 1 then "a caller-supplied custom-metadata map was modified; " else "") ++
          s!"custom metadata of the results is not the value-level merge; contents `{got}` want `{want}`")

end Maps

/-- returns (model output, spec verdict on the observation, reason) -/
def handle (c obs : String) : String × Bool × String :=
  match stripPrefix? c "D " with
  | some t => handleD t obs
  | none =>
    match stripPrefix? c "Q " with
    | some t => handleQ t obs
    | none =>
      match stripPrefix? c "M " with
      | some t => handleM t obs
      | none => ("bad-case", false, "unknown case kind")

end ShpanVerif.Drive.C17
