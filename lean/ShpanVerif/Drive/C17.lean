import ShpanVerif.Util.Parse
import ShpanVerif.Model.Derive
import ShpanVerif.Model.RowAlias
import ShpanVerif.Model.MetaMap
/-
Driver handler for C17 (case formats: see harness/run/c17.go).

  D r<root> <derivations> | <order> ; <order> ...
      model : `Derive.runD` over the slice heap (growth oracle: Go-like doubling), then read every stream value's
              lifecycle slice from the final heap
              (kind C = concurrent map: `Derive.concMapLifecycle`, guard ids >= `guardBase` are not probes)
      spec  : every stream opens/closes exactly the ids of its own derivation path (computed by following the
              parent pointers, no heap) and delivers its path's elements (sorted below a concurrent map, counted
              below a Limit/Skip under a concurrent map)

  Q <lay> n= w= caps=k:m,... <mode> | P | Q | post
      model : `RowAlias.stepR` operations on a heap built with the given spare capacities / layout
      spec  : a table-level evaluator (lists only), the same for every capacity, and the caller-data bit must be 1

  M <seq|join> src=<cm>,<cm>,... | P | Q          (custom-metadata MAPS; planning time)
      model : `MetaMap.stepM` operations on a heap of map objects holding the caller's maps (source fields',
              AddFieldMeta's, constants') in textual order; every result field is printed with its contents and WHICH
              object it is (`#c<i>` caller map i, `#f<j>` j-th fresh map in order of first appearance)
      spec  : contents of every field = the value-level merge (`MetaMap.specRunM`: no heap, no references), P's result
              printed before and after Q ran is the same, and the caller-maps bit must be 1
-/
namespace ShpanVerif.Drive.C17
open ShpanVerif.Util ShpanVerif.Model.Slice ShpanVerif.Model.Derive ShpanVerif.Model.RowAlias

def dropFirst (s : String) (n : Nat) : String := String.ofList (s.toList.drop n)

def stripPrefix? (s p : String) : Option String :=
  if s.startsWith p then some (dropFirst s p.length) else none

/-! ### D cases -/

structure DCase where
  root : Char
  ds : List (Nat × Char)
  ords : List (List Nat)

def parseDeriv (t : String) : Option (Nat × Char) :=
  let cs := t.toList
  match cs.getLast? with
  | none => none
  | some k => do
    let p ← (String.ofList cs.dropLast).toNat?
    if "WKFMLSPC".toList.contains k then pure (p, k) else none

def parseDerivs (s : String) : Option (List (Nat × Char)) :=
  if s == "-" then some [] else (s.splitOn ",").mapM parseDeriv

def parseD (text : String) : Option DCase :=
  match text.splitOn " | " with
  | [head, ordText] =>
    match words head with
    | [r, d] => do
      let root ← (match r.toList with | ['r', c] => some c | _ => none)
      let ds ← parseDerivs d
      let ords ← ((ordText.splitOn " ; ").map String.trimAscii |>.map (·.toString) |>.filter (· != "")).mapM parseNatList
      pure { root := root, ds := ds, ords := ords }
    | _ => none
  | _ => none

/-- ids ≥ `guardBase` are the producer-stop guards of concurrent-map children: lifecycle elements without an open
    function, not probes of the harness, so they never show in an observation. -/
def guardBase : Nat := 100000

def probesOnly (l : List Nat) : List Nat := l.filter (· < guardBase)

def kindOf (j : Nat) (k : Char) : Kind :=
  match k with
  | 'C' => .concMap (guardBase + j)
  | 'W' => .withLifecycle j
  | 'K' => .withLock j
  | 'F' => .share .filterEven
  | 'M' => .share .mapAdd10
  | 'L' => .share .limit2
  | 'S' => .share .skip1
  | _ => .share .peek

def rootIds (root : Char) : List Nat := if root == '0' then [] else [0]

/-- run the derivation program; the growth oracle doubles (Go's policy for short slices): new cap = 2·len. -/
def runModelD (c : DCase) : DState :=
  let st0 := initState [(rootIds c.root, 0)]
  (c.ds.foldl (fun (acc : DState × Nat) d =>
    let plen := (acc.1.streams.getD d.1 { prov := [], lc := nilSlice }).lc.len
    let grow := if d.2 == 'C' then acc.2 % 2 else plen - 1
    (derive acc.1 { parent := d.1, kind := kindOf acc.2 d.2, grow := grow }, acc.2 + 1)) (st0, 1)).1

def srcData : List Int := [0, 1, 2, 3]

def fmtInts (l : List Int) : String := fmtList toString l

/-- How the elements of stream `i` are compared: 0 = the exact sequence; 1 = as a sorted multiset (a concurrent map on
    the path: order unspecified, Filter/Map/Peek commute with any order); 2 = only their number (Limit/Skip below a
    concurrent map: which elements pass depends on the schedule, how many does not); 3 = not at all (a Filter below
    that: even the number depends on the schedule). -/
def dataMode (c : DCase) : Nat → Nat → Nat
  | 0, _ => 0
  | fuel + 1, i =>
    if i == 0 then 0 else
    match c.ds[i - 1]? with
    | none => 0
    | some (p, k) =>
      let m := dataMode c fuel p
      if k == 'C' then max m 1
      else if (k == 'L' || k == 'S') && m == 1 then 2
      else if k == 'F' && m ≥ 2 then 3
      else m

def fmtData (mode : Nat) (l : List Int) : String :=
  match mode with
  | 0 => fmtInts l
  | 1 => fmtInts (l.toArray.qsort (· < ·)).toList
  | 2 => s!"#{l.length}"
  | _ => "?"

def fmtD (c : DCase) (lc : Nat → List Nat) (data : Nat → List Int) : String :=
  let n := c.ds.length + 1
  let solo := (List.range n).map (fun i =>
    s!"{i}:{fmtNatList (lc i)}/{fmtNatList (lc i)}/{fmtData (dataMode c n i) (data i)}")
  let alls := c.ords.map (fun ord =>
    " ; all " ++ " ".intercalate (ord.map (fun i => s!"{i}:{fmtNatList (lc i)}/{fmtNatList (lc i)}")))
  "solo " ++ " ".intercalate solo ++ String.join alls

/-- list-level spec: follow the parent pointers (fuel = index bound). -/
def pathIds (c : DCase) : Nat → Nat → List Nat
  | 0, _ => rootIds c.root
  | fuel + 1, i =>
    if i == 0 then rootIds c.root else
    match c.ds[i - 1]? with
    | none => []
    | some (p, k) => pathIds c fuel p ++ (if k == 'W' || k == 'K' then [i] else [])

def dataOpOf (k : Char) : List Int → List Int :=
  match k with
  | 'F' => fun l => l.filter (fun v => v % 2 == 0)
  | 'M' => fun l => l.map (· + 10)
  | 'C' => fun l => l.map (· + 10)
  | 'L' => fun l => l.take 2
  | 'S' => fun l => l.drop 1
  | _ => id

def pathData (c : DCase) : Nat → Nat → List Int
  | 0, _ => srcData
  | fuel + 1, i =>
    if i == 0 then srcData else
    match c.ds[i - 1]? with
    | none => []
    | some (p, k) => dataOpOf k (pathData c fuel p)

def handleD (text obs : String) : String × Bool × String :=
  match parseD text with
  | none => ("bad-case", false, "unparsable case")
  | some c =>
    let st := runModelD c
    let model := fmtD c
      (fun i => match st.streams[i]? with | some s => probesOnly (materialise st.heap s).1 | none => [])
      (fun i => match st.streams[i]? with | some s => dataOf srcData s.prov | none => [])
    let n := c.ds.length + 1
    let want := fmtD c (pathIds c n) (pathData c n)
    (model, obs == want, if obs == want then "" else s!"a stream does not run its own derivation path; want {want}")

/-! ### Q cases -/

structure CVal where
  ref : Bool
  n : Int

structure CStage where
  kind : Char
  vals : List CVal

def parseCVal (s : String) : Option CVal :=
  match s.toList with
  | 'c' :: rest => (String.ofList rest).toInt?.map (fun n => { ref := false, n := n })
  | 'r' :: rest => (String.ofList rest).toNat?.map (fun n => { ref := true, n := n })
  | _ => none

def parseStage (t : String) : Option CStage :=
  match t.toList with
  | ['D'] => some { kind := 'D', vals := [] }
  | 'A' :: rest => (parseCVal (String.ofList rest)).map (fun v => { kind := 'A', vals := [v] })
  | 'S' :: rest => ((String.ofList rest).splitOn "+").mapM parseCVal |>.map (fun vs => { kind := 'S', vals := vs })
  | _ => none

def parseChain (s : String) : Option (List CStage) :=
  let s := s.trimAscii.toString
  if s == "-" then some [] else (s.splitOn ".").mapM parseStage

structure QCase where
  lay : String
  n : Nat
  w : Nat
  caps : List (Nat × Nat)
  mode : String
  p : List CStage
  q : List CStage
  post : List CStage

def parseCap (s : String) : Option (Nat × Nat) :=
  match s.splitOn ":" with
  | [a, b] => do pure ((← a.toNat?), (← b.toNat?))
  | _ => none

def parseQ (text : String) : Option QCase :=
  match text.splitOn " | " with
  | [head, p, q, post] =>
    match words head with
    | [lay, n, w, caps, mode] => do
      let n ← (← stripPrefix? n "n=").toNat?
      let w ← (← stripPrefix? w "w=").toNat?
      let caps ← ((← stripPrefix? caps "caps=").splitOn ",").mapM parseCap
      pure { lay := lay, n := n, w := w, caps := caps, mode := mode,
             p := (← parseChain p), q := (← parseChain q), post := (← parseChain post) }
    | _ => none
  | _ => none

/-- urn ids: source field j ↦ j, spare sentinel j ↦ -(1+j), new field of pipeline `tag` ↦ base + 10·stage (+ 1 + field). -/
def tagBase (tag : String) : Int := if tag == "p" then 1000 else if tag == "q" then 2000 else 3000

def urnName (v : Int) : String :=
  if v < 0 then s!"zz{-v - 1}"
  else if v < 1000 then s!"s{v}"
  else
    let tag := if v < 2000 then "p" else if v < 3000 then "q" else "j"
    let r := v % 1000
    if r % 10 == 0 then s!"{tag}{r / 10}" else s!"{tag}{r / 10}_{r % 10 - 1}"

def rangeI (n : Nat) : List Int := (List.range n).map Int.ofNat

def fmtVal : Val → String
  | .nil => "n"
  | .int i => toString i

def fmtRow (r : Nat × List Val) : String := s!"{r.1}:{fmtList fmtVal r.2}"

def fmtRows (rows : List (Nat × List Val)) : String :=
  if rows.isEmpty then "-" else ";".intercalate (rows.map fmtRow)

def fmtUrns (m : List Val) : String :=
  fmtList (fun v => match v with | .int i => urnName i | .nil => "?") m

def toValFn (v : CVal) : ValFn := if v.ref then .ref v.n.toNat else .const (.int v.n)

def srcRow (w i : Nat) : List Val := (rangeI w).map (fun j => Val.int (100 * i + j + 1))

/-! #### table-level specification (no heap) -/

structure Tbl where
  urns : List Val
  rows : List (Nat × List Val)

def specStageT (tag : String) (si : Nat) (t : Tbl) (st : CStage) : Tbl :=
  match st.kind with
  | 'D' => { t with rows := t.rows.filter (fun r => r.1 % 2 == 0) }
  | 'A' =>
    match st.vals with
    | v :: _ =>
      { urns := t.urns ++ [.int (tagBase tag + 10 * si)],
        rows := t.rows.map (fun r => (r.1, r.2 ++ [(toValFn v).eval r.2])) }
    | [] => t
  | _ =>
    { urns := (rangeI st.vals.length).map (fun j => Val.int (tagBase tag + 10 * si + 1 + j)),
      rows := t.rows.map (fun r => (r.1, specSelect r.2 (st.vals.map toValFn))) }

def specChainT (tag : String) (t : Tbl) (chain : List CStage) : Tbl :=
  (chain.foldl (fun (acc : Tbl × Nat) st => (specStageT tag acc.2 acc.1 st, acc.2 + 1)) (t, 0)).1

def nils (n : Nat) : List Val := List.replicate n Val.nil

def specJoinT (mode : String) (n : Nat) (a b : Tbl) : Tbl :=
  let wa := a.urns.length
  let wb := b.urns.length
  let rows := (List.range n).filterMap (fun ts =>
    match a.rows.lookup ts, b.rows.lookup ts with
    | some ra, some rb => some (ts, ra ++ rb)
    | some ra, none => if mode == "joinI" then none else some (ts, ra ++ nils wb)
    | none, some rb => if mode == "joinF" then some (ts, nils wa ++ rb) else none
    | none, none => none)
  { urns := a.urns ++ b.urns, rows := rows }

def isJoin (mode : String) : Bool := mode.startsWith "join"
def joinKind (mode : String) : String := if mode == "joinsharedI" then "joinI" else mode

def specPayload (c : QCase) : String :=
  let src : Tbl := { urns := (rangeI c.w).map (fun j => Val.int j),
                     rows := (List.range c.n).map (fun i => (i, srcRow c.w i)) }
  let tp := specChainT "p" src c.p
  let tq := specChainT "q" src c.q
  if isJoin c.mode then
    let tj := specChainT "j" (specJoinT (joinKind c.mode) c.n tp tq) c.post
    s!"J={fmtRows tj.rows} mJ={fmtUrns tj.urns} u=1"
  else
    s!"P={fmtRows tp.rows} mP={fmtUrns tp.urns} Q={fmtRows tq.rows} mQ={fmtUrns tq.urns} u=1"

/-! #### the heap model -/

/-- A result in flight: metadata register, (timestamp, row register) list, row width. -/
structure HTbl where
  md : Nat
  rows : List (Nat × Nat)
  width : Nat

def emit (s : RState) (op : ROp) : RState × Nat := (stepR s op, s.regs.length)

/-- growth-oracle choices: vary with the program position so that in-place and allocating paths both occur. -/
def growOf (s : RState) : Nat := s.regs.length % 3
def growsOf (s : RState) : List Nat :=
  let g := s.regs.length
  [g % 3, (g + 1) % 3, (g + 2) % 3, g % 2, (g + 1) % 2, g % 3, 0, 1]

def mapRows (s : RState) (rows : List (Nat × Nat)) (f : RState → Nat → ROp) : RState × List (Nat × Nat) :=
  rows.foldl (fun (acc : RState × List (Nat × Nat)) r =>
    let e := emit acc.1 (f acc.1 r.2)
    (e.1, acc.2 ++ [(r.1, e.2)])) (s, [])

def stageH (tag : String) (si : Nat) (s : RState) (t : HTbl) (st : CStage) : RState × HTbl :=
  match st.kind with
  | 'D' => (s, { t with rows := t.rows.filter (fun r => r.1 % 2 == 0) })
  | 'A' =>
    match st.vals with
    | v :: _ =>
      let m := emit s (.appendMeta t.md (.int (tagBase tag + 10 * si)) (growOf s))
      let rs := mapRows m.1 t.rows (fun s r => .appendRow r (toValFn v) (growOf s))
      (rs.1, { md := m.2, rows := rs.2, width := t.width + 1 })
    | [] => (s, t)
  | _ =>
    let urns := (rangeI st.vals.length).map (fun j => Val.int (tagBase tag + 10 * si + 1 + j))
    let m := emit s (.selectMeta t.md urns (growsOf s))
    let rs := mapRows m.1 t.rows (fun s r => .selectRow r (st.vals.map toValFn) (growsOf s))
    (rs.1, { md := m.2, rows := rs.2, width := st.vals.length })

def chainH (tag : String) (s : RState) (t : HTbl) (chain : List CStage) : RState × HTbl :=
  let r := chain.foldl (fun (acc : (RState × HTbl) × Nat) st => (stageH tag acc.2 acc.1.1 acc.1.2 st, acc.2 + 1)) ((s, t), 0)
  r.1

def joinH (mode : String) (n : Nat) (s : RState) (a b : HTbl) : RState × HTbl :=
  let m := emit s (.concatJoin [(some a.md, a.width), (some b.md, b.width)] (growsOf s))
  let rs := (List.range n).foldl (fun (acc : RState × List (Nat × Nat)) ts =>
    let s := acc.1
    match a.rows.lookup ts, b.rows.lookup ts with
    | some ra, some rb =>
      let e := if mode == "joinL" then emit s (.leftJoin ra [(some rb, b.width)] (growsOf s))
               else emit s (.concatJoin [(some ra, a.width), (some rb, b.width)] (growsOf s))
      (e.1, acc.2 ++ [(ts, e.2)])
    | some ra, none =>
      if mode == "joinI" then acc else
      let e := if mode == "joinL" then emit s (.leftJoin ra [(none, b.width)] (growsOf s))
               else emit s (.concatJoin [(some ra, a.width), (none, b.width)] (growsOf s))
      (e.1, acc.2 ++ [(ts, e.2)])
    | none, some rb =>
      if mode == "joinF" then
        let e := emit s (.concatJoin [(none, a.width), (some rb, b.width)] (growsOf s))
        (e.1, acc.2 ++ [(ts, e.2)])
      else acc
    | none, none => acc) (m.1, [])
  (rs.1, { md := m.2, rows := rs.2, width := a.width + b.width })

def sentinels (k : Nat) : List Val := (rangeI k).map (fun j => Val.int (-1000 - j))

/-- the caller's data: row registers 0..n-1, metadata register n. -/
def initR (c : QCase) (k m : Nat) : RState :=
  let metaArr : List Val := (rangeI c.w).map (fun j => Val.int j) ++ (rangeI m).map (fun j => Val.int (-1 - j))
  if c.lay == "pack" then
    let big := ((List.range c.n).map (srcRow c.w)).flatten ++ sentinels k
    { heap := [big, metaArr],
      regs := (List.range c.n).map (fun i => ({ arr := 0, off := i * c.w, len := c.w, cap := (c.n - i) * c.w + k } : Slice))
              ++ [{ arr := 1, off := 0, len := c.w, cap := c.w + m }] }
  else
    { heap := (List.range c.n).map (fun i => srcRow c.w i ++ sentinels k) ++ [metaArr],
      regs := (List.range c.n).map (fun i => ({ arr := i, off := 0, len := c.w, cap := c.w + k } : Slice))
              ++ [{ arr := c.n, off := 0, len := c.w, cap := c.w + m }] }

def readRows (s : RState) (rows : List (Nat × Nat)) : List (Nat × List Val) :=
  rows.map (fun r => (r.1, s.vals.getD r.2 []))

def modelPayload (c : QCase) (k m : Nat) : String :=
  let s0 := initR c k m
  let src : HTbl := { md := c.n, rows := (List.range c.n).map (fun i => (i, i)), width := c.w }
  let (s1, tp) := chainH "p" s0 src c.p
  let (s2, tq) := chainH "q" s1 src c.q
  if isJoin c.mode then
    let (s3, tj0) := joinH (joinKind c.mode) c.n s2 tp tq
    let (s4, tj) := chainH "j" s3 tj0 c.post
    let u := s4.heap.take s0.heap.length == s0.heap
    s!"J={fmtRows (readRows s4 tj.rows)} mJ={fmtUrns (s4.vals.getD tj.md [])} u={boolStr u}"
  else
    let u := s2.heap.take s0.heap.length == s0.heap
    s!"P={fmtRows (readRows s2 tp.rows)} mP={fmtUrns (s2.vals.getD tp.md [])} Q={fmtRows (readRows s2 tq.rows)} mQ={fmtUrns (s2.vals.getD tq.md [])} u={boolStr u}"

def handleQ (text obs : String) : String × Bool × String :=
  match parseQ text with
  | none => ("bad-case", false, "unparsable case")
  | some c =>
    let model := " ".intercalate (c.caps.map (fun km => s!"[{km.1}:{km.2} {modelPayload c km.1 km.2}]"))
    let sp := specPayload c
    let want := " ".intercalate (c.caps.map (fun km => s!"[{km.1}:{km.2} {sp}]"))
    if obs == want then (model, true, "")
    else
      -- classify: which clause of the property fails
      let got := (obs.splitOn "] [")
      let wants := (want.splitOn "] [")
      let bad := (got.zip wants).filter (fun gw => gw.1 != gw.2)
      let someOk := bad.length < wants.length && got.length == wants.length
      let mutated := (obs.splitOn "u=0").length > 1
      let why := (if mutated then "caller data modified; " else "") ++
        (if someOk then "result depends on the spare capacity; " else "") ++
        (match bad.head? with | some gw => s!"first bad combo got `{gw.1}` want `{gw.2}`" | none => s!"want {want}")
      let kf := if c.mode == "joinshared" ++ "I" then "KF:F6 one datasource object materialised by both join sides (shared cursor); " else ""
      (model, false, kf ++ why)

/-! ### M cases: custom-metadata maps -/

section Maps
open ShpanVerif.Model.MetaMap

inductive AExpr
  | ref (i : Nat)
  | const (v : Int) (cm : CMV)
  | num (a b : AExpr)

structure AItem where
  e : AExpr
  cm : CMV

structure AStage where
  kind : Char
  idx : Nat
  items : List AItem

def parseCMV (s : String) : Option CMV :=
  if s == "-" then some none
  else if s == "e" then some (some [])
  else
    ((s.splitOn "+").foldlM (fun (m : MapV) (kv : String) =>
      match kv.splitOn ":" with
      | [k, v] => do pure (mapInsert m (← k.toNat?) (← v.toInt?))
      | _ => none) []).map some

def isCMChar (c : Char) : Bool := c.isDigit || c == ':' || c == '+' || c == '-' || c == 'e'

def parseExprC : Nat → List Char → Option (AExpr × List Char)
  | 0, _ => none
  | _ + 1, 'r' :: rest =>
    let ds := rest.takeWhile Char.isDigit
    (String.ofList ds).toNat?.map (fun n => (AExpr.ref n, rest.dropWhile Char.isDigit))
  | _ + 1, 'c' :: rest =>
    let ds := rest.takeWhile Char.isDigit
    match rest.dropWhile Char.isDigit with
    | '~' :: r2 => do
      let v ← (String.ofList ds).toNat?
      let cm ← parseCMV (String.ofList (r2.takeWhile isCMChar))
      pure (AExpr.const (Int.ofNat v) cm, r2.dropWhile isCMChar)
    | _ => none
  | f + 1, 'x' :: '(' :: rest => do
    let (a, r1) ← parseExprC f rest
    match r1 with
    | ',' :: r2 => do
      let (b, r3) ← parseExprC f r2
      match r3 with
      | ')' :: r4 => pure (AExpr.num a b, r4)
      | _ => none
    | _ => none
  | _, _ => none

def parseItem (t : String) : Option AItem := do
  let cs := t.toList
  let (e, rest) ← parseExprC (cs.length + 1) cs
  match rest with
  | '@' :: cm => pure { e := e, cm := (← parseCMV (String.ofList cm)) }
  | _ => none

def parseMStage (t : String) : Option AStage :=
  match t.toList with
  | 'A' :: rest => (parseItem (String.ofList rest)).map (fun it => { kind := 'A', idx := 0, items := [it] })
  | 'S' :: rest => ((String.ofList rest).splitOn ";").mapM parseItem |>.map (fun its => { kind := 'S', idx := 0, items := its })
  | 'R' :: rest =>
    let ds := rest.takeWhile Char.isDigit
    match rest.dropWhile Char.isDigit with
    | '=' :: r2 => do
      let i ← (String.ofList ds).toNat?
      let it ← parseItem (String.ofList r2)
      pure { kind := 'R', idx := i, items := [it] }
    | _ => none
  | _ => none

def parseMChain (s : String) : Option (List AStage) :=
  let s := s.trimAscii.toString
  if s == "-" then some [] else (s.splitOn ".").mapM parseMStage

structure MCase where
  mode : String
  src : List CMV
  p : List AStage
  q : List AStage

def parseM (text : String) : Option MCase :=
  match text.splitOn " | " with
  | [head, p, q] =>
    match words head with
    | [mode, src] => do
      let src ← ((← stripPrefix? src "src=").splitOn ",").mapM parseCMV
      pure { mode := mode, src := src, p := (← parseMChain p), q := (← parseMChain q) }
    | _ => none
  | _ => none

/-- the caller makes one map object per non-nil literal, in textual order -/
def allocCM (h : MHeap) : CMV → MHeap × MRef
  | none => (h, none)
  | some m => (h ++ [m], some h.length)

def cExpr (h : MHeap) : AExpr → MHeap × MExpr
  | .ref i => (h, .ref i)
  | .const _ cm => let a := allocCM h cm; (a.1, .const a.2)
  | .num a b =>
    let ra := cExpr h a
    let rb := cExpr ra.1 b
    (rb.1, .num ra.2 rb.2)

def cItems (h : MHeap) (its : List AItem) : MHeap × List (MExpr × MRef) :=
  its.foldl (fun (acc : MHeap × List (MExpr × MRef)) it =>
    let re := cExpr acc.1 it.e
    let rc := allocCM re.1 it.cm
    (rc.1, acc.2 ++ [(re.2, rc.2)])) (h, [])

/-- a stage with its literals allocated, waiting for its source register -/
def cStage (h : MHeap) (st : AStage) : MHeap × (Nat → MOp) :=
  let r := cItems h st.items
  match st.kind, r.2 with
  | 'A', (e, cm) :: _ => (r.1, fun src => .appendField src e cm)
  | 'R', (e, cm) :: _ => (r.1, fun src => .replaceField src st.idx e cm)
  | _, items => (r.1, fun src => .selectFields src items)

def cChain (h : MHeap) (ch : List AStage) : MHeap × List (Nat → MOp) :=
  ch.foldl (fun (acc : MHeap × List (Nat → MOp)) st =>
    let r := cStage acc.1 st
    (r.1, acc.2 ++ [r.2])) (h, [])

/-- operations of a chain reading register `src` when `next` registers exist; returns the result register -/
def chainOps (stages : List (Nat → MOp)) (src next : Nat) : List MOp × Nat × Nat :=
  stages.foldl (fun (acc : List MOp × Nat × Nat) st => (acc.1 ++ [st acc.2.1], acc.2.2, acc.2.2 + 1)) ([], src, next)

def fmtMapV (m : MapV) : String := "{" ++ "+".intercalate (m.map (fun kv => s!"{kv.1}:{kv.2}")) ++ "}"

def fmtCMV : CMV → String
  | none => "n"
  | some m => fmtMapV m

/-- one field with its identity tag; `seen` = the fresh map objects printed so far -/
def fmtTagged (nC : Nat) (h : MHeap) (seen : List Nat) (r : MRef) : String × List Nat :=
  match r with
  | none => ("n", seen)
  | some i =>
    let body := fmtMapV (ShpanVerif.Model.Slice.arrOf h i)
    if i < nC then (s!"{body}#c{i}", seen)
    else
      match seen.idxOf? i with
      | some j => (s!"{body}#f{j}", seen)
      | none => (s!"{body}#f{seen.length}", seen ++ [i])

def fmtFieldsTagged (nC : Nat) (h : MHeap) (seen : List Nat) (fs : List MRef) : String × List Nat :=
  let r := fs.foldl (fun (acc : List String × List Nat) f =>
    let x := fmtTagged nC h acc.2 f
    (acc.1 ++ [x.1], x.2)) ([], seen)
  (if r.1.isEmpty then "-" else ",".intercalate r.1, r.2)

def fmtFieldsV (fs : List CMV) : String := if fs.isEmpty then "-" else ",".intercalate (fs.map fmtCMV)

/-- drop the identity tags (`#c3`, `#f0`) of an observation: what is left are the contents -/
def stripTags (s : String) : String :=
  let r := s.toList.foldl (fun (acc : List Char × Bool) c =>
    if acc.2 then (if c == ',' || c == ' ' then (c :: acc.1, false) else acc)
    else if c == '#' then (acc.1, true) else (c :: acc.1, false)) ([], false)
  String.ofList r.1.reverse

def changedMaps (h0 h : MHeap) : String :=
  let bad := (List.range h0.length).filter (fun i => h[i]? != h0[i]?)
  if bad.isEmpty then "u=1" else "u=0:" ++ ",".intercalate (bad.map (fun i => s!"c{i}"))

def handleM (text obs : String) : String × Bool × String :=
  match parseM text with
  | none => ("bad-case", false, "unparsable case")
  | some c =>
    -- the caller's maps, in textual order: source fields, chain P, chain Q
    let srcAlloc := c.src.foldl (fun (acc : MHeap × List MRef) cm =>
      let a := allocCM acc.1 cm
      (a.1, acc.2 ++ [a.2])) (([] : MHeap), [])
    let (h1, stP) := cChain srcAlloc.1 c.p
    let (h0, stQ) := cChain h1 c.q
    let nC := h0.length
    let s0 : MState := { heap := h0, regs := [srcAlloc.2] }
    let lit := deref h0
    let (opsP, rP, n1) := chainOps stP 0 1
    let (opsQ, rQ, n2) := chainOps stQ 0 n1
    if c.mode == "seq" then
      let (opsP2, rP2, _) := chainOps stP 0 n2
      let s1 := runM s0 opsP
      let s2 := runM s1 opsQ
      let s3 := runM s2 opsP2
      let (fP, seen1) := fmtFieldsTagged nC s1.heap [] (s1.reg rP)
      let (fQ, seen2) := fmtFieldsTagged nC s2.heap seen1 (s2.reg rQ)
      let (fP', seen3) := fmtFieldsTagged nC s2.heap seen2 (s2.reg rP)
      let (fP2, _) := fmtFieldsTagged nC s3.heap seen3 (s3.reg rP2)
      let model := s!"P={fP} Q={fQ} P'={fP'} P2={fP2} {changedMaps h0 s3.heap}"
      let sv := specRunM lit s0.vals (opsP ++ opsQ ++ opsP2)
      let vP := fmtFieldsV (sv.getD rP [])
      let want := s!"P={vP} Q={fmtFieldsV (sv.getD rQ [])} P'={vP} P2={fmtFieldsV (sv.getD rP2 [])} u=1"
      let got := stripTags obs
      (model, got == want,
        if got == want then ""
        else (if (obs.splitOn "u=0").length > 1 then "a caller-supplied custom-metadata map was modified; " else "") ++
          s!"custom metadata of the results is not the value-level merge; contents `{got}` want `{want}`")
    else
      let (opsJ, rJ, n3) := ([MOp.concat rP rQ], n2, n2 + 1)
      let (opsP2, rP2, n4) := chainOps stP 0 n3
      let (opsQ2, rQ2, n5) := chainOps stQ 0 n4
      let (opsJ2, rJ2) := ([MOp.concat rP2 rQ2], n5)
      let s1 := runM s0 (opsP ++ opsQ ++ opsJ)
      let s2 := runM s1 (opsP2 ++ opsQ2 ++ opsJ2)
      let (fJ, seen1) := fmtFieldsTagged nC s1.heap [] (s1.reg rJ)
      let (fJ', seen2) := fmtFieldsTagged nC s2.heap seen1 (s2.reg rJ)
      let (fJ2, _) := fmtFieldsTagged nC s2.heap seen2 (s2.reg rJ2)
      let model := s!"J={fJ} J'={fJ'} J2={fJ2} {changedMaps h0 s2.heap}"
      let sv := specRunM lit s0.vals (opsP ++ opsQ ++ opsJ ++ opsP2 ++ opsQ2 ++ opsJ2)
      let vJ := fmtFieldsV (sv.getD rJ [])
      let want := s!"J={vJ} J'={vJ} J2={fmtFieldsV (sv.getD rJ2 [])} u=1"
      let got := stripTags obs
      (model, got == want,
        if got == want then ""
        else (if (obs.splitOn "u=0").length > 1 then "a caller-supplied custom-metadata map was modified; " else "") ++
          s!"custom metadata of the results is not the value-level merge; contents `{got}` want `{want}`")

end Maps

/-- returns (model output, spec verdict on the observation, reason) -/
def handle (c obs : String) : String × Bool × String :=
  match stripPrefix? c "D " with
  | some t => handleD t obs
  | none =>
    match stripPrefix? c "Q " with
    | some t => handleQ t obs
    | none =>
      match stripPrefix? c "M " with
      | some t => handleM t obs
      | none => ("bad-case", false, "unknown case kind")

end ShpanVerif.Drive.C17
