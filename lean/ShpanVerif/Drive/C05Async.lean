import ShpanVerif.Drive.ConcShared
import ShpanVerif.Model.Buffered
/-
Driver handler for the asynchronous clause of C05 (case lines whose first token is `A`; harness/run/c05_async.go).
  case := "A buffered n=<size> len=<elements> ..." | "A concmap c=<concurrency> len=<elements> ..."
  obs  := "res=<class> runahead=<max> handed=<k> len=<elements> bound=<b> leak=<k> pulled=<total>"
  optional `limit=<k>`: Limit(k) downstream of the stage (early stop); `pulled` counts every element the source handed out
  until nothing of the materialisation is left, and must stay ≤ handed + bound (same theorems: they hold in every
  reachable state, the final one included)
spec predicate (independent of the model): the terminal returned nil, every element was handed to the consumer, no
goroutine was left, and the observed maximal run-ahead is ≤ the bound of the property: `n` for Buffered(n), `3c+1` for the
concurrent map (`C05_runahead_buffered`, `C05_runahead_concmap`).
model output: the executable transition system is run with a gated consumer — library steps and source pulls to
quiescence, then one release of the consumer, repeatedly — and prints its own maximal (pulled − delivered), which must
EQUAL the observed one (the harness releases the consumer in quiescent states only, so the run is deterministic).
-/
namespace ShpanVerif.Drive.C05Async
open ShpanVerif.Util ShpanVerif.Model ShpanVerif.Model.Conc ShpanVerif.Drive.Conc

/-- Buffered: run to quiescence, record the run-ahead while the consumer holds an element, release, repeat. -/
def bufLoop (cfg : Buffered.Cfg) (stopAt : Nat) : Nat → Buffered.St → Nat → Buffered.St × Nat
  | 0, s, m => (s, m)
  | fuel + 1, s, m =>
    let sat := saturate (Buffered.step cfg) (fun st => Buffered.internalLabels st ++ [.fEmitVal, .fEmitEof]) 100000
    let s := sat s
    if s.cons == .got then
      let m := max m (s.cursor - s.delivered.length)
      -- `Limit(stopAt)` downstream: the element that reaches the limit ends the stream (cStop), then everything
      -- still running runs to its end
      if stopAt ≠ 0 && s.delivered.length == stopAt then
        match Buffered.step cfg s .cStop with
        | some s' => (sat s', m)
        | none => (s, m)
      else
      match Buffered.step cfg s .cNext with
      | some s' => bufLoop cfg stopAt fuel s' m
      | none => (s, m)
    else (s, m)

def cmLoop (cfg : ConcMap.Cfg) (stopAt : Nat) : Nat → ConcMap.St → Nat → ConcMap.St × Nat
  | 0, s, m => (s, m)
  | fuel + 1, s, m =>
    let sat := saturate (ConcMap.step cfg)
      (fun st => ConcMap.internalLabels st ++ [.pEmitVal, .pEmitEof] ++ st.wMap.map .wMapOk) 100000
    let s := sat s
    if s.cons == .got then
      let m := max m (s.cursor - s.delivered.length)
      if stopAt ≠ 0 && s.delivered.length == stopAt then
        match ConcMap.step cfg s .cStop with
        | some s' => (sat s', m)
        | none => (s, m)
      else
      match ConcMap.step cfg s .cNext with
      | some s' => cmLoop cfg stopAt fuel s' m
      | none => (s, m)
    else (s, m)

def handle (cs obs : String) : String × Bool × String :=
  match words cs with
  | "A" :: kind :: rest =>
    let kv := parseKV rest
    let ln := kv.nat "len"
    let o := parseKV (words obs)
    let ra := o.nat "runahead" 1000000
    let bound := if kind == "buffered" then kv.nat "n" else 3 * kv.nat "c" + 1
    let lim := kv.nat "limit"
    let want := if lim == 0 then ln else min lim ln
    let handed := o.nat "handed" 1000000
    let pulled := o.nat "pulled" 1000000
    let specOk := o.str "res" == "ok" && handed == want && o.nat "leak" 1 == 0 && ra ≤ bound && pulled ≤ handed + bound
    let why := if specOk then "" else
      if ra > bound then s!"ran ahead of the consumer by {ra} > {bound}"
      else if pulled > handed + bound then s!"pulled {pulled} elements in total for {handed} delivered: more than {bound} ahead"
      else "run did not complete cleanly"
    if kind == "ccons" then
      -- concurrent consume: spec-only on the observation (`C05_runahead_consume`: pulled − handed ≤ c + 1 while nothing
      -- failed or was cancelled; after a failing callback (mf=k) the producer stops: everything pulled until the terminal is
      -- gone stays within 2c + 2 of the callbacks handed out)
      let c := kv.nat "c"
      let failing := (kv.str "mf") != ""
      let ok := o.nat "leak" 1 == 0 && ra ≤ c + 1 &&
        (if failing then o.str "res" == "user" && pulled ≤ handed + 2 * c + 2 else o.str "res" == "ok" && handed == ln && pulled == ln)
      (obs, ok, if ok then "" else
        if ra > c + 1 then s!"the producer ran ahead of the callbacks by {ra} > {c + 1}"
        else if failing && pulled > handed + 2 * c + 2 then s!"pulled {pulled} elements although the callback failed after {handed} were handed out"
        else "run did not complete as expected")
    else
    if kind == "buffered" then
      let cfg : Buffered.Cfg := { n := ln, size := kv.nat "n" }
      let (s, m) := bufLoop cfg lim (ln + 2) (Buffered.init cfg) 0
      let res := match s.res with | some .ok => "ok" | some .errCtx => "ctx" | some .errOther => "other" | none => "none"
      (s!"res={res} runahead={m} handed={s.delivered.length} len={ln} bound={cfg.size} leak={if Buffered.final s then 0 else 1} pulled={s.cursor}",
        specOk, why)
    else if kind == "concmap" then
      let cfg : ConcMap.Cfg := { n := ln, c := kv.nat "c" }
      let (s, m) := cmLoop cfg lim (ln + 2) (ConcMap.init cfg) 0
      (s!"res={resStr s.res} runahead={m} handed={s.delivered.length} len={ln} bound={3 * cfg.c + 1} leak={if ConcMap.final cfg s then 0 else 1} pulled={s.cursor}",
        specOk, why)
    else ("bad-case", false, "unknown kind")
  | _ => ("bad-case", false, "unparsable case")

end ShpanVerif.Drive.C05Async
