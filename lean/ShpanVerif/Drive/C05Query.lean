import ShpanVerif.Util.Parse
/-
Driver handler for the tsquery part of C05 (planning is pure: `Execute` / `Filter` open nothing, pull no element and
call no provider; work happens only inside the terminal).  Cases start with the token `Q` (harness/run/c05_query.go).

  obs   := pre=<probe events until Execute has returned> | post=<probe events during the terminal> | <outcome>
  spec  := pre = 0   (and no panic escaped Execute)
  model := the observation with pre=0 — nothing else is compared: the model's plans are data, see
           `C05_planning_pure` (Props/C05Query.lean): the planning outcome is that of the query with all rows erased.
-/
namespace ShpanVerif.Drive.C05Query
open ShpanVerif.Util

/-- returns (model output, spec verdict on the observation, reason) -/
def handle (_c obs : String) : String × Bool × String :=
  match obs.splitOn " | " with
  | pre :: rest =>
    if pre.startsWith "pre=" then
      match (pre.drop 4).toNat? with
      | some n =>
        let model := " | ".intercalate ("pre=0" :: rest)
        if rest.getLast? == some "planpanic" then
          (model, false, "a panic escaped Execute (planning)")
        else if n == 0 then (model, true, "")
        else (model, false, s!"planning touched the sources: {n} provider calls (Open/Emit/Close) before the terminal started")
      | none => ("bad-obs", false, "unparsable observation")
    else ("bad-obs", false, "unparsable observation")
  | [] => ("bad-obs", false, "unparsable observation")

end ShpanVerif.Drive.C05Query
