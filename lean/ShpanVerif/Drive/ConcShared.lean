import ShpanVerif.Util.Parse
import ShpanVerif.Model.ConcMap
import ShpanVerif.Model.ConcConsume
/-
Shared by the drivers of the asynchronous families (C06, C02, C07): parsing of the `key=value` case / observation
lines produced by harness/run/conc_util.go and the deterministic replay of a scripted run in the executable models.
-/
namespace ShpanVerif.Drive.Conc
open ShpanVerif.Util ShpanVerif.Model ShpanVerif.Model.Conc

abbrev KV := List (String × String)

def parseKV (ts : List String) : KV :=
  ts.filterMap (fun t => match t.splitOn "=" with
    | [k, v] => some (k, v)
    | _ => none)

def KV.str (kv : KV) (k : String) (d : String := "") : String := (kv.lookup k).getD d
def KV.nat (kv : KV) (k : String) (d : Nat := 0) : Nat := ((kv.lookup k).bind String.toNat?).getD d
def KV.int (kv : KV) (k : String) (d : Int := 0) : Int := ((kv.lookup k).bind String.toInt?).getD d
def KV.flag (kv : KV) (k : String) (d : Bool := false) : Bool :=
  match kv.lookup k with
  | some "1" => true
  | some "0" => false
  | _ => d
def KV.nats (kv : KV) (k : String) : List Nat := ((kv.lookup k).bind parseNatList).getD []

def dropChars (s : String) (n : Nat) : String := String.ofList (s.toList.drop n)

structure Case where
  op : String
  kv : KV
  c : Nat
  n : Nat
  size : Nat
  sync : Bool
  mg : Bool
  cg : Bool
  sg : Bool
  limit : Nat
  first : Bool
  cf : Nat
  mf : Int
  mp : Int
  se : Int
  park : Int
  cancel : Int
  reads : Int
  filt : String
  trials : Nat
  ofail : String
  rep : Nat

def parseCase (c : String) : Option Case :=
  match words c with
  | [] => none
  | op :: rest =>
    let kv := parseKV rest
    some { op := op, kv := kv, c := kv.nat "c" 1, n := kv.nat "n", size := kv.nat "size" 2,
           sync := kv.flag "sync" true, mg := kv.flag "mg", cg := kv.flag "cg", sg := kv.flag "sg",
           limit := kv.nat "limit", first := kv.flag "first", cf := kv.nat "cf",
           mf := kv.int "mf" (-1), mp := kv.int "mp" (-1), se := kv.int "se" (-1), park := kv.int "park" (-1),
           cancel := kv.int "cancel" (-1), reads := kv.int "reads" (-1), filt := kv.str "filt",
           trials := kv.nat "trials" 1, ofail := kv.str "ofail", rep := kv.nat "rep" 1 }

/-- Is the case free of injected failures, cancellation and early stops? -/
def Case.failureFree (c : Case) : Bool :=
  c.limit == 0 && !c.first && c.cf == 0 && c.mf < 0 && c.mp < 0 && c.se < 0 && c.park < 0 && c.cancel < 0 &&
  c.filt == "" && c.reads < 0 && c.ofail == "" && c.rep ≤ 1

structure Obs where
  kv : KV
  res : String
  del : List Nat
  maxin : Nat
  calls : List Nat
  emits : Nat
  closes : Nat
  flags : String
  leak : Nat
  hang : String
  trace : List String
  plog : List String

def parseObs (o : String) : Obs :=
  let kv := parseKV (words o)
  let lst := fun (k : String) => let v := kv.str k "-"; if v == "-" then [] else v.splitOn ","
  { kv := kv, res := kv.str "res" "?", del := kv.nats "del", maxin := kv.nat "maxin", calls := kv.nats "calls",
    emits := kv.nat "emits", closes := kv.nat "closes", flags := kv.str "flags" "?", leak := kv.nat "leak",
    hang := kv.str "hang" "?", trace := lst "trace", plog := lst "plog" }

def fmtObs (res : String) (del : List Nat) (maxin : String) (calls : List Nat) (emits closes : Nat) (flags : String)
    (leak : Nat) (hang : String) (trace : List String) (plog : List String) : String :=
  s!"res={res} del={fmtNatList del} maxin={maxin} calls={fmtNatList calls} emits={emits} closes={closes} " ++
  s!"flags={flags} leak={leak} hang={hang} trace={fmtList id trace} plog={fmtList id plog}"

/-- insertion sort (structural; the lists are short) -/
def insertSorted (x : Nat) : List Nat → List Nat
  | [] => [x]
  | y :: ys => if x ≤ y then x :: y :: ys else y :: insertSorted x ys
def sortNats (l : List Nat) : List Nat := l.foldr insertSorted []

/-- A trace token: kind, id, in-flight count, emitted count. -/
structure Tok where
  kind : Char
  id : Nat
  inflight : Nat
  emits : Nat

def parseTok (t : String) : Option Tok :=
  match t.splitOn ":" with
  | [a, b, c] =>
    match a.toList with
    | k :: rest => some { kind := k, id := ((String.ofList rest).toNat?).getD 0, inflight := (b.toNat?).getD 0, emits := (c.toNat?).getD 0 }
    | [] => none
  | ["x"] => some { kind := 'x', id := 0, inflight := 0, emits := 0 }
  | _ => none

/-! ### deterministic replay, concurrent map -/

structure CmRun where
  st : ConcMap.St
  maxIn : Nat := 0
  bad : Option String := none

def cmInternal (sg cg : Bool) (s : ConcMap.St) : List ConcMap.Label :=
  ConcMap.internalLabels s ++ (if sg then [] else [.pEmitVal, .pEmitEof]) ++ (if cg then [] else [.cNext])

def cmSettle (cfg : ConcMap.Cfg) (sg cg : Bool) (r : CmRun) : CmRun :=
  let st := saturate (ConcMap.step cfg) (cmInternal sg cg) 100000 r.st
  { r with st := st, maxIn := max r.maxIn st.wMap.length }

def cmApply (cfg : ConcMap.Cfg) (r : CmRun) (l : ConcMap.Label) (what : String) : CmRun :=
  match ConcMap.step cfg r.st l with
  | some s' => { r with st := s' }
  | none => { r with bad := some s!"model cannot do {what}" }

/-- Replay one observed environment action in a quiescent model state. -/
def cmTok (cfg : ConcMap.Cfg) (sg cg : Bool) (r : CmRun) (t : String) : CmRun :=
  if r.bad.isSome then r else
  let r := cmSettle cfg sg cg r
  match parseTok t with
  | none => { r with bad := some s!"bad token {t}" }
  | some tk =>
    if tk.kind == 'x' then cmApply cfg r .cancel t
    else if tk.inflight != r.st.wMap.length then
      { r with bad := some s!"at {t}: model has {r.st.wMap.length} mapper calls in flight" }
    else if tk.emits != r.st.cursor then
      { r with bad := some s!"at {t}: model has emitted {r.st.cursor}" }
    else if tk.kind == 'm' then cmApply cfg r (.wMapOk tk.id) t
    else if tk.kind == 'd' then cmApply cfg r .cNext t
    else if tk.kind == 'e' then
      if r.st.cursor < cfg.n then cmApply cfg r .pEmitVal t else cmApply cfg r .pEmitEof t
    else { r with bad := some s!"bad token {t}" }

def cmReplay (cfg : ConcMap.Cfg) (sg cg : Bool) (trace : List String) : CmRun :=
  cmSettle cfg sg cg (trace.foldl (cmTok cfg sg cg) { st := ConcMap.init cfg })

/-! ### deterministic replay, concurrent consume -/

structure CcRun where
  st : ConcConsume.St
  maxIn : Nat := 0
  bad : Option String := none

def ccInternal (sg : Bool) (s : ConcConsume.St) : List ConcConsume.Label :=
  ConcConsume.internalLabels s ++ (if sg then [] else [.pEmitVal, .pEmitEof])

def ccSettle (cfg : ConcConsume.Cfg) (sg : Bool) (r : CcRun) : CcRun :=
  let st := saturate (ConcConsume.step cfg) (ccInternal sg) 100000 r.st
  { r with st := st, maxIn := max r.maxIn st.wCb.length }

def ccApply (cfg : ConcConsume.Cfg) (r : CcRun) (l : ConcConsume.Label) (what : String) : CcRun :=
  match ConcConsume.step cfg r.st l with
  | some s' => { r with st := s' }
  | none => { r with bad := some s!"model cannot do {what}" }

def ccTok (cfg : ConcConsume.Cfg) (sg : Bool) (r : CcRun) (t : String) : CcRun :=
  if r.bad.isSome then r else
  let r := ccSettle cfg sg r
  match parseTok t with
  | none => { r with bad := some s!"bad token {t}" }
  | some tk =>
    if tk.kind == 'x' then ccApply cfg r .cancel t
    else if tk.inflight != r.st.wCb.length then
      { r with bad := some s!"at {t}: model has {r.st.wCb.length} callbacks in flight" }
    else if tk.emits != r.st.cursor then
      { r with bad := some s!"at {t}: model has emitted {r.st.cursor}" }
    else if tk.kind == 'm' then ccApply cfg r (.wCbOk tk.id) t
    else if tk.kind == 'e' then
      if r.st.cursor < cfg.n then ccApply cfg r .pEmitVal t else ccApply cfg r .pEmitEof t
    else { r with bad := some s!"bad token {t}" }

def ccReplay (cfg : ConcConsume.Cfg) (sg : Bool) (trace : List String) : CcRun :=
  ccSettle cfg sg (trace.foldl (ccTok cfg sg) { st := ConcConsume.init cfg })

def resStr : Option ConcMap.Res → String
  | some .ok => "ok"
  | some .errCtx => "ctx"
  | some .errOther => "other"
  | none => "none"

def resStrC : Option ConcConsume.Res → String
  | some .ok => "ok"
  | some .errCtx => "ctx"
  | some .errOther => "other"
  | none => "none"

end ShpanVerif.Drive.Conc
