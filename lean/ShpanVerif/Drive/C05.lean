import ShpanVerif.Drive.PipeCommon
import ShpanVerif.Drive.PipeDyn
import ShpanVerif.Spec.PipeDemand
import ShpanVerif.Drive.C05Async
import ShpanVerif.Drive.C05Query
import ShpanVerif.Drive.C04Ext
import ShpanVerif.Drive.C05Demand
/-
Driver handler for C05 (sequential part): laziness and bounded pulling.
Spec predicate on the observation: nothing happens before the terminal (pre = 0), and for every probe source
the number of Emit calls is at most `Spec.demand` — the needed prefix plus the operators' fixed look-ahead,
computed from the list-level meaning only. Under `take:n` the terminal asks the pipeline for n elements
(the n+1-th pull is answered by Limit's counter); under `all` for every element plus the EOF pull.
-/
namespace ShpanVerif.Drive.C05
open ShpanVerif.Util ShpanVerif.Model.Pipe ShpanVerif.Drive.PipeCommon ShpanVerif

def countE (s : String) : Nat := (s.toList.filter (· == 'E')).length

def specRun (p : Pipe) (r : Run) (o : ObsRun) : Bool × String :=
  if o.pre != 0 then (false, s!"{o.pre} probe events before the terminal operation") else
  match r.fault, Spec.eval p with
  | none, some l =>
    let n := match r.take with
      | none => Spec.terminalCalls l
      | some k => if k ≤ 0 then 0 else if l.length ≥ k.toNat then k.toNat else l.length + 1
    match Spec.demand p n with
    | some f =>
      match o.events.find? (fun e => countE e.2 > f e.1) with
      | some e => (false, s!"source {e.1} pulled {countE e.2} times, bound {f e.1}")
      | none => (true, "")
    | none => (true, "")
  | _, _ => (true, "")

def handle (c obs : String) : String × Bool × String :=
  if c.startsWith "DYN " then ShpanVerif.Drive.PipeDyn.handle c obs else   -- FlatMap family (Model/PipeDyn.lean)
  -- "A ..." cases: run-ahead of the asynchronous stages (Buffered / concurrent map), concurrency family
  if c.startsWith "A " then ShpanVerif.Drive.C05Async.handle c obs else
  -- "Q ..." cases: tsquery planning (Execute/Filter) must not touch any source, query family
  if c.startsWith "Q " then ShpanVerif.Drive.C05Query.handle c obs else
  if c.startsWith "T " then ShpanVerif.Drive.C05Demand.handle c obs else   -- demand of joins / aligned timestamps
  if c.startsWith "L " then ShpanVerif.Drive.C04Ext.handle c obs else   -- broken-out Iterator loops (pulled = seen)
  match parseCase c with
  | none => ("bad-case", false, "unparsable case")
  | some (p, rs) =>
    if (Spec.eval p).isNone then (obs, true, "") else
    let model := agreeOr { result := false, delivered := false, events := fun c => c == 'E' } (modelText p rs) obs
    match parseObs obs, rs with
    | some [o], [r] => let (ok, why) := specRun p r o; (model, ok, why)
    | some _, _ => (model, true, "")
    | none, _ => (model, false, "unparsable observation")

end ShpanVerif.Drive.C05
