import ShpanVerif.Util.Parse
import ShpanVerif.Model.Merge
/-
Driver handler for C08.  case := "merge | <in> | <in> ..."   in := "-" or "key:tag,key:tag,..."
obs := "ok <elems>" | "err <class>"
-/
namespace ShpanVerif.Drive.C08
open ShpanVerif.Util ShpanVerif.Model.Merge

abbrev Elem := Int × Nat

def parseElem (s : String) : Option Elem :=
  match s.splitOn ":" with
  | [k, t] => do let k ← k.toInt?; let t ← t.toNat?; pure (k, t)
  | _ => none

def parseElems (s : String) : Option (List Elem) :=
  if s == "-" then some [] else (s.splitOn ",").mapM parseElem

def fmtElems (l : List Elem) : String := fmtList (fun (e : Elem) => s!"{e.1}:{e.2}") l

def ltKey : Elem → Elem → Bool := fun a b => a.1 < b.1
def leKey : Elem → Elem → Bool := fun a b => !ltKey b a

def parseCase (c : String) : Option (List (List Elem)) :=
  match splitAt "|" (words c) with
  -- `mergeD` / `mergeS`: the same merge under comparators that answer differences / ±7 (harness/run/c08.go); the model's
  -- comparator is the order they all induce
  | [h] :: ins =>
    if h == "merge" || h == "mergeZ" || h == "mergeD" || h == "mergeS" || h == "mergeA" || h == "mergeN" || h == "mergeR" then
      ins.mapM (fun ts => match ts with | [t] => parseElems t | _ => none)
    else none
  | _ => none

/-- returns (model output, spec verdict on the observation, reason) -/
def handle (c obs : String) : String × Bool × String :=
  match parseCase c with
  | none => ("bad-case", false, "unparsable case")
  | some ins =>
    -- `mergeZ`: elements of a zero-size type (harness/run/c08.go): the multiset clause reads "as many elements as the inputs hold"
    if (words c).head? == some "mergeZ" then
      let want := s!"ok z{(mergeStreams ltKey ins).length}"
      (want, obs == s!"ok z{ins.flatten.length}", if obs == s!"ok z{ins.flatten.length}" then "" else s!"want ok z{ins.flatten.length}")
    else
    -- `mergeN` / `mergeR`: the first / last two inputs are merged first and the merged stream is an input of the outer merge
    let nested : List (List Elem) :=
      match (words c).head?, ins with
      | some "mergeN", a :: b :: rest => mergeStreams ltKey [a, b] :: rest
      | some "mergeR", _ =>
        (match ins.reverse with
         | b :: a :: rest => (mergeStreams ltKey [a, b] :: rest).reverse
         | _ => ins)
      | _, _ => ins
    let model := "ok " ++ fmtElems (mergeStreams ltKey nested)
    -- the property, evaluated on what the real code returned: stable sort of the concatenation
    let want := "ok " ++ fmtElems (ins.flatten.mergeSort leKey)
    (model, obs == want, if obs == want then "" else s!"want {want}")

end ShpanVerif.Drive.C08
