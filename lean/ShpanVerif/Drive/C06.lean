import ShpanVerif.Drive.ConcShared
/-
Driver handler for C06.  Case / observation format: harness/run/conc_util.go.

spec predicate (independent of the model, evaluated on what the real code did): the terminal returned nil, the
delivered values are exactly f(0..n-1) each once (concurrent consume: the callback saw exactly 0..n-1 each once), the
mapper / callback was invoked exactly once per element, never more than c invocations were in flight, nothing hung
and no goroutine was left.

model output: sync=1 cases are replayed in the executable transition system (library steps run to quiescence
between the observed environment actions; every observed action must be enabled and the observed in-flight and
emitted counts must agree); the model's own delivered multiset, maximal parallelism, invocation multiset and result
are printed.  sync=0 cases (interleaving chosen by the Go scheduler) compare the schedule-independent summary that
the theorems `C06_exactly_once` / `C06_consume_exactly_once` / `C06_parallelism` predict; the observed maximal
parallelism is accepted iff it is ≤ min(c, n) (never compared by equality).  `nest` (Buffered over concurrent map)
has no model of its own: summary only.
-/
namespace ShpanVerif.Drive.C06
open ShpanVerif.Util ShpanVerif.Model ShpanVerif.Drive.Conc

def expectDel (c : Case) : List Nat :=
  if c.op == "ccons" || c.op == "buf" then List.range c.n
  -- `ptr=1`: the mapper returns a nil pointer for elements i with i % 3 = 1; a nil result is a result (shown as 999)
  -- `mwf=1`: MapWhileFiltering under the concurrent option: the results of the kept elements (i % 3 ≠ 1), nothing else
  else if c.kv.flag "mwf" then ((List.range c.n).filter (fun i => i % 3 != 1)).map (· + 1000)
  else if c.kv.flag "ptr" then sortNats ((List.range c.n).map (fun i => if i % 3 == 1 then 999 else i + 1000))
  else (List.range c.n).map (· + 1000)

/-- which elements a callback gated / counted by the harness must have seen (Buffered alone has no callback) -/
def expectCalls (c : Case) : List Nat := if c.op == "buf" then [] else List.range c.n

def spec (c : Case) (o : Obs) : Bool × String :=
  if o.res != "ok" then (false, s!"terminal returned {o.res}")
  else if o.hang != "-" then (false, s!"hang {o.hang}")
  else if o.del != expectDel c then (false, "delivered multiset differs from map f source")
  else if o.calls != expectCalls c then (false, "callback not invoked exactly once per element")
  else if o.maxin > c.c then (false, s!"{o.maxin} callbacks in flight with concurrency {c.c}")
  else if o.leak != 0 then (false, s!"{o.leak} goroutines left")
  else (true, "")

def model (c : Case) (o : Obs) : String :=
  if !c.failureFree then "C06 cases are failure-free"
  else
    let maxEcho := if o.maxin ≤ min c.c c.n && (c.n == 0 || 1 ≤ o.maxin) then toString o.maxin else s!"<={min c.c c.n}"
    if c.sync && c.op == "cmap" && !c.kv.flag "ptr" && !c.kv.flag "mwf" then
      let cfg : ConcMap.Cfg := { n := c.n, c := c.c }
      let r := cmReplay cfg c.sg c.cg o.trace
      match r.bad with
      | some why => s!"replay-failed {why}"
      | none =>
        let s := r.st
        let leak := if ConcMap.final cfg s then 0 else 1
        fmtObs (resStr s.res) (sortNats (s.delivered.map (· + 1000))) (toString r.maxIn) (sortNats s.mapCalls) s.cursor
          (if s.srcClosed then 1 else 0) (if s.badWindow || s.badOverlap then "bad" else "-") leak "-" o.trace o.plog
    else if c.sync && c.op == "ccons" then
      let cfg : ConcConsume.Cfg := { n := c.n, c := c.c }
      let r := ccReplay cfg c.sg o.trace
      match r.bad with
      | some why => s!"replay-failed {why}"
      | none =>
        let s := r.st
        let leak := if ConcConsume.final cfg s then 0 else 1
        fmtObs (resStrC s.res) (sortNats s.called) (toString r.maxIn) (sortNats s.called) s.cursor
          (if s.srcClosed then 1 else 0) (if s.badWindow || s.badOverlap then "bad" else "-") leak "-" o.trace o.plog
    else
      fmtObs "ok" (expectDel c) (if c.op == "buf" then "0" else maxEcho) (expectCalls c) c.n 1 "-" 0 "-" o.trace o.plog

def handle (cs obs : String) : String × Bool × String :=
  match parseCase cs with
  | none => ("bad-case", false, "unparsable case")
  | some c =>
    let o := parseObs obs
    let (ok, why) := spec c o
    (model c o, ok, why)

end ShpanVerif.Drive.C06
