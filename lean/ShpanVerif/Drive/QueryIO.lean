/-
Line-protocol support for the QUERY family (C10, C11): the `Float` instance of `Ops`, the s-expression reader for the
case grammar of notes/C10-protocol.md, and the printer of observations.  Core only; used by the compiled driver.
Nothing here is used by a theorem.
-/
import ShpanVerif.Util.Parse
import ShpanVerif.Model.QueryExec

namespace ShpanVerif.Drive.QueryIO
open ShpanVerif.Util ShpanVerif.Model.Query

/-! ## IEEE binary64 helpers: exact value of a float, correctly rounded rational → float -/

def pow2 (n : Nat) : Nat := 1 <<< n

/-- nearest binary64 (round-half-even) of the positive rational `num/den`, as bits without sign; `none` = overflow -/
def ratToBits (num den : Nat) : Option UInt64 :=
  if num == 0 then some 0 else
  -- estimate e with 2^e ≤ num/den < 2^(e+1)
  let e0 : Int := (num.log2 : Int) - (den.log2 : Int)
  let ge (e : Int) : Bool := if e ≥ 0 then num ≥ den * pow2 e.toNat else num * pow2 (-e).toNat ≥ den
  let e : Int := if ge e0 then (if ge (e0 + 1) then e0 + 1 else e0) else e0 - 1
  let e' : Int := if e < -1022 then -1022 else e
  -- q = round(num/den * 2^(52 - e'))
  let sh : Int := 52 - e'
  let (n2, d2) := if sh ≥ 0 then (num * pow2 sh.toNat, den) else (num, den * pow2 (-sh).toNat)
  let q0 := n2 / d2
  let r := n2 % d2
  let q := if 2 * r > d2 then q0 + 1 else if 2 * r == d2 then (if q0 % 2 == 1 then q0 + 1 else q0) else q0
  let (q, e') := if q == pow2 53 then (pow2 52, e' + 1) else (q, e')
  if e' > 1023 then none
  else if q < pow2 52 then some (UInt64.ofNat q)          -- subnormal (or zero)
  else some (UInt64.ofNat (((e' + 1023).toNat <<< 52) + (q - pow2 52)))

/-- exact value of a finite positive float: (num, den) -/
def bitsToRat (b : UInt64) : Nat × Nat :=
  let ex := ((b >>> 52) &&& 0x7ff).toNat
  let man := (b &&& 0xfffffffffffff).toNat
  if ex == 0 then (man, pow2 1074)
  else
    let m := man + pow2 52
    let e : Int := (ex : Int) - 1075
    if e ≥ 0 then (m * pow2 e.toNat, 1) else (m, pow2 (-e).toNat)

def isNaNBits (b : UInt64) : Bool := ((b >>> 52) &&& 0x7ff) == 0x7ff && (b &&& 0xfffffffffffff) != 0
def isInfBits (b : UInt64) : Bool := ((b >>> 52) &&& 0x7ff) == 0x7ff && (b &&& 0xfffffffffffff) == 0

def pow10 (n : Nat) : Nat := 10 ^ n

/-- round the positive rational `num/den` to `p` significant decimal digits: (digits, exp10) with value ≈ digits·10^exp10 -/
def roundSig (num den : Nat) (p : Nat) : Nat × Int :=
  -- k = floor(log10(num/den)) by estimate + adjust
  let ge10 (k : Int) : Bool := if k ≥ 0 then num ≥ den * pow10 k.toNat else num * pow10 (-k).toNat ≥ den
  let est : Int := (((num.log2 : Int) - (den.log2 : Int)) * 30103) / 100000
  let k0 := est - 2
  let k := Id.run do
    let mut k := k0
    for _ in [0:8] do
      if ge10 (k + 1) then k := k + 1
    return k
  let sh : Int := (p : Int) - 1 - k
  let (n2, d2) := if sh ≥ 0 then (num * pow10 sh.toNat, den) else (num, den * pow10 (-sh).toNat)
  let q0 := n2 / d2
  let r := n2 % d2
  let q := if 2 * r > d2 then q0 + 1 else if 2 * r == d2 then (if q0 % 2 == 1 then q0 + 1 else q0) else q0
  if q == pow10 p then (pow10 (p - 1), -sh + 1) else (q, -sh)

/-- shortest decimal that round-trips: (digits, exp10) -/
def shortestDigits (b : UInt64) : Nat × Int :=
  let (num, den) := bitsToRat b
  Id.run do
    for p in [1:18] do
      let (dg, ex) := roundSig num den p
      let (n2, d2) := if ex ≥ 0 then (dg * pow10 ex.toNat, 1) else (dg, pow10 (-ex).toNat)
      if ratToBits n2 d2 == some b then return (dg, ex)
    return roundSig num den 17

def stripZeros (dg : Nat) (ex : Int) : Nat × Int := Id.run do
  let mut dg := dg
  let mut ex := ex
  for _ in [0:20] do
    if dg != 0 && dg % 10 == 0 then
      dg := dg / 10
      ex := ex + 1
  return (dg, ex)

def zeros (n : Nat) : String := String.ofList (List.replicate n '0')

/-- `strconv.FormatFloat(v, 'f', -1, 64)` -/
def fmtF (x : Float) : String :=
  let b := x.toBits
  let neg := (b >>> 63) == 1
  let mag := b &&& 0x7fffffffffffffff
  if isNaNBits b then "NaN"
  else if isInfBits b then (if neg then "-Inf" else "+Inf")
  else
    let sign := if neg then "-" else ""
    if mag == 0 then sign ++ "0"
    else
      let (dg, ex) := shortestDigits mag
      let (dg, ex) := stripZeros dg ex
      let ds := toString dg
      if ex ≥ 0 then sign ++ ds ++ zeros ex.toNat
      else
        let point : Int := (ds.length : Int) + ex
        if point ≤ 0 then sign ++ "0." ++ zeros (-point).toNat ++ ds
        else sign ++ String.ofList (ds.toList.take point.toNat) ++ "." ++ String.ofList (ds.toList.drop point.toNat)

/-- `%v` of a float64 (`%g` with the shortest precision) -/
def fmtG (x : Float) : String :=
  let b := x.toBits
  let neg := (b >>> 63) == 1
  let mag := b &&& 0x7fffffffffffffff
  if isNaNBits b then "NaN"
  else if isInfBits b then (if neg then "-Inf" else "+Inf")
  else if mag == 0 then (if neg then "-0" else "0")
  else
    let (dg, ex) := shortestDigits mag
    let (dg, ex) := stripZeros dg ex
    let ds := toString dg
    let exp10 : Int := (ds.length : Int) - 1 + ex
    if exp10 < -4 || exp10 ≥ 21 then
      let sign := if neg then "-" else ""
      let mant := if ds.length == 1 then ds else String.ofList (ds.toList.take 1) ++ "." ++ String.ofList (ds.toList.drop 1)
      let ea := exp10.natAbs
      let es := if ea < 10 then "0" ++ toString ea else toString ea
      sign ++ mant ++ "e" ++ (if exp10 < 0 then "-" else "+") ++ es
    else fmtF x

def lower (c : Char) : Char := if 'A' ≤ c && c ≤ 'Z' then Char.ofNat (c.toNat + 32) else c

/-- underscores are accepted only between two digits (strconv `underscoreOK` for base 10) -/
def stripUnderscores : List Char → Option (List Char)
  | [] => some []
  | [c] => if c == '_' then none else some [c]
  | a :: '_' :: c :: r =>
    if isDigit a && isDigit c then (stripUnderscores (c :: r)).map (a :: ·) else none
  | a :: b :: r => if a == '_' then none else (stripUnderscores (b :: r)).map (a :: ·)

/-- `strconv.ParseFloat(s, 64)` for decimal syntax, `inf`/`infinity`/`nan`; hexadecimal floats are rejected (not generated) -/
def parseFloat (s : String) : Option Float :=
  let cs0 := s.toList
  let (neg, signed, cs) := match cs0 with
    | '+' :: r => (false, true, r)
    | '-' :: r => (true, true, r)
    | r => (false, false, r)
  let lc := String.ofList (cs.map lower)
  if lc == "inf" || lc == "infinity" then some (if neg then -(1.0 / 0.0) else (1.0 / 0.0))
  else if lc == "nan" then (if signed then none else some (0.0 / 0.0))
  else match stripUnderscores cs with
    | none => none
    | some cs =>
      let intPart := cs.takeWhile isDigit
      let r1 := cs.dropWhile isDigit
      let (fracPart, r2) := match r1 with
        | '.' :: r => (r.takeWhile isDigit, r.dropWhile isDigit)
        | r => ([], r)
      if intPart.isEmpty && fracPart.isEmpty then none
      else
        let expE : Option Int := match r2 with
          | [] => some 0
          | e :: r =>
            if e == 'e' || e == 'E' then
              let (eneg, ds) := match r with
                | '+' :: d => (false, d)
                | '-' :: d => (true, d)
                | d => (false, d)
              if ds.isEmpty || !ds.all isDigit then none
              else
                let v : Int := digitsVal (ds.take 6)   -- huge exponents saturate
                let v := if ds.length > 6 then 999999 else v
                some (if eneg then -v else v)
            else none
        match expE with
        | none => none
        | some ex =>
          let mant := digitsVal (intPart ++ fracPart)
          let ex10 : Int := ex - fracPart.length
          if mant == 0 then some (if neg then -0.0 else 0.0)
          else if ex10 > 400 then none
          else if ex10 < -1200 then some (if neg then -0.0 else 0.0)
          else
            let (n, d) := if ex10 ≥ 0 then (mant * pow10 ex10.toNat, 1) else (mant, pow10 (-ex10).toNat)
            match ratToBits n d with
            | none => none                      -- ±Inf with ErrRange
            | some b => some (Float.ofBits (if neg then b ||| 0x8000000000000000 else b))

def two2 (n : Nat) : String := if n < 10 then "0" ++ toString n else toString n

/-- `time.Time.String()` for UTC instants of 1970-01-01 (the generated grid) -/
def fmtTime (t : Int) : String :=
  let sec := t / 1000000000
  let ns := (t % 1000000000).toNat
  let s := sec.toNat
  let frac := if ns == 0 then "" else
    let ds := toString (1000000000 + ns)
    let body := (ds.toList.drop 1)
    let body := (body.reverse.dropWhile (· == '0')).reverse
    "." ++ String.ofList body
  s!"1970-01-01 {two2 (s / 3600 % 24)}:{two2 (s / 60 % 60)}:{two2 (s % 60)}{frac} +0000 UTC"

/-- `int64(float64)` on amd64: truncation; NaN and out-of-range values give MinInt64 -/
def floatToInt64 (x : Float) : Int :=
  if x.isNaN || x ≥ 9223372036854775808.0 || x < -9223372036854775808.0 then -two63
  else x.toInt64.toInt

def floatOps : Ops Float where
  add := (· + ·)
  sub := (· - ·)
  mul := (· * ·)
  div := (· / ·)
  eq := fun a b => a == b
  lt := fun a b => decide (a < b)
  le := fun a b => decide (a ≤ b)
  ofInt := Float.ofInt
  toInt := floatToInt64
  un := fun op x =>
    match op with
    | .abs => x.abs
    | .neg => -x
    | .sqrt => x.sqrt
    | .ceil => x.ceil
    | .floor => x.floor
    | .round => x.round
    | .log => x.log
    | .log10 => x.log10
    | .exp => x.exp
    | .sin => x.sin
    | .cos => x.cos
    | .tan => x.tan
    | .bogus => x
  fmt := fmtF
  parse := parseFloat
  secs := fun d => Float.ofInt (d.tdiv 1000000000) + Float.ofInt (d.tmod 1000000000) / 1000000000.0
  parseTime := fun _ => none
  sprintDec := fun d => "%!s(float64=" ++ fmtG d ++ ")"
  sprintTime := fmtTime

/-! ## s-expressions -/

inductive SExp | atom (s : String) | list (l : List SExp)
  deriving Inhabited, Repr

/-- parse a token list into a sequence of s-expressions (stack machine, no recursion needed) -/
def parseSExps (toks : List String) : Option (List SExp) :=
  let rec go : List String → List (List SExp) → Option (List SExp)
    | [], [top] => some top.reverse
    | [], _ => none
    | t :: ts, stack =>
      if t == "(" then go ts ([] :: stack)
      else if t == ")" then
        match stack with
        | cur :: parent :: rest => go ts ((SExp.list cur.reverse :: parent) :: rest)
        | _ => none
      else
        match stack with
        | cur :: rest => go ts ((SExp.atom t :: cur) :: rest)
        | [] => none
  go toks [[]]

abbrev V := Val Float

def hexVal (c : Char) : Option Nat :=
  if '0' ≤ c && c ≤ '9' then some (c.toNat - 48)
  else if 'a' ≤ c && c ≤ 'f' then some (c.toNat - 87)
  else none

def parseHex64 (s : String) : Option UInt64 :=
  if s.length != 16 then none
  else (s.toList.mapM hexVal).map fun ds => UInt64.ofNat (ds.foldl (fun a d => a * 16 + d) 0)

def strLit (s : String) : Option String :=
  match s.toList with
  | '\'' :: r => some (String.ofList r)
  | _ => none

def parseCell (s : String) : Option V :=
  if s == "nil" then some .nil
  else match s.toList with
    | '\'' :: r => some (.str (String.ofList r))
    | 'i' :: ':' :: r => (String.ofList r).toInt?.map Val.int
    | 'd' :: ':' :: r => (parseHex64 (String.ofList r)).map fun b => .dec (Float.ofBits b)
    | 'b' :: ':' :: r => if r == ['1'] then some (.bool true) else if r == ['0'] then some (.bool false) else none
    | 't' :: ':' :: r => (String.ofList r).toInt?.map Val.ts
    | _ => none

def parseDt : String → Option DataType
  | "int" => some .integer
  | "dec" => some .decimal
  | "str" => some .string
  | "bool" => some .boolean
  | "ts" => some .timestamp
  | "bogus" => some .bogus
  | _ => none

def parseFlag : String → Option Bool
  | "1" => some true
  | "0" => some false
  | _ => none

def parseCm : SExp → Option CustomMeta
  | .atom "nil" => some none
  | .list (.atom "cm" :: kvs) =>
    let rec go : List SExp → Option (List (String × String))
      | [] => some []
      | .atom k :: .atom v :: r => do
        let k ← strLit k
        let v ← strLit v
        let rest ← go r
        pure ((k, v) :: rest)
      | _ => none
    (go kvs).map some
  | _ => none

def parseOptStr : SExp → Option (Option String)
  | .atom "nil" => some none
  | .atom s => (strLit s).map some
  | _ => none

def parseFm : SExp → Option FieldMeta
  | .list [.atom "fm", .atom urn, .atom dt, .atom req, .atom unit, cm] => do
    pure { urn := ← strLit urn, dt := ← parseDt dt, required := ← parseFlag req, unit := ← strLit unit, custom := ← parseCm cm }
  | _ => none

def parseVm : SExp → Option ValueMeta
  | .list [.atom "vm", .atom dt, .atom req, .atom unit, cm] => do
    pure { dt := ← parseDt dt, required := ← parseFlag req, unit := ← strLit unit, custom := ← parseCm cm }
  | _ => none

def parseAfm : SExp → Option AddFieldMeta
  | .list [.atom "afm", .atom urn, .atom ou, cm] => do
    pure { urn := ← strLit urn, overrideUnit := ← strLit ou, custom := ← parseCm cm }
  | _ => none

def parseCondOp : String → Option CondOp
  | "eq" => some .eq | "ne" => some .ne | "gt" => some .gt | "lt" => some .lt | "ge" => some .ge | "le" => some .le
  | "bogus" => some .bogus | _ => none
def parseBinOp : String → Option BinOp
  | "add" => some .add | "sub" => some .sub | "mul" => some .mul | "div" => some .div | "mod" => some .mod
  | "bogus" => some .bogus | _ => none
def parseUnOp : String → Option UnOp
  | "abs" => some .abs | "neg" => some .neg | "sqrt" => some .sqrt | "ceil" => some .ceil | "floor" => some .floor
  | "round" => some .round | "log" => some .log | "log10" => some .log10 | "exp" => some .exp | "sin" => some .sin
  | "cos" => some .cos | "tan" => some .tan | "bogus" => some .bogus | _ => none
def parseLogicOp : String → Option LogicOp
  | "and" => some .and | "or" => some .or | "bogus" => some .bogus | _ => none
def parseRedType : String → Option RedType
  | "sum" => some .sum | "avg" => some .avg | "min" => some .min | "max" => some .max | "count" => some .count
  | "bogus" => some .bogus | _ => none
def parseJoinType : String → Option JoinType
  | "inner" => some .inner | "left" => some .left | "full" => some .full | _ => none

def atomsToStrs : List SExp → Option (List String)
  | [] => some []
  | .atom s :: r => do
    let s ← strLit s
    let rest ← atomsToStrs r
    pure (s :: rest)
  | _ => none

partial def parseRVal : SExp → Option (RVal Float)
  | .list [.atom "const", vm, .atom c] => do pure (.const (← parseVm vm) (← parseCell c))
  | .list [.atom "ref", .atom u] => do pure (.ref (← strLit u))
  | .list [.atom "cast", s, .atom dt] => do pure (.cast (← parseRVal s) (← parseDt dt))
  | .list [.atom "cond", .atom op, a, b] => do pure (.cond (← parseCondOp op) (← parseRVal a) (← parseRVal b))
  | .list [.atom "num", .atom op, a, b] => do pure (.num (← parseBinOp op) (← parseRVal a) (← parseRVal b))
  | .list [.atom "un", .atom op, a] => do pure (.un (← parseUnOp op) (← parseRVal a))
  | .list [.atom "logic", .atom op, a, b] => do pure (.logic (← parseLogicOp op) (← parseRVal a) (← parseRVal b))
  | .list [.atom "nvl", a, b] => do pure (.nvl (← parseRVal a) (← parseRVal b))
  | .list [.atom "sel", c, t, f] => do pure (.sel (← parseRVal c) (← parseRVal t) (← parseRVal f))
  | .list [.atom "reduce", .atom rt, .atom "all"] => do pure (.reduce (← parseRedType rt) none)
  | .list (.atom "reduce" :: .atom rt :: urns) => do pure (.reduce (← parseRedType rt) (some (← atomsToStrs urns)))
  | _ => none

partial def parseDVal : SExp → Option (DVal Float)
  | .list [.atom "const", vm, .atom c] => do pure (.const (← parseVm vm) (← parseCell c))
  | .list [.atom "ref"] => some .ref
  | .list [.atom "cast", s, .atom dt] => do pure (.cast (← parseDVal s) (← parseDt dt))
  | .list [.atom "cond", .atom op, a, b] => do pure (.cond (← parseCondOp op) (← parseDVal a) (← parseDVal b))
  | .list [.atom "num", .atom op, a, b] => do pure (.num (← parseBinOp op) (← parseDVal a) (← parseDVal b))
  | .list [.atom "un", .atom op, a] => do pure (.un (← parseUnOp op) (← parseDVal a))
  | .list [.atom "logic", .atom op, a, b] => do pure (.logic (← parseLogicOp op) (← parseDVal a) (← parseDVal b))
  | .list [.atom "nvl", a, b] => do pure (.nvl (← parseDVal a) (← parseDVal b))
  | .list [.atom "sel", c, t, f] => do pure (.sel (← parseDVal c) (← parseDVal t) (← parseDVal f))
  | _ => none

def parseSelected : SExp → Option (RVal Float × AddFieldMeta)
  | .list [v, afm] => do pure (← parseRVal v, ← parseAfm afm)
  | _ => none

def parseRFilter : SExp → Option (RFilter Float)
  | .list [.atom "append", v, afm] => do pure (.append (← parseRVal v) (← parseAfm afm))
  | .list (.atom "drop" :: urns) => do pure (.drop (← atomsToStrs urns))
  | .list (.atom "select" :: fs) => do pure (.select (← fs.mapM parseSelected))
  | .list [.atom "replace", .atom u, v, afm] => do pure (.replace (← strLit u) (← parseRVal v) (← parseAfm afm))
  | .list [.atom "single", v, afm] => do pure (.single (← parseRVal v) (← parseAfm afm))
  | .list [.atom "override", .atom u, nu, nn, cm] => do
    pure (.override (← strLit u) (← parseOptStr nu) (← parseOptStr nn) (← parseCm cm))
  | .list [.atom "where", v] => do pure (.where_ (← parseRVal v))
  | _ => none

def parseDFilter : SExp → Option (DFilter Float)
  | .list [.atom "fval", v, afm] => do pure (.fval (← parseDVal v) (← parseAfm afm))
  | .list [.atom "where", v] => do pure (.where_ (← parseDVal v))
  | .list [.atom "override", nu, nn, cm] => do pure (.override (← parseOptStr nu) (← parseOptStr nn) (← parseCm cm))
  | _ => none

def parseFillMode : String → Option FillMode
  | "linear" => some .linear
  | "forward" => some .forwardFill
  | "bogus" => some .other
  | _ => none

def parseCalUnit : String → Option CalUnit
  | "day" => some .day
  | "week" => some .week
  | "month" => some .month
  | "quarter" => some .quarter
  | "halfyear" => some .half
  | "year" => some .year
  | _ => none

/-- the zone's offset table as it travels in the case line (the encoding of the C12 cases): the offset in effect before
the first listed change, then `when:offset,when:offset,…` (unix seconds : seconds east of UTC) or `-` -/
def parseZoneTr (p : String) : Option (Int × Int) :=
  match p.splitOn ":" with
  | [w, o] => do pure (← w.toInt?, ← o.toInt?)
  | _ => none

def parseZoneTable (init tr : String) : Option ShpanVerif.Model.Period.Zone := do
  let init ← init.toInt?
  let tr ← if tr == "-" then some [] else (tr.splitOn ",").mapM parseZoneTr
  pure ⟨init, tr⟩

/-- `( align pNanos )` / `( alignfill pNanos linear|forward|bogus )`: fixed period, must be positive
(`timeseries.NewFixedAlignmentPeriod` panics otherwise; the harness refuses such a case too);
`( aligncal unit 'zone init table )` / `( aligncalfill unit 'zone init table mode )`: calendar period in the zone whose
offset table is `init table` (the harness builds the period from the zone NAME; the table is what the real zone
answered through `ZoneBounds`) -/
def parseAlign : SExp → Option (PeriodK × Option FillMode)
  | .list [.atom "align", .atom p] => do
    let p ← p.toInt?
    if p ≤ 0 then none else pure (.fixed p, none)
  | .list [.atom "alignfill", .atom p, .atom m] => do
    let p ← p.toInt?
    let m ← parseFillMode m
    if p ≤ 0 then none else pure (.fixed p, some m)
  | .list [.atom "aligncal", .atom u, .atom _zone, .atom init, .atom tr] => do
    pure (.cal (← parseCalUnit u) (← parseZoneTable init tr), none)
  | .list [.atom "aligncalfill", .atom u, .atom _zone, .atom init, .atom tr, .atom m] => do
    pure (.cal (← parseCalUnit u) (← parseZoneTable init tr), some (← parseFillMode m))
  | _ => none

/-- `maxCounterValue`: a decimal integer (converted with `float64(int64)`) or a `d:<bits>` float64 -/
def parseMaxCounter (s : String) : Option Float :=
  match s.toList with
  | 'd' :: ':' :: r => (parseHex64 (String.ofList r)).map Float.ofBits
  | _ => s.toInt?.map Float.ofInt

def parseRXFilter (e : SExp) : Option RXFilter := do
  let (p, m) ← parseAlign e
  pure (.align p m)

def parseDXFilter : SExp → Option (DXFilter Float)
  | .list [.atom "delta", .atom nn, .atom mx] => do pure (.delta (← parseFlag nn) (← parseMaxCounter mx))
  | .list [.atom "rate", .atom u, .atom ps, .atom nn, .atom mx] => do
    pure (.rate (← strLit u) (← ps.toInt?) (← parseFlag nn) (← parseMaxCounter mx))
  | e => do
    let (p, m) ← parseAlign e
    pure (.align p m)

def parseRStage (e : SExp) : Option (RStage Float) :=
  match parseRFilter e with
  | some f => some (.plain f)
  | none => (parseRXFilter e).map .x

def parseDStage (e : SExp) : Option (DStage Float) :=
  match parseDFilter e with
  | some f => some (.plain f)
  | none => (parseDXFilter e).map .x

def plainRs : List (RStage Float) → Option (List (RFilter Float))
  | [] => some []
  | .plain f :: r => (plainRs r).map (f :: ·)
  | .x _ :: _ => none

def plainDs : List (DStage Float) → Option (List (DFilter Float))
  | [] => some []
  | .plain f :: r => (plainDs r).map (f :: ·)
  | .x _ :: _ => none

/-- `NewFilteredDataSource(ds, filters…)`: row-wise filters only → `.filtered ds fs` (as before); a list that contains
a stream filter → the chain of Model/QueryExec.lean (`C10_filter_chain`: the same sequential application) -/
def mkFilteredR (ds : RDs Float) (stages : List (RStage Float)) : RDs Float :=
  match plainRs stages with
  | some fs => .filtered ds fs
  | none => chainR ds stages

def mkFilteredD (ds : DDs Float) (stages : List (DStage Float)) : DDs Float :=
  match plainDs stages with
  | some fs => .filtered ds fs
  | none => chainD ds stages

def parseRow : SExp → Option (Row Float)
  | .list (.atom "r" :: .atom ts :: cells) => do
    let ts ← ts.toInt?
    let vals ← cells.mapM fun c => match c with
      | .atom a => parseCell a
      | _ => none
    pure { ts := ts, vals := vals }
  | _ => none

def parseRec : SExp → Option (DRec Float)
  | .list [.atom "r", .atom ts, .atom c] => do pure { ts := ← ts.toInt?, val := ← parseCell c }
  | _ => none

mutual
  partial def parseRDs : SExp → Option (RDs Float)
    | .list [.atom "rstatic", .list (.atom "metas" :: ms), .list (.atom "rows" :: rs)] => do
      pure (.static (← ms.mapM parseFm) (← rs.mapM parseRow))
    | .list (.atom "rfilt" :: ds :: fs) => do pure (mkFilteredR (← parseRDs ds) (← fs.mapM parseRStage))
    | .list (.atom "join" :: .atom jt :: srcs) => do pure (.join (← parseJoinType jt) (← parseRDsL srcs))
    | .list [.atom "fromds", d] => do pure (.fromDs (← parseDDs d))
    | _ => none
  partial def parseRDsL : List SExp → Option (RDsL Float)
    | [] => some .nil
    | d :: r => do pure (.cons (← parseRDs d) (← parseRDsL r))
  partial def parseDDs : SExp → Option (DDs Float)
    | .list [.atom "dstatic", fm, .list (.atom "rows" :: rs)] => do
      pure (.static (← parseFm fm) (← rs.mapM parseRec))
    | .list (.atom "dfilt" :: ds :: fs) => do pure (mkFilteredD (← parseDDs ds) (← fs.mapM parseDStage))
    | .list (.atom "reduction" :: .atom rt :: .atom period :: afm :: fb :: srcs) => do
      let fb' ← match fb with
        | .atom "none" => some none
        | v => (parseDVal v).map some
      pure (.reduction (← parseRedType rt) (← period.toInt?) (← parseAfm afm) fb' (← parseDDsL srcs))
    | .list [.atom "tods", r, .atom u] => do pure (.fromReport (← parseRDs r) (← strLit u))
    | _ => none
  partial def parseDDsL : List SExp → Option (DDsL Float)
    | [] => some .nil
    | d :: r => do pure (.cons (← parseDDs d) (← parseDDsL r))
end

/-! ## printing -/

def hexDigit (n : Nat) : Char := if n < 10 then Char.ofNat (48 + n) else Char.ofNat (87 + n)

def hex64 (b : UInt64) : String :=
  String.ofList ((List.range 16).map fun i => hexDigit ((b >>> (UInt64.ofNat (60 - 4 * i))) &&& 0xf).toNat)

def fmtCell (mask : Bool) : V → String
  | .nil => "nil"
  | .int i => s!"i:{i}"
  | .dec d => if mask then "d:*" else if d.isNaN then "d:7ff8000000000001" else "d:" ++ hex64 d.toBits
  | .str s => "'" ++ s
  | .bool b => if b then "b:1" else "b:0"
  | .ts t => s!"t:{t}"

def fmtDt : DataType → String
  | .integer => "int" | .decimal => "dec" | .string => "str" | .boolean => "bool" | .timestamp => "ts" | .bogus => "bogus"

/-- insertion sort by key (maps print sorted; later entries win on duplicate keys, as in a Go map) -/
def sortKv (l : List (String × String)) : List (String × String) :=
  let dedup := l.foldl (fun acc kv => (acc.filter (fun p => p.1 != kv.1)) ++ [kv]) []
  dedup.foldl (fun acc kv =>
    let (lo, hi) := acc.span (fun p => p.1 < kv.1)
    lo ++ [kv] ++ hi) []

def fmtCm : CustomMeta → String
  | none => "nil"
  | some l => "( cm" ++ String.join ((sortKv l).map fun kv => " '" ++ kv.1 ++ " '" ++ kv.2) ++ " )"

def fmtFm (m : FieldMeta) : String :=
  s!"( fm '{m.urn} {fmtDt m.dt} {boolStr m.required} '{m.unit} {fmtCm m.custom} )"

def fmtRow (mask : Bool) (r : Row Float) : String :=
  s!"( r {r.ts}" ++ String.join (r.vals.map fun v => " " ++ fmtCell mask v) ++ " )"

def fmtPlanErr (e : PlanErr) : String :=
  let s := reprStr e
  -- "ShpanVerif.Model.Query.PlanErr.foo" → "foo"
  (s.splitOn ".").getLast!

def fmtRResult (mask : Bool) : Except PlanErr (RResult Float) → String
  | .error e => s!"reject {fmtPlanErr e} prepull=0"
  | .ok (metas, s) =>
    let head := "ok prepull=0 meta" ++ String.join (metas.map fun m => " " ++ fmtFm m) ++ " | "
    match collect s with
    | none => head ++ "rowerr"
    | some rows => head ++ "rows" ++ String.join (rows.map fun r => " " ++ fmtRow mask r)

def dToR (r : Except PlanErr (DResult Float)) : Except PlanErr (RResult Float) :=
  r.map fun (m, s) => ([m], s.map fun e => e.map fun x => { ts := x.ts, vals := [x.val] })

def fmtDResult (mask : Bool) (r : Except PlanErr (DResult Float)) : String := fmtRResult mask (dToR r)

/-! ## observation reader (for the spec predicates) -/

structure Obs where
  reject : Option String := none
  prepull : Nat := 0
  metas : List FieldMeta := []
  rowerr : Bool := false
  /-- rows with the observed dynamic type of every cell; `none` cell = a Go type outside the model (`x:…`) or masked -/
  rows : List (Int × List (Option V)) := []
  deriving Inhabited

def parseObsCell (s : String) : Option V :=
  if s == "d:*" then some (.dec 0.0) else parseCell s

def parsePrepull (s : String) : Option Nat :=
  if s.startsWith "prepull=" then (s.drop 8).toNat? else none

def parseObs (obs : String) : Option Obs :=
  match words obs with
  | ["reject", cls, pp] => do pure { reject := some cls, prepull := ← parsePrepull pp }
  | "ok" :: pp :: "meta" :: rest => do
    let pre ← parsePrepull pp
    match splitAt "|" rest with
    | [metaToks, body] =>
      let metas ← (← parseSExps metaToks).mapM parseFm
      match body with
      | ["rowerr"] => pure { prepull := pre, metas := metas, rowerr := true }
      | "rows" :: rowToks =>
        let rows ← (← parseSExps rowToks).mapM fun e =>
          match e with
          | .list (.atom "r" :: .atom ts :: cells) => do
            let ts ← ts.toInt?
            let cs ← cells.mapM fun c => match c with
              | .atom a => some (parseObsCell a)
              | _ => none
            pure (ts, cs)
          | _ => none
        pure { prepull := pre, metas := metas, rows := rows }
      | _ => none
    | _ => none
  | _ => none

end ShpanVerif.Drive.QueryIO

namespace ShpanVerif.Drive.QueryIO
open ShpanVerif.Util ShpanVerif.Model.Query

/-! ## parsed case lines and the checks shared by the C10 / C11 spec predicates -/

inductive QCase
  | rep (mask : Bool) (from_ to : Int) (q : RDs Float)
  | ds (mask : Bool) (from_ to : Int) (q : DDs Float)
  | tw (mask : Bool) (from_ to : Int) (fm : FieldMeta) (rows : List (DRec Float)) (fs : List (DFilter Float))

def parseMode : String → Option Bool
  | "exact" => some false
  | "mask" => some true
  | _ => none

def parseQCase (c : String) : Option QCase :=
  match words c with
  | "q" :: "rep" :: mode :: f :: t :: rest => do
    let es ← parseSExps rest
    match es with
    | [e] => pure (.rep (← parseMode mode) (← f.toInt?) (← t.toInt?) (← parseRDs e))
    | _ => none
  | "q" :: "ds" :: mode :: f :: t :: rest => do
    let es ← parseSExps rest
    match es with
    | [e] => pure (.ds (← parseMode mode) (← f.toInt?) (← t.toInt?) (← parseDDs e))
    | _ => none
  | "tw" :: mode :: f :: t :: rest => do
    let es ← parseSExps rest
    match es with
    | [e] =>
      match ← parseDDs e with
      | .static fm rows => pure (.tw (← parseMode mode) (← f.toInt?) (← t.toInt?) fm rows [])
      | .filtered (.static fm rows) fs => pure (.tw (← parseMode mode) (← f.toInt?) (← t.toInt?) fm rows fs)
      | _ => none
    | _ => none
  | _ => none

/-- dynamic tag check of one cell against a declared field -/
def cellOk (m : FieldMeta) : V → Bool
  | .nil => !m.required
  | .int _ => m.dt == .integer
  | .dec _ => m.dt == .decimal
  | .str _ => m.dt == .string
  | .bool _ => m.dt == .boolean
  | .ts _ => m.dt == .timestamp

def rowOk (metas : List FieldMeta) (cells : List V) : Bool :=
  cells.length == metas.length && (metas.zip cells).all fun p => cellOk p.1 p.2

def increasing : List Int → Bool
  | [] => true
  | [_] => true
  | a :: b :: r => decide (a < b) && increasing (b :: r)

def metasOk (metas : List FieldMeta) : Bool :=
  let urns := metas.map (·.urn)
  metas.all (fun m => m.urn != "" && m.dt.valid) && urns.eraseDups.length == urns.length

/- are all static inputs of the tree schema-conforming with strictly increasing timestamps and valid metadata? -/
mutual
  def inputsOkR : RDs Float → Bool
    | .static metas rows =>
      metas.all (fun m => m.urn != "" && m.dt.valid) && rows.all (fun r => rowOk metas r.vals) && increasing (rows.map (·.ts))
    | .filtered ds _ => inputsOkR ds
    | .xfiltered ds _ => inputsOkR ds
    | .join _ srcs => inputsOkRL srcs
    | .fromDs d => inputsOkD d
  def inputsOkRL : RDsL Float → Bool
    | .nil => true
    | .cons d l => inputsOkR d && inputsOkRL l
  def inputsOkD : DDs Float → Bool
    | .static m rows =>
      m.urn != "" && m.dt.valid && rows.all (fun r => cellOk m r.val) && increasing (rows.map (·.ts))
    | .filtered d _ => inputsOkD d
    | .xfiltered d _ => inputsOkD d
    | .reduction _ _ _ _ srcs => inputsOkDL srcs
    | .fromReport r _ => inputsOkR r
  def inputsOkDL : DDsL Float → Bool
    | .nil => true
    | .cons d l => inputsOkD d && inputsOkDL l
end

/-- input construction in the harness: `NewFieldMetaWithCustomData` of every `fm` and the static-datasource
constructors run in textual order before any `Execute`; the first failure is the observation. -/
def fmErr (m : FieldMeta) : Option PlanErr :=
  if m.urn == "" then some .metaEmptyUrn else if !m.dt.valid then some .metaInvalidType else none

mutual
  def inputErrR : RDs Float → Option PlanErr
    | .static metas _ =>
      match metas.findSome? fmErr with
      | some e => some e
      | none => if metas.isEmpty then some .staticEmpty else if hasDupUrn metas [] then some .staticDup else none
    | .filtered ds _ => inputErrR ds
    | .xfiltered ds _ => inputErrR ds
    | .join _ srcs => inputErrRL srcs
    | .fromDs d => inputErrD d
  def inputErrRL : RDsL Float → Option PlanErr
    | .nil => none
    | .cons d l =>
      match inputErrR d with
      | some e => some e
      | none => inputErrRL l
  def inputErrD : DDs Float → Option PlanErr
    | .static m _ => fmErr m
    | .filtered d _ => inputErrD d
    | .xfiltered d _ => inputErrD d
    | .reduction _ _ _ _ srcs => inputErrDL srcs
    | .fromReport r _ => inputErrR r
  def inputErrDL : DDsL Float → Option PlanErr
    | .nil => none
    | .cons d l =>
      match inputErrD d with
      | some e => some e
      | none => inputErrDL l
end

def rejectStr (e : PlanErr) : String := s!"reject {fmtPlanErr e} prepull=0"

/-- The class of a rejection is read off the library's error *text* and says which check fired first. Neither is something
C10 / C11 speak about (an ill-typed query must be rejected before any row is pulled — by whichever check): when the model
and the observation both reject with the same `prepull`, the observation itself is reported as the model's text, so that
a reworded message or two independent checks in another order do not break the correspondence. -/
def rejectProj (model obs : String) : String :=
  match words model, words obs with
  | ["reject", _, pm], ["reject", _, po] => if pm == po then obs else model
  | _, _ => model

def goTypeName : Option V → String
  | none => "a Go type outside the five value types"
  | some .nil => "nil"
  | some (.int _) => "int64"
  | some (.dec _) => "float64"
  | some (.str _) => "string"
  | some (.bool _) => "bool"
  | some (.ts _) => "time.Time"

/-- the first cell of a row that breaks the schema: reason text -/
def rowFault (metas : List FieldMeta) (ts : Int) (cells : List (Option V)) : Option String :=
  if cells.length != metas.length then
    some s!"row at ts {ts} has {cells.length} cells for {metas.length} declared fields"
  else
    (metas.zip cells).findSome? fun p =>
      let ok := match p.2 with
        | some v => cellOk p.1 v
        | none => false
      if ok then none
      else if p.2.map Val.isNil == some true then some s!"field {p.1.urn} declared required holds nil (row at ts {ts})"
      else some s!"field {p.1.urn} declared {fmtDt p.1.dt} holds {goTypeName p.2} (row at ts {ts})"

/-- C10's clause list evaluated on an observation: (ok?, reason) -/
def soundObs (o : Obs) : Bool × String :=
  if o.prepull != 0 then (false, s!"records pulled during Execute: {o.prepull}")
  else match o.reject with
    | some _ => (true, "")
    | none =>
      if !metasOk o.metas then (false, "metadata: empty/duplicate urn or invalid data type")
      else if o.rowerr then (true, "")
      else
        match o.rows.findSome? fun r => rowFault o.metas r.1 r.2 with
        | some why => (false, why)
        | none =>
          if !increasing (o.rows.map (·.1)) then (false, "timestamps not strictly increasing") else (true, "")

end ShpanVerif.Drive.QueryIO
