import ShpanVerif.Util.TsProto
import ShpanVerif.Model.GapFill
import ShpanVerif.Drive.C13
/-
Driver handler for C16.
  case := "<period> <mode> <types> raw=<0|1> budget=<n> | <unixNanos>:<cell>;<cell>... ..."   (see harness/run/c16.go)
  obs  := "G=<res> D=<res> R=<res>"     res := "ok:<t>=<value>,..." | "ok:-" | "run:<records>" | "err:<class>"
Model side: `gapFill` on symbolic string values (G), `fillField` (D), `fillRows` (R) over `floatArith`.
Spec side: the clauses of C16 evaluated on each observed result with list-level definitions:
the expected stamps are the iterates of `stop` from the first to the last data period; a stamp that has data
carries it unchanged; any other stamp carries the previous data value (forwardFill) or the interpolation
between the neighbouring data points (linear).  For raw=1 the "data" of D and R is the aligned series given by
C13's list-level spec.
-/
namespace ShpanVerif.Drive.C16
open ShpanVerif.Util ShpanVerif.Util.TsProto ShpanVerif.Model.Align ShpanVerif.Model.GapFill

structure Case where
  P : Period
  mode : String
  types : List Char
  raw : Bool
  budget : Nat
  pts : List (Int × List FCell)

def parseCase (c : String) : Option Case :=
  match splitAt "|" (words c) with
  | [[p, mode, types, raw, budget], pts] => do
    let P ← parsePeriod p
    let raw ← (kv raw "raw").bind String.toNat?
    let budget ← (kv budget "budget").bind String.toNat?
    let pts ← parsePoints pts
    let tys := types.toList
    if tys.isEmpty || !(tys.all (fun ch => ch == 'i' || ch == 'f')) then none
    else if !(pts.all (fun p => p.2.length == tys.length)) then none
    else pure ⟨P, mode, tys, raw == 1, budget, pts⟩
  | _ => none

def modeOf (s : String) : FillMode :=
  if s == "linear" then .linear else if s == "forwardFill" then .forwardFill else .other

def FA := floatArith

/-- observation / model result with values already rendered as text -/
inductive GRes where
  | ok (fin : Bool) (l : List (Int × String))
  | err (c : String)

def fmtGRes : GRes → String
  | .err c => "err:" ++ c
  | .ok _ [] => "ok:-"
  | .ok fin l => (if fin then "ok:" else "run:") ++ ",".intercalate (l.map (fun (t, v) => s!"{t}={v}"))

def parseGRes (s : String) : Option GRes :=
  if s.startsWith "err:" then some (.err (s.drop 4).toString)
  else if s == "ok:-" then some (.ok true [])
  else
    let (fin, body) := if s.startsWith "ok:" then (true, (s.drop 3).toString) else (false, (s.drop 4).toString)
    if !(s.startsWith "ok:" || s.startsWith "run:") then none
    else ((body.splitOn ",").mapM (fun (tok : String) =>
      match tok.splitOn "=" with
      | [t, v] => t.toInt?.map (fun t => (t, v))
      | _ => none)).map (GRes.ok fin)

def ofExcept {β} (f : β → String) : Except Err (List (Pt β) × Bool) → GRes
  | .error e => .err e.toString
  | .ok (l, fin) => .ok fin (l.map (fun p => (p.1, f p.2)))

def symInterp (target t1 : Int) (v1 : String) (t2 : Int) (v2 : String) : Except Err String :=
  .ok s!"L({target}/{t1}/{v1}/{t2}/{v2})"

def zipIdx {α} (l : List α) : List (α × Nat) := l.zip (List.range l.length)

def modelG (c : Case) : GRes :=
  ofExcept id (gapFill c.P (modeOf c.mode) symInterp (fun v => s!"C({v})") c.budget
    ((zipIdx c.pts).map (fun (p, k) => (p.1, s!"d{k}"))))

def dtOf (ch : Char) : DType := if ch == 'i' then .integer else .decimal

def modelD (c : Case) : GRes :=
  match c.types with
  | [] => .err "bad"
  | ty :: _ =>
    ofExcept fmtCell (fillField FA (dtOf ty) c.P (modeOf c.mode) c.budget
      (c.pts.map (fun p => ⟨⟨p.1, 0⟩, p.2.headD (.other 0)⟩)))

def modelR (c : Case) : GRes :=
  ofExcept fmtRow (fillRows FA (c.types.map dtOf) c.P (modeOf c.mode) c.budget
    (c.pts.map (fun p => ⟨⟨p.1, 0⟩, p.2⟩)))

/-! ### the property, list level -/

/-- iterate `stop` from `a` while below `b` (fuel = the step budget) -/
def gridList (P : Period) : Nat → Int → Int → List Int
  | 0, _, _ => []
  | n+1, a, b => a :: (if a < b then gridList P n (P.stop a) b else [])

def typedLerp (ty : Char) (t tp : Int) (vp : FCell) (tn : Int) (vn : FCell) : FCell :=
  let r := C13.lerpF t tp (C13.cellF vp) tn (C13.cellF vn)
  if ty == 'f' then .flt r else .int r.toInt64.toInt

def zipWith3 {α β γ δ} (f : α → β → γ → δ) : List α → List β → List γ → List δ
  | a :: as, b :: bs, c :: cs => f a b c :: zipWith3 f as bs cs
  | _, _, _ => []

/-- C13's list-level spec on rows: the aligned series of a sorted raw series -/
def alignedSpec (P : Period) (types : List Char) (pts : List (Int × List FCell)) : List (Int × List FCell) :=
  match pts with
  | [] => []
  | x0 :: _ =>
    let bs := C13.dedupAdj (pts.map (fun p => P.start p.1))
    match bs with
    | [] => []
    | b0 :: rest =>
      (b0, x0.2) :: rest.filterMap (fun b =>
        match (pts.filter (fun p => p.1 < b)).getLast?, pts.find? (fun p => b ≤ p.1) with
        | some p, some y =>
          if y.1 = b then some (b, y.2)
          else some (b, zipWith3 (fun ty vp vn => typedLerp ty b p.1 vp y.1 vn) types p.2 y.2)
        | _, _ => none)

/-- expected text at stamp `t` given the data points `(instant, rendered value, row)` -/
def expectedAt (c : Case) (sym : Bool) (types : List Char)
    (data : List (Int × String × List FCell)) (t : Int) : Option String :=
  match data.find? (fun d => d.1 = t) with
  | some d => some d.2.1                                            -- data unchanged
  | none =>
    match (data.filter (fun d => d.1 < t)).getLast?, data.find? (fun d => t < d.1) with
    | some p, some n =>
      if c.mode == "forwardFill" then
        some (if sym then s!"C({p.2.1})" else p.2.1)
      else if sym then some s!"L({t}/{p.1}/{p.2.1}/{n.1}/{n.2.1})"
      else some (fmtRow (zipWith3 (fun ty vp vn => typedLerp ty t p.1 vp n.1 vn) types p.2.2 n.2.2))
    | _, _ => none

def checkRes (c : Case) (name : String) (sym : Bool) (types : List Char)
    (data : List (Int × String × List FCell)) (r : GRes) : Option String :=
  match r with
  | .err e => some s!"{name}: error {e}"
  | .ok false _ => some s!"{name}: step budget {c.budget} reached (runaway: the stream does not end)"
  | .ok true out =>
    match data.head?, data.getLast? with
    | none, _ => if out.isEmpty then none else some s!"{name}: output for an empty series"
    | some first, some last =>
      let grid := gridList c.P c.budget first.1 last.1
      if out.map (·.1) != grid then some s!"{name}: stamps are not exactly the periods from the first to the last data period"
      else if !C13.strictlyIncreasing grid then some s!"{name}: stamps not strictly increasing"
      else out.foldl (fun acc (t, v) =>
        match acc with
        | some e => some e
        | none =>
          match expectedAt c sym types data t with
          | none => some s!"{name}: no expected value at {t}"
          | some w => if v == w then none else some s!"{name}: value at {t} is {v}, expected {w}") none
    | _, _ => some s!"{name}: internal"

def strictlyIncreasingOnGrid (P : Period) : List (Int × List FCell) → Bool
  | [] => true
  | [a] => P.start a.1 == a.1
  | a :: b :: l => P.start a.1 == a.1 && a.1 < b.1 && strictlyIncreasingOnGrid P (b :: l)

def parseObs (obs : String) : Option (GRes × GRes × GRes) :=
  match words obs with
  | [g, d, r] => do
    let g ← (kv g "G").bind parseGRes
    let d ← (kv d "D").bind parseGRes
    let r ← (kv r "R").bind parseGRes
    pure (g, d, r)
  | _ => none

/-- returns (model output, spec verdict on the observation, reason) -/
def handle (cs obs : String) : String × Bool × String :=
  match parseCase cs with
  | none => ("bad-case", false, "unparsable case")
  | some c =>
    let model := s!"G={fmtGRes (modelG c)} D={fmtGRes (modelD c)} R={fmtGRes (modelR c)}"
    let wellTyped := c.pts.all (fun p => (p.2.zip c.types).all (fun (v, ty) => C13.isKind ty v))
    let modeOk := c.mode == "linear" || c.mode == "forwardFill"
    let sorted := C13.sortedPts (c.pts.map (fun p => (p.1, p.2.headD (.other 0))))
    let onGrid := strictlyIncreasingOnGrid c.P c.pts
    if !(wellTyped && modeOk && sorted && (c.raw || onGrid)) then (model, true, "")
    else
      match parseObs obs with
      | none => (model, false, "unparsable observation")
      | some (g, d, r) =>
        let aligned := if c.raw then alignedSpec c.P c.types c.pts else c.pts
        let dataR := aligned.map (fun p => (p.1, fmtRow p.2, p.2))
        let dataD := aligned.map (fun p => (p.1, fmtRow (p.2.take 1), p.2.take 1))
        let dataG := (zipIdx c.pts).map (fun (p, k) => (p.1, s!"d{k}", ([] : List FCell)))
        let checks :=
          (if onGrid then [checkRes c "NewTsGapFillerStream" true [] dataG g] else []) ++
          [checkRes c "datasource.InterpolatingAlignerFilter" false (c.types.take 1) dataD d,
           checkRes c "report.InterpolatingAlignerFilter" false c.types dataR r]
        match checks.filterMap id with
        | [] => (model, true, "")
        | e :: _ => (model, false, e)

end ShpanVerif.Drive.C16
