import ShpanVerif.Util.Parse
import ShpanVerif.Util.Num1415
import ShpanVerif.Model.Delta
import ShpanVerif.Drive.C14
/-
Driver handler for C15 (delta / rate).  Timestamps are unix nanoseconds, optionally `t@L` (L = id of the
Location object the harness expresses the timestamp in; the model and the observation see instants only).

case :=
  ds <i|f> | <recs>                                        timeseries.DeltaStream
  ad <i|f> <periodNs> | <recs>                             timeseries.AlignDeltaStream, fixed UTC period
  df <i|f|s|b|t> <+|?> <nn 0|1> <max: float bits> | <recs>           datasource.DeltaFilter
  rt <i|f|s|b|t> <+|?> <perSeconds> <nn 0|1> <max: float bits> | <recs>   datasource.RateFilter
obs :=
  ds / ad : ok <recs> | err <class>
  df / rt : ok <type> <recs with tagged values> | dataerr <type> <class> | err <class>
  repr-dependent …   (the harness re-runs every case with all timestamps re-expressed in other locations
                      and reports this when the observation changes)
-/
namespace ShpanVerif.Drive.C15
open ShpanVerif.Util ShpanVerif.Util.N1415 ShpanVerif.Model.TsB ShpanVerif.Model.Reduce ShpanVerif.Model.Delta
open ShpanVerif.Drive.C14 (DF Exact exactInt exactFloat ratSum ratMaxAbs fmtVal parseTagged? valRat? wireVal fmtTaggedRecs
  parseTaggedRecs? DType.str parseDType? sortedByTime)

def strictByTime {ν : Type} : List (Rec ν) → Bool
  | [] => true
  | [_] => true
  | a :: b :: rest => a.ts.inst < b.ts.inst && strictByTime (b :: rest)

def fmtSRes {ν : Type} (w : Wire ν) (r : SRes (Rec ν)) : String :=
  match r.2 with
  | some e => "err " ++ e.str
  | none => "ok " ++ fmtRecs w r.1

/-- |Σ ds − want| within the rounding of one subtraction per delta (exact for integers). -/
def telescopes (isFloat : Bool) (ds : List Rat) (want : Rat) : Bool :=
  let tol : Rat := if isFloat then eps52 * ratSum (ds.map ratAbs) else 0
  ratAbs (ratSum ds - want) ≤ tol

/-! ### ds -/

def handleDs {ν : Type} (N : Num ν Float) (w : Wire ν) (E : Exact ν) (recsTxt obs : String) :
    String × Bool × String :=
  match parseRecs? w recsTxt with
  | none => ("bad-case", false, "unparsable records")
  | some xs =>
    let model := fmtSRes w (deltaStream N (xs, none))
    match words obs with
    | ["err", cls] =>
      let ok := !strictByTime xs && cls == "not-after"
      (model, ok, if ok then "" else "a strictly increasing series was rejected (or wrong error)")
    | ["ok", recs] =>
      if !strictByTime xs then (model, false, "a series that is not strictly increasing was accepted") else
      match parseRecs? w recs, xs.mapM (fun r => E.toRat? r.v) with
      | some os, some vs =>
        -- one delta per consecutive pair, stamped with the later timestamp, equal to the difference
        let stampsOk := os.map (·.ts.inst) == (xs.drop 1).map (·.ts.inst)
        match os.mapM (fun r => E.toRat? r.v) with
        | none => (model, false, "non-finite delta")
        | some ds =>
          let pairOk := (List.zip ds (List.zip vs (vs.drop 1))).all (fun d =>
            ratAbs (d.1 - (d.2.2 - d.2.1)) ≤ (if E.isFloat then eps52 * ratAbs (d.2.2 - d.2.1) else 0))
          let sumOk := match vs.head?, vs.getLast? with
            | some f, some l => telescopes E.isFloat ds (l - f)
            | _, _ => ds.isEmpty
          let ok := stampsOk && pairOk && sumOk
          (model, ok, if ok then "" else s!"stamps {stampsOk} differences {pairOk} telescoping {sumOk}")
      | _, _ => (model, false, "unparsable observation")
    | _ => (model, false, "unexpected observation")

/-! ### ad -/

def handleAd {ν : Type} (N : Num ν Float) (w : Wire ν) (E : Exact ν) (d : Int) (recsTxt obs : String) :
    String × Bool × String :=
  match parseRecs? w recsTxt with
  | none => ("bad-case", false, "unparsable records")
  | some xs =>
    let p := fixedPeriod d 0
    let model := fmtSRes w (alignDelta N DF p xs)
    if !strictByTime xs then (model, true, "not strictly increasing: outside the property's domain") else
    match words obs with
    | ["ok", recs] =>
      match parseRecs? w recs, xs.mapM (fun r => E.toRat? r.v) with
      | some os, some vs =>
        match os.mapM (fun r => E.toRat? r.v), xs.head?, xs.getLast? with
        | some ds, some f, some l =>
          let starts := (xs.map (fun r => p.start r.ts.inst)).eraseDups
          -- the last reading is appended at the end of its period unless it sits on a boundary / is the only instant
          let appended := l.ts.inst != p.start l.ts.inst && l.ts.inst != f.ts.inst
          let wantStamps := starts.drop 1 ++ (if appended then [p.end_ l.ts.inst] else [])
          let stampsOk := os.map (·.ts.inst) == wantStamps
          let sumOk := match vs.head?, vs.getLast? with
            | some fv, some lv => telescopes E.isFloat ds (lv - fv)
            | _, _ => false
          let ok := stampsOk && sumOk
          (model, ok, if ok then "" else s!"stamps {stampsOk} (want {wantStamps}) sum-of-deltas = last - first {sumOk}")
        | some ds, none, _ => (model, ds.isEmpty, "empty input")
        | _, _, _ => (model, false, "non-finite delta")
      | _, _ => (model, false, "unparsable observation")
    | _ => (model, false, "a time-sorted series was rejected")

/-! ### df / rt -/

def fmtFilterRes (r : Except Err (DType × SRes (Rec (Val Float)))) : String :=
  match r with
  | .error e => "err " ++ e.str
  | .ok (t, (rows, none)) => s!"ok {DType.str t} {fmtTaggedRecs rows}"
  | .ok (t, (_, some e)) => s!"dataerr {DType.str t} {e.str}"

/-- list-level rule of the non-negative counter delta over exact values: (delta, emitted). -/
def nnRule (maxC curr prev : Rat) : Rat × Bool :=
  if curr < 0 then (0, false)
  else if curr < prev then (if maxC > 0 then (maxC - prev) + curr else curr, true)
  else (curr - prev, true)

/-- The readings that produce an output under the non-negative rule (a negative reading is dropped and does not
become the previous one), each with the expected exact delta: (timestamp, delta, isReset, prev, curr). -/
def nnWalk (maxC : Rat) : Rat → List (Int × Rat) → List (Int × Rat × Bool)
  | _, [] => []
  | prev, (t, curr) :: rest =>
    let d := nnRule maxC curr prev
    if d.2 then (t, d.1, decide (curr < prev)) :: nnWalk maxC curr rest else nnWalk maxC prev rest

def truncRat (q : Rat) : Rat := ((ratTrunc q : Int) : Rat)

def handleDf (dt : DType) (req nn : Bool) (maxC : Float) (xs : List (Rec (Val Float))) (obs : String) :
    String × Bool × String :=
  let model := fmtFilterRes (deltaFilter DF dt req nn maxC xs)
  let valid := dt.isNumeric && req
  match words obs with
  | "err" :: _ => (model, !valid, if valid then "a valid delta filter was rejected" else "")
  | ["ok", ty, recs] =>
    if !valid then (model, false, "an invalid delta filter was accepted") else
    if ty != DType.str dt then (model, false, "the delta filter must keep the data type") else
    match parseTaggedRecs? recs, xs.mapM (fun r => valRat? r.v), floatToRat? maxC with
    | some os, some vs, some mx =>
      match os.mapM (fun r => valRat? r.v) with
      | none => (model, false, "non-finite delta")
      | some ds =>
        let typeOk := os.all (fun r => r.v.dtype == dt)
        if !nn then
          let stampsOk := os.map (·.ts.inst) == (xs.drop 1).map (·.ts.inst)
          let isF := dt == .decimal
          let pairOk := (List.zip ds (List.zip vs (vs.drop 1))).all (fun d =>
            ratAbs (d.1 - (d.2.2 - d.2.1)) ≤ (if isF then eps52 * ratAbs (d.2.2 - d.2.1) else 0))
          let sumOk := match vs.head?, vs.getLast? with
            | some f, some l => telescopes isF ds (l - f)
            | _, _ => ds.isEmpty
          let ok := typeOk && stampsOk && pairOk && sumOk
          (model, ok, if ok then "" else s!"type {typeOk} stamps {stampsOk} differences {pairOk} telescoping {sumOk}")
        else
          match vs with
          | [] => (model, os.isEmpty, "empty input")
          | v0 :: vrest =>
            let want := nnWalk mx v0 (List.zip ((xs.drop 1).map (·.ts.inst)) vrest)
            let stampsOk := os.map (·.ts.inst) == want.map (·.1)
            -- value rule: curr - prev, or on a decrease curr / (max - prev) + curr (through float64 and back for integers)
            let valsOk := os.length == want.length && (List.zip ds want).all (fun dw =>
              let exact := dw.2.2.1
              if dt == .integer then (if dw.2.2.2 then dw.1 == truncRat exact else dw.1 == exact)
              else ratAbs (dw.1 - exact) ≤ 2 * eps52 * (ratAbs exact + ratAbs mx + ratMaxAbs vs))
            -- the property: readings within [0, max] (within [0, ∞) without max) never yield a negative value
            let inRange := vs.all (fun v => 0 ≤ v && (mx ≤ 0 || v ≤ mx))
            let nonNegOk := !inRange || ds.all (fun d => 0 ≤ d)
            let ok := typeOk && stampsOk && valsOk && nonNegOk
            (model, ok, if ok then "" else s!"type {typeOk} stamps {stampsOk} values {valsOk} non-negative {nonNegOk}")
    | _, _, _ => (model, false, "unparsable observation")
  | ["dataerr", _, _] => (model, false, "the delta filter failed on well-typed data")
  | _ => (model, false, "unexpected observation")

def handleRt (dt : DType) (req : Bool) (perSeconds : Int) (nn : Bool) (maxC : Float) (xs : List (Rec (Val Float)))
    (obs : String) : String × Bool × String :=
  let model := fmtFilterRes (rateFilter DF dt req perSeconds nn maxC xs)
  let valid := dt.isNumeric && req
  if valid && !sortedByTime xs then (model, true, "unsorted input: outside the property's domain") else
  match xs.mapM (fun r => valRat? r.v), floatToRat? maxC with
  | some vs, some mx =>
    let ps : Rat := if perSeconds ≤ 0 then 1 else (perSeconds : Rat)
    -- expected outputs over exact values: (timestamp, rate) for every emitting pair; none = zero time difference
    let rec walk (prevT : Int) (prev : Rat) : List (Int × Rat) → List (Int × Option (Rat × Rat))
      | [] => []
      | (t, curr) :: rest =>
        let d : Rat × Bool := if nn then nnRule mx curr prev else (curr - prev, true)
        if !d.2 then walk prevT prev rest
        else if t == prevT then [(t, none)]
        else
          let secsQ : Rat := ((t - prevT : Int) : Rat) / 1000000000
          (t, some (d.1 / secsQ * ps, ratAbs (ps / secsQ))) :: walk t curr rest
    let want := match xs, vs with
      | x0 :: xrest, v0 :: vrest => walk x0.ts.inst v0 (List.zip (xrest.map (·.ts.inst)) vrest)
      | _, _ => []
    let zeroDiff := want.any (fun w => w.2.isNone)
    match words obs with
    | "err" :: _ => (model, !valid, if valid then "a valid rate filter was rejected" else "")
    | ["dataerr", ty, cls] =>
      let ok := valid && zeroDiff && cls == "time-diff-zero" && ty == "decimal"
      (model, ok, if ok then "" else "the rate filter failed without a zero time difference")
    | ["ok", ty, recs] =>
      if !valid then (model, false, "an invalid rate filter was accepted") else
      if ty != "decimal" then (model, false, "a rate is a decimal") else
      if zeroDiff then (model, false, "a zero time difference must be rejected") else
      match parseTaggedRecs? recs with
      | none => (model, false, "unparsable observation")
      | some os =>
        match os.mapM (fun r => valRat? r.v) with
        | none => (model, false, "non-finite rate")
        | some rs =>
          let typeOk := os.all (fun r => r.v.dtype == .decimal)
          let stampsOk := os.map (·.ts.inst) == want.map (·.1)
          -- value = delta / seconds × perSeconds (4 float roundings, plus the one of the reset formula)
          let valsOk := os.length == want.length && (List.zip rs want).all (fun rw =>
            match rw.2.2 with
            | some (exact, scale) => ratAbs (rw.1 - exact) ≤ 4 * eps52 * (ratAbs exact + (ratAbs mx + ratMaxAbs vs) * scale)
            | none => false)
          let inRange := vs.all (fun v => 0 ≤ v && (mx ≤ 0 || v ≤ mx))
          let nonNegOk := !(nn && inRange) || rs.all (fun r => 0 ≤ r)
          let ok := typeOk && stampsOk && valsOk && nonNegOk
          (model, ok, if ok then "" else s!"type {typeOk} stamps {stampsOk} values {valsOk} non-negative {nonNegOk}")
    | _ => (model, false, "unexpected observation")
  | _, _ => (model, false, "non-finite input")

def parseReq? (s : String) : Option Bool := if s == "+" then some true else if s == "?" then some false else none
def parseBit? (s : String) : Option Bool := if s == "1" then some true else if s == "0" then some false else none

/-- returns (model output, spec verdict on the observation, reason) -/
def handle (c obs : String) : String × Bool × String :=
  if obs.startsWith "repr-dependent" then
    ("-", false, "the observation changes when the timestamps are re-expressed in other locations")
  else
  -- `dsz` / `adz`: the same cases with the timestamps counted from Go's zero instant (harness/run/ts1415_util.go); the zero
  -- instant is a whole number of days before the epoch, so the model (which counts from 0) needs no change
  let c := if c.startsWith "dsz " then "ds " ++ (c.drop 4).toString else if c.startsWith "adz " then "ad " ++ (c.drop 4).toString else c
  match splitAt "|" (words c) with
  | ["ds", ty] :: [[recs]] =>
    if ty == "i" then handleDs (Num.int DF) wireInt exactInt recs obs
    else if ty == "f" then handleDs (Num.dec DF) wireFloat exactFloat recs obs
    else ("bad-case", false, "type")
  | ["ad", ty, d] :: [[recs]] =>
    match d.toInt? with
    | some d =>
      if d ≤ 0 then ("bad-case", false, "period") else
      if ty == "i" then handleAd (Num.int DF) wireInt exactInt d recs obs
      else if ty == "f" then handleAd (Num.dec DF) wireFloat exactFloat d recs obs
      else ("bad-case", false, "type")
    | none => ("bad-case", false, "period")
  | ["df", ty, req, nn, mx] :: [[recs]] =>
    match ty.toList with
    | [c] =>
      match parseDType? c, parseReq? req, parseBit? nn, parseFloatBits? mx with
      | some dt, some req, some nn, some mx =>
        match parseRecs? (wireVal dt) recs with
        | some xs => handleDf dt req nn mx xs obs
        | none => ("bad-case", false, "unparsable records")
      | _, _, _, _ => ("bad-case", false, "unparsable case")
    | _ => ("bad-case", false, "type")
  | ["rt", ty, req, ps, nn, mx] :: [[recs]] =>
    match ty.toList with
    | [c] =>
      match parseDType? c, parseReq? req, ps.toInt?, parseBit? nn, parseFloatBits? mx with
      | some dt, some req, some ps, some nn, some mx =>
        match parseRecs? (wireVal dt) recs with
        | some xs => handleRt dt req ps nn mx xs obs
        | none => ("bad-case", false, "unparsable records")
      | _, _, _, _, _ => ("bad-case", false, "unparsable case")
    | _ => ("bad-case", false, "type")
  | _ => ("bad-case", false, "unknown sub-command")

end ShpanVerif.Drive.C15
