import ShpanVerif.Util.Parse
import ShpanVerif.Util.Num1415
import ShpanVerif.Model.Reduce
/-
Driver handler for C14 (reductions).  Timestamps / durations are unix nanoseconds, integers are decimal,
floats are the 16 hex digits of their IEEE-754 bits.

case :=
  ar <sum|avg|min|max> <i|f> <periodNs> | <recs>            AlignReduceStream over a fixed UTC period
  mm <min|max|minlazy|maxlazy> <i|f> | <vals>                stream.Min / Max / MinLazy / MaxLazy
  rd <sum|avg|min|max|count> <periodNs> | <dt><req> <recs> | …   ReductionDatasource over static datasources
  rf <sum|avg|min|max|count> <all|urn,urn,…> | <urn><dt><req>,… | <row>;<row>;…   ReduceFieldValue
  recs := "-" | t:v,t:v,…     vals := "-" | v,v,…     dt := i|f|s|b|t     req := +|?     row := v,v,…
obs :=
  ar: ok <recs>            mm: ok <v>
  rd: ok <integer|decimal|…> <recs with tagged values> | dataerr <type> <class> | err <class>
  rf: ok <type> <tagged v>;<tagged v>;… | err <class>            tagged v := i<int> | f<hex>

The spec predicate is evaluated on the observation with list-level definitions over exact rationals:
the groups are `filter`s of the input by period start, sums / means are rational sums of the exactly
reconstructed float values and are compared with a rigorous rounding bound (0 for integers).
-/
namespace ShpanVerif.Drive.C14
open ShpanVerif.Util ShpanVerif.Util.N1415 ShpanVerif.Model.TsB ShpanVerif.Model.Reduce

def DF : Dec Float := Dec.float

/-- How the spec looks at a numeric carrier: its exact rational value. -/
structure Exact (ν : Type) where
  toRat? : ν → Option Rat
  isFloat : Bool

def exactInt : Exact Int := ⟨fun n => some (n : Rat), false⟩
def exactFloat : Exact Float := ⟨floatToRat?, true⟩

def ratSum (l : List Rat) : Rat := l.foldl (· + ·) 0
def ratMaxAbs (l : List Rat) : Rat := l.foldl (fun m x => if ratAbs x > m then ratAbs x else m) 0

def parseTsReducer? : String → Option TsReducer
  | "sum" => some .sum | "avg" => some .avg | "min" => some .min | "max" => some .max | _ => none

def parseReduction? : String → Option Reduction
  | "sum" => some .sum | "avg" => some .avg | "min" => some .min | "max" => some .max
  | "count" => some .count | _ => none

def parseDType? : Char → Option DType
  | 'i' => some .integer | 'f' => some .decimal | 's' => some .string | 'b' => some .boolean
  | 't' => some .timestamp | _ => none

def DType.str : DType → String
  | .integer => "integer" | .decimal => "decimal" | .string => "string" | .boolean => "boolean"
  | .timestamp => "timestamp"

/-! ### spec: value of a reduction over exactly the given values -/

/-- Does `obs` equal the sum of `g` (exactly for integers; within the rounding bound of a left-to-right
float summation for floats)? -/
def specSum (g : List Rat) (obs : Rat) (isFloat : Bool) : Bool :=
  let tol : Rat := if isFloat then (g.length : Rat) * eps52 * ratSum (g.map ratAbs) else 0
  ratAbs (obs - ratSum g) ≤ tol

/-- Mean of a non-empty group within the rounding bound of the running update (≈ 4 roundings per element). -/
def specMean (g : List Rat) (obs : Rat) : Bool :=
  let n : Rat := (g.length : Rat)
  let tol : Rat := 2 * (n + 1) * eps52 * ratMaxAbs g
  g.length > 0 && ratAbs (obs - ratSum g / n) ≤ tol

def specMin (g : List Rat) (obs : Rat) : Bool := g.contains obs && g.all (fun x => obs ≤ x)
def specMax (g : List Rat) (obs : Rat) : Bool := g.contains obs && g.all (fun x => x ≤ obs)

def specTsReducer (E : Exact ν) (red : TsReducer) (g : List ν) (obs : ν) : Bool :=
  match g.mapM E.toRat?, E.toRat? obs with
  | some gr, some o =>
    match red with
    | .sum => specSum gr o E.isFloat
    | .avg => if E.isFloat then specMean gr o else true   -- the mean is claimed for floating types only
    | .min => specMin gr o
    | .max => specMax gr o
  | _, _ => false

def sortedByTime {ν : Type} : List (Rec ν) → Bool
  | [] => true
  | [_] => true
  | a :: b :: rest => a.ts.inst ≤ b.ts.inst && sortedByTime (b :: rest)

/-! ### ar -/

def handleAr {ν : Type} (N : Num ν Float) (w : Wire ν) (E : Exact ν) (red : TsReducer) (d : Int)
    (recsTxt obs : String) : String × Bool × String :=
  match parseRecs? w recsTxt with
  | none => ("bad-case", false, "unparsable records")
  | some xs =>
    let p := fixedPeriod d 0
    let model := "ok " ++ fmtRecs w (alignReduce p N red xs)
    if !sortedByTime xs then (model, true, "unsorted input: outside the property's domain") else
    -- spec: one record per period that contains input, stamped with the period start, value = reduction of
    -- exactly the values whose timestamp lies in that period
    let starts := (xs.map (fun r => p.start r.ts.inst)).eraseDups
    match words obs with
    | ["ok", recs] =>
      match parseRecs? w recs with
      | none => (model, false, "unparsable observation")
      | some os =>
        if os.length != starts.length then (model, false, s!"want {starts.length} records (one per non-empty period)") else
        let bad := (List.zip starts os).find? (fun so =>
          let g := (xs.filter (fun r => p.start r.ts.inst == so.1)).map (·.v)
          !(so.2.ts.inst == so.1 && specTsReducer E red g so.2.v))
        match bad with
        | none => (model, true, "")
        | some so => (model, false, s!"record at {so.2.ts.inst}: not the reduction of exactly the values of period {so.1}")
    | _ => (model, false, "unexpected observation")

/-! ### mm -/

def handleMm {ν : Type} (N : Num ν Float) (w : Wire ν) (E : Exact ν) (isMax : Bool)
    (valsTxt obs : String) : String × Bool × String :=
  match parseVals? w valsTxt with
  | none => ("bad-case", false, "unparsable values")
  | some xs =>
    let m := if isMax then streamMax N xs else streamMin N xs
    let model := "ok " ++ w.fmt m
    match words obs with
    | ["ok", v] =>
      match w.parse v with
      | none => (model, false, "unparsable observation")
      | some o =>
        match xs.mapM E.toRat?, E.toRat? o with
        | some g, some orat =>
          let ok := if g.isEmpty then orat == 0 else (if isMax then specMax g orat else specMin g orat)
          (model, ok, if ok then "" else "not the true extremum (zero value for the empty stream)")
        | _, _ => (model, false, "non-finite value")
    | _ => (model, false, "unexpected observation")

/-! ### tagged values -/

def fmtVal : Val Float → String
  | .i n => s!"i{n}"
  | .d x => "f" ++ fmtFloatBits x

def parseTagged? (s : String) : Option (Val Float) :=
  if s.startsWith "i" then (s.drop 1).toString.toInt?.map Val.i
  else if s.startsWith "f" then (parseFloatBits? (s.drop 1).toString).map Val.d
  else none

def valRat? : Val Float → Option Rat
  | .i n => some (n : Rat)
  | .d x => floatToRat? x

/-- wire format of an untagged value of a field / datasource declared `dt` (non numeric: dummy integers). -/
def wireVal (dt : DType) : Wire (Val Float) :=
  match dt with
  | .decimal => ⟨fun s => (parseFloatBits? s).map Val.d, fmtVal⟩
  | _ => ⟨fun s => s.toInt?.map Val.i, fmtVal⟩

/-- spec of a tsquery reduction over exactly `vals` (all of declared type `dt`): the documented result
type (decimal for avg, integer for count, input type otherwise) as the DYNAMIC type of `obs`, and the value. -/
def specReduction (r : Reduction) (dt : DType) (vals : List (Val Float)) (obs : Val Float) : Bool :=
  let wantType : DType := match r with | .avg => .decimal | .count => .integer | _ => dt
  obs.dtype == wantType &&
  match vals.mapM valRat?, valRat? obs with
  | some g, some o =>
    let n : Rat := (g.length : Rat)
    let isF := dt == .decimal
    match r with
    | .count => o == n
    | .sum => specSum g o isF
    | .avg => g.length > 0 && ratAbs (o - ratSum g / n) ≤ (n + 2) * eps52 * ratSum (g.map ratAbs) / n
    | .min => specMin g o
    | .max => specMax g o
  | _, _ => false

/-! ### rd -/

def parseDs? (ts : List String) : Option (DS Float) :=
  match ts with
  | [hd, recs] =>
    match hd.toList with
    | [c, q] => do
      let dt ← parseDType? c
      let req ← (if q == '+' then some true else if q == '?' then some false else none)
      let rs ← parseRecs? (wireVal dt) recs
      pure ⟨dt, req, rs⟩
    | _ => none
  | _ => none

def fmtTaggedRecs (l : List (Rec (Val Float))) : String :=
  fmtList (fun (r : Rec (Val Float)) => s!"{r.ts.inst}:{fmtVal r.v}") l

def parseTaggedRecs? (s : String) : Option (List (Rec (Val Float))) :=
  parseRecs? ⟨parseTagged?, fmtVal⟩ s

/-- list-level alignment (what C13 establishes for the aligner): one record per period that contains
input; the first period carries its first value, a later one the value on the boundary or the
interpolation between the last record before and the first record of the period. -/
def specAligned (p : Period) (dt : DType) (xs : List (Rec (Val Float))) : Option (List (Rec (Val Float))) :=
  let starts := (xs.map (fun r => p.start r.ts.inst)).eraseDups
  let items := fun (s : Int) => xs.filter (fun r => p.start r.ts.inst == s)
  (List.zip (List.range starts.length) starts).mapM (fun is =>
    let s := is.2
    match (items s).head? with
    | none => none
    | some first =>
      if is.1 == 0 || first.ts.inst == s then some ⟨⟨s, 0⟩, first.v⟩
      else
        match (items (starts.getD (is.1 - 1) 0)).getLast? with
        | none => none
        | some lp =>
          match twaVal DF dt s lp.ts.inst lp.v first.ts.inst first.v with
          | .ok v => some ⟨⟨s, 0⟩, v⟩
          | .error _ => none)

def handleRd (r : Reduction) (d : Int) (dss : List (DS Float)) (obs : String) : String × Bool × String :=
  let p := fixedPeriod d 0
  let model := match reductionDatasource DF p r dss with
    | .error e => "err " ++ e.str
    | .ok (rt, (rows, none)) => s!"ok {DType.str rt} {fmtTaggedRecs rows}"
    | .ok (rt, (_, some e)) => s!"dataerr {DType.str rt} {e.str}"
  if !dss.all (fun ds => sortedByTime ds.recs) then (model, true, "unsorted input: outside the property's domain") else
  -- preconditions of a reduction: at least one datasource, all numeric, of one type, required
  let valid := match dss with
    | [] => false
    | d0 :: rest => d0.dtype.isNumeric && dss.all (·.required) && rest.all (fun x => x.dtype == d0.dtype)
  match words obs, dss with
  | "err" :: _, _ => (model, !valid, if valid then "a valid reduction was rejected" else "")
  | ["ok", ty, recs], d0 :: _ =>
    if !valid then (model, false, "an invalid reduction was accepted") else
    let wantType : DType := match r with | .avg => .decimal | .count => .integer | _ => d0.dtype
    if ty != DType.str wantType then (model, false, s!"declared type {ty}, want {DType.str wantType}") else
    match parseTaggedRecs? recs, dss.mapM (fun ds => specAligned p ds.dtype ds.recs) with
    | some os, some (a0 :: arest) =>
      -- one row per aligned timestamp present in ALL datasources
      let common := a0.filter (fun x => arest.all (fun a => a.any (fun y => y.ts.inst == x.ts.inst)))
      if os.length != common.length then (model, false, s!"want {common.length} rows (timestamps present in all datasources)") else
      let bad := (List.zip common os).find? (fun co =>
        let vals := (a0 :: arest).filterMap (fun a => (a.find? (fun y => y.ts.inst == co.1.ts.inst)).map (·.v))
        !(co.2.ts.inst == co.1.ts.inst && vals.length == dss.length && specReduction r d0.dtype vals co.2.v))
      match bad with
      | none => (model, true, "")
      | some co => (model, false, s!"row at {co.2.ts.inst}: not the {DType.str wantType} reduction of exactly the aligned values")
    | _, _ => (model, false, "unparsable observation")
  | _, _ => (model, false, "unexpected observation")

/-! ### rf -/

def parseField? (s : String) : Option FMeta :=
  match s.toList.reverse with
  | q :: c :: urnRev => do
    let urn ← (String.ofList urnRev.reverse).toNat?
    let dt ← parseDType? c
    let req ← (if q == '+' then some true else if q == '?' then some false else none)
    pure ⟨urn, dt, req⟩
  | _ => none

def parseRow? (fields : List FMeta) (s : String) : Option (List (Val Float)) :=
  let parts := s.splitOn ","
  if parts.length != fields.length then none
  else (List.zip fields parts).mapM (fun fp => (wireVal fp.1.dtype).parse fp.2)

def handleRf (r : Reduction) (sel : Option (List Nat)) (fields : List FMeta) (rows : List (List (Val Float)))
    (obs : String) : String × Bool × String :=
  let model := match reduceFieldExecute DF r sel fields with
    | .error e => "err " ++ e.str
    | .ok (rt, f) =>
      match rows.mapM f with
      | .error e => s!"dataerr {DType.str rt} {e.str}"
      | .ok vs => s!"ok {DType.str rt} " ++ (if vs.isEmpty then "-" else ";".intercalate (vs.map fmtVal))
  -- the fields selected (independently of the model): by urn, each requested urn present (a urn may occur on more
  -- than one available field — select shadowing, fix 5caebc0 — then all of them are reduced)
  let chosen : List (Nat × FMeta) := (List.zip (List.range fields.length) fields).filter (fun im =>
    match sel with | none => true | some urns => urns.contains im.2.urn)
  let selOk := match sel with
    | none => true
    | some urns => urns.all (fun u => (fields.filter (fun f => f.urn == u)).length ≥ 1)
  let valid := match chosen with
    | [] => false
    | c0 :: rest => selOk && c0.2.dtype.isNumeric && chosen.all (·.2.required) && rest.all (fun x => x.2.dtype == c0.2.dtype)
  match words obs, chosen with
  | "err" :: _, _ => (model, !valid, if valid then "a valid reduction was rejected" else "")
  | ["ok", ty, vals], c0 :: _ =>
    if !valid then (model, false, "an invalid reduction was accepted") else
    let wantType : DType := match r with | .avg => .decimal | .count => .integer | _ => c0.2.dtype
    if ty != DType.str wantType then (model, false, s!"declared type {ty}, want {DType.str wantType}") else
    let os? := if vals == "-" then some [] else (vals.splitOn ";").mapM parseTagged?
    match os? with
    | none => (model, false, "unparsable observation")
    | some os =>
      if os.length != rows.length then (model, false, "one value per row expected") else
      let bad := (List.zip rows os).find? (fun ro =>
        !specReduction r c0.2.dtype (chosen.map (fun im => ro.1.getD im.1 (.i 0))) ro.2)
      match bad with
      | none => (model, true, "")
      | some _ => (model, false, s!"a value is not the {DType.str wantType} reduction of exactly the selected fields")
  | _, _ => (model, false, "unexpected observation")

/-- returns (model output, spec verdict on the observation, reason) -/
def handle (c obs : String) : String × Bool × String :=
  match splitAt "|" (words c) with
  | ["ar", red, ty, d] :: [[recs]] =>
    -- "<red>@h": observed after earlier, early-stopped materialisations of the same stream value (harness/run/c14.go):
    -- the reductions are those of a first materialisation
    match parseTsReducer? ((red.splitOn "@").headD red), d.toInt? with
    | some red, some d =>
      if d ≤ 0 then ("bad-case", false, "period") else
      if ty == "i" then handleAr (Num.int DF) wireInt exactInt red d recs obs
      else if ty == "f" then handleAr (Num.dec DF) wireFloat exactFloat red d recs obs
      else ("bad-case", false, "type")
    | _, _ => ("bad-case", false, "unparsable case")
  | ["mm", op, ty] :: [[vals]] =>
    -- "<op>@ch" / "<op>@cur": the same over a one-shot source (harness/run/c14.go); the model is over the sequence
    let isMax? : Option Bool := match (op.splitOn "@").headD op with
      | "max" | "maxlazy" => some true
      | "min" | "minlazy" => some false
      | _ => none
    match isMax? with
    | none => ("bad-case", false, "op")
    | some isMax =>
      if ty == "i" then handleMm (Num.int DF) wireInt exactInt isMax vals obs
      else if ty == "f" then handleMm (Num.dec DF) wireFloat exactFloat isMax vals obs
      else ("bad-case", false, "type")
  | ["rd", red, d] :: dsToks =>
    match parseReduction? red, d.toInt?, dsToks.mapM parseDs? with
    | some r, some d, some dss => if d ≤ 0 then ("bad-case", false, "period") else handleRd r d dss obs
    | _, _, _ => ("bad-case", false, "unparsable case")
  | ["rf", red, sel] :: [[fieldsTxt], [rowsTxt]] =>
    let sel? : Option (Option (List Nat)) := if sel == "all" then some none else (parseNatList sel).map some
    match parseReduction? red, sel?, (fieldsTxt.splitOn ",").mapM parseField? with
    | some r, some sel, some fields =>
      let rows? := if rowsTxt == "-" then some [] else (rowsTxt.splitOn ";").mapM (parseRow? fields)
      match rows? with
      | some rows => handleRf r sel fields rows obs
      | none => ("bad-case", false, "unparsable rows")
    | _, _, _ => ("bad-case", false, "unparsable case")
  | _ => ("bad-case", false, "unknown sub-command")

end ShpanVerif.Drive.C14
