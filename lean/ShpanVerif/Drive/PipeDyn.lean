import ShpanVerif.Drive.PipeCommon
import ShpanVerif.Model.PipeDyn
/-
Driver handler for the `DYN` case stream (harness/run/pipedyn.go): `stream.FlatMap` over a probe source under
Peek / Map / Filter, inner streams made while the pipeline runs, optional fresh `Limit` per run, several runs on the same
stream value.

    DYN src R0 XS OPS... fm G... || RUN || RUN ...
    DYN srcv R0 XS1|XS2|... OPS... fm G... || RUN || RUN ...     (contents of the outer source per run; the last entry repeats)

Model text: `Model.PipeDyn.consume` run after run on the SAME operator object, fresh world per run, printed in exactly the
observation's format (compared by string equality, no projection).
Spec predicate: list-level definitions only (`outerDen`, `flatSpec`, `specOutcome`, `needPulls`) on the observation.
-/
namespace ShpanVerif.Drive.PipeDyn
open ShpanVerif.Util ShpanVerif.Model.Pipe ShpanVerif.Drive.PipeCommon
open ShpanVerif.Model.PipeDyn (OOp Inner Obj outerDen flatSpec specOutcome needPulls)

/-- description of FlatMap's mapper -/
inductive GD where
  | probe (b m l : Nat)
  | iter (b m l : Nat)
  | just (k : Int)
  | empty
  | error
  | alt (a b : GD)

/-- `[key+0, …, key+n-1]` -/
def ysOf (key : Int) (n : Nat) : List V := (List.range n).map (fun (i : Nat) => V.int (key + Int.ofNat i))

/-- the inner stream of element `v` -/
def GD.eval : GD → V → Inner
  | .probe b m l, v => .probe (b + v.key.natAbs % m) (ysOf v.key (v.key.natAbs % (l + 1)))
  | .iter b m l, v => .iter (b + v.key.natAbs % m) (ysOf v.key (v.key.natAbs % (l + 1)))
  | .just k, v => .just [v, .int (v.key + k)]
  | .empty, _ => .empty
  | .error, _ => .error
  | .alt a b, v => if v.key.emod 2 == 0 then a.eval v else b.eval v

def parseG : Nat → List String → Option (GD × List String)
  | 0, _ => none
  | fuel+1, toks =>
    match toks with
    | "probe" :: b :: m :: l :: rest => do
      let b ← b.toNat?; let m ← m.toNat?; let l ← l.toNat?
      if m == 0 then none else pure (.probe b m l, rest)
    | "iter" :: b :: m :: l :: rest => do
      let b ← b.toNat?; let m ← m.toNat?; let l ← l.toNat?
      if m == 0 then none else pure (.iter b m l, rest)
    | "just" :: k :: rest => do
      let k ← k.toInt?
      pure (.just k, rest)
    | "empty" :: rest => some (.empty, rest)
    | "error" :: rest => some (.error, rest)
    | "alt" :: rest => do
      let (a, rest) ← parseG fuel rest
      let (b, rest) ← parseG fuel rest
      pure (.alt a b, rest)
    | _ => none

/-- the operators between the source and `fm`, source side first -/
def parseOps : Nat → List String → Option (List OOp × List String)
  | 0, _ => none
  | fuel+1, toks =>
    match toks with
    | "fm" :: rest => some ([], rest)
    | "peek" :: rest => do
      let (ops, rest) ← parseOps fuel rest
      pure (OOp.peek :: ops, rest)
    | "map" :: f :: rest => do
      let f ← parseFn f
      let (ops, rest) ← parseOps fuel rest
      pure (OOp.map f :: ops, rest)
    | "filter" :: p :: rest => do
      let p ← parsePred p
      let (ops, rest) ← parseOps fuel rest
      pure (OOp.filter p :: ops, rest)
    | _ => none

structure DCase where
  r0 : Nat
  /-- contents of the outer source in run 1, 2, … (`src`: one entry; the last entry repeats) -/
  xss : List (List Int)
  ops : List OOp
  g : GD
  runs : List Run

def parseDyn (c : String) : Option DCase :=
  match splitAt "||" (words c) with
  | ("DYN" :: src :: r0 :: xs :: rest) :: runs => do
    let r0 ← r0.toNat?
    let xss ← if src == "src" then (parseIntList xs).map (fun l => [l])
              else if src == "srcv" then (xs.splitOn "|").mapM parseIntList
              else none
    if xss.isEmpty then none
    let (ops, rest) ← parseOps 1000 rest
    let (g, rest) ← parseG 1000 rest
    if !rest.isEmpty then none
    let rs ← runs.mapM parseRun
    pure { r0 := r0, xss := xss, ops := ops, g := g, runs := rs }
  | _ => none

/-! ### model text -/

def evTok : Event → String
  | .call p => s!"#{p}"
  | .openOk r => s!"O{r}"
  | .openFail r => s!"o{r}"
  | .emit r => s!"E{r}"
  | .close r => s!"C{r}"

def fmtSeq (tr : List Event) : String :=
  if tr.isEmpty then "-" else ".".intercalate (tr.map evTok)

/-- contents of the outer source in run `i` (0-based) -/
def DCase.xsAt (d : DCase) (i : Nat) : List Int :=
  (d.xss[i]?).getD (d.xss.getLastD [])

/-- all materialisations in sequence on the same operator object; a fresh world per run; before run `i` the outer source's
    contents become those of run `i` (`Obj.setContents`: the probe source reads them when it is opened) -/
def runAllDyn (d : DCase) (obj : Obj) (i : Nat) : List Run → List String
  | [] => []
  | r :: rs =>
    match ShpanVerif.Model.PipeDyn.consume 100000 r.consumer r.take (obj.setContents (d.xsAt i)) { fault := r.fault } with
    | (o, obj, w) =>
      s!"{fmtOutcome o} | calls={w.calls} pre=0 | {fmtEvents w.trace} | seq={fmtSeq w.trace}" :: runAllDyn d obj (i + 1) rs

def modelTextDyn (d : DCase) : String :=
  " || ".intercalate (runAllDyn d (Obj.mk0 d.r0 (d.xsAt 0) d.ops d.g.eval) 0 d.runs)

/-! ### spec predicate (on the observation) -/

/-- the `seq=` tokens of one run of the observation -/
def seqOf (runText : String) : Option (List String) :=
  match (words runText).filter (fun t => t.startsWith "seq=") with
  | [t] =>
    let s := (t.drop 4).toString
    if s == "-" then some [] else some (s.splitOn ".")
  | _ => none

/-- replay the global event log: `op` = resources open now.  `some reason` at the first violation. -/
def replaySeq (r0 : Nat) : List Nat → List String → Option String
  | _, [] => none
  | op, t :: ts =>
    match t.toList with
    | '#' :: _ => replaySeq r0 op ts
    | c :: ds =>
      match (String.ofList ds).toNat? with
      | none => some s!"bad seq token {t}"
      | some r =>
        if c == 'O' then
          if op.contains r then some s!"resource {r} opened while open"
          else if r != r0 && op.any (fun x => x != r0) then
            some s!"inner resource {r} opened while inner resource {(op.filter (fun x => x != r0)).headD 0} is still open"
          else replaySeq r0 (r :: op) ts
        else if c == 'o' then
          if op.contains r then some s!"open of resource {r} attempted while open" else replaySeq r0 op ts
        else if c == 'E' then
          if op.contains r then replaySeq r0 op ts else some s!"resource {r} pulled while closed"
        else if c == 'C' then
          if op.contains r then replaySeq r0 (op.erase r) ts else some s!"resource {r} closed while closed"
        else some s!"bad seq token {t}"
    | [] => some "empty seq token"

def toks (delivered : String) : List String :=
  if delivered == "-" then [] else delivered.splitOn ","

def Outcome.deliveredOf : Outcome → List V
  | .ok d => d
  | .err _ d => d
  | .oof => []

/-- verdict of one run -/
def specRun (d : DCase) (xs : List Int) (r : Run) (o : ObsRun) (seq : Option (List String)) : Option String :=
  let g := d.g.eval
  let want := specOutcome r.take (flatSpec g (outerDen d.ops xs))
  let wantTxt := fmtOutcome want
  let wantDel := (Outcome.deliveredOf want).map fmtV
  let gotTxt := (if o.ok then "ok" else "err:" ++ o.cls) ++ " " ++ o.delivered
  let pullsR0 := (((o.events.lookup d.r0).getD "").toList.filter (fun c => c == 'E')).length
  let bound : Nat :=
    match r.take with
    | none => xs.length + 1
    | some n => if n ≤ 0 then 0 else needPulls d.ops g n.toNat xs
  if o.pre != 0 then some "(a) effects before the terminal operation (pre != 0)"
  else if !obsBalanced o then some "(b) a resource's events are not (open emit* close)* [failed-open]"
  else
    match seq with
    | none => some "(c) no seq= token in the observation"
    | some ts =>
      match replaySeq d.r0 [] ts with
      | some why => some s!"(c) {why}"
      | none =>
        let faultFree := r.fault.isNone
        if faultFree && gotTxt != wantTxt then
          some s!"(d) fault-free materialisation returned `{gotTxt}`, list-level meaning is `{wantTxt}`"
        else
          let eBad : Option String :=
            match r.fault with
            | none => none
            | some (_, .cancel) => none
            | some (pos, k) =>
              if pos < o.calls then
                let wantCls := match k with | .panicVal => "panicval" | _ => "user"
                if o.ok then some s!"(e) fault at reached position {pos} swallowed: the terminal returned success (want err:{wantCls})"
                else if o.cls != wantCls then some s!"(e) fault at reached position {pos}: error class {o.cls} (want {wantCls})"
                else none
              else none
          match eBad with
          | some why => some why
          | none =>
            if !(toks o.delivered).isPrefixOf wantDel then
              some s!"(f) delivered `{o.delivered}` is not a prefix of the fault-free delivery `{fmtVs (Outcome.deliveredOf want)}`"
            else if pullsR0 > bound then
              some s!"(g) the outer source was pulled {pullsR0} times, the list-level bound is {bound}"
            else none

def specAll (d : DCase) : List Run → List ObsRun → List String → Nat → Option String
  | [], [], _, _ => none
  | r :: rs, o :: os, t :: ts, i =>
    match specRun d (d.xsAt i) r o (seqOf t) with
    | some why => some s!"run {i}: {why}"
    | none => specAll d rs os ts (i + 1)
  | _, _, _, _ => some "the observation does not have one part per run"

def handle (c obs : String) : String × Bool × String :=
  match parseDyn c with
  | none => ("bad-case", false, "unparsable case")
  | some d =>
    let model := modelTextDyn d
    match parseObs obs with
    | none => (model, false, "unparsable observation")
    | some os =>
      match specAll d d.runs os (obs.splitOn " || ") 0 with
      | none => (model, true, "")
      | some why => (model, false, why)

end ShpanVerif.Drive.PipeDyn
