import ShpanVerif.Drive.PipeCommon
import ShpanVerif.Drive.PipeDyn
import ShpanVerif.Drive.JoinLife
/-
Driver handler for C01: every opened resource is closed exactly once, on every exit path.
Spec predicate on the observation: for every probe resource the event projection is
(open-ok emit* close)* followed by at most one failed open, i.e. closed exactly once per successful open,
never closed/pulled outside an open window, everything closed when the terminal returned; and nothing
happened before the terminal operation (pre = 0).
-/
namespace ShpanVerif.Drive.C01
open ShpanVerif.Util ShpanVerif.Model.Pipe ShpanVerif.Drive.PipeCommon

def handle (c obs : String) : String × Bool × String :=
  if c.startsWith "DYN " then ShpanVerif.Drive.PipeDyn.handle c obs else   -- FlatMap family (Model/PipeDyn.lean)
  if c.startsWith "JL " then ShpanVerif.Drive.JoinLife.handle c obs else    -- lifecycle of the joins (Model/JoinLife.lean)
  if isSpecOnly c then
    -- operators outside the model: the property itself is evaluated on the observation of the real code
    match parseObs obs with
    | some os =>
      -- ids 200..299 are CLOSE-ONLY elements (`lcc`, `srcc`): they log only their Close; they are owed exactly one Close
      -- per attempted Open of their companion probe (id + 1000), which sits right after them in the lifecycle list
      let closeOnlyOk := fun (o : ObsRun) => o.events.all (fun e =>
        if 1200 ≤ e.1 && e.1 < 1300 then
          let k := (e.2.toList.filter (fun c => c == 'O' || c == 'o')).length
          let cs := ((o.events.lookup (e.1 - 1000)).getD "").toList
          cs.all (· == 'C') && cs.length == k
        else true)
      let plain := fun (o : ObsRun) => { o with events := o.events.filter (fun e => !(200 ≤ e.1 && e.1 < 300)) }
      let bad := os.filter (fun o => !(obsBalanced (plain o) && closeOnlyOk o && o.pre == 0 && o.leak == 0))
      (obs, bad.isEmpty, if bad.isEmpty then "" else "spec-only: unbalanced open/close (or a close-only element not closed exactly once), effects before the terminal, or a file descriptor left open")
    | none => (obs, false, "unparsable observation")
  else
  match parseCase c with
  | none => ("bad-case", false, "unparsable case")
  | some (p, rs) =>
    if isAsync c then
      -- asynchronous stages: event order across goroutines is schedule dependent, so nothing is compared with
      -- the sequential model; the property itself is evaluated on the observation (after quiescence)
      match parseObs obs with
      | some os =>
        -- C01 is about Open/Close only; an Emit that overlaps a Close belongs to C02 (known finding D5)
        let oc := fun (o : ObsRun) => { o with events := o.events.map (fun e => (e.1, String.ofList (e.2.toList.filter (· != 'E')))) }
        let bad := os.filter (fun o => !(obsBalanced (oc o) && o.pre == 0 && o.leak == 0))
        (obs, bad.isEmpty, if bad.isEmpty then "" else "async: unbalanced open/close after quiescence, or goroutines left")
      | none => (obs, false, if obs.startsWith "crash" then "the process crashed: panic on a library goroutine"
                             else if obs.startsWith "hang" then "the terminal operation did not return" else "unparsable observation")
    else
    let model := agreeOr { result := false, delivered := false, events := fun c => c == 'O' || c == 'o' || c == 'C' } (modelText p rs) obs
    match parseObs obs with
    | some os =>
      let bad := os.filter (fun o => !(obsBalanced o && o.pre == 0))
      (model, bad.isEmpty, if bad.isEmpty then "" else "unbalanced open/close (or effects before the terminal)")
    | none => (model, false, "unparsable observation")

end ShpanVerif.Drive.C01
