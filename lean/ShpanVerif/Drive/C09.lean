import ShpanVerif.Util.Parse
import ShpanVerif.Model.Join
import ShpanVerif.Model.JoinSpec
/-
Driver handler for C09.

case := "<variant> | <in> | <in> ..."      in := "-" | "key:tag,key:tag,..."
variant := j2i | j2l                 JoinSortedStreams / LeftJoinSortedStreams            (exactly two inputs)
         | jni | jnl | jnf           Join/LeftJoin/FullJoinMultipleSortedStreams
         | tsi | tsl | tsf           timeseries.Inner/Left/FullJoinStreams (timestamp = time.Unix(key,0), value = tag)
         | dsi:W | dsl:W | dsf:W     report.JoinDatasource inner/left/full; W = "w0,w1,.." fields per source;
                                     the row of element (key,tag) of a source of width w is [8*tag, 8*tag+1, .., 8*tag+w-1]
obs := "ok <rows>" | "err <class> <rows delivered before the error>"       rows := "-" | row;row;...
row := slot+slot(+slot..)            slot := key:tag | _                                     (j2*, jn*)
     | stamp@tag+_+tag               (ts*)          | stamp@c,c,n,c   (ds*, n = nil; stamp = unix nanoseconds)

Spec verdict: when the inputs satisfy the property's sortedness hypotheses the observation must be exactly
"ok" + the nested-loop specification's rows; otherwise the property says nothing (verdict true) but the model
must still agree with the code.
-/
namespace ShpanVerif.Drive.C09
open ShpanVerif.Util ShpanVerif.Model.Join ShpanVerif.Model.JoinSpec

abbrev Elem := Int × Nat

def ekey : Elem → Int := fun e => e.1

def parseElem (s : String) : Option Elem :=
  match s.splitOn ":" with
  | [k, t] => do let k ← k.toInt?; let t ← t.toNat?; pure (k, t)
  | _ => none

def parseElems (s : String) : Option (List Elem) :=
  if s == "-" then some [] else (s.splitOn ",").mapM parseElem

def fmtElem (e : Elem) : String := s!"{e.1}:{e.2}"
def fmtSlot : Option Elem → String
  | some e => fmtElem e
  | none => "_"
def fmtTag : Option Nat → String
  | some t => toString t
  | none => "_"
def fmtCell : Cell → String
  | some c => toString c
  | none => "n"

def fmtRows (rows : List String) : String := if rows.isEmpty then "-" else ";".intercalate rows

def fmtErr : JErr → String
  | .leftUnsorted => "left-unsorted"
  | .rightUnsorted => "right-unsorted"
  | .streamUnsorted i => s!"stream-unsorted:{i}"
  | .fuel => "model-fuel"

def fmtOut (o : Out String) : String :=
  match o.2 with
  | none => "ok " ++ fmtRows o.1
  | some e => "err " ++ fmtErr e ++ " " ++ fmtRows o.1

def mapOut {ρ : Type} (f : ρ → String) (o : Out ρ) : Out String := (o.1.map f, o.2)

def plus (l : List String) : String := "+".intercalate l

/-- Row of cells of element `(key, tag)` in a source of width `w`. -/
def cellsOf (w : Nat) (e : Elem) : TsRec (List Cell) :=
  (e.1, (List.range w).map (fun j => some (Int.ofNat (8 * e.2 + j))))

/-- timestamps travel as unix nanoseconds; key k is the instant 2024-03-01T12:00Z + k·250µs (`c09Time` in the harness) -/
def fmtStamped (stamp : Int) (body : String) : String := s!"{1709294400 * 1000000000 + stamp * 250000}@{body}"
def fmtCells (cs : List Cell) : String := ",".intercalate (cs.map fmtCell)

/-- Specification-side padding of a joined datasource row: present side = its cells, absent side = `w` nils. -/
def specCells (widths : List Nat) (slots : List (Option Elem)) : List Cell :=
  ((widths.zip slots).map (fun p => match p.2 with
                                    | some e => (cellsOf p.1 e).2
                                    | none => List.replicate p.1 none)).flatten

structure Case where
  variant : String
  widths : List Nat
  ins : List (List Elem)

def parseCase (c : String) : Option Case :=
  match splitAt "|" (words c) with
  | [v] :: ins => do
    let ins ← ins.mapM (fun ts => match ts with | [t] => parseElems t | _ => none)
    match v.splitOn ":" with
    -- "<variant>D": the same join under a difference comparator (harness/run/c09.go); the model's order is the one it induces
    | [name] => pure ⟨if (name.startsWith "j2" || name.startsWith "jn") && name.endsWith "D" then (name.dropEnd 1).toString else name, [], ins⟩
    | [name, w] => do
      let ws ← parseNatList w
      if ws.length == ins.length then pure ⟨name, ws, ins⟩ else none
    | _ => none
  | _ => none

/-- Model output in the observation's text format. -/
def runModel (c : Case) : Option String :=
  match c.variant, c.ins with
  | "j2i", [l, r] => some (fmtOut (mapOut (fun p => plus [fmtElem p.1, fmtElem p.2]) (joinSorted ekey ekey l r)))
  | "j2l", [l, r] => some (fmtOut (mapOut (fun p => plus [fmtElem p.1, fmtSlot p.2]) (leftJoinSorted ekey ekey l r)))
  | "jni", ins => some (fmtOut (mapOut (fun row => plus (row.map fmtElem)) (joinMultiple ekey ins)))
  | "jnl", ins => some (fmtOut (mapOut (fun row => plus (fmtElem row.1 :: row.2.map fmtSlot)) (leftJoinMultiple ekey ins)))
  | "jnf", ins => some (fmtOut (mapOut (fun row => plus (row.map fmtSlot)) (fullJoinMultiple ekey ins)))
  | "tsi", ins =>
    some (fmtOut (mapOut (fun r => fmtStamped r.1 r.2) (tsInnerJoin (fun vs => plus (vs.map toString)) ins)))
  | "tsl", ins =>
    some (fmtOut (mapOut (fun r => fmtStamped r.1 r.2)
      (tsLeftJoin (fun (l : Nat) os => plus (toString l :: os.map fmtTag)) ins)))
  | "tsf", ins =>
    some (fmtOut (mapOut (fun r => fmtStamped r.1 r.2) (tsFullJoin (fun vs => plus (vs.map fmtTag)) ins)))
  | v, ins =>
    let jt : Option JoinType := if v == "dsi" then some .inner else if v == "dsl" then some .left
      else if v == "dsf" then some .full else none
    jt.map fun jt =>
      let srcs := (c.widths.zip ins).map (fun p => p.2.map (cellsOf p.1))
      fmtOut (mapOut (fun r => fmtStamped r.1 (fmtCells r.2)) (dsJoin jt c.widths srcs))

/-- Do the inputs satisfy the sortedness hypotheses under which the property speaks? -/
def inDomain (c : Case) : Bool :=
  match c.variant, c.ins with
  | "j2i", [l, r] => isNonDec ekey l && isStrictInc ekey r
  | "j2l", [l, r] => isNonDec ekey l && isStrictInc ekey r
  | v, ins =>
    if v == "jnl" || v == "tsl" || v == "dsl" then ins.all (isNonDec ekey)   -- what `C09_joinN_left` needs
    else ins.all (isStrictInc ekey)

/-- Expected rows by the list-level specification (never runs the operational model). -/
def specRows (c : Case) : Option (List String) :=
  match c.variant, c.ins with
  | "j2i", [l, r] => some ((innerJoin2 ekey ekey l r).map (fun p => plus [fmtElem p.1, fmtElem p.2]))
  | "j2l", [l, r] => some ((leftJoin2 ekey ekey l r).map (fun p => plus [fmtElem p.1, fmtSlot p.2]))
  | "jni", ins => some ((innerJoinN ekey ins).map (fun row => plus (row.map fmtElem)))
  | "jnl", ins => some ((leftJoinN ekey ins).map (fun row => plus (fmtElem row.1 :: row.2.map fmtSlot)))
  | "jnf", ins => some ((fullJoinN ekey ins).map (fun row => plus (row.map fmtSlot)))
  -- wrappers: the row of key k is stamped with k
  | "tsi", ins => some ((innerJoinN ekey ins).map (fun row =>
      fmtStamped ((row.head?.map ekey).getD 0) (plus (row.map (fun e => toString e.2)))))
  | "tsl", ins => some ((leftJoinN ekey ins).map (fun row =>
      fmtStamped row.1.1 (plus (toString row.1.2 :: row.2.map (fun o => fmtTag (o.map (fun e => e.2)))))))
  | "tsf", ins => some ((fullJoinNK ekey ins).map (fun p =>
      fmtStamped p.1 (plus (p.2.map (fun o => fmtTag (o.map (fun e => e.2)))))))
  | "dsi", ins => some ((innerJoinN ekey ins).map (fun row =>
      fmtStamped ((row.head?.map ekey).getD 0) (fmtCells (specCells c.widths (row.map some)))))
  | "dsl", ins => some ((leftJoinN ekey ins).map (fun row =>
      fmtStamped row.1.1 (fmtCells (specCells c.widths (some row.1 :: row.2)))))
  | "dsf", ins => some ((fullJoinNK ekey ins).map (fun p => fmtStamped p.1 (fmtCells (specCells c.widths p.2))))
  | _, _ => none

/-- returns (model output, spec verdict on the observation, reason) -/
def handle (c obs : String) : String × Bool × String :=
  match parseCase c with
  | none => ("bad-case", false, "unparsable case")
  | some cs =>
    match runModel cs, specRows cs with
    | some model, some rows =>
      if inDomain cs then
        let want := "ok " ++ fmtRows rows
        (model, obs == want, if obs == want then "" else s!"sorted inputs: want {want}")
      else if (cs.variant == "jnf" || cs.variant == "tsf" || cs.variant.startsWith "dsf") && !(cs.ins.all (isNonDec ekey)) then
        -- `C09_full_unsorted_err`: the full join pulls every element, so an input that is not non-decreasing must
        -- end in the sortedness error (never a silently wrong result)
        let ok := obs.startsWith "err stream-unsorted:"
        (model, ok, if ok then "" else "unsorted input of a full join must end in err stream-unsorted:<i>")
      else (model, true, "outside the property's domain (unsorted input)")
    | _, _ => ("bad-case", false, "unknown variant / wrong number of inputs")

end ShpanVerif.Drive.C09
