/-
Shared parsing / running / formatting for the sequential pipeline family (C01, C03, C04, C05, C18).
Case grammar: see harness/run/pipe.go.
-/
import ShpanVerif.Util.Parse
import ShpanVerif.Model.Pipe
import ShpanVerif.Model.PipeTerminals
import ShpanVerif.Model.PipeSetSrc
import ShpanVerif.Spec.PipeSpec

namespace ShpanVerif.Drive.PipeCommon
open ShpanVerif.Util ShpanVerif.Model.Pipe

/-- `post`: the value terminals `ffl` / `flast` / `count` (FindFirstAndLast, FindLast, Count) are `Post` of
    Model/PipeTerminals.lean: `Consume` with the collecting callback, then the terminal's own code (`Post.app`) -/
structure Run where
  consumer : Consumer
  take : Option Int
  fault : Option (Nat × FaultKind)
  post : Post := .asIs
  /-- `srcv` sources (contents that change between materialisations): what source `r` holds during this run -/
  setSrcs : List (Nat × List Int) := []
  deriving Repr

def parseFn (s : String) : Option Fn :=
  match s.splitOn ":" with
  | ["id"] => some .id
  | ["sum"] => some .sum
  | ["len"] => some .len
  | ["add", k] => k.toInt?.map .add
  | ["mul", k] => k.toInt?.map .mul
  | _ => none

def parsePred (s : String) : Option Pred :=
  match s.splitOn ":" with
  | ["tt"] => some .tt
  | ["ff"] => some .ff
  | ["mod", k, r] => do let k ← k.toInt?; let r ← r.toInt?; pure (.mod k r)
  | ["lt", k] => k.toInt?.map .lt
  | _ => none

def parseFac (s : String) : Option Fac :=
  match s.splitOn ":" with
  | ["first"] => some .first
  | ["sum"] => some .sum
  | ["none"] => some .none
  | ["firstprev"] => some .firstprev
  | ["firstk", j] => j.toInt?.map .firstk
  | _ => none

mutual
/-- prefix-notation parser; fuel bounds the recursion depth -/
def parsePipe : Nat → List String → Option (Pipe × List String)
  | 0, _ => none
  | fuel+1, toks =>
    match toks with
    | "src" :: r :: xs :: rest => do
      let r ← r.toNat?; let xs ← parseIntList xs
      pure (.src r xs 0, rest)
    -- `srcv r xs1|xs2|…`: a probe source whose contents are xs_i during the i-th materialisation (the last entry repeats)
    | "srcv" :: r :: xss :: rest => do
      let r ← r.toNat?; let xs ← parseIntList ((xss.splitOn "|").headD "-")
      pure (.src r xs 0, rest)
    | "lc" :: r :: rest => do
      let r ← r.toNat?; let (p, rest) ← parsePipe fuel rest
      pure (.lc r p, rest)
    | "map" :: f :: rest => do
      let f ← parseFn f; let (p, rest) ← parsePipe fuel rest
      pure (.map f p, rest)
    | "filter" :: g :: rest => do
      let g ← parsePred g; let (p, rest) ← parsePipe fuel rest
      pure (.filter g p, rest)
    -- asynchronous stages (ASYNC cases only): for the list-level meaning Buffered is the identity and the
    -- concurrent map is Map (up to order)
    | "buffered" :: _ :: rest => parsePipe fuel rest
    -- WithLockWhileMaterializing (SPEC / ASYNC cases only): the identity for the list-level meaning
    | "lock" :: _ :: rest => parsePipe fuel rest
    | "dirfile" :: rest => pure (.src 0 [] 0, rest)
    | "rdirfile" :: rest => pure (.src 0 [] 0, rest)
    -- close-only lifecycle element r with its companion probe r+1000 (SPEC cases only)
    | "lcc" :: r :: rest => do
      let r ← r.toNat?; let (p, rest) ← parsePipe fuel rest
      pure (.lc (r + 1000) p, rest)
    | "srcc" :: r :: xs :: rest => do
      let r ← r.toNat?; let xs ← parseIntList xs
      pure (.lc (r + 1000) (.src r xs 0), rest)
    | "cmap" :: _ :: f :: rest => do
      let f ← parseFn f; let (p, rest) ← parsePipe fuel rest
      pure (.map f p, rest)
    | "limit" :: n :: rest => do
      let n ← n.toInt?; let (p, rest) ← parsePipe fuel rest
      pure (.limit n 1 p, rest)
    | "skip" :: n :: rest => do
      -- a negative count skips nothing (the loop `for i := 0; i < skip; i++` does not run): same as 0 in the model
      let n ← n.toInt?; let (p, rest) ← parsePipe fuel rest
      pure (.skip n.toNat false p, rest)
    | "concat" :: k :: rest => do
      let k ← k.toNat?; let (ps, rest) ← parsePipes fuel k rest
      pure (.concat ps 0 false false, rest)
    | "zip" :: k :: rest => do
      let k ← k.toNat?; let (ps, rest) ← parsePipes fuel k rest
      pure (.zip ps 0, rest)
    | "merge" :: k :: rest => do
      let k ← k.toNat?; let (ps, rest) ← parsePipes fuel k rest
      pure (.merge ps 0 none, rest)
    | "window" :: s :: st :: o :: rest => do
      let s ← s.toNat?; let st ← st.toNat?; let o ← o.toNat?; let (p, rest) ← parsePipe fuel rest
      pure (.window s st (o == 1) [] false false p, rest)
    | "cluster" :: k :: fac :: rest => do
      let k ← k.toInt?; let fac ← parseFac fac; let (p, rest) ← parsePipe fuel rest
      pure (.cluster k fac none 0 none false p, rest)
    | _ => none
def parsePipes : Nat → Nat → List String → Option (PipeList × List String)
  | 0, _, _ => none
  | _+1, 0, rest => some (.nil, rest)
  | fuel+1, k+1, toks => do
    let (p, rest) ← parsePipe fuel toks
    let (ps, rest) ← parsePipes fuel k rest
    pure (.cons p ps, rest)
end

/-- the `srcv` tokens of a pipeline text: source id and its contents per materialisation -/
def variantsOf : List String → List (Nat × List (List Int))
  | "srcv" :: r :: xss :: rest =>
    match r.toNat?, (xss.splitOn "|").mapM parseIntList with
    | some r, some alts => (r, alts) :: variantsOf rest
    | _, _ => variantsOf rest
  | _ :: rest => variantsOf rest
  | [] => []

def parseFault (s : String) : Option (Option (Nat × FaultKind)) :=
  if s == "nofault" then some none
  else match s.splitOn "@" with
    | [k, p] => do
      let p ← p.toNat?
      let k ← match k with
        | "err" => some FaultKind.err | "perr" => some .panicErr | "pval" => some .panicVal | "cancel" => some .cancel | "eoferr" => some .errEof | "peof" => some .panicErr | "errctx" => some .err
        | _ => none
      pure (some (p, k))
    | _ => none

def parseRun (ts : List String) : Option Run :=
  -- an optional 4th token `nw` ("no wait": the harness starts the next materialisation right after this terminal
  -- returned instead of waiting for the library's goroutines to wind down) does not change the meaning of the run
  let ts := match ts with | [c, t, f, "nw"] => [c, t, f] | _ => ts
  match ts with
  | [c, t, f] => do
    let (c, post) ← match c with
      | "collect" => some (Consumer.collect, Post.asIs) | "user" => some (.user, .asIs)
      | "ffl" => some (.collect, .firstLast) | "flast" => some (.collect, .last) | "count" => some (.collect, .count)
      | _ => if c.startsWith "cuser:" then some (.user, .asIs) else none
    let t ← if t == "all" then some none
            else match t.splitOn ":" with | ["take", n] => n.toInt?.map some | _ => none
    let f ← parseFault f
    pure { consumer := c, take := t, fault := f, post := post }
  | _ => none

def isAsync (c : String) : Bool := c.startsWith "ASYNC "

/-- SPEC cases: operators outside the Lean model (joins, collector-backed streams, timeseries / tsquery pipelines,
    JSON providers, FromIterator); decided by the spec predicate on the real code only -/
def isSpecOnly (c : String) : Bool := c.startsWith "SPEC "

/-- the runs of a case without parsing its pipeline -/
def parseRunsOnly (c : String) : Option (List Run) :=
  match splitAt "||" (words c) with
  | _ :: runs => runs.mapM parseRun
  | [] => none

/-- "pipe || run || run" (an "ASYNC " prefix marks pipelines with Buffered / concurrent stages) -/
def parseCase (c : String) : Option (Pipe × List Run) :=
  match splitAt "||" (words (if isAsync c then (c.drop 6).toString else c)) with
  | ptoks :: runs => do
    let (p, rest) ← parsePipe 200 ptoks
    if !rest.isEmpty then none
    let rs ← runs.mapM parseRun
    let vs := variantsOf ptoks
    let rs := if vs.isEmpty then rs else
      (rs.zip (List.range rs.length)).map (fun (r, i) =>
        { r with setSrcs := vs.map (fun (rid, alts) => (rid, alts.getD (min i (alts.length - 1)) [])) })
    pure (p, rs)
  | [] => none

def fmtV : V → String
  | .int n => toString n
  | .arr xs => "[" ++ ";".intercalate (xs.map toString) ++ "]"

def fmtVs (l : List V) : String := fmtList fmtV l

def rootStr : Root → String
  | .user => "user" | .ctx => "ctx" | .panicVal => "panicval" | .lib _ => "lib"

def evChar : Event → Option (Nat × Char)
  | .openOk r => some (r, 'O') | .openFail r => some (r, 'o') | .emit r => some (r, 'E') | .close r => some (r, 'C')
  | .call _ => none

def insertSorted (r : Nat) : List Nat → List Nat
  | [] => [r]
  | x :: xs => if r < x then r :: x :: xs else if r == x then x :: xs else x :: insertSorted r xs

/-- per-resource projections of the trace, resources in ascending id order -/
def fmtEvents (tr : List Event) : String :=
  let evs := tr.filterMap evChar
  let ids := evs.foldl (fun acc e => insertSorted e.1 acc) []
  if ids.isEmpty then "-"
  else ";".intercalate (ids.map (fun r => s!"{r}:" ++ String.ofList ((evs.filter (·.1 == r)).map (·.2))))

structure RunResult where
  outcome : Outcome
  world : World
  pipe : Pipe

def fuelDefault : Nat := 100000

/-- the operator object as it stands during run `r`: `srcv` sources hold that run's contents -/
def pipeAt (p : Pipe) (r : Run) : Pipe := setSrcAll r.setSrcs p

/-- one materialisation of the operator object `p` (the take wrapper is a fresh Limit) -/
def runOnce (p : Pipe) (r : Run) : RunResult :=
  let p := pipeAt p r
  let w : World := { fault := r.fault }
  match r.take with
  | none =>
    let (o, p, w) := consume fuelDefault r.consumer p w
    { outcome := r.post.app o, world := w, pipe := p }
  | some n =>
    let (o, p', w) := consume fuelDefault r.consumer (.limit n 1 p) w
    let p := match p' with | .limit _ _ q => q | q => q
    { outcome := r.post.app o, world := w, pipe := p }

def fmtOutcome (o : Outcome) : String :=
  match o with
  | .ok d => s!"ok {fmtVs d}"
  | .err e d => s!"err:{rootStr e} {fmtVs d}"
  | .oof => "oof -"

def fmtRun (rr : RunResult) : String :=
  s!"{fmtOutcome rr.outcome} | calls={rr.world.calls} pre=0 | {fmtEvents rr.world.trace}"

/-- run all materialisations in sequence on the same operator object -/
def runAll (p : Pipe) (rs : List Run) : List RunResult :=
  let rec go (p : Pipe) : List Run → List RunResult
    | [] => []
    | r :: rs => let rr := runOnce p r; rr :: go rr.pipe rs
  go p rs

def modelText (p : Pipe) (rs : List Run) : String :=
  " || ".intercalate ((runAll p rs).map fmtRun)

/-! ### parsing an observation back (for the spec predicates) -/

structure ObsRun where
  ok : Bool
  cls : String           -- "ok" or error class
  delivered : String     -- canonical text
  calls : Nat
  pre : Nat
  events : List (Nat × String)
  leak : Nat := 0
  /-- SPEC cases: what the same case delivers without the fault (Go vs Go) -/
  ff : Option String := none

def parseObsRun (s : String) : Option ObsRun :=
  match splitAt "|" (words s) with
  | [[res, del], [calls, pre], [evs]] => do
    let calls ← (calls.drop 6).toString.toNat?
    let pre ← (pre.drop 4).toString.toNat?
    let events ← if evs == "-" then some [] else
      (evs.splitOn ";").mapM (fun e => match e.splitOn ":" with
        | [r, es] => r.toNat?.map (fun r => (r, es))
        | _ => none)
    let (ok, cls) := if res == "ok" then (true, "ok") else (false, (res.drop 4).toString)
    pure { ok := ok, cls := cls, delivered := del, calls := calls, pre := pre, events := events }
  | [[res, del], [calls, pre], [evs], extras] => do
    let calls ← (calls.drop 6).toString.toNat?
    let pre ← (pre.drop 4).toString.toNat?
    -- extra key=value tokens: leak=<goroutines / file descriptors left>, ff=<fault-free delivery>
    let leak := (extras.filterMap (fun e => if e.startsWith "leak=" then (e.drop 5).toString.toNat? else none)).sum
    let ff := (extras.filterMap (fun e => if e.startsWith "ff=" then some (e.drop 3).toString else none)).head?
    let events ← if evs == "-" then some [] else
      (evs.splitOn ";").mapM (fun e => match e.splitOn ":" with
        | [r, es] => r.toNat?.map (fun r => (r, es))
        | _ => none)
    let (ok, cls) := if res == "ok" then (true, "ok") else (false, (res.drop 4).toString)
    pure { ok := ok, cls := cls, delivered := del, calls := calls, pre := pre, events := events, leak := leak, ff := ff }
  | _ => none

def parseObs (s : String) : Option (List ObsRun) :=
  (splitAt "||" (words s)).mapM (fun ts => parseObsRun (" ".intercalate ts))

/-- the C01 predicate on one resource's projection: (O E* C)* then optionally one failed open; never
    an emit or close outside an open window -/
def balancedEvents (es : List Char) : Bool :=
  let rec go (isOpen : Bool) : List Char → Bool
    | [] => !isOpen
    | 'O' :: r => !isOpen && go true r
    | 'o' :: r => !isOpen && go false r
    | 'E' :: r => isOpen && go true r
    | 'C' :: r => isOpen && go false r
    | _ :: _ => false
  go false es

def obsBalanced (o : ObsRun) : Bool := o.events.all (fun e => balancedEvents e.2.toList)

/-! ### property-specific projections: a property's check compares only what the property talks about,
so that a change which keeps the property true (e.g. a different but still lazy pull pattern for C04)
does not break the correspondence of that property. -/

/-- which parts of an observed run a property compares -/
structure Proj where
  result : Bool := true      -- ok / error class
  delivered : Bool := true
  calls : Bool := false
  events : Char → Bool := fun _ => false

def projRun (pr : Proj) (o : ObsRun) : String :=
  let evs := o.events.map (fun e => (e.1, String.ofList (e.2.toList.filter pr.events)))
  let evs := evs.filter (fun e => !e.2.isEmpty)
  s!"{if pr.result then o.cls else "_"} {if pr.delivered then o.delivered else "_"} | " ++
  s!"{if pr.calls then toString o.calls else "_"} {o.pre} | " ++
  ";".intercalate (evs.map (fun e => s!"{e.1}:{e.2}"))

/-- model text to report: the observation itself when it agrees with the model under the projection
    (the check compares the two strings), the model's own text otherwise -/
def agreeOr (pr : Proj) (model obs : String) : String :=
  match parseObs model, parseObs obs with
  | some ms, some os => if ms.map (projRun pr) == os.map (projRun pr) then obs else model
  | _, _ => model

/-- multiset inclusion of canonical delivered texts -/
def subMultisetStr (a b : String) : Bool :=
  let ta := if a == "-" then [] else a.splitOn ","
  let tb := if b == "-" then [] else b.splitOn ","
  let rec go : List String → List String → Bool
    | [], _ => true
    | x :: xs, ys => if ys.contains x then go xs (ys.erase x) else false
  go ta tb

end ShpanVerif.Drive.PipeCommon
