import ShpanVerif.Util.Parse
import ShpanVerif.Model.Period
/-
Driver handler for C12 (alignment periods tile the timeline).  Case formats: see harness/run/c12.go.

  P <kind> | zone <name> <init> <trans> | t <i1>,<i2>,...         obs: s,e,ss,se;...
  S <kind> | zone <name> <init> <trans> | from <i> to <i> budget <n>   obs: ok <list> | budget <list>
  CAL <d1>,<d2>,...                                               obs: y/m/d/wd/monthStartDay;...

Spec predicate (evaluated on the OBSERVED numbers only):
  P: for every instant  start ≤ t < end,  start(start) = start,  start(end) = end;  across the (ascending)
     instants of the line: starts are non-decreasing, and an instant that lies before the end of an earlier
     instant's period has the same start and end (periods do not overlap).
  S: the emitted list is exactly the period starts (fixed points of `start`) in [start(from), to),
     strictly increasing; `budget` is accepted only when more period starts than the budget exist.
A failing law is tagged `KF:D14` iff a transition's skipped/repeated local interval touches a local midnight
that the computation uses (the period's start day or the next period's start day; for weeks also the
day after, see `d14P`).
-/
namespace ShpanVerif.Drive.C12
open ShpanVerif.Util ShpanVerif.Model.Period

def parseKind (s : String) : Option Kind :=
  match s with
  | "day" => some .day | "week" => some .week | "month" => some .month
  | "quarter" => some .quarter | "half" => some .half | "year" => some .year
  | _ => match s.splitOn ":" with
    | ["fixed", d] => do let d ← d.toInt?; if d > 0 then pure (.fixed d) else none
    | _ => none

def parseTr (s : String) : Option (Int × Int) :=
  match s.splitOn ":" with
  | [w, o] => do let w ← w.toInt?; let o ← o.toInt?; pure (w, o)
  | _ => none

def parseZone (ts : List String) : Option Zone :=
  match ts with
  | ["zone", _name, init, tr] => do
      let init ← init.toInt?
      let tr ← if tr == "-" then some [] else (tr.splitOn ",").mapM parseTr
      pure ⟨init, tr⟩
  | _ => none

/-! ### the D14 classifier: pure calendar grid + "a transition touches that local midnight" -/

/-- first day of the period containing local day `L` (calendar only, no zone) -/
def gridStart (k : Kind) (L : Int) : Int := (gridOf k).gs L

/-- first day of the period after the one starting on day `P` -/
def gridNext (k : Kind) (P : Int) : Int := (gridOf k).gn P

/-- some offset change skips or repeats a local interval [lo, hi) containing the local midnight of day `D`
(`closed`: hi included — only relevant for the week period's `AddDate` intermediate). -/
def touchFrom (closed : Bool) (D : Int) (prev : Int) : List (Int × Int) → Bool
  | [] => false
  | (w, o) :: rest =>
    let lo := w + min prev o
    let hi := w + max prev o
    let m := D * 86400
    (prev != o && lo ≤ m && (m < hi || (closed && m == hi))) || touchFrom closed D o rest

def touch (z : Zone) (closed : Bool) (D : Int) : Bool := touchFrom closed D z.init z.trans

/-- which touched midnight makes (kind, zone, instant) an instance of D14 ("" = none) -/
def d14Why (k : Kind) (z : Zone) (t : Int) : String :=
  match k with
  | .fixed _ => ""
  | _ =>
    let L := localDay z (t / NS)
    let P := gridStart k L
    let N := gridNext k P
    if touch z false P then s!"start-day {P}"
    else if touch z false N then s!"next-start-day {N}"
    else if k == .week && (touch z true P || touch z true (P + 1)) then s!"week-intermediate {P}"
    else ""

/-- is (kind, zone, instant) an instance of D14?  A transition touches a local midnight the computation uses, and
the executable hypothesis of theorem `C12_at` is indeed false there (where `checkAt` holds the model provably
satisfies the pointwise laws, so a failure could only be a model/code disagreement, never D14). -/
def d14P (k : Kind) (z : Zone) (t : Int) : Bool := d14Why k z t != "" && !checkAt k z t

/-- cross-instant laws (monotone / same-period) are not covered by the pointwise theorem: touch only -/
def d14X (k : Kind) (z : Zone) (t : Int) : Bool := d14Why k z t != ""

/-- D14 for a stream: some period start day from the period of `from` to the period after `to` is touched -/
def d14S (k : Kind) (z : Zone) (from_ to : Int) : Bool :=
  match k with
  | .fixed _ => false
  | _ =>
    let P0 := gridStart k (localDay z (from_ / NS) - 1)
    let last := localDay z (to / NS) + 1
    let rec go (fuel : Nat) (P : Int) : Bool :=
      match fuel with
      | 0 => false
      | fuel + 1 =>
        if touch z false P || (k == .week && (touch z true P || touch z true (P + 1))) then true
        else if P > last then false else go fuel (gridNext k P)
    go 5000 P0

/-! ### P lines -/

def parseGroup (s : String) : Option (Int × Int × Int × Int) :=
  match s.splitOn "," with
  | [a, b, c, d] => do
      let a ← a.toInt?; let b ← b.toInt?; let c ← c.toInt?; let d ← d.toInt?
      pure (a, b, c, d)
  | _ => none

def fmtGroup (g : Int × Int × Int × Int) : String := s!"{g.1},{g.2.1},{g.2.2.1},{g.2.2.2}"

/-- the four per-instant laws on observed numbers; returns the name of the first failing law -/
def lawsAt (t : Int) (g : Int × Int × Int × Int) : Option String :=
  let (s, e, ss, se) := g
  if !(s ≤ t) then some "start<=t"
  else if !(t < e) then some "t<end"
  else if ss != s then some "start(start)=start"
  else if se != e then some "start(end)=end"
  else none

/-- cross-instant laws on an ascending list of (t, observed group): monotone, no overlap -/
def crossLaws : List (Int × (Int × Int × Int × Int)) → Option (String × Int × Int)
  | [] => none
  | (t, g) :: rest =>
    let bad := rest.find? (fun (t', g') =>
      !(g.1 ≤ g'.1) || (t' < g.2.1 && (g'.1 != g.1 || g'.2.1 != g.2.1)))
    match bad with
    | some (t', g') => some (if !(g.1 ≤ g'.1) then "monotone" else "same-period", t, t')
    | none => crossLaws rest

def handleP (k : Kind) (z : Zone) (ts : List Int) (obs : String) : String × Bool × String :=
  let model := ts.map (fun t =>
    let s := start k z t
    let e := «end» k z t
    (s, e, start k z s, start k z e))
  let modelStr := ";".intercalate (model.map fmtGroup)
  match (obs.splitOn ";").mapM parseGroup with
  | none => (modelStr, false, "unparsable observation")
  | some gs =>
    if gs.length != ts.length then (modelStr, false, "observation has the wrong number of groups") else
    let pairs := ts.zip gs
    let ascending := (ts.zip ts.tail).all (fun (a, b) => a < b)
    match pairs.find? (fun (t, g) => (lawsAt t g).isSome) with
    | some (t, g) =>
      let law := (lawsAt t g).getD ""
      if d14P k z t then (modelStr, false, s!"KF:D14 law {law} fails at t={t} (a zone transition touches the local midnight of {d14Why k z t})")
      else (modelStr, false, s!"law {law} fails at t={t} obs={fmtGroup g} (no transition touches the period's local midnights)")
    | none =>
      if !ascending then (modelStr, false, "instants of the case are not ascending") else
      match crossLaws pairs with
      | some (law, t, t') =>
        if d14X k z t || d14X k z t' then (modelStr, false, s!"KF:D14 law {law} fails between t={t} and t'={t'} (a zone transition touches the local midnight of {d14Why k z t}{d14Why k z t'})")
        else (modelStr, false, s!"law {law} fails between t={t} and t'={t'} (no transition touches the periods' local midnights)")
      | none => (modelStr, true,
          s!"checkAt {(ts.filter (checkAt k z)).length}/{ts.length} untouched-but-unchecked {(ts.filter (fun t => !checkAt k z t && d14Why k z t == "")).length}")

/-! ### S lines -/

def fmtStream (budget : Nat) (l : List Int) : String :=
  if l.length > budget then "budget " ++ fmtIntList (l.take budget) else "ok " ++ fmtIntList l

/-- `l` = consecutive period starts beginning at `s0`, all `< to` (period starts = fixed points of `sF`) -/
def chainOK (sF : Int → Int) (to : Int) : Int → List Int → Bool
  | _, [] => true
  | prev, x :: rest => prev < x && x < to && sF x == x && sF (x - 1) == prev && chainOK sF to x rest

def streamSpec (sF : Int → Int) (from_ to : Int) (complete : Bool) (l : List Int) : Option String :=
  let s0 := sF from_
  match l with
  | [] =>
    if complete then (if s0 < to then some "nothing emitted although start(from) < to" else none)
    else (if s0 < to then none else some "budget 0 exceeded although start(from) >= to")
  | x :: rest =>
    if x != s0 then some s!"first emitted {x} is not start(from)={s0}"
    else if !(x < to) then some "emitted an instant >= to"
    else if sF x != x then some s!"first emitted {x} is not a period start"
    else if !chainOK sF to x rest then some "emitted instants are not the consecutive period starts below `to`"
    else
      let last := (x :: rest).getLast?.getD x
      let more := sF (to - 1) != last
      if complete && more then some s!"stream ended at {last} but a later period start lies below `to`"
      else if !complete && !more then some "stream went on past the last period start below `to`"
      else none

def handleS (k : Kind) (z : Zone) (from_ to : Int) (budget : Nat) (obs : String) : String × Bool × String :=
  let sF := start k z
  let model := fmtStream budget (alignedTimestamps sF («end» k z) from_ to (budget + 1))
  let parsed : Option (Bool × List Int) :=
    match words obs with
    | ["ok", l] => (parseIntList l).map (fun l => (true, l))
    | ["budget", l] => (parseIntList l).map (fun l => (false, l))
    | _ => none
  match parsed with
  | none => (model, false, "unparsable observation")
  | some (complete, l) =>
    let verdict :=
      if !complete && l.length != budget then some "budget observation of the wrong length"
      else streamSpec sF from_ to complete l
    match verdict with
    | none => (model, true, "")
    | some why =>
      if d14S k z from_ to then (model, false, s!"KF:D14 {why} (a zone transition touches a period-start local midnight in range)")
      else (model, false, why)

/-! ### CAL lines -/

def handleCal (days : List Int) (obs : String) : String × Bool × String :=
  let model := ";".intercalate (days.map (fun L =>
    let (y, m, d) := civil L
    s!"{y}/{m}/{d}/{weekday L}/{monthStart (monthIdx L)}"))
  let groups := (obs.splitOn ";").map (fun g => (g.splitOn "/").mapM String.toInt?)
  let ok := groups.length == days.length && (days.zip groups).all (fun (L, g) =>
    match g with
    | some [y, m, d, w, ms] =>
      1 ≤ m && m ≤ 12 && 1 ≤ d && d ≤ 31 && ms + d - 1 == L && w == (L + 4) % 7 && 0 ≤ y + 1000000000
    | _ => false)
  (model, ok, if ok then "" else "Go's calendar is not self-consistent on these days")

/-- returns (model output, spec verdict on the observation, reason) -/
def handle (c obs : String) : String × Bool × String :=
  match splitAt "|" (words c) with
  | [["CAL", ds]] =>
    match parseIntList ds with
    | some days => handleCal days obs
    | none => ("bad-case", false, "unparsable case")
  | [["P", k], zt, ["t", ts]] =>
    match parseKind k, parseZone zt, parseIntList ts with
    | some k, some z, some ts => handleP k z ts obs
    | _, _, _ => ("bad-case", false, "unparsable case")
  | [["S", k], zt, ["from", a, "to", b, "budget", n]] =>
    match parseKind k, parseZone zt, a.toInt?, b.toInt?, n.toNat? with
    | some k, some z, some a, some b, some n => handleS k z a b n obs
    | _, _, _, _, _ => ("bad-case", false, "unparsable case")
  | _ => ("bad-case", false, "unparsable case")

end ShpanVerif.Drive.C12
