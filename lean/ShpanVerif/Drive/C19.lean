import ShpanVerif.Util.Parse
import ShpanVerif.Model.Order
import ShpanVerif.Model.Parser
/-
Driver handler for C19.  Case families (see harness/run/c19.go):
  ord <urn> : <polish expr> ; ...      obs := ok <urns|-> | err cyclic <urns> | err other
  rt <ds|rds> <s-expression>           obs := equal <canonical JSON> | differ … | panic … | hang
  mal <ds|rds> <JSON text>             obs := engine | reject | panic … | hang
-/
namespace ShpanVerif.Drive.C19
open ShpanVerif.Util ShpanVerif.Model.Order ShpanVerif.Model.Parser

/-! ### ordering -/

/-- polish notation → `FieldExpr`, with fuel -/
def parseExpr : Nat → List String → Option (FieldExpr Nat × List String)
  | 0, _ => none
  | _, [] => none
  | n + 1, h :: rest =>
    let sub1 := fun (k : FieldExpr Nat → FieldExpr Nat) =>
      (parseExpr n rest).map (fun (a, r) => (k a, r))
    let sub2 := fun (k : FieldExpr Nat → FieldExpr Nat → FieldExpr Nat) =>
      match parseExpr n rest with
      | some (a, r1) => (parseExpr n r1).map (fun (b, r2) => (k a b, r2))
      | none => none
    match h with
    | "r" => match rest with
      | u :: r => u.toNat?.map (fun u => (.ref u, r))
      | [] => none
    | "k" => some (.const, rest)
    | "z" => some (.other, rest)
    | "w" => some (.other, rest)
    | "c" => sub2 .cond
    | "l" => sub2 .logic
    | "n" => sub2 .nvl
    | "x" => sub2 .numeric
    | "t" => sub1 .cast
    | "y" => sub1 .unary
    | "s" =>
      match parseExpr n rest with
      | some (a, r1) =>
        match parseExpr n r1 with
        | some (b, r2) => (parseExpr n r2).map (fun (c, r3) => (.selector a b c, r3))
        | none => none
      | none => none
    | "d" => match rest with
      | cnt :: r =>
        match cnt.toNat? with
        | some k =>
          if r.length < k then none
          else ((r.take k).mapM String.toNat?).map (fun us => (.reduce us, r.drop k))
        | none => none
      | [] => none
    | _ => none

def parseOrdFields (groups : List (List String)) : Option (List (Nat × FieldExpr Nat)) :=
  groups.mapM (fun g =>
    match g with
    | u :: ":" :: e =>
      match u.toNat?, parseExpr (e.length + 1) e with
      | some u, some (x, []) => some (u, x)
      | _, _ => none
    | _ => none)

/-- independent spec: edges of the in-set reference graph (no self loops) -/
def edgesOf (fs : List (Nat × List Nat)) : List (Nat × Nat) :=
  let urns := fs.map (·.1)
  fs.flatMap (fun f => (f.2.filter (fun r => urns.contains r && r != f.1)).map (fun r => (f.1, r)))

/-- one round of closure: add (a,c) for (a,b) in R, (b,c) in E -/
def closeStep (E R : List (Nat × Nat)) : List (Nat × Nat) :=
  (R ++ R.flatMap (fun ab => (E.filter (fun bc => bc.1 == ab.2)).map (fun bc => (ab.1, bc.2)))).eraseDups

def closure (E : List (Nat × Nat)) : Nat → List (Nat × Nat) → List (Nat × Nat)
  | 0, R => R
  | n + 1, R => closure E n (closeStep E R)

def posOf (l : List Nat) (x : Nat) : Nat := l.idxOf x

def sortNat (l : List Nat) : List Nat := l.mergeSort (fun a b => a ≤ b)

/-- spec predicate of the ordering property on an observation -/
def ordSpec (fs : List (Nat × List Nat)) (obs : String) : Bool × String :=
  let urns := fs.map (·.1)
  if urns.eraseDups.length != urns.length then (true, "duplicate urns: outside the property")
  else
    let E := edgesOf fs
    let tc := closure E urns.length E
    let onCycle := fun u => tc.contains (u, u)
    let cyclic := urns.any onCycle
    match words obs with
    | ["ok", l] =>
      match parseNatList l with
      | none => (false, "unparsable order")
      | some res =>
        if sortNat res != sortNat urns then (false, "not a permutation of the input")
        else if !(E.all (fun e => posOf res e.2 < posOf res e.1)) then (false, "a field precedes a field it references")
        else if cyclic then (false, "succeeded on a cyclic graph")
        else (true, "")
    | ["err", "cyclic", l] =>
      match parseNatList l with
      | none => (false, "unparsable node list")
      | some nodes =>
        if !cyclic then (false, "failed on an acyclic graph")
        else
          -- the reported nodes: exactly the fields from which a cycle is reachable, in input order
          let want := urns.filter (fun u => onCycle u || urns.any (fun v => onCycle v && tc.contains (u, v)))
          if nodes == want then (true, "") else (false, s!"cycle nodes: want {fmtNatList want}")
    | _ => (false, "neither an order nor a cyclic-dependency error")

/-! ### s-expressions → typed trees -/

inductive Sx where
  | atom (s : String)
  | list (l : List Sx)
  deriving Inhabited

mutual
def parseSx : Nat → List String → Option (Sx × List String)
  | 0, _ => none
  | _, [] => none
  | n + 1, t :: rest =>
    if t == "(" then parseSxList n rest []
    else if t == ")" then none
    else some (.atom t, rest)
def parseSxList : Nat → List String → List Sx → Option (Sx × List String)
  | 0, _, _ => none
  | _, [], _ => none
  | n + 1, t :: rest, acc =>
    if t == ")" then some (.list acc.reverse, rest)
    else match parseSx n (t :: rest) with
      | some (s, r) => parseSxList n r (s :: acc)
      | none => none
end

def sxStr : Sx → Option String
  | .atom "~" => some ""
  | .atom s => some s
  | _ => none

def sxBool (s : Sx) : Option Bool := (sxStr s).map (· == "1")

def sxStrs (l : List Sx) : Option (List String) := l.mapM sxStr

def toDec (a : String) : Option Dec :=
  match a.splitOn ":" with
  | ["d", m, e] => do let m ← m.toInt?; let e ← e.toNat?; pure ⟨m, e⟩
  | _ => none

def toVal (s : Sx) : Option Json :=
  match s with
  | .atom "nul" => some .null
  | .atom "tt" => some (.bool true)
  | .atom "ff" => some (.bool false)
  | .atom a =>
    if a.startsWith "s:" then some (.str (a.drop 2).toString)
    else (toDec a).map (fun d => .num d.m d.e)
  | _ => none

def toCm : Sx → Option Obj
  | .list (.atom "cm" :: kvs) =>
    let rec go : List Sx → Option Obj
      | [] => some []
      | k :: v :: t => do
        let k ← sxStr k; let v ← sxStr v; let r ← go t
        pure ((k, Json.str v) :: r)
      | _ => none
    go kvs
  | _ => none

/-- custom metadata is a Go map: `json.Marshal` writes its keys sorted -/
def sortObj (kv : Obj) : Obj := kv.mergeSort (fun a b => a.1 ≤ b.1)

def toAm : Sx → Option AddMeta
  | .list [.atom "am", uri, unit, cm] => do
    pure ⟨← sxStr uri, ← sxStr unit, sortObj (← toCm cm)⟩
  | _ => none

def toFm : Sx → Option FieldMeta
  | .list [.atom "fm", uri, dt, req, unit, cm] => do
    pure ⟨← sxStr uri, ← sxStr dt, ← sxBool req, ← sxStr unit, sortObj (← toCm cm)⟩
  | _ => none

def toPeriod : Sx → Option Period
  | .list [.atom "custom", ms, zone] => do
    pure (.custom (← (← sxStr ms).toInt?) (← sxStr zone))
  | .list [.atom "cal", kind, zone] => do pure (.calendar (← sxStr kind) (← sxStr zone))
  | _ => none

def toAl : Sx → Option Aligner
  | .list [.atom "al", p, fill] => do
    let p ← toPeriod p
    let f ← sxStr fill
    pure ⟨p, if f == "" then none else some f⟩
  | _ => none

def toQField : Nat → Sx → Option QField
  | 0, _ => none
  | n + 1, s =>
    match s with
    | .list [.atom "const", dt, v, req, unit] => do
      pure (.constant (← sxStr dt) (← toVal v) (← sxBool req) (← sxStr unit))
    | .list [.atom "cond", op, a, b] => do pure (.condition (← sxStr op) (← toQField n a) (← toQField n b))
    | .list [.atom "logic", op, a, b] => do pure (.logical (← sxStr op) (← toQField n a) (← toQField n b))
    | .list [.atom "ref"] => some .ref
    | .list [.atom "sel", a, b, c] => do pure (.selector (← toQField n a) (← toQField n b) (← toQField n c))
    | .list [.atom "nvl", a, b] => do pure (.nvl (← toQField n a) (← toQField n b))
    | .list [.atom "cast", a, t] => do pure (.cast (← toQField n a) (← sxStr t))
    | .list [.atom "num", op, a, b] => do pure (.numeric (← sxStr op) (← toQField n a) (← toQField n b))
    | .list [.atom "un", op, a] => do pure (.unary (← sxStr op) (← toQField n a))
    | .list [.atom "nil", dt, unit] => do pure (.nil (← sxStr dt) (← sxStr unit))
    | _ => none

def toRField : Nat → Sx → Option RField
  | 0, _ => none
  | n + 1, s =>
    match s with
    | .list [.atom "const", dt, v, req, unit] => do
      pure (.constant (← sxStr dt) (← toVal v) (← sxBool req) (← sxStr unit))
    | .list [.atom "cond", op, a, b] => do pure (.condition (← sxStr op) (← toRField n a) (← toRField n b))
    | .list [.atom "logic", op, a, b] => do pure (.logical (← sxStr op) (← toRField n a) (← toRField n b))
    | .list [.atom "ref", u] => do pure (.ref (← sxStr u))
    | .list [.atom "sel", a, b, c] => do pure (.selector (← toRField n a) (← toRField n b) (← toRField n c))
    | .list [.atom "nvl", a, b] => do pure (.nvl (← toRField n a) (← toRField n b))
    | .list [.atom "cast", a, t] => do pure (.cast (← toRField n a) (← sxStr t))
    | .list [.atom "num", op, a, b] => do pure (.numeric (← sxStr op) (← toRField n a) (← toRField n b))
    | .list [.atom "un", op, a] => do pure (.unary (← sxStr op) (← toRField n a))
    | .list (.atom "reduce" :: rt :: urns) => do pure (.reduce (← sxStrs urns) (← sxStr rt))
    | .list [.atom "nil", dt, unit] => do pure (.nil (← sxStr dt) (← sxStr unit))
    | _ => none

def toFilter (n : Nat) : Sx → Option Filter
  | .list [.atom "faligner", a] => do pure (.aligner (← toAl a))
  | .list [.atom "fcond", f] => do pure (.condition (← toQField n f))
  | .list [.atom "fvalue", f, m] => do pure (.fieldValue (← toQField n f) (← toAm m))
  | .list [.atom "fover", urn, unit, cm] => do pure (.overrideMeta (← sxStr urn) (← sxStr unit) (sortObj (← toCm cm)))
  | .list [.atom "fdelta", nn, mx] => do pure (.delta (← sxBool nn) (← toDec (← sxStr mx)))
  | .list [.atom "frate", unit, ps, nn, mx] => do
    let ps ← sxStr ps
    let ps ← if ps == "" then pure none else (ps.toInt?).map some
    pure (.rate (← sxStr unit) ps (← sxBool nn) (← toDec (← sxStr mx)))
  | _ => none

def toRFilter (n : Nat) : Sx → Option RFilter
  | .list [.atom "raligner", a] => do pure (.aligner (← toAl a))
  | .list [.atom "rcond", f] => do pure (.condition (← toRField n f))
  | .list [.atom "rappend", f, m] => do pure (.appendField (← toRField n f) (← toAm m))
  | .list (.atom "rdrop" :: urns) => do pure (.dropFields (← sxStrs urns))
  | .list [.atom "rsingle", f, m] => do pure (.singleField (← toRField n f) (← toAm m))
  | .list (.atom "rproj" :: urns) => do pure (.projection (← sxStrs urns))
  | _ => none

def toPoint : Sx → Option Point
  | .list [.atom "pt", ts, v] => do pure ⟨← sxStr ts, ← toVal v⟩
  | _ => none

def toRow : Sx → Option Row
  | .list (.atom "row" :: ts :: vs) => do pure ⟨← sxStr ts, ← vs.mapM toVal⟩
  | _ => none

mutual
def toDS : Nat → Sx → Option DS
  | 0, _ => none
  | n + 1, s =>
    match s with
    | .list (.atom "static" :: fm :: pts) => do pure (.static (← toFm fm) (← pts.mapM toPoint))
    | .list (.atom "filtered" :: d :: fs) => do pure (.filtered (← toDS n d) (← fs.mapM (toFilter n)))
    | .list [.atom "reduction", rt, al, m, am, e] => do
      let e ← match e with
        | .atom "~" => pure none
        | e => (toQField n e).map some
      pure (.reduction (← sxStr rt) (← toAl al) (← toMDS n m) (← toAm am) e)
    | .list [.atom "fromReport", r, urn] => do pure (.fromReport (← toRDS n r) (← sxStr urn))
    | _ => none
def toMDS : Nat → Sx → Option MDS
  | 0, _ => none
  | n + 1, s =>
    match s with
    | .list (.atom "mlist" :: ds) => do pure (.list (← toDSs n ds))
    | .list (.atom "mfiltered" :: m :: fs) => do pure (.filtered (← toMDS n m) (← fs.mapM (toFilter n)))
    | _ => none
def toDSs : Nat → List Sx → Option (List DS)
  | _, [] => some []
  | n, s :: t => do pure ((← toDS n s) :: (← toDSs n t))
def toRDS : Nat → Sx → Option RDS
  | 0, _ => none
  | n + 1, s =>
    match s with
    | .list (.atom "rstatic" :: .list (.atom "metas" :: ms) :: rows) => do
      pure (.static (← ms.mapM toFm) (← rows.mapM toRow))
    | .list [.atom "join", jt, m] => do pure (.join (← sxStr jt) (← toRMDS n m))
    | .list [.atom "fromDs", d] => do pure (.fromDatasource (← toDS n d))
    | .list (.atom "rfiltered" :: r :: fs) => do pure (.filtered (← toRDS n r) (← fs.mapM (toRFilter n)))
    | _ => none
def toRMDS : Nat → Sx → Option RMDS
  | 0, _ => none
  | n + 1, s =>
    match s with
    | .list (.atom "rmlist" :: ds) => do pure (.list (← toRDSs n ds))
    | .list [.atom "rmfrom", m] => do pure (.fromMulti (← toMDS n m))
    | .list (.atom "rmfiltered" :: m :: fs) => do pure (.filtered (← toRMDS n m) (← fs.mapM (toRFilter n)))
    | _ => none
def toRDSs : Nat → List Sx → Option (List RDS)
  | _, [] => some []
  | n, s :: t => do pure ((← toRDS n s) :: (← toRDSs n t))
end

/-! ### canonical JSON text (sorted keys, no spaces) -/

def normDec : Nat → Int → Nat → Int × Nat
  | 0, m, e => (m, e)
  | f + 1, m, e => if e > 0 && m % 10 == 0 then normDec f (m / 10) (e - 1) else (m, e)

def padLeft (s : String) (n : Nat) : String := String.ofList (List.replicate (n - s.length) '0') ++ s

def fmtNum (m : Int) (e : Nat) : String :=
  let (m, e) := normDec e m e
  if e == 0 then toString m
  else
    let a := m.natAbs
    let p := 10 ^ e
    (if m < 0 then "-" else "") ++ toString (a / p) ++ "." ++ padLeft (toString (a % p)) e

mutual
def canon : Json → String
  | .null => "null"
  | .bool b => if b then "true" else "false"
  | .num m e => fmtNum m e
  | .str s => "\"" ++ s ++ "\""
  | .arr l => "[" ++ ",".intercalate (canonList l) ++ "]"
  | .obj kv => "{" ++ ",".intercalate ((canonObj kv).mergeSort (fun a b => a ≤ b)) ++ "}"
def canonList : List Json → List String
  | [] => []
  | j :: t => canon j :: canonList t
def canonObj : List (String × Json) → List String
  | [] => []
  | (k, j) :: t => ("\"" ++ k ++ "\":" ++ canon j) :: canonObj t
end

/-! ### JSON text → `Json` (the subset the harness writes: no escapes, no exponents, no spaces) -/

def isDigit (c : Char) : Bool := c.isDigit

def takeDigits : List Char → List Char × List Char
  | c :: t => if c.isDigit then let (d, r) := takeDigits t; (c :: d, r) else ([], c :: t)
  | [] => ([], [])

def takeStr : List Char → Option (List Char × List Char)
  | '"' :: t => some ([], t)
  | c :: t => (takeStr t).map (fun (s, r) => (c :: s, r))
  | [] => none

def digitsToNat (ds : List Char) : Nat := ds.foldl (fun a c => a * 10 + (c.toNat - '0'.toNat)) 0

def parseNum (cs : List Char) : Option (Json × List Char) :=
  let (neg, cs) := match cs with | '-' :: t => (true, t) | _ => (false, cs)
  let (ip, r) := takeDigits cs
  if ip.isEmpty then none
  else
    let (fp, r) := match r with
      | '.' :: t => takeDigits t
      | _ => ([], r)
    let m : Int := digitsToNat (ip ++ fp)
    some (.num (if neg then -m else m) fp.length, r)

mutual
def pJson : Nat → List Char → Option (Json × List Char)
  | 0, _ => none
  | _, [] => none
  | n + 1, c :: t =>
    if c == '{' then
      match t with
      | '}' :: r => some (.obj [], r)
      | _ => pMembers n t []
    else if c == '[' then
      match t with
      | ']' :: r => some (.arr [], r)
      | _ => pElems n t []
    else if c == '"' then (takeStr t).map (fun (s, r) => (.str (String.ofList s), r))
    else if c == 't' then match t with | 'r' :: 'u' :: 'e' :: r => some (.bool true, r) | _ => none
    else if c == 'f' then match t with | 'a' :: 'l' :: 's' :: 'e' :: r => some (.bool false, r) | _ => none
    else if c == 'n' then match t with | 'u' :: 'l' :: 'l' :: r => some (.null, r) | _ => none
    else parseNum (c :: t)
def pMembers : Nat → List Char → List (String × Json) → Option (Json × List Char)
  | 0, _, _ => none
  | n + 1, cs, acc =>
    match cs with
    | '"' :: t =>
      match takeStr t with
      | some (k, ':' :: r) =>
        match pJson n r with
        | some (v, ',' :: r2) => pMembers n r2 ((String.ofList k, v) :: acc)
        | some (v, '}' :: r2) => some (.obj ((String.ofList k, v) :: acc).reverse, r2)
        | _ => none
      | _ => none
    | _ => none
def pElems : Nat → List Char → List Json → Option (Json × List Char)
  | 0, _, _ => none
  | n + 1, cs, acc =>
    match pJson n cs with
    | some (v, ',' :: r) => pElems n r (v :: acc)
    | some (v, ']' :: r) => some (.arr (v :: acc).reverse, r)
    | _ => none
end

def parseJsonText (s : String) : Option Json :=
  let cs := s.toList
  match pJson (cs.length + 1) cs with
  | some (j, []) => some j
  | _ => none

/-! ### handlers -/

/-- the zones the generators use: what `time.LoadLocation` accepts among them -/
def zoneOk (z : String) : Bool :=
  ["", "UTC", "Local", "Europe/Berlin", "America/New_York", "Asia/Kolkata", "Australia/Sydney"].contains z

def outcomeText {α : Type} : Outcome α → String
  | .ok _ => "engine"
  | .reject => "reject"
  | .panic => "panic model"

def handleRt (kind : String) (toks : List String) (obs : String) : String × Bool × String :=
  let specOk := obs.startsWith "equal "
  let why := if specOk then "" else "parsed engine and directly constructed engine are not observationally equal (or panic/hang)"
  match parseSx (toks.length + 1) toks with
  | some (sx, []) =>
    let n := toks.length + 1
    if kind == "ds" then
      match toDS n sx with
      | none => ("bad-case", false, "unparsable tree")
      | some q =>
        let doc := serDS q
        -- the model's own verdict on the document it serialises (accept = round trip reproduces the document)
        let back := match parseDatasourceDoc zoneOk doc with
          | .ok q' => if canon (serDS q') == canon (serDS (normDS q)) then "accept" else "accept-but-model-roundtrip-differs"
          | .reject => "reject"
          | .panic => "model-panics"
        ("equal " ++ back ++ " " ++ canon doc, specOk, why)
    else if kind == "rds" then
      match toRDS n sx with
      | none => ("bad-case", false, "unparsable tree")
      | some q =>
        let doc := serRDS q
        let back := match parseReportDoc zoneOk doc with
          | .ok q' => if canon (serRDS q') == canon (serRDS (normRDS q)) then "accept" else "accept-but-model-roundtrip-differs"
          | .reject => "reject"
          | .panic => "model-panics"
        ("equal " ++ back ++ " " ++ canon doc, specOk, why)
    else ("bad-case", false, "unknown kind")
  | _ => ("bad-case", false, "unparsable s-expression")

def handleMal (kind doc obs : String) : String × Bool × String :=
  let specOk := obs == "engine" || obs == "reject"
  let why := if specOk then "" else "a document must give an engine or an error, never a panic or a hang"
  match parseJsonText doc with
  | none => ("bad-case", false, "unparsable JSON text")
  | some j =>
    if kind == "ds" then (outcomeText (parseDatasourceDoc zoneOk j), specOk, why)
    else if kind == "rds" then (outcomeText (parseReportDoc zoneOk j), specOk, why)
    else ("bad-case", false, "unknown kind")

/-- returns (model output, spec verdict on the observation, reason) -/
def handle (c obs : String) : String × Bool × String :=
  match words c with
  | "ord" :: toks =>
    let groups := if toks.isEmpty then [] else splitAt ";" toks
    match parseOrdFields groups with
    | none => ("bad-case", false, "unparsable case")
    | some fs =>
      let model := match orderExprs fs with
        | .ok l => "ok " ++ fmtNatList l
        | .error nodes => "err cyclic " ++ fmtNatList nodes
      let (ok, why) := ordSpec (fs.map (fun f => (f.1, refsOf f.2))) obs
      (model, ok, why)
  | "rt" :: kind :: toks => handleRt kind toks obs
  | ["mal", kind, doc] => handleMal kind doc obs
  | _ => ("bad-case", false, "unknown case family")

end ShpanVerif.Drive.C19
