import ShpanVerif.Util.Parse
import ShpanVerif.Model.JsonFrame
import ShpanVerif.Model.JsonText
import ShpanVerif.Model.FileScan
/-
Driver handler for C20.  Case kinds (see harness/run/c20.go):
  arr <w|wi|rd> <initok 0|1> <elems>       elems := "-" | e,e,…   e := hex of the element's JSON text | "X" (unmarshalable)
      obs: out=<hex|-> init=<n|-> werr=<nil|init|marshal> back=<ok:<hexlist>|err:open|err:emit|skip>
  rdarr <ws 0|1|2|3> <elems>               a well-formed array document with white-space pattern ws (JsonText.wsOf);
                                           the elements are arbitrary well-formed JSON texts (inner white space allowed)
      obs: ok <hexlist> | err open | err emit
  rdobj <ws> <entries>                     entries := "-" | k:v,…  (k = hex of the key BODY in escaped form — the bytes
                                           between the quotes —, v = hex value text)
      obs: ok <k:v list> | err open | err emit     (k = hex of the DECODED key)
  Every element / key of arr, rdarr, rdobj, lzarr cases is checked to lie inside the domain of the theorems
  (`JsonText.isJsonText` / `strBodyOk`); a case outside gets the model output `out-of-domain` (a correspondence break).
  rdbad <arr|obj> <dochex>                 hand-made (malformed or foreign) document
  lazy <alone|field> <v:hex|empty|err|nullv|raw:hex>
      obs: m=<hex|err|-> um=<ok|err|-> opt=<some:hex|none|err|panic|-> get=<ok:hex|empty|err|panic|->
  file <fwd|rev> <lf|crlf>[:cr<p>] <nl|nonl> <runs>  runs := "-" | L<len>[x<count>] …   (line i = content(i,len));
                                             `:cr<p>` (p = 1…15) sprinkles lone carriage returns into the line contents:
                                             line i gets the pattern q = (p + 5 i) mod 16 — bit 0: first byte, bit 1: last
                                             byte, bit 2: last but one, bit 3: every byte j with j mod 53 = 17 (`crAt`)
  raw <fwd|rev> <hex|->                      small file given literally (any bytes, stray '\r' included)
  missing <fwd|rev>
      obs: ok n=<n> stable=<0|1> <tok>… | ok n=<n> stable=<0|1> all=<digest> | err toolong | err <class>
           tok := h<hex> (≤ 16 bytes) | d<len>:<fnv1a-64 hex>
-/
namespace ShpanVerif.Drive.C20
open ShpanVerif.Util ShpanVerif.Model

abbrev Bytes := List UInt8

/-! ### hex, digests -/

def hexDigit (n : Nat) : Char := if n < 10 then Char.ofNat (48 + n) else Char.ofNat (87 + n)

def hexOfBytes (b : Bytes) : String :=
  String.ofList (b.foldr (fun x acc => hexDigit (x.toNat / 16) :: hexDigit (x.toNat % 16) :: acc) [])

def hexVal (c : Char) : Option Nat :=
  if '0' ≤ c ∧ c ≤ '9' then some (c.toNat - 48)
  else if 'a' ≤ c ∧ c ≤ 'f' then some (c.toNat - 87)
  else none

/-- tail-recursive: pairs of hex digits -/
def unhexGo : List Char → Bytes → Option Bytes
  | [], acc => some acc.reverse
  | [_], _ => none
  | a :: b :: r, acc =>
    match hexVal a, hexVal b with
    | some x, some y => unhexGo r (UInt8.ofNat (x * 16 + y) :: acc)
    | _, _ => none

def unhex (s : String) : Option Bytes := if s == "-" then some [] else unhexGo s.toList []

def fnv64 (b : Bytes) : UInt64 :=
  b.foldl (fun h x => (h ^^^ x.toUInt64) * 1099511628211) 14695981039346656037

def hex16 (h : UInt64) : String :=
  String.ofList ((List.range 16).map (fun i => hexDigit ((h.toNat / 16 ^ (15 - i)) % 16)))

def tokOf (l : Bytes) : String :=
  if l.length ≤ 16 then "h" ++ hexOfBytes l else s!"d{l.length}:{hex16 (fnv64 l)}"

def fmtLines (stable : Bool) (ls : List Bytes) : String :=
  let toks := ls.map tokOf
  let head := s!"ok n={ls.length} stable={boolStr stable}"
  if ls.length ≤ 40 then " ".intercalate (head :: toks)
  else head ++ " all=" ++ hex16 (fnv64 (" ".intercalate toks).toUTF8.toList)

/-! ### JSON cases -/

def hexList (es : List Bytes) : String := fmtList hexOfBytes es

/-- elements: `none` = the unmarshalable value -/
def parseElems (s : String) : Option (List (Option Bytes)) :=
  if s == "-" then some []
  else (s.splitOn ",").mapM (fun t => if t == "X" then some none else (unhex t).map some)

def werrStr : Option JsonFrame.WErr → String
  | none => "nil" | some .init => "init" | some .marshal => "marshal"

def rerrStr : JsonFrame.RErr → String
  | .openErr => "open" | .emitErr => "emit"

def backStr (r : Except JsonFrame.RErr (List Bytes)) : String :=
  match r with
  | .ok l => "ok:" ++ hexList l
  | .error e => "err:" ++ rerrStr e

def outStr (b : Bytes) : String := if b.isEmpty then "-" else hexOfBytes b

/-- the documents of the harness (Model/JsonText.lean: `arrDoc`, `objDoc`, white-space patterns `wsOf`) -/
def buildArrDoc (ws : Nat) (es : List Bytes) : Bytes := JsonText.arrDoc (JsonText.wsOf ws) es

def buildObjDoc (ws : Nat) (es : List (Bytes × Bytes)) : Bytes := JsonText.objDoc (JsonText.wsOf ws) es

/-- inside the domain of the C20 theorems: every element is a well-formed JSON text -/
def inDomain (es : List Bytes) : Bool := es.all JsonText.isJsonText

def inDomainEnts (es : List (Bytes × Bytes)) : Bool :=
  es.all (fun kv => JsonText.strBodyOk kv.1 && JsonText.isJsonText kv.2)

def outOfDomain : String × Bool × String := ("out-of-domain", true, "an element or key of the case is not a well-formed JSON text")

def handleArr (helper : String) (initOk : Bool) (elems : List (Option Bytes)) (obs : String) : String × Bool × String :=
  if !inDomain (elems.filterMap id) then outOfDomain else
  let enc : Option Bytes → Option Bytes := id
  let (out, initS, werr) : Bytes × String × Option JsonFrame.WErr :=
    if helper == "rd" then
      let (o, e) := JsonFrame.writeAsReader enc elems
      (o, "-", e)
    else
      let (o, n, e) := JsonFrame.writeWithInit initOk enc elems
      (o, if helper == "wi" then toString n else "-", e)
  let back := if werr.isSome then "skip" else backStr (JsonFrame.readArray some (JsonFrame.jsonLex out))
  let model := s!"out={outStr out} init={initS} werr={werrStr werr} back={back}"
  -- the property on the observation, for streams whose elements all marshal and whose init hook succeeds:
  -- bytes = "[" e1 "," e2 … "]" (computed on the hex text), init ran once, read-back = the elements
  if elems.all Option.isSome && initOk then
    let es := elems.filterMap id
    let wantOut := "5b" ++ "2c".intercalate (es.map hexOfBytes) ++ "5d"
    let wantInit := if helper == "wi" then "1" else "-"
    let want := s!"out={wantOut} init={wantInit} werr=nil back=ok:{hexList es}"
    (model, obs == want, if obs == want then "" else s!"want {want}")
  else
    -- an element that cannot be marshalled / a failing init hook: the writer (or the reader handed to the consumer) must
    -- end with an ERROR — a clean end would present the truncated text as the complete document
    let clean := (obs.splitOn " werr=nil").length > 1
    (model, !clean, if clean then "a failed stream ended without an error: the truncated text looks like a complete document" else "")

def parseEntries (s : String) : Option (List (Bytes × Bytes)) :=
  if s == "-" then some []
  else (s.splitOn ",").mapM (fun t => match t.splitOn ":" with
    | [k, v] => do let k ← unhex (if k == "" then "-" else k); let v ← unhex v; pure (k, v)
    | _ => none)

def entStr (kv : Bytes × Bytes) : String := hexOfBytes kv.1 ++ ":" ++ hexOfBytes kv.2

/-- the key as `ReadJsonObject` reports it: the key text without its quotes, escapes decoded -/
def unquote (k : Bytes) : Bytes := JsonText.decodeKey (k.drop 1).dropLast

def arrObs (r : Except JsonFrame.RErr (List Bytes)) : String :=
  match r with
  | .ok l => "ok " ++ hexList l
  | .error e => "err " ++ rerrStr e

def objObs (r : Except JsonFrame.RErr (List (Bytes × Bytes))) : String :=
  match r with
  | .ok l => "ok " ++ fmtList entStr (l.map (fun kv => (unquote kv.1, kv.2)))
  | .error e => "err " ++ rerrStr e

/-! ### Lazy -/

def holderPre : Bytes := "{\"a\":1,\"l\":".toUTF8.toList
def holderPost : Bytes := ",\"z\":\"x\"}".toUTF8.toList

def loutStr : JsonFrame.LOut Bytes → String
  | .ok v => "ok:" ++ hexOfBytes v | .err => "err" | .emptyErr => "empty" | .panic => "panic"

def optStr : JsonFrame.LOut (Option Bytes) → String
  | .ok (some v) => "some:" ++ hexOfBytes v | .ok none => "none" | .err => "err" | .emptyErr => "empty" | .panic => "panic"

def handleLazy (mode src : String) (obs : String) : String × Bool × String :=
  let enc : Bytes → Option Bytes := some
  let dec : Bytes → Option Bytes := some
  -- the zero value: what a fresh variable / a fresh struct field holds before UnmarshalJSON runs
  let zero : JsonFrame.Lazy Bytes := { fetcher := .nilFn, emptySup := false }
  let mk (f : JsonFrame.Fetcher Bytes) : JsonFrame.Lazy Bytes := { fetcher := f, emptySup := true }
  -- `want` = the value the round trip must preserve (`some none` = empty)
  let finish (m : String) (data : Bytes) (want : Option (Option Bytes)) : String × Bool × String :=
    let (l2, ok) := JsonFrame.Lazy.unmarshal dec zero data
    let model := s!"m={m} um={if ok then "ok" else "err"} opt={optStr l2.getOptional} get={loutStr l2.get}"
    match want with
    | some w =>
      let wantS := match w with
        | some v => s!"m={m} um=ok opt=some:{hexOfBytes v} get=ok:{hexOfBytes v}"
        | none => s!"m={m} um=ok opt=none get=empty"
      let good := obs == wantS
      (model, good, if good then "" else s!"want {wantS}")
    | none => (model, true, "n/a")
  let wrap (b : Bytes) : Bytes := if mode == "field" then holderPre ++ b ++ holderPost else b
  let failS := "m=err um=- opt=- get=-"
  let fromLazy (l : JsonFrame.Lazy Bytes) (want : Option (Option Bytes)) : String × Bool × String :=
    match JsonFrame.Lazy.marshal enc l with
    | .ok b => finish (hexOfBytes (wrap b)) b want
    | .err => (failS, obs == failS, if obs == failS then "" else "a failing fetcher must fail the marshalling")
    | _ => ("m=panic um=- opt=- get=-", true, "n/a")
  if src == "empty" then fromLazy (mk (.gives none)) (some none)
  else if src == "err" then fromLazy (mk .fails) none
  else if src == "nullv" then fromLazy (mk (.gives (some JsonFrame.nullLit))) none
  else if src.startsWith "v:" then
    match unhex (src.drop 2).toString with
    | some v => fromLazy (mk (.gives (some v))) (if v = JsonFrame.nullLit then none else some (some v))
    | none => ("bad-case", false, "unparsable case")
  else if src.startsWith "t:" then
    -- typed Lazies (harness/run/c20.go `c20LazyTyped`): `t:<kind>:<hex of the value's canonical JSON text>`; the model is
    -- generic in the element type, the value travels as its JSON text
    match (src.splitOn ":") with
    | [_, _, hx] =>
      (match unhex hx with
       | some v => fromLazy (mk (.gives (some v))) (if v = JsonFrame.nullLit then none else some (some v))
       | none => ("bad-case", false, "unparsable case"))
    | _ => ("bad-case", false, "unparsable case")
  else if src.startsWith "raw:" then
    match unhex (src.drop 4).toString with
    | some d => finish "-" d (some (if d = JsonFrame.nullLit then none else some d))
    | none => ("bad-case", false, "unparsable case")
  else ("bad-case", false, "unparsable case")

/-! ### Files -/

/-- byte `j` of line `idx` -/
def contentByte (idx j : Nat) : UInt8 := UInt8.ofNat (97 + (idx * 7 + j * 3 + j / 29) % 26)

def lineContent (idx len : Nat) : Bytes := (List.range len).map (contentByte idx)

/-- is byte `j` of line `idx` (of `len` bytes) a lone carriage return under pattern `p`?  (`p = 0`: never) -/
def crAt (p idx len j : Nat) : Bool :=
  let q := if p == 0 then 0 else (p + 5 * idx) % 16
  (q % 2 == 1 && j == 0) || (q / 2 % 2 == 1 && j + 1 == len) || (q / 4 % 2 == 1 && j + 2 == len) ||
    (q / 8 % 2 == 1 && j % 53 == 17)

def lineContentCR (p idx len : Nat) : Bytes :=
  (List.range len).map (fun j => if crAt p idx len j then FileScan.CR else contentByte idx j)

/-- "lf" | "crlf" | "lf:cr5" | "crlf:cr12" → (crlf, p) -/
def parseEol (t : String) : Option (Bool × Nat) :=
  match t.splitOn ":" with
  | [e] => if e == "lf" then some (false, 0) else if e == "crlf" then some (true, 0) else none
  | [e, c] =>
    if !(e == "lf" || e == "crlf") || !c.startsWith "cr" then none
    else ((c.drop 2).toString.toNat?).bind (fun p => if 1 ≤ p && p ≤ 15 then some (e == "crlf", p) else none)
  | _ => none

/-- "L4096x3" → [4096,4096,4096] -/
def parseRun (t : String) : Option (List Nat) :=
  if !t.startsWith "L" then none
  else match ((t.drop 1).toString).splitOn "x" with
    | [n] => n.toNat?.map (fun n => [n])
    | [n, k] => do let n ← n.toNat?; let k ← k.toNat?; pure (List.replicate k n)
    | _ => none

def parseRuns (ts : List String) : Option (List Nat) :=
  match ts with
  | ["-"] => some []
  | _ => (ts.mapM parseRun).map List.flatten

def realBuf : Nat := 4096
def realMax : Nat := 65536

def errStr : FileScan.ScanErr → String
  | .tooLong => "toolong" | .readEOF => "readeof" | .fuel => "model-fuel"

def resStr (r : List Bytes × Option FileScan.ScanErr) : String :=
  match r.2 with
  | some e => "err " ++ errStr e
  | none => fmtLines true r.1

def runModel (rev : Bool) (f : Bytes) : String :=
  resStr (if rev then FileScan.reverseScan realBuf realMax f else FileScan.forwardScan realMax f)

/-- Verdict for a file case. `lines` = the file's lines (independent of any scanning: each line without its '\n' and
without at most ONE '\r' in front of it — the same expectation for BOTH directions since the repair 4d4d438 of the
reverse scanner), `rawMax` = the longest raw line (with its '\r'), `startsNL` = the file starts with '\n'.
Known findings are matched by input class AND failure shape:
  F2: the observation is `err toolong` and (forward) some raw line ≥ 65536 = bufio.MaxScanTokenSize, (reverse) some raw
      line + 1 ≥ 32768 = maxTokenSize/2 (below that `C20_reverse_lines` guarantees success);
  F1: reverse, the file starts with '\n', and the observation is exactly the expected lines without the first one. -/
def fileVerdict (rev nl : Bool) (lines : List Bytes) (rawMax : Nat) (startsNL : Bool) (obs : String)
    (model : String := "err toolong") : Bool × String :=
  if rev && !nl && !lines.isEmpty then (true, "n/a: reverse over a file without trailing newline")
  else
    let want := fmtLines true (if rev then lines.reverse else lines)
    if obs == want then (true, "")
    -- F2 is the failure the model of the unchanged scanner predicts for this very file; a `token too long` the model
    -- does not predict is a different violation (e.g. a 65535-byte line that the unchanged reverse scanner reads)
    else if obs == "err toolong" && model == "err toolong" &&
        ((!rev && rawMax ≥ realMax) || (rev && rawMax + 1 ≥ realMax / 2)) then
      (false, s!"KF:F2 line of {rawMax} bytes; want {want.take 200}")
    else if rev && startsNL && obs == fmtLines true (lines.drop 1).reverse then
      (false, s!"KF:F1 leading empty line; want {want.take 200}")
    else (false, s!"want {want.take 300}")

def handleFile (ts : List String) (obs : String) : String × Bool × String :=
  match ts with
  | dir :: eol :: tnl :: runs =>
    match parseRuns runs, parseEol eol with
    | some lens0, some (crlf, p) =>
      let rev := dir == "rev"
      let nl := tnl == "nl"
      -- an unterminated empty last line is no line
      let lens := if !nl && lens0.getLast? == some 0 then lens0.dropLast else lens0
      let nl := nl || (lens.length < lens0.length)
      let n := lens.length
      -- the raw lines by construction: content, then the '\r' of a CRLF terminator if the line is terminated
      let raws := (List.range n).zip lens |>.map (fun (i, len) =>
        lineContentCR p i len ++ (if crlf && (i + 1 < n || nl) then [FileScan.CR] else []))
      -- the file's lines: at most one '\r' before the terminator (or before the end of the file) does not belong to the line
      let lines := raws.map FileScan.dropCR
      let f : Bytes := ((List.range n).zip raws).foldr
        (fun (i, l) acc => l ++ (if i + 1 < n || nl then [FileScan.NL] else []) ++ acc) []
      let rawMax := raws.foldl (fun m l => max m l.length) 0
      let startsNL := match f with | b :: _ => b == FileScan.NL | [] => false
      let m := runModel rev f
      let (ok, why) := fileVerdict rev (nl || n == 0) lines rawMax startsNL obs m
      (m, ok, why)
    | _, _ => ("bad-case", false, "unparsable case")
  | _ => ("bad-case", false, "unparsable case")

def handleRaw (dir hex : String) (obs : String) : String × Bool × String :=
  match unhex hex with
  | none => ("bad-case", false, "unparsable case")
  | some f =>
    let rev := dir == "rev"
    let lines := FileScan.fileLines f
    let nl := f.getLast? == some FileScan.NL || f.isEmpty
    let rawMax := (FileScan.rawLines f).foldl (fun m l => max m l.length) 0
    let startsNL := match f with | b :: _ => b == FileScan.NL | [] => false
    let m := runModel rev f
    let (ok, why) := fileVerdict rev nl lines rawMax startsNL obs m
    (m, ok, why)

/-- returns (model output, spec verdict on the observation, reason) -/
def handle (c obs : String) : String × Bool × String :=
  match words c with
  | ["arr", helper, io, es] =>
    -- `C` / `W`: the stream is cut by a cancellation at that element (harness/run/c20.go); outside the writer model
    -- (which has no context), spec-only: the writer must end with an error
    if (es.splitOn ",").any (fun t => t == "C" || t == "W") then
      let clean := (obs.splitOn " werr=nil").length > 1
      (if clean then "spec-only: a stream cut by cancellation must end with an error" else obs, !clean,
       if clean then "a cancelled stream ended without an error: the truncated text looks like a complete document" else "")
    else
    match parseElems es with
    | some elems => handleArr helper (io == "1") elems obs
    | none => ("bad-case", false, "unparsable case")
  | ["rdarr", ws, es] =>
    match parseElems es, ws.toNat? with
    | some elems, some ws =>
      let es := elems.filterMap id
      if !inDomain es then outOfDomain else
      let model := arrObs (JsonFrame.readArray some (JsonFrame.jsonLex (buildArrDoc ws es)))
      let want := "ok " ++ hexList es
      (model, obs == want, if obs == want then "" else s!"want {want}")
    | _, _ => ("bad-case", false, "unparsable case")
  | ["rdobj", ws, es] =>
    match parseEntries es, ws.toNat? with
    | some ents, some ws =>
      if !inDomainEnts ents then outOfDomain else
      let model := objObs (JsonFrame.readObject some (JsonFrame.jsonLex (buildObjDoc ws ents)))
      -- the entries of the case, keys decoded by the independent key decoder
      let want := "ok " ++ fmtList entStr (ents.map (fun kv => (JsonText.decodeKey kv.1, kv.2)))
      (model, obs == want, if obs == want then "" else s!"want {want}")
    | _, _ => ("bad-case", false, "unparsable case")
  | ["rdbad", kind, doc] =>
    match unhex doc with
    | some d =>
      let toks := JsonFrame.jsonLex d
      let model := if kind == "obj" then objObs (JsonFrame.readObject some toks) else arrObs (JsonFrame.readArray some toks)
      -- a document whose top-level value is not of the expected kind (array / object) is not such a document: the
      -- reader must fail, not present it as an empty or one-element collection
      let firstByte := (d.dropWhile (fun b => b == 0x20 || b == 0x0a || b == 0x0d || b == 0x09)).head?
      let wantOpen : UInt8 := if kind == "obj" then 0x7b else 0x5b
      if firstByte != some wantOpen && !(obs.startsWith "err") then
        (model, false, s!"a document that is not a JSON {if kind == "obj" then "object" else "array"} was read without an error")
      else (model, true, "n/a: hand-made document")
    | none => ("bad-case", false, "unparsable case")
  | ["lzarr", ws, es] =>
    -- Lazy elements through the streaming decoder, values requested after the array was collected:
    -- framing (readArray) composed with the Lazy round trip (identity on canonical payloads)
    match parseElems es, ws.toNat? with
    | some elems, some ws =>
      let es := elems.filterMap id
      if !inDomain es then outOfDomain else
      let model := arrObs (JsonFrame.readArray some (JsonFrame.jsonLex (buildArrDoc ws es)))
      let want := "ok " ++ hexList es
      (model, obs == want, if obs == want then "" else s!"want {(want.take 200)}")
    | _, _ => ("bad-case", false, "unparsable case")
  | ["hraw", dir, _, st2] =>
    -- one stream value, the file changed between two materialisations: the observation is the second one and
    -- must be exactly what the second file state holds (the harness checks the first against a fresh stream)
    if st2 == "M" then
      let want := fmtLines true []
      (want, obs == want, if obs == want then "" else s!"want {want}")
    else handleRaw dir st2 obs
  | ["lazy", mode, src] => handleLazy mode src obs
  | "file" :: ts => handleFile ts obs
  | ["raw", dir, hex] => handleRaw dir hex obs
  | ["latefile", _] =>
    -- spec-only (harness/run/c20.go `c20execLateFile`): the first materialisation (file missing) is empty without an
    -- error, the later ones do not fail, and no handle on the file stays open
    let ok := obs.startsWith "first=0/false later-errors=false/false " && obs.endsWith " fds=0"
    (if ok then obs else "first=0/false later-errors=false/false fds=0", ok,
     if ok then "" else "a file opened by a materialisation is still open after it returned (or a materialisation failed)")
  | ["missing", _] =>
    let want := fmtLines true []
    (want, obs == want, if obs == want then "" else s!"want {want}")
  | _ => ("bad-case", false, "unparsable case")

end ShpanVerif.Drive.C20
