import ShpanVerif.Drive.C09
import ShpanVerif.Model.JoinDemand
/-
Driver handler for the "T" cases of C05 (harness/run/c05_demand.go): demand of operators outside the pipeline model.

  T ats <n> <take>                   AlignedTimestampsStream over n periods through a counting AlignmentPeriod
      obs: build=<GetEndTime calls while building> run=<calls during the terminal> got=<elements delivered>
      spec: nothing is computed while the stream is built, and the terminal computes at most one period end per
      element it delivers (+1): a prefix-only terminal costs the prefix, whatever the length of the range.
  T j2i|j2l <k> | <left> | <right>   two-stream joins under Limit(k), counting sources
      obs: got=<rows> hl=<elements handed out by the left source> hr=<… by the right source>
      model: `emitJoin` / `emitLeftJoin` of Model/Join.lean run k times; when all k rows exist the sources must have
      handed out exactly what the model consumed (spec: no more than that); when the join ends earlier only the row
      count is compared, plus: an empty left input decides the result, the right source hands out nothing.
  T jni <k> | <in> | <in> | …        N-way inner join (JoinMultipleSortedStreams) under Limit(k), counting sources
      obs: got=<rows> h=<elements handed out by input 0>,<… input 1>,…
      spec: `demandInnerN` (Model/JoinDemand.lean) - join_multiple_streams.go:40-146 with a counter per input, INCLUDING the final call that
      finds an input exhausted: every lagging input advances ONE element per round, so no input is read further than
      the round in which some input ends (an unbounded input is never read on "until it catches up").
-/
namespace ShpanVerif.Drive.C05Demand
open ShpanVerif.Util ShpanVerif.Model.Join ShpanVerif.Drive.C09

def kvNat (toks : List String) (key : String) : Option Nat :=
  toks.findSome? (fun t => if t.startsWith (key ++ "=") then (t.drop (key.length + 1)).toString.toNat? else none)

/-- run `emit` until `k` rows were produced; `(rows produced, state after the last row if all k were produced)` -/
def runK {σ ρ : Type} (emit : σ → Step σ ρ) : Nat → σ → Nat × Option σ
  | 0, s => (0, some s)
  | k + 1, s =>
    match emit s with
    | .row _ s' => let r := runK emit k s'; (r.1 + 1, r.2)
    | _ => (0, none)

def handleAts (n : Nat) (take : String) (obs : String) : String × Bool × String :=
  let want : Option Nat :=
    if take == "all" then some n
    else if take == "isempty" || take == "first" then some (min n 1)
    else take.toNat?.map (fun k => min n k)
  match want with
  | none => ("bad-case", false, "take")
  | some w =>
    let toks := words obs
    match kvNat toks "build", kvNat toks "run", kvNat toks "got" with
    | some b, some r, some g =>
      let model := s!"build=0 run={w} got={w}"
      if g != w then (model, false, s!"{g} elements delivered, want {w}")
      else if b != 0 then (model, false, s!"{b} steps (period ends computed / generator advanced) while the stream was built (planning must not work)")
      else if r > w + 1 then (model, false, s!"{r} steps (period ends computed / generator advanced) for a terminal that needs {w} elements")
      else (model, true, "")
    | _, _, _ => (s!"build=0 run={w} got={w}", false, s!"observation: {obs}")

def handleJoin (left : Bool) (k : Nat) (l r : List Elem) (obs : String) : String × Bool × String :=
  let res : Nat × Option (Nat × Nat) :=
    if left then
      let x := runK (emitLeftJoin ekey ekey) k (init2 l r)
      (x.1, x.2.map (fun s => (l.length - s.left.length, r.length - s.right.length)))
    else
      let x := runK (emitJoin ekey ekey) k (init2 l r)
      (x.1, x.2.map (fun s => (l.length - s.left.length, r.length - s.right.length)))
  let toks := words obs
  match kvNat toks "got", kvNat toks "hl", kvNat toks "hr" with
  | some g, some hl, some hr =>
    match res with
    | (rows, some (ml, mr)) =>
      let model := s!"got={rows} hl={ml} hr={mr}"
      if g != rows then (model, false, s!"{g} rows, want {rows}")
      else if hl > ml || hr > mr then (model, false, s!"the sources handed out {hl} / {hr} elements for {k} rows, the join needs {ml} / {mr}")
      else (model, true, "")
    | (_, none) =>
      -- the join ends before k rows: the model does not say what the final, row-less emit consumed
      if l.isEmpty && hr != 0 then (s!"got={g} hl={hl} hr=0", false, "the left input is empty: the right source must not be pulled")
      else (obs, true, "")
  | _, _, _ => ("unparsable", false, s!"observation: {obs}")

/-! ### demand of the N-way inner join -/

/-- the counting copy of `emitJoin` lives in Model/JoinDemand.lean (`pfill`, `prefill`, `padv`, `pinner`, `pcollect`); the
    theorems about it are in Props/C05JoinDemand.lean (refinement of the operational model, lockstep bound, Limit(0)) -/
def demandInnerN (k : Nat) (ins : List (List Elem)) : Nat × List Nat :=
  ShpanVerif.Model.JoinDemand.demandInnerN ekey k ins

def handleJoinN (k : Nat) (ins : List (List Elem)) (obs : String) : String × Bool × String :=
  let (rows, outs) := demandInnerN k ins
  let model := s!"got={rows} h={",".intercalate (outs.map toString)}"
  let toks := words obs
  match kvNat toks "got", toks.findSome? (fun t => if t.startsWith "h=" then some ((t.drop 2).toString.splitOn ",") else none) with
  | some g, some hs =>
    match hs.mapM (·.toNat?) with
    | some hs =>
      if g != rows then (model, false, s!"{g} rows, want {rows}")
      else if hs.length != outs.length then (model, false, "observation: number of inputs")
      else if (hs.zip outs).any (fun p => p.1 > p.2) then
        (model, false, s!"the inputs handed out {hs} elements for {k} rows, the join needs {outs}")
      else (model, true, "")
    | none => ("unparsable", false, s!"observation: {obs}")
  | _, _ => ("unparsable", false, s!"observation: {obs}")

def handle (c obs : String) : String × Bool × String :=
  match splitAt "|" (words c) with
  | ["T", "jni", k] :: ins =>
    match k.toNat?, ins.mapM (fun ts => match ts with | [t] => parseElems t | _ => none) with
    | some k, some ins => handleJoinN k ins obs
    | _, _ => ("bad-case", false, "unparsable case")
  -- `fi1` / `fi2`: FromIterator / FromIterator2 over a generator of n elements that counts its steps: the same bound
  | [["T", "fi1", n, take]] | [["T", "fi2", n, take]] =>
    match n.toNat? with
    | some n => handleAts n take obs
    | none => ("bad-case", false, "n")
  | [["T", "ats", n, take]] =>
    match n.toNat? with
    | some n => handleAts n take obs
    | none => ("bad-case", false, "n")
  | [["T", v, k], [l], [r]] =>
    match k.toNat?, parseElems l, parseElems r with
    | some k, some l, some r =>
      if v == "j2i" then handleJoin false k l r obs
      else if v == "j2l" then handleJoin true k l r obs
      else ("bad-case", false, "variant")
    | _, _, _ => ("bad-case", false, "unparsable case")
  | _ => ("bad-case", false, "unparsable case")

end ShpanVerif.Drive.C05Demand
