import ShpanVerif.Util.Parse
import ShpanVerif.Model.Lazy
import ShpanVerif.Model.LazyDsl
import ShpanVerif.Model.Terminals
/-
Driver handler for the "L ..." cases of C04 (lazy package, FromLazy, terminals, collectors, random sampling,
Iterator, remaining sources / thin operators).  Case grammar: harness/run/c04_ext.go.

For every case
  * the MODEL text is computed with the operational mirrors (Model/Lazy.lean, Model/Terminals.lean);
  * the SPEC verdict compares the observation of the real code with the meaning over plain options / lists,
    computed by separate, direct definitions below (`den`/`sup` for lazies, list functions for terminals).
Nondeterministic outcomes (map iteration order under Limit, random samples without a replayable oracle) are
decided by their predicate only.
-/
namespace ShpanVerif.Drive.C04Ext
open ShpanVerif.Util ShpanVerif.Model.Lazy ShpanVerif.Model.LazyDsl ShpanVerif.Model.Terminals

/-! ### text -/

def clsOf : Err → String
  | .user n => s!"e{n}"
  | .eof => "eof"
  | .cancelled => "cx"
  | .emptyDefault => "emptyd"
  | .emptyCustom t => s!"emptyc{t}"
  | .noFirst => "nofirst"
  | .noLast => "nolast"
  | .noFirstLast => "nofirstlast"
  | .dupKey => "dup"

def parseErr (t : String) : Option Err :=
  if t == "eof" then some .eof
  else if t == "cx" then some .cancelled
  else if t.startsWith "e" then (t.drop 1).toString.toNat?.map .user
  else none

/-- `nil` or an error token -/
def parseOptErr (t : String) : Option (Option Err) :=
  if t == "nil" then some none else (parseErr t).map some

def parseOptInt (t : String) : Option (Option Int) :=
  if t == "nil" then some none else t.toInt?.map some

/-- fetch result token: v<int> | nil | E -/
def parseFetch (t : String) : Option (Except Err (Option Int)) :=
  if t == "nil" then some (.ok none)
  else if t.startsWith "v" then (t.drop 1).toString.toInt?.map (fun v => .ok (some v))
  else (parseErr t).map .error

def parseCtx (t : String) : Option Ctx :=
  if t == "c0" then some ⟨false⟩ else if t == "c1" then some ⟨true⟩ else none

def fmtOpt : Option Int → String
  | none => "nil"
  | some v => toString v

def fmtBool (b : Bool) : String := if b then "t" else "f"

def fmtRes {α} (f : α → String) : Except Err α → String
  | .ok v => "ok " ++ f v
  | .error e => "err " ++ clsOf e

def fmtMust {α} (f : α → String) : Must α → String
  | .ret v => "ok " ++ f v
  | .panic e => "panic " ++ clsOf e

def fmtErrOnly : Option Err → String
  | none => "ok"
  | some e => "err " ++ clsOf e

/-! ### lazy expressions -/

def parsePred : String → Option Pred
  | "tt" => some .tt | "ff" => some .ff | "even" => some .even | "pos" => some .pos
  | "fail" => some .fail | "failodd" => some .failodd | "ctx" => some .ctx | _ => none

def parseFn : String → Option Fn
  | "id" => some .id | "add1" => some .add1 | "mul2" => some .mul2 | "neg" => some .neg
  | "fail" => some .fail | "failodd" => some .failodd | "ctx" => some .ctx | _ => none

def parsePFn : String → Option PFn
  | "keep" => some .keep | "drop" => some .drop | "evenonly" => some .evenonly | "add1" => some .add1
  | "fail" => some .fail | "failodd" => some .failodd | "ctx" => some .ctx | _ => none

def parseLFn : String → Option LFn
  | "fjust" => some .fjust | "fempty" => some .fempty | "ferr" => some .ferr
  | "femptyT" => some .femptyT | "fevenT" => some .fevenT | _ => none

def parseCFn : String → Option CFn
  | "cok" => some .cok | "cfail" => some .cfail | "cfailodd" => some .cfailodd | "cctx" => some .cctx | _ => none

def nameArg (t : String) : String × String :=
  match t.splitOn ":" with
  | [a] => (a, "")
  | a :: rest => (a, ":".intercalate rest)
  | [] => ("", "")

def variantOf (base name : String) : Option Variant :=
  if name == base then some .plain
  else if name == base ++ "E" then some .err
  else if name == base ++ "C" then some .ctx
  else none

/-- prefix-notation parser; `fuel` bounds the nesting depth -/
def parseExpr : Nat → List String → Option (LExpr × List String)
  | 0, _ => none
  | _, [] => none
  | fuel + 1, t :: ts =>
    let (name, arg) := nameArg t
    match name, ts with
    | "just", v :: r => v.toInt?.map (fun v => (.just v, r))
    | "jwe", v :: e :: r => do pure (.jwe (← v.toInt?) (← parseOptErr e), r)
    | "jopt", v :: r => do pure (.jopt (← parseOptInt v), r)
    | "jowe", v :: e :: r => do pure (.jowe (← parseOptInt v) (← parseOptErr e), r)
    | "joet", v :: tg :: r => do pure (.joet (← parseOptInt v) (← tg.toNat?), r)
    | "new", x :: r =>
      match parseFetch x with
      | some (.ok (some v)) => some (.new (.ok v), r)
      | some (.error e) => some (.new (.error e), r)
      | _ => none
    | "newc", r => some (.newc, r)
    | "nopt", x :: r => do pure (.nopt (← parseFetch x), r)
    | "noet", x :: tg :: r => do pure (.noet (← parseFetch x) (← tg.toNat?), r)
    | "empty", r => some (.empty, r)
    | "error", e :: r => do pure (.error (← parseErr e), r)
    | "oet", r => do
      let tag ← arg.toNat?
      let (x, r') ← parseExpr fuel r
      pure (.oet tag x, r')
    | "flatmap", r => do
      let f ← parseLFn arg
      let (x, r') ← parseExpr fuel r
      pure (.flatMap f x, r')
    | "or", r => do
      let (x, r1) ← parseExpr fuel r
      let (y, r2) ← parseExpr fuel r1
      pure (.or x y, r2)
    | _, r =>
      match variantOf "filter" name, variantOf "map" name, variantOf "mwf" name with
      | some v, _, _ => do
        let p ← parsePred arg
        let (x, r') ← parseExpr fuel r
        pure (.filter v p x, r')
      | _, some v, _ => do
        let f ← parseFn arg
        let (x, r') ← parseExpr fuel r
        pure (.map v f x, r')
      | _, _, some v => do
        let f ← parsePFn arg
        let (x, r') ← parseExpr fuel r
        pure (.mwf v f x, r')
      | _, _, _ => none

/-- MODEL: run a reader of Model/Lazy.lean on the built lazy -/
def runReader (reader arg : String) (l : Lazy Int) (ctx : Ctx) : Option String :=
  match reader with
  | "get" => some (fmtRes toString (l.get ctx))
  | "getopt" => some (fmtRes fmtOpt (l.getOptional ctx))
  | "mustgetopt" => some (fmtMust fmtOpt l.mustGetOptional)
  | "mustget" => some (fmtMust toString l.mustGet)
  | "orelse" => arg.toInt?.map (fun d => fmtRes toString (l.orElse ctx d))
  | "mustorelse" => arg.toInt?.map (fun d => fmtMust toString (l.mustOrElse d))
  | "orelseget" => arg.toInt?.map (fun d =>
      let r := l.orElseGet ctx (fun _ => d); s!"{fmtRes toString r.1} alt={r.2}")
  | "mustorelseget" => arg.toInt?.map (fun d =>
      let r := l.mustOrElseGet (fun _ => d); s!"{fmtMust toString r.1} alt={r.2}")
  | "isempty" => some (fmtRes fmtBool (l.isEmpty ctx))
  | "mustisempty" => some (fmtMust fmtBool l.mustIsEmpty)
  | "consume" => let r := l.consume ctx; some s!"calls={fmtIntList r.1} {fmtErrOnly r.2}"
  | "mustconsume" =>
    let r := l.mustConsume
    some s!"calls={fmtIntList r.1} {match r.2 with | .ret _ => "ok" | .panic e => "panic " ++ clsOf e}"
  | "consumeE" => (parseCFn arg).bind (fun c =>
      if c.level > 1 then none else
      let r := l.consumeWithErr ctx (c.eval .background); some s!"calls={fmtIntList r.1} {fmtErrOnly r.2}")
  | "consumeC" => (parseCFn arg).map (fun c =>
      let r := l.consumeWithErrAndCtx ctx c.eval; s!"calls={fmtIntList r.1} {fmtErrOnly r.2}")
  | "fromlazy" => some (fmtRes fmtIntList ((Src.fromLazy l ctx).collect ctx))
  | "fromlazycount" => some (fmtRes toString ((Src.fromLazy l ctx).count ctx))
  | _ => none

/-- SPEC: what the reader must answer, from the option-level meaning `d c` (for each context) and the
empty-value error `sup` — independent of Model/Lazy.lean -/
def specReader (reader arg : String) (d : Ctx → Except Err (Option Int)) (sup : Err) (ctx : Ctx) : Option String :=
  let bg : Ctx := ⟨false⟩
  let getOf (r : Except Err (Option Int)) : Except Err Int :=
    r >>= fun o => match o with | some v => pure v | none => throw sup
  let mustOf {α} (f : α → String) (r : Except Err α) : String :=
    match r with | .ok v => "ok " ++ f v | .error e => "panic " ++ clsOf e
  let consumeOf (f : Int → Option Err) (word : String) (r : Except Err (Option Int)) : String :=
    match r with
    | .error e => s!"calls=- {word} {clsOf e}"
    | .ok none => "calls=- ok"
    | .ok (some v) => s!"calls={v} " ++ (match f v with | none => "ok" | some e => s!"{word} {clsOf e}")
  match reader with
  | "get" => some (fmtRes toString (getOf (d ctx)))
  | "getopt" => some (fmtRes fmtOpt (d ctx))
  | "mustgetopt" => some (mustOf fmtOpt (d bg))
  | "mustget" => some (mustOf toString (getOf (d bg)))
  | "orelse" => arg.toInt?.map (fun dv => fmtRes toString ((d ctx).map (·.getD dv)))
  | "mustorelse" => arg.toInt?.map (fun dv => mustOf toString ((d bg).map (·.getD dv)))
  | "orelseget" => arg.toInt?.map (fun dv =>
      s!"{fmtRes toString ((d ctx).map (·.getD dv))} alt={if d ctx matches .ok none then 1 else 0}")
  | "mustorelseget" => arg.toInt?.map (fun dv =>
      s!"{mustOf toString ((d bg).map (·.getD dv))} alt={if d bg matches .ok none then 1 else 0}")
  | "isempty" => some (fmtRes fmtBool ((d ctx).map (·.isNone)))
  | "mustisempty" => some (mustOf fmtBool ((d bg).map (·.isNone)))
  | "consume" => some (consumeOf (fun _ => none) "err" (d ctx))
  | "mustconsume" => some (consumeOf (fun _ => none) "panic" (d bg))
  | "consumeE" => (parseCFn arg).bind (fun c =>
      if c.level > 1 then none else some (consumeOf (c.eval bg) "err" (d ctx)))
  | "consumeC" => (parseCFn arg).map (fun c => consumeOf (c.eval ctx) "err" (d ctx))
  | "fromlazy" =>
    some (if ctx.cancelled then "err cx" else fmtRes fmtIntList ((d ctx).map Option.toList))
  | "fromlazycount" =>
    some (if ctx.cancelled then "err cx" else fmtRes toString ((d ctx).map (fun o => o.toList.length)))
  | _ => none

def handleLazy (toks : List String) (obs : String) : String × Bool × String :=
  match toks with
  | c :: rd :: rest =>
    let (reader, arg) := nameArg rd
    match parseCtx c, parseExpr (rest.length + 1) rest with
    | some ctx, some (e, []) =>
      if !e.wf then ("bad-case", false, "function does not fit the API variant") else
      match runReader reader arg e.build ctx, specReader reader arg e.den e.sup ctx with
      | some m, some want => (m, obs == want, if obs == want then "" else s!"want {want}")
      | _, _ => ("bad-case", false, "unknown reader")
    | _, _ => ("bad-case", false, "unparsable lazy case")
  | _ => ("bad-case", false, "unparsable lazy case")

/-! ### streams given as `<ints>` or `<ints>!<E>` -/

def parseSrc (t : String) : Option (List Int × Option Err) :=
  match t.splitOn "!" with
  | [a] => (parseIntList a).map (fun l => (l, none))
  | [a, e] => do pure (← parseIntList a, some (← parseErr e))
  | _ => none

def mkSrc (xs : List Int) (fail : Option Err) : Src Int := { elems := xs, fail := fail }

/-- SPEC: what a terminal that reads to the end gets: the list, or the first error -/
def delivered (xs : List Int) (fail : Option Err) (ctx : Ctx) : Except Err (List Int) :=
  if ctx.cancelled then .error .cancelled else match fail with | some e => .error e | none => .ok xs

/-! ### terminals -/

def reducerOf : String → Option (Int → Int → Except Err Int)
  | "sum" => some (fun a v => .ok (a + v))
  | "digits" => some (fun a v => .ok (a * 10 + v))
  | "last" => some (fun _ v => .ok v)
  | "rfail2" => some (fun a v => if v == 2 then .error (.user 5) else .ok (a + v))
  | _ => none

def pureOf (r : Int → Int → Except Err Int) (a v : Int) : Int :=
  match r a v with | .ok x => x | .error _ => a

def fmtBoth {α} (f : α → String) (l : Lazy α) (ctx : Ctx) : String :=
  "get " ++ fmtRes f (l.get ctx) ++ " | opt " ++
    (match l.getOptional ctx with
     | .error e => "err " ++ clsOf e
     | .ok none => "ok nil"
     | .ok (some v) => "ok " ++ f v)

def fmtPair (p : Int × Int) : String := s!"{p.1}:{p.2}"

def modelTerm (name : List String) (s : Src Int) (ctx : Ctx) : Option String :=
  match name with
  | ["collect"] => some (fmtRes fmtIntList (s.collect ctx))
  | ["mustcollect"] => some (fmtMust fmtIntList s.mustCollect)
  | ["count"] => some (fmtRes toString (s.count ctx))
  | ["mustcount"] => some (fmtMust toString s.mustCount)
  | ["findfirst"] => some (fmtBoth toString s.findFirst ctx)
  | ["findlast"] => some (fmtBoth toString s.findLast ctx)
  | ["firstlast"] => some (fmtBoth fmtPair (Src.findFirstAndLast s) ctx)
  | ["isempty"] => some (fmtRes fmtBool (s.isEmpty ctx))
  | ["min"] => some (fmtRes toString (s.min ctx))
  | ["max"] => some (fmtRes toString (s.max ctx))
  | ["mustmin"] => some (fmtMust toString s.mustMin)
  | ["mustmax"] => some (fmtMust toString s.mustMax)
  | ["minlazy"] => some (fmtBoth toString s.minLazy ctx)
  | ["maxlazy"] => some (fmtBoth toString s.maxLazy ctx)
  | [kind, r, init] => do
    let f ← reducerOf r
    let i ← init.toInt?
    match kind with
    | "reduce" => if r == "rfail2" then none else some (fmtRes toString (s.reduce ctx i (pureOf f)))
    | "reduceE" => some (fmtRes toString (s.reduceWithErr ctx i f))
    | "mustreduce" => if r == "rfail2" then none else some (fmtMust toString (s.mustReduce i (pureOf f)))
    | "reducelazy" => if r == "rfail2" then none else some (fmtBoth toString (s.reduceLazy i (pureOf f)) ctx)
    | _ => none
  | _ => none

/-- `get … | opt …` of a terminal that returns a Lazy, from the list-level answer -/
def specBoth {α} (f : α → String) (r : Except Err (Option α)) (emptyErr : Err) : String :=
  match r with
  | .error e => s!"get err {clsOf e} | opt err {clsOf e}"
  | .ok none => s!"get err {clsOf emptyErr} | opt ok nil"
  | .ok (some v) => s!"get ok {f v} | opt ok {f v}"

def asMust {α} (f : α → String) (r : Except Err α) : String :=
  match r with | .ok v => "ok " ++ f v | .error e => "panic " ++ clsOf e

def maxOf : List Int → Int
  | [] => 0
  | x :: xs => xs.foldl (fun a b => if a < b then b else a) x
def minOf : List Int → Int
  | [] => 0
  | x :: xs => xs.foldl (fun a b => if b < a then b else a) x

def specTerm (name : List String) (xs : List Int) (fail : Option Err) (ctx : Ctx) : Option String :=
  let bg : Ctx := ⟨false⟩
  let d := delivered xs fail ctx
  let dbg := delivered xs fail bg
  -- what Limit(1) lets through: the head if there is one, else the provider's end
  let first : Except Err (Option Int) :=
    if ctx.cancelled then .error .cancelled else
    match xs with
    | x :: _ => .ok (some x)
    | [] => match fail with | some e => .error e | none => .ok none
  match name with
  | ["collect"] => some (fmtRes fmtIntList d)
  | ["mustcollect"] => some (asMust fmtIntList dbg)
  | ["count"] => some (fmtRes toString (d.map List.length))
  | ["mustcount"] => some (asMust toString (dbg.map List.length))
  | ["findfirst"] => some (specBoth toString first .noFirst)
  | ["findlast"] => some (specBoth toString (d.map List.getLast?) .noLast)
  | ["firstlast"] => some (specBoth fmtPair
      (d.map (fun l => match l.head?, l.getLast? with | some a, some b => some (a, b) | _, _ => none)) .noFirstLast)
  | ["isempty"] => some (fmtRes fmtBool (first.map (·.isNone)))
  | ["min"] => some (fmtRes toString (d.map minOf))
  | ["max"] => some (fmtRes toString (d.map maxOf))
  | ["mustmin"] => some (asMust toString (dbg.map minOf))
  | ["mustmax"] => some (asMust toString (dbg.map maxOf))
  | ["minlazy"] => some (specBoth toString (d.map (fun l => some (minOf l))) .emptyDefault)
  | ["maxlazy"] => some (specBoth toString (d.map (fun l => some (maxOf l))) .emptyDefault)
  | [kind, r, init] => do
    let f ← reducerOf r
    let i ← init.toInt?
    -- the reducer's first error wins, then the provider's end
    let folded : Ctx → Except Err Int := fun c =>
      if c.cancelled then .error .cancelled else
      match xs.foldlM f i with
      | .error e => .error e
      | .ok v => match fail with | some e => .error e | none => .ok v
    match kind with
    | "reduce" => if r == "rfail2" then none else some (fmtRes toString (folded ctx))
    | "reduceE" => some (fmtRes toString (folded ctx))
    | "mustreduce" => if r == "rfail2" then none else some (asMust toString (folded bg))
    | "reducelazy" => if r == "rfail2" then none else some (specBoth toString ((folded ctx).map some) .emptyDefault)
    | _ => none
  | _ => none

def handleTerm (toks : List String) (obs : String) : String × Bool × String :=
  match toks with
  | [c, t, src] =>
    match parseCtx c, parseSrc src with
    | some ctx, some (xs, fail) =>
      match modelTerm (t.splitOn ":") (mkSrc xs fail) ctx, specTerm (t.splitOn ":") xs fail ctx with
      | some m, some want => (m, obs == want, if obs == want then "" else s!"want {want}")
      | _, _ => ("bad-case", false, "unknown terminal")
    | _, _ => ("bad-case", false, "unparsable term case")
  | _ => ("bad-case", false, "unparsable term case")

/-! ### collectors -/

def keyOf : String → Option (Int → Int)
  | "mod2" => some (fun x => x.tmod 2)
  | "mod3" => some (fun x => x.tmod 3)
  | "self" => some id
  | "const" => some (fun _ => 0)
  | _ => none

def insertSorted {ν} (p : Int × ν) : List (Int × ν) → List (Int × ν)
  | [] => [p]
  | q :: r => if p.1 ≤ q.1 then p :: q :: r else q :: insertSorted p r

def sortByKey {ν} (m : List (Int × ν)) : List (Int × ν) := m.foldr insertSorted []

def fmtMap {ν} (f : ν → String) (m : List (Int × ν)) : String :=
  fmtList (fun (p : Int × ν) => s!"{p.1}={f p.2}") (sortByKey m)

def modelColl (name arg : String) (s : Src Int) (ctx : Ctx) : Option String :=
  match name with
  | "tomap" => (keyOf arg).map (fun k => fmtRes (fmtMap toString) (s.collectToMap ctx (fun x => (k x, x * 10 + 1))))
  | "toset" => some (fmtRes (fmtMap fmtBool) (s.collectToSet ctx))
  | "musttoset" => some (fmtMust (fmtMap fmtBool) s.mustCollectToSet)
  | "countby" => (keyOf arg).map (fun k => fmtRes (fmtMap toString) (s.collectCountGroupedBy ctx k))
  | "override" => (keyOf arg).map (fun k => fmtRes (fmtMap toString) (s.collectToMapOverrideDuplicates ctx k))
  | _ => none

/-- distinct keys in ascending order -/
def distinctKeys (ks : List Int) : List Int :=
  (sortByKey (ks.map (fun k => (k, ())))).map (·.1) |>.eraseDups

def hasDup : List Int → Bool
  | [] => false
  | x :: xs => xs.contains x || hasDup xs

/-- SPEC: association semantics straight from the list -/
def specColl (name arg : String) (xs : List Int) (fail : Option Err) (ctx : Ctx) : Option String :=
  let assoc {ν} (f : ν → String) (k : Int → Int) (val : Int → ν) : List Int → String := fun l =>
    fmtList (fun key => s!"{key}={f (val key)}") (distinctKeys (l.map k))
  let lastOf (k : Int → Int) (l : List Int) (key : Int) : Int := (l.reverse.find? (fun x => k x == key)).getD 0
  let errOrDup (c : Ctx) (k : Int → Int) : Option Err :=
    if c.cancelled then some .cancelled
    else if hasDup (xs.map k) then some .dupKey     -- the duplicate is met before the provider's end
    else fail
  match name with
  | "tomap" => (keyOf arg).map (fun k =>
      match errOrDup ctx k with
      | some e => "err " ++ clsOf e
      | none => "ok " ++ assoc toString k (fun key => lastOf k xs key * 10 + 1) xs)
  | "toset" => some (
      match errOrDup ctx id with
      | some e => "err " ++ clsOf e
      | none => "ok " ++ assoc fmtBool id (fun _ => true) xs)
  | "musttoset" => some (
      match errOrDup ⟨false⟩ id with
      | some e => "panic " ++ clsOf e
      | none => "ok " ++ assoc fmtBool id (fun _ => true) xs)
  | "countby" => (keyOf arg).map (fun k =>
      fmtRes (assoc toString k (fun key => xs.countP (fun x => k x == key))) (delivered xs fail ctx))
  | "override" => (keyOf arg).map (fun k =>
      fmtRes (assoc toString k (lastOf k xs)) (delivered xs fail ctx))
  | _ => none

def handleColl (toks : List String) (obs : String) : String × Bool × String :=
  match toks with
  | [c, t, src] =>
    let (name, arg) := nameArg t
    match parseCtx c, parseSrc src with
    | some ctx, some (xs, fail) =>
      match modelColl name arg (mkSrc xs fail) ctx, specColl name arg xs fail ctx with
      | some m, some want => (m, obs == want, if obs == want then "" else s!"want {want}")
      | _, _ => ("bad-case", false, "unknown collector")
    | _, _ => ("bad-case", false, "unparsable coll case")
  | _ => ("bad-case", false, "unparsable coll case")

/-! ### random sampling -/

/-- multiset inclusion -/
def subMultiset : List Int → List Int → Bool
  | [], _ => true
  | x :: xs, ys => if ys.contains x then subMultiset xs (ys.erase x) else false

def kvArg (pre t : String) : Option String :=
  if t.startsWith pre then some (t.drop pre.length).toString else none

def handleSample (toks : List String) (obs : String) : String × Bool × String :=
  match toks with
  | [c, form, kt, _seed, src] =>
    match parseCtx c, (kvArg "k=" kt).bind String.toInt?, parseSrc src with
    | some ctx, some k, some (xs, fail) =>
      if form != "collect" && form != "stream" then ("bad-case", false, "unknown form") else
      let s := mkSrc xs fail
      let run (oracle : Nat → Nat) : Except Err (List Int) :=
        if form == "collect" then s.collectRandomSample ctx k oracle
        else (s.randomSample ctx k oracle).collect ctx
      -- does the stream get materialised at all, and does that fail?
      let failure : Option Err :=
        if form == "collect" && k ≤ 0 then none
        else if ctx.cancelled then some .cancelled
        else if k ≤ 0 then none
        else fail
      match failure with
      | some e =>
        let want := "err " ++ clsOf e
        (fmtRes fmtIntList (run (fun _ => 0)), obs == want, if obs == want then "" else s!"want {want}")
      | none =>
        -- observation: "ok <list> orc=<answers|?>"
        match words obs with
        | ["ok", lst, orc] =>
          match parseIntList lst, kvArg "orc=" orc with
          | some r, some o =>
            let n := xs.length
            let kk := k.toNat
            let okLen := r.length == min kk n
            let okSub := subMultiset r xs
            let okAll := !(n ≤ kk) || r == xs
            let pred := okLen && okSub && okAll
            let why := if !okLen then s!"sample length {r.length}, want min({kk},{n})"
              else if !okSub then "sample is not a sub-multiset of the input"
              else if !okAll then "n <= k but the sample is not the input" else ""
            if o == "?" then
              -- no replayable oracle: only the predicate decides; the model cannot name one outcome
              (if pred then obs else fmtRes fmtIntList (run (fun _ => 0)) ++ " orc=?", pred, why)
            else
              match parseNatList o with
              | some answers =>
                let oracle : Nat → Nat := fun index => answers.getD (index - kk) 0
                let inRange := (answers.zipIdx.all (fun (a, i) => a ≤ kk + i)) &&
                  answers.length == (if k ≤ 0 then 0 else n - kk)
                (fmtRes fmtIntList (run oracle) ++ " orc=" ++ o, pred && inRange,
                  if !pred then why else if !inRange then "oracle answers out of range / wrong number of rand.Intn calls" else "")
              | none => ("bad-obs", false, "unparsable oracle")
          | _, _ => (fmtRes fmtIntList (run (fun _ => 0)), false, "unparsable sample observation")
        | _ => (fmtRes fmtIntList (run (fun _ => 0)) ++ " orc=-", false, "want ok <sample> orc=<answers>")
    | _, _, _ => ("bad-case", false, "unparsable sample case")
  | _ => ("bad-case", false, "unparsable sample case")

/-! ### Iterator -/

def contAt (j : Option Nat) (n : Nat) : Bool :=
  match j with | none => true | some j => n != j

def handleIter (toks : List String) (obs : String) : String × Bool × String :=
  match toks with
  | [idx, brk, src] =>
    let j : Option (Option Nat) :=
      match kvArg "break=" brk with
      | some "-" => some none
      | some t => t.toNat?.map some
      | none => none
    match j, parseSrc src with
    | some j, some (xs, fail) =>
      let s := mkSrc xs fail
      let fmtM : Must Unit → String := fun m => match m with | .ret _ => "done" | .panic e => "panic " ++ clsOf e
      -- SPEC: the loop body sees the first j+1 elements; panic iff the error is reached before the break
      let pre := match j with | none => xs | some j => xs.take (j + 1)
      let broke := match j with | none => false | some j => decide (j < xs.length)
      let fin := match fail with | some e => if broke then "done" else "panic " ++ clsOf e | none => "done"
      -- the loop makes the source hand out exactly the elements it sees (C05: a broken-out Iterator stops pulling)
      let pulledS := s!" pulled={pre.length}"
      if idx == "idx=0" then
        let r := s.iterator (fun (seen : List Int) v => (seen ++ [v], contAt j seen.length)) []
        let want := s!"seen={fmtIntList pre} {fin}" ++ pulledS
        (s!"seen={fmtIntList r.1} {fmtM r.2}" ++ pulledS, obs == want, if obs == want then "" else s!"want {want}")
      else if idx == "idx=1" then
        let r := s.indexedIterator (fun (seen : List (Nat × Int)) i v => (seen ++ [(i, v)], contAt j seen.length)) []
        let fmtP := fmtList (fun (p : Nat × Int) => s!"{p.1}:{p.2}")
        let want := s!"seen={fmtList (fun (p : Int × Nat) => s!"{p.2}:{p.1}") pre.zipIdx} {fin}" ++ pulledS
        (s!"seen={fmtP r.1} {fmtM r.2}" ++ pulledS, obs == want, if obs == want then "" else s!"want {want}")
      else ("bad-case", false, "unknown iterator form")
    | _, _ => ("bad-case", false, "unparsable iter case")
  | _ => ("bad-case", false, "unparsable iter case")

/-! ### sources and thin operators -/

def streamFn : String → Option (Int → Src Int)
  | "pair" => some (fun x => Src.just [x, x + 1])
  | "none" => some (fun _ => Src.empty)
  | "rep" => some (fun x => Src.fromSlice (List.replicate (min x 3).toNat x))
  | "errodd" => some (fun x => if x.tmod 2 != 0 then Src.error (.user 4) else Src.just [x])
  | _ => none

/-- the map `m[x] = 10*i+1` (i = index of the last occurrence of x), as the model's association list -/
def mapOf (xs : List Int) : GoMap Int Int :=
  xs.zipIdx.foldl (fun m (p : Int × Nat) => m.set p.1 (10 * (p.2 : Int) + 1)) []

def fmtEntries (l : List (Int × Int)) : String := fmtList (fun (p : Int × Int) => s!"{p.1}:{p.2}") l

def sortInts (l : List Int) : List Int := (sortByKey (l.map (fun k => (k, ())))).map (·.1)

def applyLim {α} (lim : Option Nat) (s : Src α) : Src α :=
  match lim with | none => s | some n => s.limit n

/-- SPEC helpers over plain lists: the delivered prefix and how it ends -/
def specLim {α} (lim : Option Nat) (r : List α × Option Err) : List α × Option Err :=
  match lim with
  | none => r
  | some n => (r.1.take n, if r.1.length < n then r.2 else none)

def specMwf (f : Int → Except Err (Option Int)) : List Int → Option Err → List Int × Option Err
  | [], fail => ([], fail)
  | x :: xs, fail =>
    match f x with
    | .error e => ([], some e)
    | .ok o => let r := specMwf f xs fail; (o.toList ++ r.1, r.2)

def specFlat (f : Int → List Int × Option Err) : List Int → Option Err → List Int × Option Err
  | [], fail => ([], fail)
  | x :: xs, fail =>
    match f x with
    | (l, some e) => (l, some e)
    | (l, none) => let r := specFlat f xs fail; (l ++ r.1, r.2)

def specStreamFn : String → Option (Int → List Int × Option Err)
  | "pair" => some (fun x => ([x, x + 1], none))
  | "none" => some (fun _ => ([], none))
  | "rep" => some (fun x => (if x ≤ 0 then [] else List.replicate (if x < 3 then x.toNat else 3) x, none))
  | "errodd" => some (fun x => if x.tmod 2 != 0 then ([], some (.user 4)) else ([x], none))
  | _ => none

def handleSrc (toks : List String) (obs : String) : String × Bool × String :=
  match toks with
  | [c, limT, kindT, src] =>
    let lim : Option (Option Nat) :=
      match kvArg "lim=" limT with
      | some "-" => some none
      | some t => t.toNat?.map some
      | none => none
    match parseCtx c, lim, parseSrc src with
    | some ctx, some lim, some (xs, fail) =>
      let parts := kindT.splitOn ":"
      let base := mkSrc xs fail
      let plain := fail.isNone
      let cmp (m want : String) : String × Bool × String := (m, obs == want, if obs == want then "" else s!"want {want}")
      let outInts (s : Src Int) : String := fmtRes fmtIntList ((applyLim lim s).collect ctx)
      -- SPEC: (delivered prefix, end) → observation text
      let specOut (r : List Int × Option Err) : String :=
        if ctx.cancelled then "err cx" else
        let r := specLim lim r
        match r.2 with | some e => "err " ++ clsOf e | none => "ok " ++ fmtIntList r.1
      match parts with
      | ["slice"] => if !plain then ("bad-case", false, "") else cmp (outInts (Src.fromSlice xs)) (specOut (xs, none))
      | ["just"] => if !plain then ("bad-case", false, "") else cmp (outInts (Src.just xs)) (specOut (xs, none))
      | ["iter"] => if !plain then ("bad-case", false, "") else cmp (outInts (Src.fromIterator xs)) (specOut (xs, none))
      | ["chan"] => if !plain then ("bad-case", false, "") else cmp (outInts (Src.fromChannel xs)) (specOut (xs, none))
      | ["empty"] => cmp (outInts Src.empty) (specOut ([], none))
      | ["error", e] =>
        match parseErr e with
        | some e =>
          -- opening fails before the context is looked at; Limit(0) never opens the stream
          let want := if lim == some 0 then (if ctx.cancelled then "err cx" else "ok -") else "err " ++ clsOf e
          cmp (outInts (Src.error e)) want
        | none => ("bad-case", false, "bad error token")
      | ["iter2"] =>
        if !plain then ("bad-case", false, "") else
        let pairs : List (Int × Int) := xs.zipIdx.map (fun (p : Int × Nat) => ((p.2 : Int), p.1))
        let m := fmtRes fmtEntries ((applyLim lim (Src.fromIterator2 pairs)).collect ctx)
        let want := if ctx.cancelled then "err cx" else "ok " ++ fmtEntries ((specLim lim (pairs, none)).1)
        cmp m want
      | [kind] =>
        if kind == "mapkeys" || kind == "mapvalues" || kind == "mapentries" then
          if !plain then ("bad-case", false, "") else
          -- the map's entries, straight from the list: key x ↦ 10 * (last index of x) + 1
          let entries : List (Int × Int) := (distinctKeys xs).map (fun k =>
            (k, 10 * ((xs.zipIdx.reverse.find? (fun (p : Int × Nat) => p.1 == k)).map (fun p => (p.2 : Int))).getD 0 + 1))
          let mm := mapOf xs
          let full : List String :=
            if kind == "mapkeys" then (sortInts (entries.map (·.1))).map toString
            else if kind == "mapvalues" then (sortInts (entries.map (·.2))).map toString
            else entries.map (fun p => s!"{p.1}:{p.2}")
          let modelFull : String :=
            if kind == "mapkeys" then fmtRes (fun l => fmtIntList (sortInts l)) ((Src.fromMapKeys mm).collect ctx)
            else if kind == "mapvalues" then fmtRes (fun l => fmtIntList (sortInts l)) ((Src.fromMapValues mm).collect ctx)
            else fmtRes (fun l => fmtEntries (sortByKey l)) ((Src.fromMapEntries mm).collect ctx)
          if ctx.cancelled then cmp modelFull "err cx" else
          match lim with
          | none => cmp modelFull ("ok " ++ fmtList id full)
          | some n =>
            -- which entries a limited read of a map delivers is up to the runtime: decided by the predicate
            -- (sorted output, distinct members of the full result, min(n, size) of them)
            match words obs with
            | ["ok", lst] =>
              let got := if lst == "-" then [] else lst.splitOn ","
              let ok := got.length == min n full.length && got.all (fun t => full.contains t) &&
                got.eraseDups.length == got.length
              (if ok then obs else "ok " ++ fmtList id (full.take n), ok,
                if ok then "" else s!"want {min n full.length} distinct members of {fmtList id full}")
            | _ => ("ok " ++ fmtList id (full.take n), false, "want ok <members>")
        else if kind == "peek" then
          let s := applyLim lim base.peek
          let calls : List Int := if ctx.cancelled then [] else s.elems
          let m := fmtRes fmtIntList (s.collect ctx) ++ " calls=" ++ fmtIntList calls
          let r := specLim lim (xs, fail)
          let want := if ctx.cancelled then "err cx calls=-" else specOut (xs, fail) ++ " calls=" ++ fmtIntList r.1
          cmp m want
        else if kind == "untyped" then cmp (outInts base.untyped) (specOut (xs, fail))
        else ("bad-case", false, "unknown source kind")
      | [kind, arg] =>
        if kind == "mwf" || kind == "mwfE" then
          match parsePFn arg with
          | some g =>
            if g.level > (if kind == "mwf" then 0 else 1) then ("bad-case", false, "function does not fit the variant") else
            cmp (outInts (base.mapWhileFilteringE (g.eval ⟨false⟩))) (specOut (specMwf (g.eval ⟨false⟩) xs fail))
          | none => ("bad-case", false, "unknown function")
        else if kind == "flatmap" then
          match streamFn arg, specStreamFn arg with
          | some h, some hs => cmp (outInts (base.flatMap h)) (specOut (specFlat hs xs fail))
          | _, _ => ("bad-case", false, "unknown function")
        else ("bad-case", false, "unknown source kind")
      | ["page", p, sz] =>
        match p.toInt?, sz.toInt? with
        | some pn, some ps =>
          let want :=
            if pn < 0 || ps ≤ 0 then specOut ([], none)
            else
              let off := (pn * ps).toNat
              specOut ((xs.drop off).take ps.toNat, if xs.length < off + ps.toNat then fail else none)
          cmp (outInts (base.page pn ps)) want
        | _, _ => ("bad-case", false, "bad page arguments")
      | _ => ("bad-case", false, "unknown source kind")
    | _, _, _ => ("bad-case", false, "unparsable src case")
  | _ => ("bad-case", false, "unparsable src case")

/-- `L samplecov <form> k=<k> n=<n> draws=<N> seed=<s>`, observation `ok inc=<c_0,…,c_{n-1}>`.
Spec-only (a statistical statement about the real generator, not a theorem): over plain slices random sampling is a
uniformly random k-subset, so element i is included with probability p = min(k,n)/n; over N draws its count must be
positive and within N/10 of p·N (N ≥ 4000: more than 12 standard deviations; for k ≥ n the count is exactly N). -/
def handleSampleCov (ts : List String) (obs : String) : String × Bool × String :=
  match ts with
  | [_, k, n, draws, _] =>
    match kvArg "k=" k |>.bind String.toNat?, kvArg "n=" n |>.bind String.toNat?, kvArg "draws=" draws |>.bind String.toNat? with
    | some k, some n, some N =>
      match words obs with
      | ["ok", inc] =>
        match kvArg "inc=" inc |>.bind (fun s => if s == "-" then some [] else parseNatList s) with
        | some cs =>
          let kk := min k n
          -- |c·n − kk·N| ≤ N·n/10  and  c > 0
          let bad := cs.zipIdx.find? (fun (c, _) =>
            c == 0 || (if kk == n then c != N else (if c * n ≥ kk * N then c * n - kk * N else kk * N - c * n) * 10 > N * n))
          if cs.length != n then (obs, false, "one count per element expected")
          else match bad with
            | none => (obs, true, "")
            | some (c, i) => (obs, false,
                s!"element at index {i} was included in {c} of {N} samples of size {k} out of {n}; a uniform k-subset gives about {kk * N / n}")
        | none => (obs, false, "unparsable counts")
      | _ => (obs, false, s!"sampling failed: {obs}")
    | _, _, _ => ("bad-case", false, "unparsable samplecov case")
  | _ => ("bad-case", false, "unparsable samplecov case")

/-- entry point: `c` starts with the token `L` -/
def handle (c obs : String) : String × Bool × String :=
  match words c with
  | "L" :: "lazy" :: rest => handleLazy rest obs
  | "L" :: "term" :: rest => handleTerm rest obs
  | "L" :: "coll" :: rest => handleColl rest obs
  | "L" :: "sample" :: rest => handleSample rest obs
  | "L" :: "samplecov" :: rest => handleSampleCov rest obs
  | "L" :: "iter" :: rest => handleIter rest obs
  | "L" :: "src" :: rest => handleSrc rest obs
  | _ => ("bad-case", false, "unknown L case")

end ShpanVerif.Drive.C04Ext
