import ShpanVerif.Drive.ConcAccept
/-
Driver handler for C02.  Case / observation format: harness/run/conc_util.go.

spec predicate (independent of the model): replay the linearised provider log — `o` Open returned, `s<g>` Emit started
on goroutine g, `r<g>…` Emit returned, `C<g>:<k>` Close called while k Emits were running — and check the three clauses:
every `s` after `o` and before `C` (window), never two Emits running (exclusive), no `C` while an Emit runs (k = 0 and
no unmatched `s`); the provider's own atomic observations (`flags`) must be empty as well.
No known finding remains for C02 (D5 was repaired by fix 784d281): every failure is a violation.

model output: the observation is echoed iff the model admits it:
  * concurrent map, scripted, small (n ≤ 6, c ≤ 3): trace acceptance (`acceptCmap`, τ-closure over the transition system);
  * otherwise the theorem-level statement: none of the four mechanisms admits a violating log
    (`C02_concmap`, `C02_consume`, `C02_buffered`, `C02_pipe`).
-/
namespace ShpanVerif.Drive.C02
open ShpanVerif.Util ShpanVerif.Model ShpanVerif.Drive.Conc

structure Scan where
  opened : Bool := false
  closed : Bool := false
  inflight : Nat := 0
  sawEof : Bool := false        -- an Emit returned io.EOF before the first Close
  viol : List Char := []

def addV (v : Char) (l : List Char) : List Char := if l.contains v then l else l ++ [v]

def scanEv (sc : Scan) (ev : String) : Scan :=
  match ev.toList with
  | 'o' :: _ => { sc with opened := true, closed := false }   -- a (re-)materialisation opens the provider again
  | 's' :: _ =>
    let v := sc.viol
    let v := if !sc.opened then addV 'B' v else v
    let v := if sc.closed then addV 'A' v else v
    let v := if sc.inflight ≥ 1 then addV 'O' v else v
    { sc with inflight := sc.inflight + 1, viol := v }
  | 'r' :: rest =>
    { sc with inflight := sc.inflight - 1, sawEof := sc.sawEof || (!sc.closed && rest.getLast? == some 'e') }
  | 'C' :: _ =>
    let k := match ev.splitOn ":" with
      | [_, b] => (b.toNat?).getD 0
      | _ => 0
    let v := if sc.inflight > 0 || k > 0 then addV 'D' sc.viol else sc.viol
    { sc with closed := true, viol := v }
  | _ => sc

def scanLog (o : Obs) : Scan :=
  let sc := o.plog.foldl scanEv {}
  -- union with what the provider itself observed
  let fl := if o.flags == "-" then [] else o.flags.toList
  { sc with viol := fl.foldl (fun v c => addV c v) sc.viol }

def hasCmap (c : Case) : Bool := c.op == "cmap" || c.op == "nest"

def spec (c : Case) (o : Obs) : Bool × String :=
  if c.trials > 1 then (true, "") else
  if (o.res.splitOn "/").any (fun r => r == "hang" || r == "crash" || r == "panic") then
    (false, s!"run ended with {o.res}") else
  let sc := scanLog o
  if sc.viol.isEmpty then (true, "")
  else
    let vs := String.ofList sc.viol
    (false, s!"provider contract violated: {vs} (B=emit before open, A=emit after close, O=two emits at once, D=close during emit)")

def model (c : Case) (o : Obs) (obsText : String) : String :=
  if c.trials > 1 then obsText else
  let sc := scanLog o
  -- `bare=1`: the source is a provider function without lifecycle elements (outside the modelled Open/Close protocol);
  -- spec-only: the log must be violation-free, which is what the theorems say about every admitted log
  if c.op == "cmap" && c.sync && !c.kv.flag "bare" && !c.kv.flag "outerr" && !c.kv.flag "twice" then
    match acceptCmap c o with
    | "accepted" => obsText
    | "skipped" => if sc.viol.isEmpty then obsText else "model(C02_concmap) admits no violating log"
    | why => s!"model(ConcMap) {why}"
  else if sc.viol.isEmpty then obsText
  else s!"model(C02_{if hasCmap c then "concmap" else c.op}) admits no violating log"

def handle (cs obs : String) : String × Bool × String :=
  match parseCase cs with
  | none => ("bad-case", false, "unparsable case")
  | some c =>
    let o := parseObs obs
    let (ok, why) := spec c o
    (model c o obs, ok, why)

end ShpanVerif.Drive.C02
