import ShpanVerif.Drive.ConcAccept
/-
Driver handler for C07.  Case / observation format: harness/run/conc_util.go.

spec predicate (independent of the model):
  * the terminal returned within the watchdog (`hang=-`), the process did not crash, nothing panicked through;
  * no goroutine of the materialisation is alive after the quiescence wait (`leak=0`) — nothing is released by the
    harness after the terminal returned;
  * a `nil` result is complete: unless the case's own downstream ends the stream (Limit / FindFirst) every source
    element was delivered (concurrent consume: handed to the callback); in particular a cancellation that cut
    delivery never yields `nil`;
  * an injected failure that is certainly reached (no cancel, no early stop) does not yield `nil`;
  * racy recipes (`trials`): zero `nil` results and zero leaks / hangs over all trials.

model output: the observation is echoed iff the model admits it — concurrent map, scripted, small: trace acceptance
(`acceptCmap`: the log must be a trace of the transition system ending in a final state with the observed result
class and delivered multiset); otherwise the theorem-level summary (`C07_terminates_*`: no hang, no leak;
`C07_cancel_error_*`: `nil` ⇒ complete or stopped).
-/
namespace ShpanVerif.Drive.C07
open ShpanVerif.Util ShpanVerif.Model ShpanVerif.Drive.Conc

def allDelivered (c : Case) : List Nat :=
  if c.op == "cmap" || c.op == "nest" then (List.range c.n).map (· + 1000) else List.range c.n

def stopsItself (c : Case) : Bool := c.first || c.limit != 0

def faultCertain (c : Case) : Bool :=
  (c.ofail != "" && c.op != "ccons" && c.op != "pipe") || c.kv.flag "sofail" ||
  c.cancel < 0 && !stopsItself c && c.park < 0 && c.filt == "" && c.op != "pipe" &&
    ((c.mf ≥ 0 && c.mf < c.n && (c.op == "cmap" || c.op == "nest" || c.op == "ccons")) ||
     (c.mp ≥ 0 && c.mp < c.n && (c.op == "cmap" || c.op == "nest" || c.op == "ccons")) ||
     (c.se ≥ 0 && c.se ≤ c.n) || (c.cf != 0 && c.cf ≤ c.n && c.op != "ccons"))

def specTrials (o : Obs) : Bool × String :=
  let ok := o.kv.nat "ok" 1
  let lh := o.kv.nat "leakhang" 1
  if ok != 0 then (false, s!"{ok} of {o.kv.nat "trials"} trials returned nil although cancellation cut delivery")
  else if lh != 0 then (false, s!"{lh} trials hung or left goroutines")
  else (true, "")

def spec (c : Case) (o : Obs) : Bool × String :=
  if c.trials > 1 then specTrials o else
  let classes := o.res.splitOn "/"
  if classes.contains "crash" || classes.contains "panic" then (false, s!"run ended with {o.res}")
  else if o.hang != "-" || classes.contains "hang" then (false, s!"terminal did not return / deadlock ({o.hang})")
  else if o.leak != 0 then (false, s!"{o.leak} goroutines left after the terminal returned")
  else if c.rep > 1 then
    -- several materialisations of one stream value: every one must end, none may crash or leave goroutines; a
    -- certainly-reached failure must show in every materialisation
    let lastfull := c.kv.flag "lastfull"
    if lastfull then
      -- the last materialisation is a plain complete run: it must return nil and deliver every element
      if classes.getLast? != some "ok" then (false, s!"the final complete materialisation returned {classes.getLast?.getD "?"}")
      else if c.op != "pipe" && o.kv.nats "lastdel" != allDelivered c then
        (false, "the final complete materialisation did not deliver every element")
      else (true, "")
    else if faultCertain c && classes.contains "ok" then (false, "nil result although an injected failure was reached")
    else (true, "")
  else if o.res == "ok" && faultCertain c then (false, "nil result although an injected failure was reached")
  else if o.res == "ok" && c.op != "pipe" then
    if stopsItself c then
      let k := if c.first then 1 else c.limit
      if o.del.length ≥ min k c.n then (true, "") else (false, "nil result with fewer elements than the limit")
    else if o.del == allDelivered c then (true, "")
    else (false, "nil result although elements remained undelivered")
  else (true, "")

def model (c : Case) (o : Obs) (obsText : String) : String :=
  if c.trials > 1 then s!"trials={o.kv.nat "trials"} ok=0 other={o.kv.nat "other"} leakhang=0" else
  -- `tail=1`: the stage is a later inner stream of a Concat (outside the modelled open sequence): spec-only
  if c.op == "cmap" && c.sync && !c.kv.flag "tail" then
    match acceptCmap c o with
    | "accepted" => obsText
    | "skipped" => obsText
    | why => s!"model(ConcMap) {why}"
  else obsText

def handle (cs obs : String) : String × Bool × String :=
  match parseCase cs with
  | none => ("bad-case", false, "unparsable case")
  | some c =>
    let o := parseObs obs
    let (ok, why) := spec c o
    (model c o obs, ok, why)

end ShpanVerif.Drive.C07
