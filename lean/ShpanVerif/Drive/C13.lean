import ShpanVerif.Util.TsProto
import ShpanVerif.Model.Align
/-
Driver handler for C13.
  case := "<period> <ty> reloc=<k> x=<0|1> | <unixNanos>:<cell> ..."      (see harness/run/c13.go)
  obs  := "A=<res> U=<res> D=<res> R=<res> R3=<res>"
Model side: the four aligner models over `floatArith` (IEEE binary64), timestamps carrying the location ids
the harness used (`reloc`); the model never reads them.
Spec side (`specOk`): the property's clauses evaluated on each observed result with list-level definitions that
look at the *instants* of the input only - so a result that depends on the representation of the timestamps
fails clause "value" (or "stamps") for the re-located run.
-/
namespace ShpanVerif.Drive.C13
open ShpanVerif.Util ShpanVerif.Util.TsProto ShpanVerif.Model.Align

structure Case where
  P : Period
  ty : Char
  reloc : Nat
  exact : Bool
  pts : List (Int × FCell)

def parseCase (c : String) : Option Case :=
  match splitAt "|" (words c) with
  | [[p, ty, rl, x], pts] => do
    let P ← parsePeriod p
    let ty ← (match ty.toList with | [ch] => if ch == 'i' || ch == 'f' then some ch else none | _ => none)
    let rl ← (kv rl "reloc").bind String.toNat?
    let x ← (kv x "x").bind String.toNat?
    let pts ← parsePoints pts
    let pts ← pts.mapM (fun (t, cs) => match cs with | [c] => some (t, c) | _ => none)
    pure ⟨P, ty, rl, x == 1, pts⟩
  | _ => none

/-- location id carried by the `idx`-th timestamp under representation `k` (mirrors `tsReloc` in c13.go). -/
def locOf (k idx : Nat) : Nat :=
  match k with
  | 0 => 0 | 1 => 1 | 2 => 2
  | 3 => (match idx % 4 with | 0 => 2 | 1 => 0 | 2 => 3 | _ => 1)
  | _ => 3

def isKind (ty : Char) : FCell → Bool
  | .int _ => ty == 'i'
  | .flt _ => ty == 'f'
  | .other _ => false

def dtOf (ty : Char) : DType := if ty == 'i' then .integer else .decimal

def FA := floatArith

def errStr (e : Err) : Res := .err e.toString

def recsOf {β} (c : Case) (f : FCell → β) : List (Rec β) :=
  (c.pts.zip (List.range c.pts.length)).map (fun ((t, v), i) => ⟨⟨t, locOf c.reloc i⟩, f v⟩)

/-- the four models -/
def modelA (c : Case) : Res :=
  if !(c.pts.all (fun p => isKind c.ty p.2)) then .na
  else if c.ty == 'i' then
    match alignStream FA (intKind FA) c.P (recsOf c (fun v => match v with | .int i => i | _ => 0)) with
    | .error e => errStr e
    | .ok l => .ok (l.map (fun r => (r.ts.inst, [Cell.int r.val])))
  else
    match alignStream FA (fltKind (V := Float)) c.P (recsOf c (fun v => match v with | .flt f => f | _ => 0.0)) with
    | .error e => errStr e
    | .ok l => .ok (l.map (fun r => (r.ts.inst, [Cell.flt r.val])))

def modelU (c : Case) : Res :=
  match alignUntyped FA c.P (recsOf c (fun v => [v])) with
  | .error e => errStr e
  | .ok l => .ok (l.map (fun r => (r.ts.inst, r.val)))

def modelD (c : Case) : Res :=
  match alignField FA (dtOf c.ty) c.P (recsOf c id) with
  | .error e => errStr e
  | .ok l => .ok (l.map (fun r => (r.ts.inst, [r.val])))

def modelR (c : Case) : Res :=
  match alignRows FA [dtOf c.ty] c.P (recsOf c (fun v => [v])) with
  | .error e => errStr e
  | .ok l => .ok (l.map (fun r => (r.ts.inst, r.val)))

/-- three-field rows `[constant of the declared type, the value, a ramp of the other numeric type]` (mirrors `R3` in c13.go) -/
def rows3 (c : Case) : List (Rec (List FCell)) :=
  (c.pts.zip (List.range c.pts.length)).map (fun ((t, v), i) =>
    ⟨⟨t, locOf c.reloc i⟩,
     if c.ty == 'i' then [Cell.int 7, v, Cell.flt (Float.ofNat i * 0.5)] else [Cell.flt 7.5, v, Cell.int (3 * (i : Int))]⟩)

def modelR3 (c : Case) : Res :=
  match alignRows FA [dtOf c.ty, dtOf c.ty, dtOf (if c.ty == 'i' then 'f' else 'i')] c.P (rows3 c) with
  | .error e => errStr e
  | .ok l => .ok (l.map (fun r => (r.ts.inst, r.val)))

/-! ### the property, list level, instants only -/

/-- remove adjacent duplicates -/
def dedupAdj : List Int → List Int
  | [] => []
  | [a] => [a]
  | a :: b :: l => if a = b then dedupAdj (b :: l) else a :: dedupAdj (b :: l)

def strictlyIncreasing : List Int → Bool
  | [] => true
  | [_] => true
  | a :: b :: l => a < b && strictlyIncreasing (b :: l)

def lastBefore (pts : List (Int × FCell)) (b : Int) : Option (Int × FCell) := (pts.filter (fun p => p.1 < b)).getLast?
def firstFrom (pts : List (Int × FCell)) (b : Int) : Option (Int × FCell) := pts.find? (fun p => b ≤ p.1)

def cellF : FCell → Float
  | .int i => Float.ofInt i
  | .flt f => f
  | .other _ => 0.0

/-- Go's formula on binary64: `v1 + (v2-v1)*(Seconds(b-t1)/Seconds(t2-t1))`. -/
def lerpF (b t1 : Int) (v1 : Float) (t2 : Int) (v2 : Float) : Float :=
  v1 + (v2 - v1) * (floatSecs (b - t1) / floatSecs (t2 - t1))

/-- expected value at a later boundary `b`; `untyped` = AlignStreamUntyped (always a float64). -/
def expectAt (ty : Char) (untyped : Bool) (pts : List (Int × FCell)) (b : Int) : Option FCell := do
  let y ← firstFrom pts b
  let p ← lastBefore pts b
  if y.1 = b then pure y.2
  else
    let r := lerpF b p.1 (cellF p.2) y.1 (cellF y.2)
    if untyped || ty == 'f' then pure (.flt r) else pure (.int r.toInt64.toInt)

def between (lo hi v : FCell) : Bool :=
  match lo, hi, v with
  | .int a, .int b, .int x => (min a b ≤ x) && (x ≤ max a b)
  | a, b, x =>
    let fa := cellF a; let fb := cellF b; let fx := cellF x
    (if fa ≤ fb then fa else fb) ≤ fx && fx ≤ (if fa ≤ fb then fb else fa)

/-- the clauses of C13 on one observed result -/
def checkRes (c : Case) (name : String) (untyped : Bool) (r : Res) : Option String :=
  match r with
  | .na => none
  | .err e => some s!"{name}: error {e} on a sorted well-typed series"
  | .ok out =>
    let want := dedupAdj (c.pts.map (fun p => c.P.start p.1))
    let got := out.map (·.1)
    if got != want then some s!"{name}: stamps differ from the distinct period starts of the input"
    else if !strictlyIncreasing got then some s!"{name}: stamps not strictly increasing"
    else
      match out, c.pts with
      | [], [] => none
      | (_, v0) :: rest, (_, x0) :: _ =>
        if !(match v0 with | [v] => cellEq v x0 | _ => false) then some s!"{name}: first record does not carry the first input value"
        else
          rest.foldl (fun acc (b, row) =>
            match acc with
            | some e => some e
            | none =>
              match row, expectAt c.ty untyped c.pts b with
              | [v], some w =>
                if !cellEq v w then some s!"{name}: value at {b} is {fmtCell v}, the instants-only spec gives {fmtCell w} (reloc={c.reloc})"
                else if c.exact then
                  match lastBefore c.pts b, firstFrom c.pts b with
                  | some p, some y => if between p.2 y.2 v then none else some s!"{name}: value at {b} not between its neighbours"
                  | _, _ => some s!"{name}: no neighbours at {b}"
                else none
              | _, _ => some s!"{name}: malformed record at {b}") none
      | _, _ => some s!"{name}: length mismatch"

def sortedPts (pts : List (Int × FCell)) : Bool :=
  match pts with
  | [] => true
  | [_] => true
  | a :: b :: l => a.1 ≤ b.1 && sortedPts (b :: l)

def parseObs (obs : String) : Option (Res × Res × Res × Res × Res) :=
  match words obs with
  | [a, u, d, r, r3] => do
    let a ← (kv a "A").bind parseRes
    let u ← (kv u "U").bind parseRes
    let d ← (kv d "D").bind parseRes
    let r ← (kv r "R").bind parseRes
    let r3 ← (kv r3 "R3").bind parseRes
    pure (a, u, d, r, r3)
  | _ => none

/-- the three-field report: its middle field obeys the clauses like a one-field report; the constant field stays the
    constant and the ramp field is never missing -/
def checkR3 (c : Case) (r3 : Res) : Option String :=
  match r3 with
  | .ok out =>
    let k : FCell := if c.ty == 'i' then .int 7 else .flt 7.5
    if !(out.all (fun (_, row) => row.length == 3)) then some "report.AlignerFilter(3 fields): a row has not three cells"
    else if !(out.all (fun (_, row) => match row with | [a, _, _] => cellEq a k | _ => false)) then
      some "report.AlignerFilter(3 fields): the constant field changed"
    else if !(out.all (fun (_, row) => match row with | [_, _, .other _] => false | [_, _, _] => true | _ => false)) then
      some "report.AlignerFilter(3 fields): the third field lost its value"
    else checkRes c "report.AlignerFilter(3 fields, middle)" false (.ok (out.map (fun (t, row) => (t, (row.drop 1).take 1))))
  | r => checkRes c "report.AlignerFilter(3 fields)" false r

/-- returns (model output, spec verdict on the observation, reason) -/
def handle (cs obs : String) : String × Bool × String :=
  match parseCase cs with
  | none => ("bad-case", false, "unparsable case")
  | some c =>
    let model := s!"A={fmtRes (modelA c)} U={fmtRes (modelU c)} D={fmtRes (modelD c)} R={fmtRes (modelR c)} R3={fmtRes (modelR3 c)}"
    let inScope := sortedPts c.pts && c.pts.all (fun p => isKind c.ty p.2)
    if !inScope then (model, true, "")
    else
      match parseObs obs with
      | none => (model, false, "unparsable observation")
      | some (a, u, d, r, r3) =>
        let a := (match a with | .na => Res.err "missing" | x => x)
        match [checkRes c "AlignStream" false a, checkRes c "AlignStreamUntyped" true u,
               checkRes c "datasource.AlignerFilter" false d, checkRes c "report.AlignerFilter" false r, checkR3 c r3].filterMap id with
        | [] => (model, true, "")
        | e :: _ => (model, false, e)

end ShpanVerif.Drive.C13
