/-
C05 (general pull bound), part 4: Open turns the list-level bound `Spec.demand` into the potential of the
opened state (`OpenPullOK`; Cluster's Open spends one pull of it), the simultaneous induction on fuel, the
terminal's pull loop (`length l + 1` provider calls) and `consume`.
-/
import ShpanVerif.Proofs.PipeC05Emit
import ShpanVerif.Proofs.PipeC05Cluster

namespace ShpanVerif.Proofs.PipeC05
open ShpanVerif.Model.Pipe ShpanVerif ShpanVerif.Proofs.PipeC04

variable {r : Nat}

/-! ### `Spec.demandList` pointwise -/

theorem rdl_of_demandList (r : Nat) : ∀ (ps : PipeList) (ns : List Nat) (f : Nat → Nat),
    Spec.demandList ps ns = some f → RDL r ps.toList (fun j => ns.getD j 0) (f r)
  | .nil, _, _, _ => by simp only [PipeList.toList, RDL]
  | .cons p ps, ns, f, h => by
    rw [Spec.demandList] at h
    cases h1 : Spec.demand p (ns.headD 0) with
    | none => rw [h1] at h; exact absurd h (by simp)
    | some f1 =>
      cases h2 : Spec.demandList ps (ns.drop 1) with
      | none => rw [h1, h2] at h; exact absurd h (by simp)
      | some f2 =>
        rw [h1, h2] at h
        simp only [Option.some.injEq] at h
        subst h
        simp only [PipeList.toList, RDL]
        refine ⟨f1 r, f2 r, ⟨f1, ?_, Nat.le_refl _⟩, ?_, Nat.le_refl _⟩
        · have : ns.getD 0 0 = ns.headD 0 := by cases ns <;> rfl
          rw [this]; exact h1
        · have ih := rdl_of_demandList r ps (ns.drop 1) f2 h2
          have e : (fun j => (ns.drop 1).getD j 0) = (fun j => ns.getD (j+1) 0) := by
            funext j; cases ns <;> simp
          rw [e] at ih; exact ih

/-- an `RDL` bound as per-index bounds -/
theorem rdl_index (r : Nat) : ∀ (qs : List Pipe) (ns : Nat → Nat) (k : Nat), RDL r qs ns k →
    ∃ ks : Nat → Nat, (∀ j q, qs[j]? = some q → RD r q (ns j) (ks j)) ∧ sumTo qs.length ks ≤ k
  | [], _, _, _ => ⟨fun _ => 0, by simp, by simp [sumTo]⟩
  | q :: qs, ns, k, h => by
    rw [RDL] at h
    obtain ⟨k1, k2, h1, h2, hk⟩ := h
    obtain ⟨ks, hks, hsum⟩ := rdl_index r qs _ k2 h2
    refine ⟨fun j => match j with | 0 => k1 | j+1 => ks j, ?_, ?_⟩
    · intro j q' hq
      cases j with
      | zero => simp only [List.getElem?_cons_zero, Option.some.injEq] at hq; subst hq; exact h1
      | succ j => exact hks j q' (by simpa using hq)
    · rw [List.length_cons, sumTo_succ']
      show k1 + sumTo qs.length ks ≤ k
      omega

/-! ### opening a list of sub streams (ZipN, merge) -/

def OpenListStep (r len : Nat) (res : Res Unit × PipeList × World) (w : World) (n : Nat) (ks : Nat → Nat) : Prop :=
  match res with
  | (.oof, _, _) => True
  | (.val _, ps', w') => LPot r len ps' w' w n ks
  | (.eof, _, _) => True
  | (.fail _, _, _) => True
  | (.panic _, _, _) => True

theorem OpenListStep.trans {len : Nat} {res : Res Unit × PipeList × World} {w1 w : World} {n : Nat}
    {ks1 ks : Nat → Nat} (h : OpenListStep r len res w1 n ks1)
    (hle : pulls w1.trace r + sumTo len ks1 ≤ pulls w.trace r + sumTo len ks) :
    OpenListStep r len res w n ks := by
  rcases res with ⟨res, ps', w'⟩
  cases res <;> simp only [OpenListStep, LPot] at h ⊢
  obtain ⟨hl, ks', hs, hp⟩ := h; exact ⟨hl, ks', hs, by omega⟩

theorem openList_pull {F : Nat} (hP : PBelow r F) (len n : Nat) : ∀ fuel, fuel ≤ F →
    ∀ (ps : PipeList) (i : Nat) (ls : List (List V)) (w : World) (ks : Nat → Nat),
      ps.length = len → Mixed i ps.toList ls →
      (∀ j p, ps.get? j = some p → (j < i → SD r p (n+1) (ks j)) ∧ (i ≤ j → RD r p (n+1) (ks j))) → w.Clean →
      OpenListStep r len (openList fuel ps i w) w (n+1) ks
  | 0, _, _, _, _, _, _, _, _, _, _ => by rw [openList]; trivial
  | fuel+1, hf, ps, i, ls, w, ks, hlen, hm, hks, hw => by
    rw [openList]
    cases hg : ps.get? i with
    | none =>
      simp only [OpenListStep, LPot]
      have hle := length_le_of_get?_none hg
      refine ⟨hlen, ks, fun j p hp => (hks j p hp).1 ?_, Nat.le_refl _⟩
      have := get?_lt_length hp
      omega
    | some p =>
      simp only
      have hg' : ps.toList[i]? = some p := by rw [← get?_toList]; exact hg
      have hilt : i < ps.toList.length := (List.getElem?_eq_some_iff.mp hg').1
      have hilt' : i < ls.length := hm.1 ▸ hilt
      have hilt'' : i < len := hlen ▸ get?_lt_length hg
      have hre : RE p ls[i] := (hm.2 i p ls[i] hg' (List.getElem?_eq_getElem hilt')).2 (Nat.le_refl _)
      have hrd : RD r p (n+1) (ks i) := (hks i p hg).2 (Nat.le_refl _)
      have ho := openOK_all fuel p ls[i] w hre hw
      have hop := (hP fuel (by omega)).2 p ls[i] w n (ks i) hre hrd hw
      rcases hoe : openP fuel p w with ⟨res, p', w'⟩
      rw [hoe] at ho hop
      cases res <;> simp only [OpenStepOK, OpenPullStep, OpenListStep, Pot] at ho hop ⊢
      obtain ⟨hc, hdp⟩ := ho
      obtain ⟨k', hs1, hp1⟩ := hop
      have hsum := sumTo_upd ks i k' len hilt''
      refine (openList_pull hP len n fuel (by omega) (ps.set i p') (i+1) ls w'
        (fun j => if j = i then k' else ks j) (by rw [length_set]; exact hlen) ?_ ?_ hc).trans (by omega)
      · rw [toList_set]
        refine ⟨by rw [List.length_set]; exact hm.1, fun j q l hq hl => ?_⟩
        rw [List.getElem?_set] at hq
        by_cases hij : i = j
        · subst hij
          rw [if_pos rfl, if_pos hilt] at hq
          cases hq
          rw [List.getElem?_eq_getElem hilt'] at hl
          cases hl
          exact ⟨fun _ => hdp, fun h => by omega⟩
        · rw [if_neg hij] at hq
          have := hm.2 j q l hq hl
          exact ⟨fun h => this.1 (by omega), fun h => this.2 (by omega)⟩
      · intro j q hq
        by_cases hji : j = i
        · subst hji
          rw [get?_set_self ps hg] at hq
          cases hq
          simp only [if_true]
          exact ⟨fun _ => hs1, fun h => by omega⟩
        · rw [get?_set_ne ps (Ne.symm hji)] at hq
          have := hks j q hq
          simp only [if_neg hji]
          exact ⟨fun h => this.1 (by omega), fun h => this.2 (by omega)⟩

/-- per-index bounds for `demandList ps (replicate ps.length N)` -/
theorem demandList_replicate (r : Nat) (ps : PipeList) (N : Nat) (f : Nat → Nat)
    (h : Spec.demandList ps (List.replicate ps.length N) = some f) :
    ∃ ks : Nat → Nat, (∀ j p, ps.get? j = some p → RD r p N (ks j)) ∧ sumTo ps.length ks ≤ f r := by
  obtain ⟨ks, hks, hsum⟩ := rdl_index r _ _ _ (rdl_of_demandList r ps _ f h)
  rw [length_toList] at hsum
  refine ⟨ks, fun j p hp => ?_, hsum⟩
  have := hks j p (by rw [← get?_toList]; exact hp)
  have hlt := get?_lt_length hp
  simpa [List.getD_eq_getElem?_getD, List.getElem?_replicate, hlt] using this

/-! ### Open, per operator -/

theorem popen_src {fuel : Nat} (x : Nat) (xs : List Int) (idx : Nat) (w : World) (n k : Nat)
    (hrd : RD r (.src x xs idx) (n+1) k) (hw : w.Clean) :
    OpenPullStep r (openP (fuel+1) (.src x xs idx) w) w (n+1) k := by
  obtain ⟨f, hf, hle⟩ := hrd
  rw [Spec.demand] at hf
  simp only [Option.some.injEq] at hf
  subst hf
  rw [openP]
  obtain ⟨w', ho, _, hp⟩ := openRes_pulls x hw
  rw [ho]
  exact ⟨k, by rw [SD]; exact hle, by rw [hp r]; exact Nat.le_refl _⟩

theorem popen_lc {fuel : Nat} (ih : OpenPullOK r fuel) (x : Nat) (p : Pipe) (l : List V) (w : World) (n k : Nat)
    (hre : RE (.lc x p) l) (hrd : RD r (.lc x p) (n+1) k) (hw : w.Clean) :
    OpenPullStep r (openP (fuel+1) (.lc x p) w) w (n+1) k := by
  obtain ⟨hr, he⟩ := hre
  rw [Ready] at hr
  rw [Spec.eval] at he
  obtain ⟨f, hf, hle⟩ := hrd
  rw [Spec.demand] at hf
  have ho := openOK_all fuel p l w ⟨hr, he⟩ hw
  have h := ih p l w n k ⟨hr, he⟩ ⟨f, hf, hle⟩ hw
  rw [openP]
  rcases hoe : openP fuel p w with ⟨res, p', w'⟩
  rw [hoe] at h ho
  cases res <;> simp only [OpenStepOK, OpenPullStep, Pot] at h ho ⊢
  obtain ⟨hc, _⟩ := ho
  obtain ⟨w'', ho2, _, hp2⟩ := openRes_pulls x hc
  rw [ho2]
  simp only
  obtain ⟨k', hs', hp⟩ := h
  exact ⟨k', by rw [SD]; exact hs', by rw [hp2 r]; exact hp⟩

theorem popen_map {fuel : Nat} (ih : OpenPullOK r fuel) (g : Fn) (p : Pipe) (l : List V) (w : World) (n k : Nat)
    (hre : RE (.map g p) l) (hrd : RD r (.map g p) (n+1) k) (hw : w.Clean) :
    OpenPullStep r (openP (fuel+1) (.map g p) w) w (n+1) k := by
  obtain ⟨hr, he⟩ := hre
  rw [Ready] at hr
  rw [Spec.eval] at he
  obtain ⟨l0, he0, _⟩ := Option.map_eq_some_iff.mp he
  obtain ⟨f, hf, hle⟩ := hrd
  rw [Spec.demand] at hf
  have h := ih p l0 w n k ⟨hr, he0⟩ ⟨f, hf, hle⟩ hw
  rw [openP]
  rcases hoe : openP fuel p w with ⟨res, p', w'⟩
  rw [hoe] at h
  cases res <;> simp only [OpenPullStep, Pot] at h ⊢
  obtain ⟨k', hs', hp⟩ := h
  exact ⟨k', by rw [SD]; exact hs', hp⟩

theorem popen_filter {fuel : Nat} (ih : OpenPullOK r fuel) (g : Pred) (p : Pipe) (l : List V) (w : World)
    (n k : Nat) (hre : RE (.filter g p) l) (hrd : RD r (.filter g p) (n+1) k) (hw : w.Clean) :
    OpenPullStep r (openP (fuel+1) (.filter g p) w) w (n+1) k := by
  obtain ⟨hr, he⟩ := hre
  rw [Ready] at hr
  rw [Spec.eval] at he
  obtain ⟨l0, he0, _⟩ := Option.map_eq_some_iff.mp he
  obtain ⟨f, hf, hle⟩ := hrd
  rw [Spec.demand, he0] at hf
  simp only at hf
  obtain ⟨N, hN⟩ := filterCalls_succ g.app l0 n
  rw [hN] at hf
  have ho := openOK_all fuel p l0 w ⟨hr, he0⟩ hw
  have h := ih p l0 w N k ⟨hr, he0⟩ ⟨f, hf, hle⟩ hw
  rw [openP]
  rcases hoe : openP fuel p w with ⟨res, p', w'⟩
  rw [hoe] at h ho
  cases res <;> simp only [OpenStepOK, OpenPullStep, Pot] at h ho ⊢
  obtain ⟨k', hs', hp⟩ := h
  exact ⟨k', by rw [SD]; exact ⟨l0, ho.2, by rw [hN]; exact hs'⟩, hp⟩

theorem popen_limit {fuel : Nat} (ih : OpenPullOK r fuel) (m c : Int) (p : Pipe) (l : List V) (w : World)
    (n k : Nat) (hre : RE (.limit m c p) l) (hrd : RD r (.limit m c p) (n+1) k) (hw : w.Clean) :
    OpenPullStep r (openP (fuel+1) (.limit m c p) w) w (n+1) k := by
  obtain ⟨hr, he⟩ := hre
  rw [Ready] at hr
  obtain ⟨rfl, hr⟩ := hr
  rw [Spec.eval] at he
  obtain ⟨f, hf, hle⟩ := hrd
  rw [Spec.demand] at hf
  rw [openP]
  by_cases hm : m ≤ 0
  · rw [if_pos hm]
    exact ⟨k, by rw [SD]; exact Or.inl hm, Nat.le_refl _⟩
  · rw [if_neg hm] at he hf ⊢
    obtain ⟨l0, he0, _⟩ := Option.map_eq_some_iff.mp he
    rw [he0] at hf
    simp only at hf
    have hf' : Spec.demand p (limCalls m.toNat l0.length (n+1)) = some f := hf
    obtain ⟨N, hN⟩ : ∃ N, limCalls m.toNat l0.length (n+1) = N + 1 :=
      ⟨limCalls m.toNat l0.length (n+1) - 1, by unfold limCalls; split <;> (try split) <;> omega⟩
    rw [hN] at hf'
    have ho := openOK_all fuel p l0 w ⟨hr, he0⟩ hw
    have h := ih p l0 w N k ⟨hr, he0⟩ ⟨f, hf', hle⟩ hw
    rcases hoe : openP fuel p w with ⟨res, p', w'⟩
    rw [hoe] at h ho
    cases res <;> simp only [OpenStepOK, OpenPullStep, Pot] at h ho ⊢
    obtain ⟨k', hs', hp⟩ := h
    refine ⟨k', ?_, hp⟩
    rw [SD]
    refine Or.inr ⟨l0, ho.2, ?_⟩
    have e : (m + 1 - 1).toNat = m.toNat := by congr 1; omega
    rw [e, hN]; exact hs'

theorem popen_skip {fuel : Nat} (ih : OpenPullOK r fuel) (m : Nat) (d : Bool) (p : Pipe) (l : List V) (w : World)
    (n k : Nat) (hre : RE (.skip m d p) l) (hrd : RD r (.skip m d p) (n+1) k) (hw : w.Clean) :
    OpenPullStep r (openP (fuel+1) (.skip m d p) w) w (n+1) k := by
  obtain ⟨hr, he⟩ := hre
  rw [Ready] at hr
  obtain ⟨rfl, hr⟩ := hr
  rw [Spec.eval] at he
  obtain ⟨l0, he0, _⟩ := Option.map_eq_some_iff.mp he
  obtain ⟨f, hf, hle⟩ := hrd
  rw [Spec.demand, if_neg (Nat.succ_ne_zero n)] at hf
  have hf' : Spec.demand p ((n + m) + 1) = some f := by
    rw [show n + m + 1 = n + 1 + m by omega]; exact hf
  have h := ih p l0 w (n + m) k ⟨hr, he0⟩ ⟨f, hf', hle⟩ hw
  rw [openP]
  rcases hoe : openP fuel p w with ⟨res, p', w'⟩
  rw [hoe] at h
  cases res <;> simp only [OpenPullStep, Pot] at h ⊢
  obtain ⟨k', hs', hp⟩ := h
  refine ⟨k', ?_, hp⟩
  rw [SD]
  exact Or.inr ⟨rfl, Or.inr (by rw [show n + 1 + m = n + m + 1 by omega]; exact hs')⟩

theorem popen_window {fuel : Nat} (ih : OpenPullOK r fuel) (s st : Nat) (o : Bool) (buf : List V) (d so : Bool)
    (p : Pipe) (l : List V) (w : World) (n k : Nat)
    (hre : RE (.window s st o buf d so p) l) (hrd : RD r (.window s st o buf d so p) (n+1) k) (hw : w.Clean) :
    OpenPullStep r (openP (fuel+1) (.window s st o buf d so p) w) w (n+1) k := by
  obtain ⟨hr, he⟩ := hre
  rw [Ready] at hr
  obtain ⟨rfl, rfl, _, hr⟩ := hr
  rw [Spec.eval] at he
  obtain ⟨f, hf, hle⟩ := hrd
  rw [Spec.demand] at hf
  by_cases hp : windowParamsOk s st = true
  · have hp' : (!windowParamsOk s st) = false := by simp [hp]
    obtain ⟨hs0, hst, _⟩ := (windowParamsOk_iff s st).mp hp
    rw [hp'] at he hf
    simp only [Bool.false_eq_true, if_false] at he hf
    rw [if_neg (Nat.succ_ne_zero n)] at hf
    obtain ⟨l0, he0, _⟩ := Option.map_eq_some_iff.mp he
    have hf' : Spec.demand p ((s - 1 + n * st) + 1) = some f := by
      rw [show s - 1 + n * st + 1 = s + (n + 1 - 1) * st by simp only [Nat.add_sub_cancel]; omega]; exact hf
    have h := ih p l0 w _ k ⟨hr, he0⟩ ⟨f, hf', hle⟩ hw
    rw [openP, hp']
    simp only [Bool.false_eq_true, if_false]
    rcases hoe : openP fuel p w with ⟨res, p', w'⟩
    rw [hoe] at h
    cases res <;> simp only [OpenPullStep, Pot] at h ⊢
    obtain ⟨k', hs', hp1⟩ := h
    refine ⟨k', ?_, hp1⟩
    rw [SD]
    refine Or.inr (Or.inr ?_)
    rw [show s - ([] : List V).length + (n + 1 - 1) * st = s - 1 + n * st + 1 by
      simp only [List.length_nil, Nat.add_sub_cancel]; omega]
    exact hs'
  · have hp' : (!windowParamsOk s st) = true := by simpa using hp
    rw [hp'] at he
    simp at he

theorem popen_concat {fuel : Nat} (ih : OpenPullOK r fuel) (ps : PipeList) (next : Nat) (curOpen outerOpen : Bool)
    (l : List V) (w : World) (n k : Nat)
    (hre : RE (.concat ps next curOpen outerOpen) l) (hrd : RD r (.concat ps next curOpen outerOpen) (n+1) k)
    (hw : w.Clean) :
    OpenPullStep r (openP (fuel+1) (.concat ps next curOpen outerOpen) w) w (n+1) k := by
  obtain ⟨hr, he⟩ := hre
  rw [Ready] at hr
  obtain ⟨_, _, hrl⟩ := hr
  rw [Spec.eval] at he
  obtain ⟨ls, hel, _⟩ := Option.map_eq_some_iff.mp he
  have hall := evalList_all2 ps ls hrl hel
  obtain ⟨f, hf, hle⟩ := hrd
  rw [Spec.demand, hel] at hf
  simp only at hf
  rw [openP]
  by_cases hz : ps.length = 0
  · rw [if_pos hz]
    exact ⟨k, by rw [SD]; exact Or.inl rfl, Nat.le_refl _⟩
  · rw [if_neg hz, if_neg (not_cancelled hw)]
    have h0 : 0 < ps.toList.length := by rw [length_toList]; omega
    have hg0 : ps.get? 0 = some ps.toList[0] := by rw [get?_toList]; exact List.getElem?_eq_getElem h0
    rw [hg0]
    simp only
    have hg0' : ps.toList[0]? = some ps.toList[0] := List.getElem?_eq_getElem h0
    obtain ⟨l0, ls', rfl, hre0, hrest⟩ := all2_drop_cons (i := 0) (by simpa using hall) hg0'
    have hrdl := rdl_of_demandList r ps _ f hf
    have hdrop : ps.toList = ps.toList[0] :: ps.toList.drop 1 := by
      conv => lhs; rw [← List.drop_zero (l := ps.toList)]
      rw [List.drop_eq_getElem_cons h0]
    rw [hdrop, RDL] at hrdl
    obtain ⟨ka, kb, hrd0, hrdl', hkab⟩ := hrdl
    simp only [List.map_cons] at hrd0 hrdl'
    have hpos := concatCalls_head_pos l0.length (ls'.map List.length) n
    obtain ⟨N, hN⟩ : ∃ N, (Spec.concatCalls (l0.length :: ls'.map List.length) (n+1)).getD 0 0 = N + 1 :=
      ⟨(Spec.concatCalls (l0.length :: ls'.map List.length) (n+1)).getD 0 0 - 1, by omega⟩
    rw [hN] at hrd0
    have ho := openOK_all fuel _ l0 w hre0 hw
    have h := ih _ l0 w N ka hre0 hrd0 hw
    rcases hoe : openP fuel ps.toList[0] w with ⟨res, p', w'⟩
    rw [hoe] at h ho
    cases res <;> simp only [OpenStepOK, OpenPullStep, Pot] at h ho ⊢
    obtain ⟨ka', hs', hp⟩ := h
    refine ⟨ka' + kb, ?_, by omega⟩
    rw [SD]
    refine Or.inr ⟨by omega, l0, ls',
      fun j => (Spec.concatCalls (l0.length :: ls'.map List.length) (n+1)).getD j 0, ?_, ?_,
      fun j => Nat.le_refl _, ka', kb, ?_, ?_, Nat.le_refl _⟩
    · exact (denAt_iff _ _ _).mpr ⟨p', by simpa using get?_set_self ps hg0 p', ho.2⟩
    · rw [toList_set, List.drop_set_of_lt (by omega)]; exact hrest
    · refine (sdAt_iff _ _ _ _ _).mpr ⟨p', by simpa using get?_set_self ps hg0 p', ?_⟩
      simp only
      rw [hN]; exact hs'
    · rw [toList_set, List.drop_set_of_lt (by omega)]
      exact hrdl'

theorem popen_zip {fuel : Nat} (hP : PBelow r (fuel+1)) (ps : PipeList) (opened : Nat) (l : List V) (w : World)
    (n k : Nat) (hre : RE (.zip ps opened) l) (hrd : RD r (.zip ps opened) (n+1) k) (hw : w.Clean) :
    OpenPullStep r (openP (fuel+1) (.zip ps opened) w) w (n+1) k := by
  obtain ⟨hr, he⟩ := hre
  rw [Ready] at hr
  rw [Spec.eval] at he
  obtain ⟨ls, hel, _⟩ := Option.map_eq_some_iff.mp he
  have hall := evalList_all2 ps ls hr.2 hel
  obtain ⟨f, hf, hle⟩ := hrd
  rw [Spec.demand] at hf
  obtain ⟨ks, hks, hsum⟩ := demandList_replicate r ps (n+1) f hf
  rw [openP]
  by_cases hz : ps.length = 0
  · rw [if_pos hz]
    refine ⟨k, ?_, Nat.le_refl _⟩
    rw [SD]
    refine ⟨fun _ => 0, (sdl_iff r ps _ _).mpr (fun j p hp => ?_), by rw [hz]; simp [sumTo]⟩
    have := get?_lt_length hp; omega
  · rw [if_neg hz]
    have h := openList_pull (hP.mono (Nat.le_succ _)) ps.length n fuel (Nat.le_refl _) ps 0 ls w ks rfl
      (mixed_zero hall) (fun j p hp => ⟨fun h => by omega, fun _ => hks j p hp⟩) hw
    rcases hoe : openList fuel ps 0 w with ⟨res, ps', w'⟩
    rw [hoe] at h
    cases res <;> simp only [OpenListStep, LPot, OpenPullStep, Pot] at h ⊢
    obtain ⟨hl, ks', hs', hp⟩ := h
    refine ⟨sumTo ps.length ks', ?_, by omega⟩
    rw [SD]
    exact ⟨ks', (sdl_iff r ps' _ ks').mpr hs', by rw [hl]; exact Nat.le_refl _⟩

theorem popen_merge {fuel : Nat} (hP : PBelow r (fuel+1)) (ps : PipeList) (opened : Nat)
    (slots : Option (List (Option V))) (l : List V) (w : World) (n k : Nat)
    (hre : RE (.merge ps opened slots) l) (hrd : RD r (.merge ps opened slots) (n+1) k) (hw : w.Clean) :
    OpenPullStep r (openP (fuel+1) (.merge ps opened slots) w) w (n+1) k := by
  obtain ⟨hr, he⟩ := hre
  rw [Ready] at hr
  rw [Spec.eval] at he
  cases hel : Spec.evalList ps with
  | none => rw [hel] at he; cases he
  | some ls =>
    have hall := evalList_all2 ps ls hr.2 hel
    obtain ⟨f, hf, hle⟩ := hrd
    rw [Spec.demand] at hf
    obtain ⟨ks, hks, hsum⟩ := demandList_replicate r ps (n+1) f hf
    rw [openP]
    by_cases hz : ps.length = 0
    · rw [if_pos hz]
      refine ⟨k, ?_, Nat.le_refl _⟩
      rw [SD]
      refine ⟨fun _ => 0, (sdl_iff r ps _ _).mpr (fun j p hp => ?_), by rw [hz]; simp [sumTo]⟩
      have := get?_lt_length hp; omega
    · rw [if_neg hz]
      have h := openList_pull (hP.mono (Nat.le_succ _)) ps.length n fuel (Nat.le_refl _) ps 0 ls w ks rfl
        (mixed_zero hall) (fun j p hp => ⟨fun h => by omega, fun _ => hks j p hp⟩) hw
      rcases hoe : openList fuel ps 0 w with ⟨res, ps', w'⟩
      rw [hoe] at h
      cases res <;> simp only [OpenListStep, LPot, OpenPullStep, Pot] at h ⊢
      obtain ⟨hl, ks', hs', hp⟩ := h
      refine ⟨sumTo ps.length ks', ?_, by omega⟩
      rw [SD]
      exact ⟨ks', (sdl_iff r ps' _ ks').mpr hs', by rw [hl]; exact Nat.le_refl _⟩

theorem popen_cluster {fuel : Nat} (hP : PBelow r (fuel+1)) (kk : Int) (fac : Fac) (nxt : Option V) (cls : Int)
    (last : Option V) (so : Bool) (p : Pipe) (l : List V) (w : World) (n k : Nat)
    (hre : RE (.cluster kk fac nxt cls last so p) l) (hrd : RD r (.cluster kk fac nxt cls last so p) (n+1) k)
    (hw : w.Clean) :
    OpenPullStep r (openP (fuel+1) (.cluster kk fac nxt cls last so p) w) w (n+1) k := by
  obtain ⟨hr, he⟩ := hre
  rw [Ready] at hr
  obtain ⟨rfl, _, hr⟩ := hr
  rw [Spec.eval] at he
  obtain ⟨f, hf, hle⟩ := hrd
  rw [Spec.demand] at hf
  cases he0 : Spec.eval p with
  | none => rw [he0] at he; cases he
  | some l0 =>
    rw [he0] at he hf
    simp only at he hf
    by_cases hc : (decide (kk > 0) && Spec.sortedBy (classify kk) l0) = true
    · rw [if_pos hc] at hf
      have hsorted : Spec.sortedBy (classify kk) l0 = true := by
        simp only [Bool.and_eq_true] at hc; exact hc.2
      have hf' : Spec.demand p (runSum kk l0 (n+1) + 1) = some f := by
        rw [Nat.add_comm]; exact hf
      have ho := openOK_all fuel p l0 w ⟨hr, he0⟩ hw
      have hop := (hP fuel (by omega)).2 p l0 w _ k ⟨hr, he0⟩ ⟨f, hf', hle⟩ hw
      rw [openP]
      rcases hoe : openP fuel p w with ⟨res, p', w'⟩
      rw [hoe] at ho hop
      cases res <;> simp only [OpenStepOK, OpenPullStep, Pot] at ho hop ⊢
      obtain ⟨hc1, hd⟩ := ho
      obtain ⟨k1, hs1, hp1⟩ := hop
      have h2 := emitOK_all fuel p' l0 w' hd hc1
      have hp2 := (hP fuel (by omega)).1 p' l0 w' _ k1 hd hs1 hc1
      rcases hee : emitP fuel p' w' with ⟨res2, p'', w''⟩
      rw [hee] at h2 hp2
      cases res2 <;> simp only [StepOK, PullStep, Pot] at h2 hp2 ⊢
      · obtain ⟨xs, rfl, _, hd2⟩ := h2
        obtain ⟨k2, hs2, hpp⟩ := hp2
        refine ⟨k2, ?_, by omega⟩
        rw [SD]
        exact ⟨rfl, xs, hd2, hsorted, hs2⟩
      · obtain ⟨k2, _, hpp⟩ := hp2
        exact ⟨k2, by rw [SD]; trivial, by omega⟩
    · rw [if_neg hc] at he; cases he

/-! ### the induction -/

theorem pull_ok {fuel : Nat} (hP : PBelow r (fuel+1)) : PullOK r (fuel+1) := by
  have ih := (hP fuel (Nat.lt_succ_self _)).1
  intro p l w n k hd hs hw
  cases p with
  | src x xs idx => exact pull_src x xs idx w n k hs hw
  | lc x p => exact pull_lc ih x p l w n k hd hs hw
  | map f p => exact pull_map ih f p l w n k hd hs hw
  | filter g p => exact pull_filter ih g p w n k hs hw
  | limit m c p => exact pull_limit ih m c p w n k hs hw
  | skip m d p => exact pull_skip hP m d p l w n k hd hs hw
  | concat ps next curOpen outerOpen => exact pull_concat hP ps next curOpen outerOpen w n k hs hw
  | zip ps opened => exact pull_zip hP ps opened l w n k hd hs hw
  | merge ps opened slots => exact pull_merge hP ps opened slots l w n k hd hs hw
  | window s st o buf d so p => exact pull_window hP s st o buf d so p l w n k hd hs hw
  | cluster kk fac nxt cls last so p => exact pull_cluster hP kk fac nxt cls last so p w n k hs hw

theorem openPull_ok {fuel : Nat} (hP : PBelow r (fuel+1)) : OpenPullOK r (fuel+1) := by
  have ih := (hP fuel (Nat.lt_succ_self _)).2
  intro p l w n k hre hrd hw
  cases p with
  | src x xs idx => exact popen_src x xs idx w n k hrd hw
  | lc x p => exact popen_lc ih x p l w n k hre hrd hw
  | map f p => exact popen_map ih f p l w n k hre hrd hw
  | filter g p => exact popen_filter ih g p l w n k hre hrd hw
  | limit m c p => exact popen_limit ih m c p l w n k hre hrd hw
  | skip m d p => exact popen_skip ih m d p l w n k hre hrd hw
  | concat ps next curOpen outerOpen => exact popen_concat ih ps next curOpen outerOpen l w n k hre hrd hw
  | zip ps opened => exact popen_zip hP ps opened l w n k hre hrd hw
  | merge ps opened slots => exact popen_merge hP ps opened slots l w n k hre hrd hw
  | window s st o buf d so p => exact popen_window ih s st o buf d so p l w n k hre hrd hw
  | cluster kk fac nxt cls last so p => exact popen_cluster hP kk fac nxt cls last so p l w n k hre hrd hw

theorem pbelow_all (r : Nat) : ∀ F, PBelow r F
  | 0 => fun f hf => absurd hf (Nat.not_lt_zero f)
  | F+1 => by
    have ih := pbelow_all r F
    intro f hf
    by_cases hfF : f < F
    · exact ih f hfF
    · have : f = F := by omega
      subst this
      cases f with
      | zero => exact ⟨pullOK_zero r, openPullOK_zero r⟩
      | succ n => exact ⟨pull_ok ih, openPull_ok ih⟩

/-- **provider calls**: a call on a state with potential `k` for `n+1` calls leaves a state with potential
    `k'` for `n` calls and `pulls after + k' ≤ pulls before + k` -/
theorem pullOK_all (r fuel : Nat) : PullOK r fuel := (pbelow_all r (fuel+1) fuel (Nat.lt_succ_self _)).1

/-- **Open**: turns the list-level bound into the potential of the opened state -/
theorem openPullOK_all (r fuel : Nat) : OpenPullOK r fuel := (pbelow_all r (fuel+1) fuel (Nat.lt_succ_self _)).2

/-! ### the terminal -/

theorem pullLoop_pull (r : Nat) (c : Consumer) : ∀ (fuel : Nat) (p : Pipe) (l acc : List V) (w : World) (k : Nat),
    Den p l → SD r p (l.length + 1) k → w.Clean →
    (pullLoop fuel c p acc w).1 = .oof ∨
      pulls (pullLoop fuel c p acc w).2.2.2.trace r ≤ pulls w.trace r + k
  | 0, _, _, _, _, _, _, _, _ => by rw [pullLoop]; exact Or.inl rfl
  | fuel+1, p, l, acc, w, k, hd, hs, hw => by
    rw [pullLoop, if_neg (not_cancelled hw)]
    have hok := emitOK_all fuel p l w hd hw
    have h := pullOK_all r fuel p l w l.length k hd hs hw
    rcases he : emitP fuel p w with ⟨res, p', w'⟩
    rw [he] at h hok
    cases res <;> simp only [StepOK, PullStep, Pot] at h hok ⊢
    · rename_i v
      obtain ⟨xs, rfl, hc, hd'⟩ := hok
      obtain ⟨k', hs', hp⟩ := h
      cases c with
      | collect =>
        simp only
        rcases pullLoop_pull r .collect fuel p' xs (v :: acc) w' k' hd' hs' hc with ih | ih
        · exact Or.inl ih
        · exact Or.inr (by omega)
      | user =>
        simp only
        obtain ⟨w'', hu, hc', hpu⟩ := userCall_pulls hc
        rw [hu]
        simp only
        rcases pullLoop_pull r .user fuel p' xs (v :: acc) w'' k' hd' hs' hc' with ih | ih
        · exact Or.inl ih
        · exact Or.inr (by rw [hpu r] at ih; omega)
    · obtain ⟨k', _, hp⟩ := h
      exact Or.inr (by omega)
    · exact Or.inl trivial

theorem consume_pull (fuel : Nat) (c : Consumer) (p : Pipe) (w : World) (l : List V) (f : Nat → Nat) (r : Nat)
    (hr : Ready p) (hw : w.Clean) (he : Spec.eval p = some l)
    (hdem : Spec.demand p (Spec.terminalCalls l) = some f) :
    (consume fuel c p w).1 = .oof ∨ pulls (consume fuel c p w).2.2.trace r ≤ pulls w.trace r + f r := by
  have ho := openOK_all fuel p l w ⟨hr, he⟩ hw
  have hop := openPullOK_all r fuel p l w l.length (f r) ⟨hr, he⟩ ⟨f, hdem, Nat.le_refl _⟩ hw
  unfold consume
  rcases hoe : openP fuel p w with ⟨res, p', w'⟩
  rw [hoe] at ho hop
  cases res <;> simp only [OpenStepOK, OpenPullStep, Pot] at ho hop ⊢
  · obtain ⟨hc, hd⟩ := ho
    obtain ⟨k', hs', hp⟩ := hop
    have hl := pullLoop_pull r c fuel p' l [] w' k' hd hs' hc
    rcases hpl : pullLoop fuel c p' [] w' with ⟨res2, acc, p2, w2⟩
    rw [hpl] at hl
    simp only at hl
    rcases hl with hl | hl
    · subst hl; exact Or.inl rfl
    · right
      cases res2 <;> first | omega | (simp only [Props.C05.closeP_pulls]; omega)
  all_goals first | exact Or.inl rfl | exact Or.inl trivial | trivial

end ShpanVerif.Proofs.PipeC05
