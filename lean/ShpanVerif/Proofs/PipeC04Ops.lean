/-
C04 proofs, part 3: the operators with sub-loops (Skip, Window, Concat, ZipN) — each provider call
maps a state denoting `l` to the head of `l` and a state denoting the tail (`StepOK`).
Every lemma assumes the statement for all smaller fuel (`Below`).
-/
import ShpanVerif.Proofs.PipeC04Den

namespace ShpanVerif.Proofs.PipeC04
open ShpanVerif.Model.Pipe ShpanVerif

theorem not_cancelled {w : World} (hw : w.Clean) : ¬ (w.cancelled = true) := by
  rw [hw.2]; exact Bool.false_ne_true

/-! ### Skip -/

/-- result of Skip's loop over a state denoting `l0` -/
def SkipOK (r : Res Unit × Pipe × World) (l0 : List V) (n : Nat) : Prop :=
  match r with
  | (.oof, _, _) => True
  | (.val _, p', w') => n ≤ l0.length ∧ w'.Clean ∧ Den p' (l0.drop n)
  | (.eof, p', w') => l0.length < n ∧ w'.Clean ∧ Den p' []
  | (.fail _, _, _) => False
  | (.panic _, _, _) => False

theorem skipLoop_ok {F : Nat} (hB : Below F) : ∀ fuel, fuel ≤ F → ∀ (n : Nat) (p : Pipe) (l0 : List V) (w : World),
    Den p l0 → w.Clean → SkipOK (skipLoop fuel n p w) l0 n
  | 0, _, _, _, _, _, _, _ => by rw [skipLoop]; trivial
  | fuel+1, _, 0, p, l0, w, hd, hw => by
    rw [skipLoop]; exact ⟨Nat.zero_le _, hw, by simpa using hd⟩
  | fuel+1, hf, n+1, p, l0, w, hd, hw => by
    rw [skipLoop]
    have h := (hB fuel (by omega)).1 p l0 w hd hw
    rcases he : emitP fuel p w with ⟨res, p', w'⟩
    rw [he] at h
    cases res <;> simp only [StepOK, SkipOK] at h ⊢
    · obtain ⟨xs, rfl, h2, h3⟩ := h
      have := skipLoop_ok hB fuel (by omega) n p' xs w' h3 h2
      rcases hs : skipLoop fuel n p' w' with ⟨res2, p'', w''⟩
      rw [hs] at this
      cases res2 <;> simp only [SkipOK] at this ⊢
      · exact ⟨by simp only [List.length_cons]; omega, this.2.1, by simpa using this.2.2⟩
      · exact ⟨by simp only [List.length_cons]; omega, this.2.1, this.2.2⟩
    · obtain ⟨rfl, h2, h3⟩ := h
      exact ⟨by simp, h2, h3⟩

theorem emit_skip {fuel : Nat} (hB : Below (fuel+1)) (n : Nat) (d : Bool) (p : Pipe) (l : List V) (w : World)
    (hd : Den (.skip n d p) l) (hw : w.Clean) : StepOK (emitP (fuel+1) (.skip n d p) w) l := by
  rw [Den] at hd
  obtain ⟨l0, hd0, rfl⟩ := hd
  rw [emitP, if_neg (not_cancelled hw)]
  have ih := (hB fuel (by omega)).1
  cases d with
  | true =>
    simp only [if_true]
    have h := ih p l0 w hd0 hw
    rcases he : emitP fuel p w with ⟨res, p', w'⟩
    rw [he] at h
    cases res <;> simp only [StepOK] at h ⊢
    · obtain ⟨xs, rfl, h2, h3⟩ := h
      exact ⟨xs, rfl, h2, by rw [Den]; exact ⟨xs, h3, by simp⟩⟩
    · obtain ⟨rfl, h2, h3⟩ := h
      exact ⟨rfl, h2, by rw [Den]; exact ⟨[], h3, by simp⟩⟩
  | false =>
    simp only [Bool.false_eq_true, if_false]
    have hs := skipLoop_ok hB fuel (by omega) n p l0 w hd0 hw
    rcases hse : skipLoop fuel n p w with ⟨res, p', w'⟩
    rw [hse] at hs
    cases res <;> simp only [SkipOK, StepOK] at hs ⊢
    · obtain ⟨_, h2, h3⟩ := hs
      have h := ih p' (l0.drop n) w' h3 h2
      rcases he : emitP fuel p' w' with ⟨res2, p'', w''⟩
      rw [he] at h
      cases res2 <;> simp only [StepOK] at h ⊢
      · obtain ⟨xs, hx, h4, h5⟩ := h
        exact ⟨xs, hx, h4, by rw [Den]; exact ⟨xs, h5, by simp⟩⟩
      · obtain ⟨hx, h4, h5⟩ := h
        exact ⟨hx, h4, by rw [Den]; exact ⟨[], h5, by simp⟩⟩
    · obtain ⟨hlt, h2, h3⟩ := hs
      exact ⟨List.drop_eq_nil_iff.mpr (by omega), h2, by rw [Den]; exact ⟨[], h3, by simp⟩⟩

/-! ### Window -/

theorem windowParamsOk_iff (s st : Nat) : windowParamsOk s st = true ↔ 0 < s ∧ 0 < st ∧ st ≤ s := by
  simp [windowParamsOk, and_assoc]

theorem windowFill_ok {F : Nat} (hB : Below F) (s st : Nat) (o : Bool) (so : Bool)
    (hp : windowParamsOk s st = true) :
    ∀ fuel, fuel ≤ F → ∀ (buf : List V) (p : Pipe) (l0 : List V) (w : World),
      Den p l0 → w.Clean → StepOK (windowFill fuel s st o buf so p w) (winOut s st o (buf ++ l0))
  | 0, _, _, _, _, _, _, _ => by rw [windowFill]; trivial
  | fuel+1, hf, buf, p, l0, w, hd, hw => by
    obtain ⟨hs, hst, hle⟩ := (windowParamsOk_iff s st).mp hp
    rw [windowFill]
    by_cases hlen : buf.length < s
    · rw [if_pos hlen, if_neg (not_cancelled hw)]
      have h := (hB fuel (by omega)).1 p l0 w hd hw
      rcases he : emitP fuel p w with ⟨res, p', w'⟩
      rw [he] at h
      cases res <;> simp only [StepOK] at h ⊢
      · obtain ⟨xs, rfl, h2, h3⟩ := h
        rename_i x
        have := windowFill_ok hB s st o so hp fuel (by omega) (buf ++ [x]) p' xs w' h3 h2
        rw [List.append_assoc, List.singleton_append] at this
        exact this
      · obtain ⟨rfl, h2, h3⟩ := h
        rw [List.append_nil, winOut_short s st o buf hlen]
        have hc : (decide (buf.length > 0) && !o && st != 1) = (!buf.isEmpty && !o && st != 1) := by
          cases buf <;> simp
        rw [hc]
        by_cases hcond : (!buf.isEmpty && !o && st != 1) = true
        · rw [if_pos hcond, if_pos hcond]
          simp only
          exact ⟨[], rfl, h2, by rw [Den]; exact ⟨hp, Or.inl ⟨rfl, rfl⟩⟩⟩
        · rw [if_neg hcond, if_neg hcond]
          simp only
          refine ⟨trivial, h2, ?_⟩
          rw [Den]
          refine ⟨hp, Or.inr ⟨rfl, [], h3, ?_⟩⟩
          rw [List.append_nil, winOut_short s st o buf hlen, if_neg hcond]
    · rw [if_neg hlen]
      simp only [StepOK]
      have hge : s ≤ buf.length := by omega
      have hb' : (if st ≥ buf.length then [] else buf.drop st) = buf.drop st := by
        split
        · rename_i h; exact (List.drop_eq_nil_iff.mpr h).symm
        · rfl
      rw [hb']
      refine ⟨winOut s st o (buf.drop st ++ l0), ?_, hw, ?_⟩
      · rw [winOut_full s st o hs hst (buf ++ l0) (by simp only [List.length_append]; omega)]
        rw [List.take_append_of_le_length hge, List.drop_append_of_le_length (by omega)]
      · rw [Den]; exact ⟨hp, Or.inr ⟨rfl, l0, hd, rfl⟩⟩

theorem emit_window {fuel : Nat} (hB : Below (fuel+1)) (s st : Nat) (o : Bool) (buf : List V) (d so : Bool)
    (p : Pipe) (l : List V) (w : World)
    (hd : Den (.window s st o buf d so p) l) (hw : w.Clean) :
    StepOK (emitP (fuel+1) (.window s st o buf d so p) w) l := by
  rw [emitP]
  rw [Den] at hd
  obtain ⟨hp, ⟨rfl, rfl⟩ | ⟨rfl, l0, hd0, rfl⟩⟩ := hd
  · simp only [if_true, StepOK]
    exact ⟨trivial, hw, by rw [Den]; exact ⟨hp, Or.inl ⟨rfl, rfl⟩⟩⟩
  · simp only [Bool.false_eq_true, if_false]
    exact windowFill_ok (hB.mono (Nat.le_succ _)) s st o so hp fuel (Nat.le_refl _) buf p l0 w hd0 hw

/-! ### Concat -/

theorem get?_set_ne (ps : PipeList) {i j : Nat} (h : i ≠ j) (q : Pipe) : (ps.set i q).get? j = ps.get? j := by
  rw [get?_toList, toList_set, List.getElem?_set_ne h, ← get?_toList]

theorem get?_set_self (ps : PipeList) {i : Nat} {p : Pipe} (h : ps.get? i = some p) (q : Pipe) :
    (ps.set i q).get? i = some q := by
  rw [get?_toList] at h
  rw [get?_toList, toList_set, List.getElem?_set]
  have : i < ps.toList.length := (List.getElem?_eq_some_iff.mp h).1
  simp [this]

theorem all2_drop_cons {α β : Type} {R : α → β → Prop} {as : List α} {bs : List β} {i : Nat} {a : α}
    (h : All2 R (as.drop i) bs) (ha : as[i]? = some a) :
    ∃ b bs', bs = b :: bs' ∧ R a b ∧ All2 R (as.drop (i+1)) bs' := by
  have hlt : i < as.length := (List.getElem?_eq_some_iff.mp ha).1
  have e : as.drop i = a :: as.drop (i+1) := by
    rw [List.drop_eq_getElem_cons hlt]; congr 1; exact (List.getElem?_eq_some_iff.mp ha).2
  rw [e] at h
  cases bs with
  | nil => have := h.1; simp at this
  | cons b bs' => exact ⟨b, bs', rfl, All2.cons_iff.mp h⟩

theorem emit_concat {fuel : Nat} (hB : Below (fuel+1)) (ps : PipeList) (next : Nat) (curOpen outerOpen : Bool)
    (l : List V) (w : World)
    (hd : Den (.concat ps next curOpen outerOpen) l) (hw : w.Clean) :
    StepOK (emitP (fuel+1) (.concat ps next curOpen outerOpen) w) l := by
  rw [emitP]
  rw [Den] at hd
  by_cases hz : ps.length = 0
  · rw [if_pos hz]
    rcases hd with ⟨rfl, rfl⟩ | ⟨rfl, hnext, l0, ls, hat, hrest, rfl⟩
    · exact ⟨rfl, hw, by rw [Den]; exact Or.inl ⟨rfl, rfl⟩⟩
    · obtain ⟨cur, hget, _⟩ := (denAt_iff ps (next-1) l0).mp hat
      rw [get?_toList] at hget
      have := (List.getElem?_eq_some_iff.mp hget).1
      rw [length_toList] at this; omega
  rw [if_neg hz, if_neg (not_cancelled hw)]
  rcases hd with ⟨rfl, rfl⟩ | ⟨rfl, hnext, l0, ls, hat, hrest, rfl⟩
  · simp only [Bool.not_false, if_true, StepOK]
    exact ⟨trivial, hw, by rw [Den]; exact Or.inl ⟨rfl, rfl⟩⟩
  · simp only [Bool.not_true, Bool.false_eq_true, if_false]
    obtain ⟨cur, hget, hcur⟩ := (denAt_iff ps (next-1) l0).mp hat
    rw [hget]
    simp only
    have h := (hB fuel (by omega)).1 cur l0 w hcur hw
    rcases he : emitP fuel cur w with ⟨res, cur', w'⟩
    rw [he] at h
    cases res <;> simp only [StepOK] at h ⊢
    · obtain ⟨xs, rfl, h2, h3⟩ := h
      refine ⟨xs ++ ls.flatten, rfl, h2, ?_⟩
      rw [Den]
      refine Or.inr ⟨rfl, hnext, xs, ls, ?_, ?_, rfl⟩
      · exact (denAt_iff _ _ _).mpr ⟨cur', get?_set_self ps hget cur', h3⟩
      · rw [toList_set, List.drop_set_of_lt (by omega)]; exact hrest
    · obtain ⟨rfl, h2, h3⟩ := h
      rcases hcl : closeP cur' w' with ⟨cur'', w''⟩
      have hc2 : w''.Clean := by
        have := closeP_clean cur' h2; rw [hcl] at this; exact this
      simp only
      rw [if_neg (not_cancelled hc2)]
      have hne : next - 1 ≠ next := by omega
      rw [get?_set_ne ps hne]
      cases hnx : ps.get? next with
      | none =>
        simp only
        have : ps.toList.drop next = [] := by
          rw [get?_toList] at hnx
          exact List.drop_eq_nil_iff.mpr (List.getElem?_eq_none_iff.mp hnx)
        rw [this] at hrest
        have hls := hrest.nil_left
        subst hls
        exact ⟨rfl, hc2, by rw [Den]; exact Or.inl ⟨rfl, rfl⟩⟩
      | some nx =>
        simp only
        have hnx' : ps.toList[next]? = some nx := by rw [← get?_toList]; exact hnx
        obtain ⟨l1, ls', rfl, hre, hrest'⟩ := all2_drop_cons hrest hnx'
        have ho := (hB fuel (by omega)).2 nx l1 w'' hre hc2
        rcases hoe : openP fuel nx w'' with ⟨res2, nx', w3⟩
        rw [hoe] at ho
        cases res2 <;> simp only [OpenStepOK] at ho ⊢
        · obtain ⟨hc3, hdn⟩ := ho
          have hgetn : (ps.set (next - 1) cur'').get? next = some nx := by rw [get?_set_ne ps hne]; exact hnx
          apply (hB fuel (by omega)).1 _ _ _ _ hc3
          rw [Den]
          refine Or.inr ⟨rfl, by omega, l1, ls', ?_, ?_, by simp⟩
          · exact (denAt_iff _ _ _).mpr ⟨nx', by simpa using get?_set_self _ hgetn nx', hdn⟩
          · rw [toList_set, toList_set, List.drop_set_of_lt (by omega), List.drop_set_of_lt (by omega)]
            exact hrest'

/-! ### ZipN -/

theorem take_succ_set {α : Type} (l : List α) (i : Nat) (a : α) (h : i < l.length) :
    (l.set i a).take (i+1) = l.take i ++ [a] := by
  rw [List.take_succ_eq_append_getElem (by rw [List.length_set]; exact h)]
  simp only [List.getElem_set_self, List.append_cancel_right_eq]
  apply List.ext_getElem?
  intro j
  simp only [List.getElem?_take]
  split
  · rw [List.getElem?_set_ne (by omega)]
  · rfl

/-- result of one row of ZipN started at input `i` with the row prefix `acc`, over inputs denoting `ls` -/
def ZipRowOK (r : Res (List Int) × PipeList × World) (ls : List (List V)) (i : Nat) (acc : List Int) : Prop :=
  match r with
  | (.oof, _, _) => True
  | (.val row, ps', w') => w'.Clean ∧ (∀ (j : Nat) l, i ≤ j → ls[j]? = some l → l ≠ []) ∧
      row = acc ++ headRow (ls.drop i) ∧ All2 Den ps'.toList (ls.take i ++ (ls.drop i).map List.tail)
  | (.eof, ps', w') => w'.Clean ∧ (∃ j : Nat, i ≤ j ∧ ls[j]? = some []) ∧
      ∃ ls', All2 Den ps'.toList ls' ∧ [] ∈ ls'
  | (.fail _, _, _) => False
  | (.panic _, _, _) => False

theorem zipRow_ok {F : Nat} (hB : Below F) : ∀ fuel, fuel ≤ F →
    ∀ (ps : PipeList) (ls : List (List V)) (i : Nat) (acc : List Int) (w : World),
      All2 Den ps.toList ls → w.Clean → ZipRowOK (zipRow fuel ps i acc w) ls i acc
  | 0, _, _, _, _, _, _, _, _ => by rw [zipRow]; trivial
  | fuel+1, hf, ps, ls, i, acc, w, hd, hw => by
    rw [zipRow]
    cases hg : ps.get? i with
    | none =>
      simp only [ZipRowOK]
      rw [get?_toList] at hg
      have hlen : ls.length ≤ i := by rw [← hd.1]; exact List.getElem?_eq_none_iff.mp hg
      refine ⟨hw, ?_, ?_, ?_⟩
      · intro j l hij hj
        rw [List.getElem?_eq_none (by omega)] at hj; cases hj
      · rw [List.drop_eq_nil_iff.mpr hlen]; simp [headRow]
      · rw [List.drop_eq_nil_iff.mpr hlen, List.take_of_length_le hlen]; simpa using hd
    | some p =>
      simp only
      have hg' : ps.toList[i]? = some p := by rw [← get?_toList]; exact hg
      obtain ⟨li, hli, hdp⟩ := hd.get hg'
      have hilt : i < ls.length := (List.getElem?_eq_some_iff.mp hli).1
      have h := (hB fuel (by omega)).1 p li w hdp hw
      rcases he : emitP fuel p w with ⟨res, p', w'⟩
      rw [he] at h
      cases res <;> simp only [StepOK, ZipRowOK] at h ⊢
      · rename_i x
        obtain ⟨xs, rfl, h2, h3⟩ := h
        have hd' : All2 Den (ps.set i p').toList (ls.set i xs) := by
          rw [toList_set]; exact hd.set i h3
        have ih := zipRow_ok hB fuel (by omega) (ps.set i p') (ls.set i xs) (i+1) (acc ++ x.flat) w' hd' h2
        rcases hz : zipRow fuel (ps.set i p') (i+1) (acc ++ x.flat) w' with ⟨res2, ps2, w2⟩
        rw [hz] at ih
        have hdrop : ls.drop i = (x :: xs) :: ls.drop (i+1) := by
          rw [List.drop_eq_getElem_cons hilt]; congr 1
          exact (List.getElem?_eq_some_iff.mp hli).2
        cases res2 <;> simp only [ZipRowOK] at ih ⊢
        · obtain ⟨hc, hne, hrow, hall⟩ := ih
          refine ⟨hc, ?_, ?_, ?_⟩
          · intro j l hij hj
            by_cases hji : j = i
            · subst hji; rw [hli] at hj; cases hj; simp
            · exact hne j l (by omega) (by rw [List.getElem?_set_ne (Ne.symm hji)]; exact hj)
          · rw [hrow, List.drop_set_of_lt (by omega), hdrop]
            simp [headRow]
          · rw [List.drop_set_of_lt (by omega), take_succ_set ls i xs hilt] at hall
            rw [hdrop]
            simpa using hall
        · obtain ⟨hc, ⟨j, hij, hj⟩, hex⟩ := ih
          refine ⟨hc, ⟨j, by omega, ?_⟩, hex⟩
          rw [List.getElem?_set_ne (by omega)] at hj; exact hj
      · obtain ⟨rfl, h2, h3⟩ := h
        refine ⟨h2, ⟨i, Nat.le_refl _, hli⟩, ls.set i [], ?_, ?_⟩
        · rw [toList_set]; exact hd.set i h3
        · apply List.mem_iff_getElem?.mpr
          exact ⟨i, by rw [List.getElem?_set]; simp [hilt]⟩

theorem emit_zip {fuel : Nat} (hB : Below (fuel+1)) (ps : PipeList) (opened : Nat) (l : List V) (w : World)
    (hd : Den (.zip ps opened) l) (hw : w.Clean) : StepOK (emitP (fuel+1) (.zip ps opened) w) l := by
  rw [emitP]
  rw [Den] at hd
  obtain ⟨ls, hdl, rfl⟩ := hd
  have hall := (denList_iff ps ls).mp hdl
  by_cases hlen : ps.length = 0
  · rw [if_pos hlen]
    simp only [StepOK]
    have : ls = [] := by
      have := hall.1; rw [length_toList, hlen] at this
      exact List.eq_nil_of_length_eq_zero this.symm
    subst this
    exact ⟨rfl, hw, by rw [Den]; exact ⟨[], hdl, rfl⟩⟩
  · rw [if_neg hlen]
    have hz := zipRow_ok (hB.mono (Nat.le_succ _)) fuel (Nat.le_refl _) ps ls 0 [] w hall hw
    rcases hze : zipRow fuel ps 0 [] w with ⟨res, ps', w'⟩
    rw [hze] at hz
    cases res <;> simp only [ZipRowOK, StepOK] at hz ⊢
    · obtain ⟨hc, hne, hrow, hall'⟩ := hz
      have hne' : ∀ l ∈ ls, l ≠ [] := by
        intro l hl
        obtain ⟨j, hj⟩ := List.mem_iff_getElem?.mp hl
        exact hne j l (Nat.zero_le _) hj
      have hls : ls ≠ [] := by
        intro h; subst h
        have := hall.1; rw [length_toList] at this; simp at this; exact hlen this
      refine ⟨Spec.zipRows (ls.map List.tail), ?_, hc, ?_⟩
      · rw [zipRows_cons ls hls hne', hrow]; simp
      · rw [Den]
        exact ⟨ls.map List.tail, (denList_iff _ _).mpr (by simpa using hall'), rfl⟩
    · obtain ⟨hc, ⟨j, _, hj⟩, ls', hall', hmem⟩ := hz
      refine ⟨zipRows_of_nil_mem ls (List.mem_iff_getElem?.mpr ⟨j, hj⟩), hc, ?_⟩
      rw [Den]
      exact ⟨ls', (denList_iff _ _).mpr hall', (zipRows_of_nil_mem ls' hmem).symm⟩

end ShpanVerif.Proofs.PipeC04
