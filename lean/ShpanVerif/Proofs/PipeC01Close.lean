/-
C01, part 2: `closeP` (doCloseSubStream / closeFunc) takes an opened operator object to a closed one,
closing exactly the resources it holds, each exactly once (`bad` stays off).  Structural induction over
`Pipe` / `PipeList`, mutual with the two list helpers.
-/
import ShpanVerif.Proofs.PipeC01Defs

namespace ShpanVerif.Proofs.PipeC01
open ShpanVerif.Model.Pipe

theorem closeRes_keep {l : List Nat} {r : Nat} {w : World} (hb : w.bad = false) (ho : w.isOpen r = true)
    (hr : r ∈ l) : Keep l w (closeRes r w) := by
  refine ⟨by simp [closeRes_bad, hb, ho], fun x hx => ?_⟩
  have : x ≠ r := fun h => hx (h ▸ hr)
  simp [closeRes_isOpen, upd, this]

/-- result of a close function on a pipeline -/
def CloseOK (p : Pipe) (w : World) (x : Pipe × World) : Prop :=
  ids x.1 = ids p ∧ Keep (ids p) w x.2 ∧ Cl x.1 x.2.isOpen

/-- result of a close function on a list of sub streams -/
def CloseLOK (ps : PipeList) (w : World) (x : PipeList × World) : Prop :=
  idsList x.1 = idsList ps ∧ x.1.length = ps.length ∧ Keep (idsList ps) w x.2 ∧ ClL x.1 x.2.isOpen

theorem ClL_nil (o : Nat → Bool) : ClL .nil o := by simp [ClL, ClosedList, idsList]

theorem ClL_cons {p : Pipe} {ps : PipeList} {o : Nat → Bool} : ClL (.cons p ps) o ↔ Cl p o ∧ ClL ps o := by
  simp only [ClL, Cl, ClosedList, idsList, List.mem_append]
  constructor
  · rintro ⟨⟨a, c⟩, e⟩
    exact ⟨⟨a, fun r hr => e r (Or.inl hr)⟩, c, fun r hr => e r (Or.inr hr)⟩
  · rintro ⟨⟨a, b⟩, c, d⟩
    exact ⟨⟨a, c⟩, fun r hr => hr.elim (b r) (d r)⟩

mutual
theorem closeP_spec : ∀ (p : Pipe) (w : World), Op p w.isOpen → (ids p).Nodup → w.bad = false →
    CloseOK p w (closeP p w)
  | .src r xs idx, w, hop, _, hb => by
    simp only [Op] at hop
    simp only [closeP, CloseOK, ids]
    refine ⟨trivial, closeRes_keep hb hop (by simp), by simp [Closed], ?_⟩
    intro x hx; simp [ids] at hx; subst hx; simp [closeRes_isOpen, upd]
  | .lc r p, w, hop, hn, hb => by
    simp only [Op] at hop
    simp only [ids] at hn
    have hnp := (List.nodup_append.mp hn).1
    have hr : r ∉ ids p := fun h => (List.nodup_append.mp hn).2.2 r h r (by simp) rfl
    have ih := closeP_spec p w hop.1 hnp hb
    simp only [closeP]
    generalize closeP p w = x at ih
    obtain ⟨p1, w1⟩ := x
    obtain ⟨hid, hk, hcl⟩ := ih
    simp only at hid hk hcl
    have ho1 : w1.isOpen r = true := by rw [hk.frame r hr]; exact hop.2
    refine ⟨by simp only [ids, hid], ?_, ?_⟩
    · exact (hk.mono (fun x hx => by simp [ids, hx])).trans (closeRes_keep hk.bad ho1 (by simp [ids]))
    · refine ⟨hcl.1, ?_⟩
      intro x hx
      simp only [ids, List.mem_append, List.mem_singleton] at hx
      by_cases hxr : x = r
      · simp [closeRes_isOpen, upd, hxr]
      · simp only [closeRes_isOpen, upd, hxr, if_false]
        exact hcl.2 x (hx.resolve_right hxr)
  | .map f p, w, hop, hn, hb => by
    simp only [Op] at hop
    simp only [ids] at hn
    have ih := closeP_spec p w hop hn hb
    simp only [closeP]
    generalize closeP p w = x at ih
    obtain ⟨p1, w1⟩ := x
    exact ih
  | .filter g p, w, hop, hn, hb => by
    simp only [Op] at hop
    simp only [ids] at hn
    have ih := closeP_spec p w hop hn hb
    simp only [closeP]
    generalize closeP p w = x at ih
    obtain ⟨p1, w1⟩ := x
    exact ih
  | .limit n c p, w, hop, hn, hb => by
    simp only [Op] at hop
    simp only [ids] at hn
    simp only [closeP]
    split
    · rename_i h; rw [if_pos h] at hop
      exact ⟨rfl, Keep.refl hb, hop⟩
    · rename_i h; rw [if_neg h] at hop
      have ih := closeP_spec p w hop hn hb
      generalize closeP p w = x at ih
      obtain ⟨p1, w1⟩ := x
      exact ih
  | .skip n d p, w, hop, hn, hb => by
    simp only [Op] at hop
    simp only [ids] at hn
    have ih := closeP_spec p w hop hn hb
    simp only [closeP]
    generalize closeP p w = x at ih
    obtain ⟨p1, w1⟩ := x
    exact ih
  | .concat ps next curOpen outerOpen, w, hop, hn, hb => by
    simp only [Op] at hop
    simp only [ids] at hn
    simp only [closeP]
    split
    · rename_i hc
      have ih := closeAt_spec ps (next - 1) w _ (fun j _ => by simp [hc]) hop hn hb
      generalize closeAt ps (next - 1) w = x at ih
      obtain ⟨ps1, w1⟩ := x
      obtain ⟨hid, _, hk, hcl⟩ := ih
      exact ⟨hid, hk, ⟨rfl, rfl, hcl.1⟩, by simpa [ids] using hcl.2⟩
    · rename_i hc
      have := (St_false ps (fun j _ => by simp [hc])).mp hop
      exact ⟨rfl, Keep.refl hb, ⟨rfl, rfl, this.1⟩, by simpa [ids] using this.2⟩
  | .zip ps opened, w, hop, hn, hb => by
    simp only [Op] at hop
    simp only [ids] at hn
    simp only [closeP]
    have ih := closeFirst_spec ps opened w _ (fun j hj => by simp [hop.1, hj]) hop.2 hn hb
    generalize closeFirst ps opened w = x at ih
    obtain ⟨ps1, w1⟩ := x
    obtain ⟨hid, _, hk, hcl⟩ := ih
    exact ⟨hid, hk, ⟨rfl, hcl.1⟩, by simpa [ids] using hcl.2⟩
  | .merge ps opened slots, w, hop, hn, hb => by
    simp only [Op] at hop
    simp only [ids] at hn
    simp only [closeP]
    have ih := closeFirst_spec ps opened w _ (fun j hj => by simp [hop.1, hj]) hop.2 hn hb
    generalize closeFirst ps opened w = x at ih
    obtain ⟨ps1, w1⟩ := x
    obtain ⟨hid, _, hk, hcl⟩ := ih
    exact ⟨hid, hk, ⟨rfl, hcl.1⟩, by simpa [ids] using hcl.2⟩
  | .window s st o buf d subOpen p, w, hop, hn, hb => by
    simp only [Op] at hop
    simp only [ids] at hn
    have ih := closeP_spec p w hop.2 hn hb
    simp only [closeP, hop.1, if_true]
    generalize closeP p w = x at ih
    obtain ⟨p1, w1⟩ := x
    obtain ⟨hid, hk, hcl⟩ := ih
    exact ⟨hid, hk, ⟨rfl, hcl.1⟩, hcl.2⟩
  | .cluster k fac nxt cls last subOpen p, w, hop, hn, hb => by
    simp only [Op] at hop
    simp only [ids] at hn
    have ih := closeP_spec p w hop.2 hn hb
    simp only [closeP, hop.1, if_true]
    generalize closeP p w = x at ih
    obtain ⟨p1, w1⟩ := x
    obtain ⟨hid, hk, hcl⟩ := ih
    exact ⟨hid, hk, ⟨rfl, hcl.1⟩, hcl.2⟩
/-- `closeFirst ps k`: the first `k` sub streams are open, the rest closed → all closed -/
theorem closeFirst_spec : ∀ (ps : PipeList) (k : Nat) (w : World) (f : Nat → Bool),
    (∀ j, j < ps.length → f j = decide (j < k)) → St ps f w.isOpen → (idsList ps).Nodup → w.bad = false →
    CloseLOK ps w (closeFirst ps k w)
  | .nil, k, w, f, _, _, _, hb => by
    simp only [closeFirst]
    exact ⟨rfl, rfl, Keep.refl hb, ClL_nil _⟩
  | .cons p ps, 0, w, f, hf, hs, _, hb => by
    simp only [closeFirst]
    exact ⟨rfl, rfl, Keep.refl hb, (St_false _ (fun j hj => by simp [hf j hj])).mp hs⟩
  | .cons p ps, k+1, w, f, hf, hs, hn, hb => by
    simp only [St] at hs
    simp only [idsList] at hn
    obtain ⟨hnp, hnps, hdis⟩ := List.nodup_append.mp hn
    have hf0 : f 0 = true := by simp [hf 0 (by simp [PipeList.length])]
    rw [if_pos hf0] at hs
    have ih1 := closeFirst_spec ps k w (fun j => f (j+1))
      (fun j hj => by simp [hf (j+1) (by simp [PipeList.length]; omega)]) hs.2 hnps hb
    simp only [closeFirst]
    generalize closeFirst ps k w = x at ih1
    obtain ⟨ps1, w1⟩ := x
    obtain ⟨hid1, hlen1, hk1, hcl1⟩ := ih1
    simp only at hid1 hlen1 hk1 hcl1
    have hp1 : Op p w1.isOpen :=
      Op_congr p (fun x hx => hk1.frame x (fun hxs => hdis x hx x hxs rfl)) hs.1
    have ih2 := closeP_spec p w1 hp1 hnp hk1.bad
    generalize closeP p w1 = y at ih2
    obtain ⟨p2, w2⟩ := y
    obtain ⟨hid2, hk2, hcl2⟩ := ih2
    simp only at hid2 hk2 hcl2
    refine ⟨by simp only [idsList, hid1, hid2], by simp only [PipeList.length, hlen1], ?_, ?_⟩
    · exact (hk1.mono (fun x hx => by simp [idsList, hx])).trans (hk2.mono (fun x hx => by simp [idsList, hx]))
    · refine ClL_cons.mpr ⟨hcl2, ClL_congr (fun x hx => hk2.frame x (fun hxp => ?_)) hcl1⟩
      rw [hid1] at hx
      exact hdis x hxp x hx rfl
/-- `closeAt ps i`: only sub stream `i` is open → all closed -/
theorem closeAt_spec : ∀ (ps : PipeList) (i : Nat) (w : World) (f : Nat → Bool),
    (∀ j, j < ps.length → f j = (j == i)) → St ps f w.isOpen → (idsList ps).Nodup → w.bad = false →
    CloseLOK ps w (closeAt ps i w)
  | .nil, i, w, f, _, _, _, hb => by
    simp only [closeAt]
    exact ⟨rfl, rfl, Keep.refl hb, ClL_nil _⟩
  | .cons p ps, 0, w, f, hf, hs, hn, hb => by
    simp only [St] at hs
    simp only [idsList] at hn
    obtain ⟨hnp, hnps, hdis⟩ := List.nodup_append.mp hn
    have hf0 : f 0 = true := by simp [hf 0 (by simp [PipeList.length])]
    rw [if_pos hf0] at hs
    have hrest : ClL ps w.isOpen :=
      (St_false ps (fun j hj => by simp [hf (j+1) (by simp [PipeList.length]; omega)])).mp hs.2
    have ih := closeP_spec p w hs.1 hnp hb
    simp only [closeAt]
    generalize closeP p w = y at ih
    obtain ⟨p2, w2⟩ := y
    obtain ⟨hid2, hk2, hcl2⟩ := ih
    simp only at hid2 hk2 hcl2
    refine ⟨by simp only [idsList, hid2], rfl, hk2.mono (fun x hx => by simp [idsList, hx]), ?_⟩
    exact ClL_cons.mpr ⟨hcl2, ClL_congr (fun x hx => hk2.frame x (fun hxp => hdis x hxp x hx rfl)) hrest⟩
  | .cons p ps, i+1, w, f, hf, hs, hn, hb => by
    simp only [St] at hs
    simp only [idsList] at hn
    obtain ⟨hnp, hnps, hdis⟩ := List.nodup_append.mp hn
    have hf0 : f 0 = false := by simp [hf 0 (by simp [PipeList.length])]
    rw [if_neg (by simp [hf0])] at hs
    have ih1 := closeAt_spec ps i w (fun j => f (j+1))
      (fun j hj => by simp [hf (j+1) (by simp [PipeList.length]; omega)]) hs.2 hnps hb
    simp only [closeAt]
    generalize closeAt ps i w = x at ih1
    obtain ⟨ps1, w1⟩ := x
    obtain ⟨hid1, hlen1, hk1, hcl1⟩ := ih1
    simp only at hid1 hlen1 hk1 hcl1
    refine ⟨by simp only [idsList, hid1], by simp only [PipeList.length, hlen1],
      hk1.mono (fun x hx => by simp [idsList, hx]), ?_⟩
    exact ClL_cons.mpr ⟨Cl_congr (fun x hx => hk1.frame x (fun hxs => hdis x hx x hxs rfl)) hs.1, hcl1⟩
end

end ShpanVerif.Proofs.PipeC01
