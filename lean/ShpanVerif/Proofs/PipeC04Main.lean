/-
C04 proofs, part 6: Open establishes the denotation (`OpenOK`), the simultaneous induction on fuel
(`below_all`), and the terminal's pull loop.
-/
import ShpanVerif.Proofs.PipeC04Merge
import ShpanVerif.Proofs.PipeC04Cluster

namespace ShpanVerif.Proofs.PipeC04
open ShpanVerif.Model.Pipe ShpanVerif

/-! ### `evalList` pointwise -/

theorem evalList_all2 : ∀ (ps : PipeList) (ls : List (List V)), ReadyList ps → Spec.evalList ps = some ls →
    All2 RE ps.toList ls
  | .nil, ls, _, h => by
    simp only [Spec.evalList, Option.some.injEq] at h
    subst h; exact All2.nil
  | .cons p ps, ls, hr, h => by
    rw [ReadyList] at hr
    rw [Spec.evalList] at h
    cases h1 : Spec.eval p with
    | none => simp [h1] at h
    | some l =>
      cases h2 : Spec.evalList ps with
      | none => simp [h1, h2] at h
      | some ls' =>
        simp only [h1, h2, Option.some.injEq] at h
        subst h
        exact All2.cons_iff.mpr ⟨⟨hr.1, h1⟩, evalList_all2 ps ls' hr.2 h2⟩

/-! ### opening a list of sub streams (ZipN, merge) -/

/-- sub streams below `i` are open and denote their list, the others are still ready -/
def Mixed (i : Nat) (ps : List Pipe) (ls : List (List V)) : Prop :=
  ps.length = ls.length ∧
    ∀ (j : Nat) p l, ps[j]? = some p → ls[j]? = some l → (j < i → Den p l) ∧ (i ≤ j → RE p l)

def OpenListOK (r : Res Unit × PipeList × World) (ls : List (List V)) : Prop :=
  match r with
  | (.oof, _, _) => True
  | (.val _, ps', w') => w'.Clean ∧ All2 Den ps'.toList ls
  | (.eof, _, _) => False
  | (.fail _, _, _) => False
  | (.panic _, _, _) => False

theorem openList_ok {F : Nat} (hB : Below F) : ∀ fuel, fuel ≤ F →
    ∀ (ps : PipeList) (i : Nat) (ls : List (List V)) (w : World),
      Mixed i ps.toList ls → w.Clean → OpenListOK (openList fuel ps i w) ls
  | 0, _, _, _, _, _, _, _ => by rw [openList]; trivial
  | fuel+1, hf, ps, i, ls, w, hm, hw => by
    rw [openList]
    cases hg : ps.get? i with
    | none =>
      simp only [OpenListOK]
      rw [get?_toList] at hg
      have hlen := List.getElem?_eq_none_iff.mp hg
      refine ⟨hw, hm.1, fun j p l hp hl => (hm.2 j p l hp hl).1 ?_⟩
      have := (List.getElem?_eq_some_iff.mp hp).1
      omega
    | some p =>
      simp only
      have hg' : ps.toList[i]? = some p := by rw [← get?_toList]; exact hg
      have hilt : i < ps.toList.length := (List.getElem?_eq_some_iff.mp hg').1
      have hilt' : i < ls.length := hm.1 ▸ hilt
      have hre : RE p ls[i] := (hm.2 i p ls[i] hg' (List.getElem?_eq_getElem hilt')).2 (Nat.le_refl _)
      have ho := (hB fuel (by omega)).2 p ls[i] w hre hw
      rcases hoe : openP fuel p w with ⟨res, p', w'⟩
      rw [hoe] at ho
      cases res <;> simp only [OpenStepOK, OpenListOK] at ho ⊢
      obtain ⟨hc, hdp⟩ := ho
      apply openList_ok hB fuel (by omega) _ _ _ _ _ hc
      rw [toList_set]
      refine ⟨by rw [List.length_set]; exact hm.1, fun j q l hq hl => ?_⟩
      rw [List.getElem?_set] at hq
      by_cases hij : i = j
      · subst hij
        rw [if_pos rfl, if_pos hilt] at hq
        cases hq
        rw [List.getElem?_eq_getElem hilt'] at hl
        cases hl
        exact ⟨fun _ => hdp, fun h => by omega⟩
      · rw [if_neg hij] at hq
        have := hm.2 j q l hq hl
        exact ⟨fun h => this.1 (by omega), fun h => this.2 (by omega)⟩

theorem mixed_zero {ps : List Pipe} {ls : List (List V)} (h : All2 RE ps ls) : Mixed 0 ps ls :=
  ⟨h.1, fun j p l hp hl => ⟨fun h0 => absurd h0 (Nat.not_lt_zero _), fun _ => h.2 j p l hp hl⟩⟩

/-! ### Open, per operator -/

theorem open_src {fuel : Nat} (r : Nat) (xs : List Int) (idx : Nat) (l : List V) (w : World)
    (hre : RE (.src r xs idx) l) (hw : w.Clean) : OpenStepOK (openP (fuel+1) (.src r xs idx) w) l := by
  obtain ⟨_, he⟩ := hre
  rw [Spec.eval] at he
  cases he
  rw [openP]
  obtain ⟨w', ho, hc⟩ := openRes_clean r hw
  rw [ho]
  exact ⟨hc, by rw [Den]; simp⟩

theorem open_lc {fuel : Nat} (ih : OpenOK fuel) (r : Nat) (p : Pipe) (l : List V) (w : World)
    (hre : RE (.lc r p) l) (hw : w.Clean) : OpenStepOK (openP (fuel+1) (.lc r p) w) l := by
  obtain ⟨hr, he⟩ := hre
  rw [Ready] at hr
  rw [Spec.eval] at he
  have h := ih p l w ⟨hr, he⟩ hw
  rw [openP]
  rcases hoe : openP fuel p w with ⟨res, p', w'⟩
  rw [hoe] at h
  cases res <;> simp only [OpenStepOK] at h ⊢
  obtain ⟨hc, hd⟩ := h
  obtain ⟨w'', ho, hc'⟩ := openRes_clean r hc
  rw [ho]
  exact ⟨hc', by rw [Den]; exact hd⟩

theorem open_map {fuel : Nat} (ih : OpenOK fuel) (f : Fn) (p : Pipe) (l : List V) (w : World)
    (hre : RE (.map f p) l) (hw : w.Clean) : OpenStepOK (openP (fuel+1) (.map f p) w) l := by
  obtain ⟨hr, he⟩ := hre
  rw [Ready] at hr
  rw [Spec.eval] at he
  obtain ⟨l0, he0, rfl⟩ := Option.map_eq_some_iff.mp he
  have h := ih p l0 w ⟨hr, he0⟩ hw
  rw [openP]
  rcases hoe : openP fuel p w with ⟨res, p', w'⟩
  rw [hoe] at h
  cases res <;> simp only [OpenStepOK] at h ⊢
  exact ⟨h.1, by rw [Den]; exact ⟨l0, h.2, rfl⟩⟩

theorem open_filter {fuel : Nat} (ih : OpenOK fuel) (g : Pred) (p : Pipe) (l : List V) (w : World)
    (hre : RE (.filter g p) l) (hw : w.Clean) : OpenStepOK (openP (fuel+1) (.filter g p) w) l := by
  obtain ⟨hr, he⟩ := hre
  rw [Ready] at hr
  rw [Spec.eval] at he
  obtain ⟨l0, he0, rfl⟩ := Option.map_eq_some_iff.mp he
  have h := ih p l0 w ⟨hr, he0⟩ hw
  rw [openP]
  rcases hoe : openP fuel p w with ⟨res, p', w'⟩
  rw [hoe] at h
  cases res <;> simp only [OpenStepOK] at h ⊢
  exact ⟨h.1, by rw [Den]; exact ⟨l0, h.2, rfl⟩⟩

theorem open_limit {fuel : Nat} (ih : OpenOK fuel) (n c : Int) (p : Pipe) (l : List V) (w : World)
    (hre : RE (.limit n c p) l) (hw : w.Clean) : OpenStepOK (openP (fuel+1) (.limit n c p) w) l := by
  obtain ⟨hr, he⟩ := hre
  rw [Ready] at hr
  obtain ⟨rfl, hr⟩ := hr
  rw [Spec.eval] at he
  rw [openP]
  by_cases hn : n ≤ 0
  · rw [if_pos hn] at he ⊢
    cases he
    exact ⟨hw, by rw [Den]; exact Or.inl ⟨hn, rfl⟩⟩
  · rw [if_neg hn] at he ⊢
    obtain ⟨l0, he0, rfl⟩ := Option.map_eq_some_iff.mp he
    have h := ih p l0 w ⟨hr, he0⟩ hw
    rcases hoe : openP fuel p w with ⟨res, p', w'⟩
    rw [hoe] at h
    cases res <;> simp only [OpenStepOK] at h ⊢
    exact ⟨h.1, by rw [Den]; exact Or.inr ⟨by omega, l0, h.2, by simp⟩⟩

theorem open_skip {fuel : Nat} (ih : OpenOK fuel) (n : Nat) (d : Bool) (p : Pipe) (l : List V) (w : World)
    (hre : RE (.skip n d p) l) (hw : w.Clean) : OpenStepOK (openP (fuel+1) (.skip n d p) w) l := by
  obtain ⟨hr, he⟩ := hre
  rw [Ready] at hr
  obtain ⟨rfl, hr⟩ := hr
  rw [Spec.eval] at he
  obtain ⟨l0, he0, rfl⟩ := Option.map_eq_some_iff.mp he
  have h := ih p l0 w ⟨hr, he0⟩ hw
  rw [openP]
  rcases hoe : openP fuel p w with ⟨res, p', w'⟩
  rw [hoe] at h
  cases res <;> simp only [OpenStepOK] at h ⊢
  exact ⟨h.1, by rw [Den]; exact ⟨l0, h.2, by simp⟩⟩

theorem open_concat {fuel : Nat} (ih : OpenOK fuel) (ps : PipeList) (next : Nat) (curOpen outerOpen : Bool)
    (l : List V) (w : World)
    (hre : RE (.concat ps next curOpen outerOpen) l) (hw : w.Clean) :
    OpenStepOK (openP (fuel+1) (.concat ps next curOpen outerOpen) w) l := by
  obtain ⟨hr, he⟩ := hre
  rw [Ready] at hr
  obtain ⟨_, _, hrl⟩ := hr
  rw [Spec.eval] at he
  obtain ⟨ls, hel, rfl⟩ := Option.map_eq_some_iff.mp he
  have hall := evalList_all2 ps ls hrl hel
  rw [openP]
  by_cases hz : ps.length = 0
  · rw [if_pos hz]
    have : ls = [] := by
      have := hall.1; rw [length_toList, hz] at this
      exact List.eq_nil_of_length_eq_zero this.symm
    subst this
    exact ⟨hw, by rw [Den]; exact Or.inl ⟨rfl, rfl⟩⟩
  · rw [if_neg hz, if_neg (not_cancelled hw)]
    have h0 : 0 < ps.toList.length := by rw [length_toList]; omega
    have hg0 : ps.get? 0 = some ps.toList[0] := by rw [get?_toList]; exact List.getElem?_eq_getElem h0
    rw [hg0]
    simp only
    have hg0' : ps.toList[0]? = some ps.toList[0] := List.getElem?_eq_getElem h0
    obtain ⟨l0, ls', rfl, hre0, hrest⟩ := all2_drop_cons (i := 0) (by simpa using hall) hg0'
    have h := ih _ l0 w hre0 hw
    rcases hoe : openP fuel ps.toList[0] w with ⟨res, p', w'⟩
    rw [hoe] at h
    cases res <;> simp only [OpenStepOK] at h ⊢
    refine ⟨h.1, ?_⟩
    rw [Den]
    refine Or.inr ⟨rfl, by omega, l0, ls', ?_, ?_, by simp⟩
    · exact (denAt_iff _ _ _).mpr ⟨p', by simpa using get?_set_self ps hg0 p', h.2⟩
    · rw [toList_set, List.drop_set_of_lt (by omega)]; exact hrest

theorem open_zip {fuel : Nat} (hB : Below (fuel+1)) (ps : PipeList) (opened : Nat) (l : List V) (w : World)
    (hre : RE (.zip ps opened) l) (hw : w.Clean) : OpenStepOK (openP (fuel+1) (.zip ps opened) w) l := by
  obtain ⟨hr, he⟩ := hre
  rw [Ready] at hr
  rw [Spec.eval] at he
  obtain ⟨ls, hel, rfl⟩ := Option.map_eq_some_iff.mp he
  have hall := evalList_all2 ps ls hr.2 hel
  rw [openP]
  by_cases hz : ps.length = 0
  · rw [if_pos hz]
    have : ls = [] := by
      have := hall.1; rw [length_toList, hz] at this
      exact List.eq_nil_of_length_eq_zero this.symm
    subst this
    refine ⟨hw, ?_⟩
    rw [Den]
    refine ⟨[], (denList_iff _ _).mpr ⟨by rw [length_toList, hz]; rfl, ?_⟩, rfl⟩
    intro j p l hp
    have := (List.getElem?_eq_some_iff.mp hp).1
    rw [length_toList] at this; omega
  · rw [if_neg hz]
    have h := openList_ok (hB.mono (Nat.le_succ _)) fuel (Nat.le_refl _) ps 0 ls w (mixed_zero hall) hw
    rcases hoe : openList fuel ps 0 w with ⟨res, ps', w'⟩
    rw [hoe] at h
    cases res <;> simp only [OpenListOK, OpenStepOK] at h ⊢
    exact ⟨h.1, by rw [Den]; exact ⟨ls, (denList_iff _ _).mpr h.2, rfl⟩⟩

theorem sortedInputs_init (ls : List (List V)) (h : ls.all (Spec.sortedBy V.key) = true) :
    Props.C08.SortedInputs ltK (ls.map (fun l => (none, l))) := by
  intro x hx
  obtain ⟨l, hl, rfl⟩ := List.mem_map.mp hx
  have hs : Spec.sortedBy V.key l = true := List.all_eq_true.mp h l hl
  have hp := sortedBy_pairwise V.key l hs
  simp only [Props.C08.view, Option.toList_none, List.nil_append]
  refine hp.imp ?_
  intro a b hab
  rw [leOf_ltK]; simpa using hab

theorem views_init' (ls : List (List V)) : Props.C08.views (ls.map (fun l => (none, l))) = ls.flatten := by
  induction ls with
  | nil => rfl
  | cons l ls ih => simp_all [Props.C08.views, Props.C08.view]

theorem open_merge {fuel : Nat} (hB : Below (fuel+1)) (ps : PipeList) (opened : Nat)
    (slots : Option (List (Option V))) (l : List V) (w : World)
    (hre : RE (.merge ps opened slots) l) (hw : w.Clean) :
    OpenStepOK (openP (fuel+1) (.merge ps opened slots) w) l := by
  obtain ⟨hr, he⟩ := hre
  rw [Ready] at hr
  rw [Spec.eval] at he
  cases hel : Spec.evalList ps with
  | none => rw [hel] at he; cases he
  | some ls =>
    rw [hel] at he
    simp only at he
    by_cases hs : ls.all (Spec.sortedBy V.key) = true
    · rw [if_pos hs] at he
      cases he
      have hall := evalList_all2 ps ls hr.2 hel
      have hinv : ∀ (ps' : PipeList) (sl : Option (List (Option V))), All2 Den ps'.toList ls →
          sl.getD (List.replicate ps'.length none) = List.replicate ps'.length none →
          Den (.merge ps' ps'.length sl) (ls.flatten.mergeSort (fun a b => decide (a.key ≤ b.key))) := by
        intro ps' sl hd hsl
        rw [Den]
        refine Or.inr ⟨ls.map (fun l => (none, l)), (denList_iff _ _).mpr (by simpa [Function.comp_def] using hd), ?_,
          sortedInputs_init ls hs, ?_⟩
        · rw [hsl]
          have : ps'.length = ls.length := by rw [← length_toList]; exact hd.1
          rw [this]
          apply List.ext_getElem?
          intro j
          simp only [List.getElem?_replicate, List.map_map, List.getElem?_map, Function.comp_def]
          by_cases hj : j < ls.length
          · simp [hj]
          · simp [hj]
        · rw [views_init', leOf_ltK]
      rw [openP]
      by_cases hz : ps.length = 0
      · rw [if_pos hz]
        have hls : ls = [] := by
          have := hall.1; rw [length_toList, hz] at this
          exact List.eq_nil_of_length_eq_zero this.symm
        subst hls
        exact ⟨hw, by rw [Den]; exact Or.inl ⟨hz, by simp⟩⟩
      · rw [if_neg hz]
        have h := openList_ok (hB.mono (Nat.le_succ _)) fuel (Nat.le_refl _) ps 0 ls w (mixed_zero hall) hw
        rcases hoe : openList fuel ps 0 w with ⟨res, ps', w'⟩
        rw [hoe] at h
        cases res <;> simp only [OpenListOK, OpenStepOK] at h ⊢
        exact ⟨h.1, hinv ps' none h.2 rfl⟩
    · rw [if_neg hs] at he; cases he

theorem open_window {fuel : Nat} (ih : OpenOK fuel) (s st : Nat) (o : Bool) (buf : List V) (d so : Bool)
    (p : Pipe) (l : List V) (w : World)
    (hre : RE (.window s st o buf d so p) l) (hw : w.Clean) :
    OpenStepOK (openP (fuel+1) (.window s st o buf d so p) w) l := by
  obtain ⟨hr, he⟩ := hre
  rw [Ready] at hr
  obtain ⟨rfl, rfl, _, hr⟩ := hr
  rw [Spec.eval] at he
  by_cases hp : windowParamsOk s st = true
  · have hp' : (!windowParamsOk s st) = false := by simp [hp]
    rw [hp'] at he
    simp only [Bool.false_eq_true, if_false] at he
    obtain ⟨l0, he0, rfl⟩ := Option.map_eq_some_iff.mp he
    have h := ih p l0 w ⟨hr, he0⟩ hw
    rw [openP, hp']
    simp only [Bool.false_eq_true, if_false]
    rcases hoe : openP fuel p w with ⟨res, p', w'⟩
    rw [hoe] at h
    cases res <;> simp only [OpenStepOK] at h ⊢
    exact ⟨h.1, by rw [Den]; exact ⟨hp, Or.inr ⟨rfl, l0, h.2, rfl⟩⟩⟩
  · have hp' : (!windowParamsOk s st) = true := by simpa using hp
    rw [hp'] at he
    simp at he

theorem open_cluster {fuel : Nat} (hB : Below (fuel+1)) (k : Int) (fac : Fac) (nxt : Option V) (cls : Int)
    (last : Option V) (so : Bool) (p : Pipe) (l : List V) (w : World)
    (hre : RE (.cluster k fac nxt cls last so p) l) (hw : w.Clean) :
    OpenStepOK (openP (fuel+1) (.cluster k fac nxt cls last so p) w) l := by
  obtain ⟨hr, he⟩ := hre
  rw [Ready] at hr
  obtain ⟨rfl, _, hr⟩ := hr
  rw [Spec.eval] at he
  cases he0 : Spec.eval p with
  | none => rw [he0] at he; cases he
  | some l0 =>
    rw [he0] at he
    simp only at he
    by_cases hc : (decide (k > 0) && Spec.sortedBy (classify k) l0) = true
    · rw [if_pos hc] at he
      cases he
      have hsorted : Spec.sortedBy (classify k) l0 = true := by
        simp only [Bool.and_eq_true] at hc; exact hc.2
      have h := (hB fuel (by omega)).2 p l0 w ⟨hr, he0⟩ hw
      rw [openP]
      rcases hoe : openP fuel p w with ⟨res, p', w'⟩
      rw [hoe] at h
      cases res <;> simp only [OpenStepOK] at h ⊢
      obtain ⟨hc1, hd⟩ := h
      have h2 := (hB fuel (by omega)).1 p' l0 w' hd hc1
      rcases hee : emitP fuel p' w' with ⟨res2, p'', w''⟩
      rw [hee] at h2
      cases res2 <;> simp only [StepOK] at h2 ⊢
      · obtain ⟨xs, rfl, hc2, hd2⟩ := h2
        exact ⟨hc2, by rw [Den]; exact ⟨rfl, xs, hd2, hsorted, rfl⟩⟩
      · obtain ⟨rfl, hc2, hd2⟩ := h2
        exact ⟨hc2, by rw [Den]; rfl⟩
    · rw [if_neg hc] at he; cases he

/-! ### the induction -/

theorem emit_ok {fuel : Nat} (hB : Below (fuel+1)) : EmitOK (fuel+1) := by
  have ih := (hB fuel (Nat.lt_succ_self _)).1
  intro p l w hd hw
  cases p with
  | src r xs idx => exact emit_src r xs idx l w hd hw
  | lc r p => exact emit_lc ih r p l w hd hw
  | map f p => exact emit_map ih f p l w hd hw
  | filter g p => exact emit_filter ih g p l w hd hw
  | limit n c p => exact emit_limit ih n c p l w hd hw
  | skip n d p => exact emit_skip hB n d p l w hd hw
  | concat ps next curOpen outerOpen => exact emit_concat hB ps next curOpen outerOpen l w hd hw
  | zip ps opened => exact emit_zip hB ps opened l w hd hw
  | merge ps opened slots => exact emit_merge hB ps opened slots l w hd hw
  | window s st o buf d so p => exact emit_window hB s st o buf d so p l w hd hw
  | cluster k fac nxt cls last so p => exact emit_cluster hB k fac nxt cls last so p l w hd hw

theorem open_ok {fuel : Nat} (hB : Below (fuel+1)) : OpenOK (fuel+1) := by
  have ih := (hB fuel (Nat.lt_succ_self _)).2
  intro p l w hre hw
  cases p with
  | src r xs idx => exact open_src r xs idx l w hre hw
  | lc r p => exact open_lc ih r p l w hre hw
  | map f p => exact open_map ih f p l w hre hw
  | filter g p => exact open_filter ih g p l w hre hw
  | limit n c p => exact open_limit ih n c p l w hre hw
  | skip n d p => exact open_skip ih n d p l w hre hw
  | concat ps next curOpen outerOpen => exact open_concat ih ps next curOpen outerOpen l w hre hw
  | zip ps opened => exact open_zip hB ps opened l w hre hw
  | merge ps opened slots => exact open_merge hB ps opened slots l w hre hw
  | window s st o buf d so p => exact open_window ih s st o buf d so p l w hre hw
  | cluster k fac nxt cls last so p => exact open_cluster hB k fac nxt cls last so p l w hre hw

theorem below_all : ∀ F, Below F
  | 0 => fun f hf => absurd hf (Nat.not_lt_zero f)
  | F+1 => by
    have ih := below_all F
    intro f hf
    by_cases hfF : f < F
    · exact ih f hfF
    · have : f = F := by omega
      subst this
      cases f with
      | zero => exact ⟨emitOK_zero, openOK_zero⟩
      | succ n => exact ⟨emit_ok ih, open_ok ih⟩

/-- **provider calls**: in a clean world a state denoting `l` yields the head of `l` and a state denoting the
    tail, or EOF (sticky) when `l` is empty — or the model runs out of fuel. -/
theorem emitOK_all (fuel : Nat) : EmitOK fuel := (below_all (fuel+1) fuel (Nat.lt_succ_self _)).1

/-- **Open**: from its initial state, in a clean world, Open succeeds and establishes the list-level meaning. -/
theorem openOK_all (fuel : Nat) : OpenOK fuel := (below_all (fuel+1) fuel (Nat.lt_succ_self _)).2

/-! ### the terminal -/

theorem pullLoop_ok (c : Consumer) : ∀ (fuel : Nat) (p : Pipe) (l acc : List V) (w : World), Den p l → w.Clean →
    (pullLoop fuel c p acc w).1 = .oof ∨
      ∃ p' w', pullLoop fuel c p acc w = (.val (), l.reverse ++ acc, p', w')
  | 0, _, _, _, _, _, _ => by rw [pullLoop]; exact Or.inl rfl
  | fuel+1, p, l, acc, w, hd, hw => by
    rw [pullLoop, if_neg (not_cancelled hw)]
    have h := emitOK_all fuel p l w hd hw
    rcases he : emitP fuel p w with ⟨res, p', w'⟩
    rw [he] at h
    cases res <;> simp only [StepOK] at h ⊢
    · rename_i v
      obtain ⟨xs, rfl, hc, hd'⟩ := h
      cases c with
      | collect =>
        simp only
        have ih := pullLoop_ok .collect fuel p' xs (v :: acc) w' hd' hc
        simpa using ih
      | user =>
        simp only
        obtain ⟨w'', hu, hc'⟩ := userCall_clean hc
        rw [hu]
        simp only
        have ih := pullLoop_ok .user fuel p' xs (v :: acc) w'' hd' hc'
        simpa using ih
    · obtain ⟨rfl, _, _⟩ := h
      exact Or.inr ⟨p', w', rfl⟩
    · exact Or.inl trivial

theorem consume_ok (fuel : Nat) (c : Consumer) (p : Pipe) (l : List V) (w : World)
    (hr : Ready p) (he : Spec.eval p = some l) (hw : w.Clean) :
    (consume fuel c p w).1 = .oof ∨ (consume fuel c p w).1 = .ok l := by
  have ho := openOK_all fuel p l w ⟨hr, he⟩ hw
  unfold consume
  rcases hoe : openP fuel p w with ⟨res, p', w'⟩
  rw [hoe] at ho
  cases res <;> simp only [OpenStepOK] at ho ⊢
  · obtain ⟨hc, hd⟩ := ho
    rcases pullLoop_ok c fuel p' l [] w' hd hc with h | ⟨p'', w'', h⟩
    · rcases hp : pullLoop fuel c p' [] w' with ⟨res2, acc, p2, w2⟩
      rw [hp] at h
      simp only at h
      subst h
      exact Or.inl rfl
    · rw [h]
      simp
  · first | exact Or.inl rfl | exact Or.inl trivial | trivial

end ShpanVerif.Proofs.PipeC04
