/-
Helper lemmas about core's stable `List.mergeSort` (core only).
Main result: `mergeSort_extract_min` — an element that is strictly below everything before it and
weakly below everything after it is emitted first by the stable sort.
-/
namespace ShpanVerif.Proofs

open List

variable {α : Type} {le : α → α → Bool}

/-- A list splits uniquely into a prefix satisfying `P` everywhere and a suffix satisfying `¬P` everywhere. -/
theorem split_unique {P : α → Bool} :
    ∀ (l₁ l₂ m₁ m₂ : List α), l₁ ++ l₂ = m₁ ++ m₂ →
      (∀ b ∈ l₁, P b = true) → (∀ b ∈ l₂, P b = false) →
      (∀ b ∈ m₁, P b = true) → (∀ b ∈ m₂, P b = false) → l₁ = m₁ ∧ l₂ = m₂
  | [], l₂, [], m₂, h, _, _, _, _ => by simpa using h
  | [], l₂, b :: m₁, m₂, h, _, hl₂, hm₁, _ => by
      have : l₂ = b :: (m₁ ++ m₂) := by simpa using h
      have h1 := hl₂ b (by simp [this])
      have h2 := hm₁ b (by simp)
      simp [h1] at h2
  | a :: l₁, l₂, [], m₂, h, hl₁, _, _, hm₂ => by
      have : m₂ = a :: (l₁ ++ l₂) := by simpa using h.symm
      have h1 := hm₂ a (by simp [this])
      have h2 := hl₁ a (by simp)
      simp [h1] at h2
  | a :: l₁, l₂, b :: m₁, m₂, h, hl₁, hl₂, hm₁, hm₂ => by
      simp only [cons_append, cons.injEq] at h
      obtain ⟨rfl, h⟩ := h
      have := split_unique l₁ l₂ m₁ m₂ h (fun b hb => hl₁ b (by simp [hb])) hl₂
        (fun b hb => hm₁ b (by simp [hb])) hm₂
      simp [this.1, this.2]

attribute [local instance] boolRelToRel

/-- In a stable sort, an element `x` with only strictly larger elements before it and only
weakly larger elements after it comes out first. -/
theorem mergeSort_extract_min
    (trans : ∀ (a b c : α), le a b → le b c → le a c)
    (total : ∀ (a b : α), le a b || le b a) (x : α) :
    ∀ (pre post : List α), (∀ p ∈ pre, le p x = false) → (∀ q ∈ post, le x q = true) →
      mergeSort (pre ++ x :: post) le = x :: mergeSort (pre ++ post) le
  | [], post, _, hpost => by
      obtain ⟨l₁, l₂, h₁, h₂, h₃⟩ := mergeSort_cons trans total x post
      have : l₁ = [] := by
        cases l₁ with
        | nil => rfl
        | cons b l₁ =>
          have hb : b ∈ post := by
            have : b ∈ mergeSort post le := by rw [h₂]; simp
            exact mem_mergeSort.mp this
          have := h₃ b (by simp)
          simp [hpost b hb] at this
      subst this
      simpa [h₂] using h₁
  | p :: pre, post, hpre, hpost => by
      have ih := mergeSort_extract_min trans total x pre post
        (fun q hq => hpre q (by simp [hq])) hpost
      have hpx : le p x = false := hpre p (by simp)
      have hxp : le x p = true := by
        have := total p x
        simpa [hpx] using this
      obtain ⟨l₁, l₂, h₁, h₂, h₃⟩ := mergeSort_cons trans total p (pre ++ x :: post)
      obtain ⟨m₁, m₂, g₁, g₂, g₃⟩ := mergeSort_cons trans total p (pre ++ post)
      -- sortedness of both results
      have s₁ : (l₁ ++ p :: l₂).Pairwise le := by
        rw [← h₁]; exact pairwise_mergeSort trans total _
      have s₂ : (m₁ ++ p :: m₂).Pairwise le := by
        rw [← g₁]; exact pairwise_mergeSort trans total _
      have hl₂ : ∀ b ∈ l₂, le p b = true := by
        intro b hb
        have := (pairwise_append.mp s₁).2.1
        exact rel_of_pairwise_cons this hb
      have hm₂ : ∀ b ∈ m₂, le p b = true := by
        intro b hb
        have := (pairwise_append.mp s₂).2.1
        exact rel_of_pairwise_cons this hb
      -- x must sit in l₁
      rw [ih] at h₂
      cases l₁ with
      | nil =>
        simp only [nil_append] at h₂
        have : x ∈ l₂ := by rw [← h₂]; simp
        have := hl₂ x this
        simp [hpx] at this
      | cons y l₁ =>
        simp only [cons_append, cons.injEq] at h₂
        obtain ⟨rfl, h₂⟩ := h₂
        rw [g₂] at h₂
        have hu := split_unique (P := fun b => !le p b) l₁ l₂ m₁ m₂ h₂.symm
          (fun b hb => by simpa using h₃ b (by simp [hb]))
          (fun b hb => by simp [hl₂ b hb])
          (fun b hb => by simpa using g₃ b hb)
          (fun b hb => by simp [hm₂ b hb])
        show mergeSort (p :: (pre ++ x :: post)) le = x :: mergeSort (p :: (pre ++ post)) le
        rw [h₁, g₁, hu.1, hu.2]
        simp

end ShpanVerif.Proofs
