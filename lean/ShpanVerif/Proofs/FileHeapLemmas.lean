/-
C20, "elements stay valid": in the heap model (Model/FileHeap.lean) the scanner only ever writes to its own buffer
array, and an element produced by `bytes.Clone` lives in an array of its own — so what an element reads after the whole
stream was pulled is what it held when it was yielded.
-/
import ShpanVerif.Model.FileHeap


set_option autoImplicit false
namespace ShpanVerif.Proofs.FileHeap
open List ShpanVerif.Model.FileScan ShpanVerif.Model.FileHeap

theorem scanH_rs (f : Bytes) (fuel : Nat) (h : HS) :
    (scanH f fuel h).1.rs = (scan f fuel h.rs).1 ∧ (scanH f fuel h).2 = (scan f fuel h.rs).2 := by
  unfold scanH; split <;> simp

/-- `Scan` touches only the scanner's current array; the heap never shrinks; the scanner stays in its array or moves
to a fresh one. -/
theorem scanH_frame (f : Bytes) (fuel : Nat) (h : HS) (hc : h.cur < h.heap.length) :
    h.heap.length ≤ (scanH f fuel h).1.heap.length ∧
    (scanH f fuel h).1.cur < (scanH f fuel h).1.heap.length ∧
    ((scanH f fuel h).1.cur = h.cur ∨ h.heap.length ≤ (scanH f fuel h).1.cur) ∧
    ∀ j, j < h.heap.length → j ≠ h.cur → (scanH f fuel h).1.heap.getD j [] = h.heap.getD j [] := by
  unfold scanH
  split
  · refine ⟨by simp, by simpa using hc, Or.inl rfl, ?_⟩
    intro j _ hj
    simp only [getD_eq_getElem?_getD]
    rw [getElem?_set_ne (by omega)]
  · refine ⟨by simp, by simp, Or.inr (Nat.le_refl _), ?_⟩
    intro j hj _
    simp only [getD_eq_getElem?_getD]
    rw [getElem?_append_left hj]

/-- Arrays other than the scanner's current one keep their content for the rest of the run (cloning Emit). -/
theorem collectH_frame (f : Bytes) (fuel : Nat) : ∀ (n : Nat) (h : HS), h.cur < h.heap.length →
    ∀ j, j < h.heap.length → j ≠ h.cur → (collectH true f fuel n h).2.heap.getD j [] = h.heap.getD j [] := by
  intro n
  induction n with
  | zero => intro h _ j _ _; rfl
  | succ n ih =>
    intro h hc j hj hne
    obtain ⟨hlen, hc1, hcur, hfr⟩ := scanH_frame f fuel h hc
    have hj1 : j ≠ (scanH f fuel h).1.cur := by
      rcases hcur with e | e
      · rw [e]; exact hne
      · omega
    cases hs : scanH f fuel h with
    | mk h1 ok =>
      rw [hs] at hlen hc1 hfr hj1
      simp only at hlen hc1 hfr hj1
      cases ok with
      | false => simp only [collectH, emitH, hs]; exact hfr j hj hne
      | true =>
        simp only [collectH, emitH, hs, if_true]
        rw [ih { h1 with heap := h1.heap ++ [h1.rs.token] } (by simp; omega) j (by simp; omega) hj1]
        simp only [getD_eq_getElem?_getD]
        rw [getElem?_append_left (by omega)]
        have := hfr j hj hne
        simpa only [getD_eq_getElem?_getD] using this

/-- The values read from the final heap are the tokens in the order they were yielded. -/
theorem collectH_values (f : Bytes) (fuel : Nat) : ∀ (n : Nat) (h : HS), h.cur < h.heap.length →
    (collectH true f fuel n h).1.map (readSlice (collectH true f fuel n h).2.heap) = (collect f fuel n h.rs).1 := by
  intro n
  induction n with
  | zero => intro h _; rfl
  | succ n ih =>
    intro h hc
    obtain ⟨hlen, hc1, _, _⟩ := scanH_frame f fuel h hc
    obtain ⟨hrs, hok⟩ := scanH_rs f fuel h
    cases hs : scanH f fuel h with
    | mk h1 ok =>
      rw [hs] at hlen hc1 hrs hok
      simp only at hlen hc1 hrs hok
      cases hsc : scan f fuel h.rs with
      | mk rs' ok' =>
        rw [hsc] at hrs hok
        simp only at hrs hok
        subst hok
        obtain ⟨rs1, heap1, cur1⟩ := h1
        simp only at hrs hlen hc1
        subst hrs
        cases ok with
        | false => simp [collectH, emitH, hs, collect, hsc]
        | true =>
          have hc2 : cur1 < (heap1 ++ [rs1.token]).length := by simp; omega
          have hfr := collectH_frame f fuel n { rs := rs1, heap := heap1 ++ [rs1.token], cur := cur1 } hc2 heap1.length
            (by simp) (by simp only; omega)
          have ih' := ih { rs := rs1, heap := heap1 ++ [rs1.token], cur := cur1 } hc2
          simp only [collectH, emitH, hs, if_true, collect, hsc, map_cons]
          simp only at ih' hfr
          rw [ih']
          congr 1
          unfold readSlice
          simp only
          rw [hfr]
          simp

/-- **C20_elements_stable** (reverse direction, every file, every buffer size, also when the scan ends with an error):
with the cloning `Emit`, every collected element read after the whole stream was pulled has the value it was yielded
with. -/
theorem elementsAfter_clone (D M : Nat) (f : Bytes) :
    elementsAfter true D M f = (reverseScan D M f).1 := by
  unfold elementsAfter reverseScan reverseScanV
  have h0 : (initHS (newScanner D M f.length)).cur < (initHS (newScanner D M f.length)).heap.length := by
    simp [initHS]
  obtain ⟨_, hc1, _, _⟩ := scanH_frame f (f.length + 2) _ h0
  obtain ⟨hrs, _⟩ := scanH_rs f (f.length + 2) (initHS (newScanner D M f.length))
  have := collectH_values f (f.length + 2) (f.length + 2) _ hc1
  rw [hrs] at this
  exact this

end ShpanVerif.Proofs.FileHeap
