/-
Generic liveness argument for the asynchronous models: deadlock freedom (some owed transition is enabled in every
non-final reachable state) + a measure that every transition strictly decreases ⇒ from every reachable state the
owed transitions alone lead to a final state, in at most `mu s` steps; and no schedule whatsoever is longer than
`mu s`.
-/
import ShpanVerif.Model.ConcCore

namespace ShpanVerif.Proofs.ConcLive
open ShpanVerif.Model.Conc

variable {σ L : Type}

theorem terminates (sys : Sys σ L) (mu : σ → Nat) (final : σ → Bool) (obl : L → Bool)
    (hprog : ∀ s, Reachable sys s → final s = false → ∃ l, obl l = true ∧ (sys.step s l).isSome = true)
    (hmu : ∀ s l s', Reachable sys s → sys.step s l = some s' → mu s' < mu s) :
    ∀ k s, Reachable sys s → mu s ≤ k →
      ∃ ls s', (∀ l ∈ ls, obl l = true) ∧ run sys.step s ls = some s' ∧ final s' = true ∧ ls.length ≤ mu s := by
  intro k
  induction k with
  | zero =>
    intro s hr hk
    cases hf : final s with
    | true => exact ⟨[], s, by simp, rfl, hf, by simp⟩
    | false =>
      obtain ⟨l, _, hen⟩ := hprog s hr hf
      cases hst : sys.step s l with
      | none => simp [hst] at hen
      | some s1 => have := hmu s l s1 hr hst; omega
  | succ k ih =>
    intro s hr hk
    cases hf : final s with
    | true => exact ⟨[], s, by simp, rfl, hf, by simp⟩
    | false =>
      obtain ⟨l, hob, hen⟩ := hprog s hr hf
      cases hst : sys.step s l with
      | none => simp [hst] at hen
      | some s1 =>
        have hlt := hmu s l s1 hr hst
        obtain ⟨ls, s', h1, h2, h3, h4⟩ := ih s1 (Reachable.step hr hst) (by omega)
        refine ⟨l :: ls, s', ?_, ?_, h3, ?_⟩
        · intro l' hl'
          cases hl' with
          | head => exact hob
          | tail _ h => exact h1 l' h
        · simp [run, hst, h2]
        · simp only [List.length_cons]; omega

end ShpanVerif.Proofs.ConcLive
