/-
C01, part 4: the trace-level reading of `bad = false ∧ everything closed`.

1. Every world change of the interpreter goes through the four probe primitives (`World.call` = `userCall`,
   `openRes`, `closeRes`, `emitRes`); so every world predicate preserved by them is preserved by every
   function of the model (`AllInv`, `consume_inv`).  One more induction over the mutual block, with trivial
   leaves (automated: `split` + `grind`).
2. `Traced w`: the pair `(isOpen, bad)` is what `replay` recomputes from `w.trace` alone.  The primitives
   keep it, hence so does every terminal operation started in a traced world (e.g. the initial world).
3. `replay_resRun`: `replay` is the product of one small automaton per resource (`resRun r`):
   closed —openOk→ open, open —emit→ open, open —close→ closed, anything else about `r` is rejected,
   `openFail r` / `call` / other resources' events are skipped.  `bad = false` ⇔ no resource's automaton
   rejects, and then `isOpen r` is the automaton's state.  Accepted and ending closed = the projection of
   the trace on `r` is in `(openOk emit* close)*` (with failed opens interspersed outside or inside; a failed
   Open changes nothing).
-/
import ShpanVerif.Proofs.PipeC01Main

namespace ShpanVerif.Proofs.PipeC01
open ShpanVerif.Model.Pipe

/-! ### 1. world invariants of the primitives lift to the whole interpreter -/

structure PrimInv (I : World → Prop) : Prop where
  call : ∀ w, I w → I (userCall w).2
  openRes : ∀ r w, I w → I (openRes r w).2
  closeRes : ∀ r w, I w → I (closeRes r w)
  emitRes : ∀ r w, I w → I (emitRes r w).2

variable {I : World → Prop}

mutual
theorem closeP_inv (hI : PrimInv I) : ∀ (p : Pipe) (w : World), I w → I (closeP p w).2
  | .src r xs idx, w, h => by simp only [closeP]; exact hI.closeRes r w h
  | .lc r p, w, h => by simp only [closeP]; exact hI.closeRes r _ (closeP_inv hI p w h)
  | .map f p, w, h => by simp only [closeP]; exact closeP_inv hI p w h
  | .filter f p, w, h => by simp only [closeP]; exact closeP_inv hI p w h
  | .limit n c p, w, h => by simp only [closeP]; split; exact h; exact closeP_inv hI p w h
  | .skip n d p, w, h => by simp only [closeP]; exact closeP_inv hI p w h
  | .concat ps a b c, w, h => by simp only [closeP]; split; exact closeAt_inv hI ps _ w h; exact h
  | .zip ps a, w, h => by simp only [closeP]; exact closeFirst_inv hI ps _ w h
  | .merge ps a s, w, h => by simp only [closeP]; exact closeFirst_inv hI ps _ w h
  | .window _ _ _ _ _ so p, w, h => by simp only [closeP]; split; exact closeP_inv hI p w h; exact h
  | .cluster _ _ _ _ _ so p, w, h => by simp only [closeP]; split; exact closeP_inv hI p w h; exact h
theorem closeFirst_inv (hI : PrimInv I) : ∀ (ps : PipeList) (k : Nat) (w : World), I w → I (closeFirst ps k w).2
  | .nil, _, w, h => by simp only [closeFirst]; exact h
  | .cons p ps, 0, w, h => by simp only [closeFirst]; exact h
  | .cons p ps, k+1, w, h => by simp only [closeFirst]; exact closeP_inv hI p _ (closeFirst_inv hI ps k w h)
theorem closeAt_inv (hI : PrimInv I) : ∀ (ps : PipeList) (k : Nat) (w : World), I w → I (closeAt ps k w).2
  | .nil, _, w, h => by simp only [closeAt]; exact h
  | .cons p ps, 0, w, h => by simp only [closeAt]; exact closeP_inv hI p w h
  | .cons p ps, k+1, w, h => by simp only [closeAt]; exact closeAt_inv hI ps k w h
end

structure AllInv (I : World → Prop) (fuel : Nat) : Prop where
  h_openP : ∀ p w, I w → I (openP fuel p w).2.2
  h_openList : ∀ ps i w, I w → I (openList fuel ps i w).2.2
  h_emitP : ∀ p w, I w → I (emitP fuel p w).2.2
  h_skipLoop : ∀ n p w, I w → I (skipLoop fuel n p w).2.2
  h_zipRow : ∀ ps i acc w, I w → I (zipRow fuel ps i acc w).2.2
  h_mergeRefill : ∀ ps i sl w, I w → I (mergeRefill fuel ps i sl w).2.2
  h_windowFill : ∀ s st o buf so p w, I w → I (windowFill fuel s st o buf so p w).2.2
  h_clusterRead : ∀ k cls want acc nxt last p w, I w → I (clusterRead fuel k cls want acc nxt last p w).2.2.2.2
  h_clusterSkip : ∀ k cls nxt last p w, I w → I (clusterSkip fuel k cls nxt last p w).2.2.2.2
  h_clusterSkipLoop : ∀ k cls ncls nxt last p w, I w →
    I (clusterSkipLoop fuel k cls ncls nxt last p w).2.2.2.2

theorem allInv_zero : AllInv I 0 where
  h_openP := fun p w h => by rw [openP]; exact h
  h_openList := fun ps i w h => by rw [openList]; exact h
  h_emitP := fun p w h => by rw [emitP]; exact h
  h_skipLoop := fun n p w h => by rw [skipLoop]; exact h
  h_zipRow := fun ps i acc w h => by rw [zipRow]; exact h
  h_mergeRefill := fun ps i sl w h => by rw [mergeRefill]; exact h
  h_windowFill := fun s st o buf so p w h => by rw [windowFill]; exact h
  h_clusterRead := fun k cls want acc nxt last p w h => by rw [clusterRead]; exact h
  h_clusterSkip := fun k cls nxt last p w h => by rw [clusterSkip]; exact h
  h_clusterSkipLoop := fun k cls ncls nxt last p w h => by rw [clusterSkipLoop]; exact h

section steps
variable (hI : PrimInv I) {fuel : Nat} (ih : AllInv I fuel)
include ih

include hI in
theorem openP_inv_step (p : Pipe) (w : World) (h : I w) : I (openP (fuel+1) p w).2.2 := by
  have h1 := ih.h_emitP; have h2 := ih.h_openP; have h3 := ih.h_openList
  have c1 := hI.call; have c2 := hI.openRes; have c3 := closeP_inv hI
  cases p <;> unfold openP
  all_goals (repeat' split)
  all_goals grind

include hI in
theorem openList_inv_step (ps : PipeList) (i : Nat) (w : World) (h : I w) :
    I (openList (fuel+1) ps i w).2.2 := by
  have h2 := ih.h_openP; have h3 := ih.h_openList
  have c3 := closeFirst_inv hI
  unfold openList
  repeat' split
  all_goals grind

include hI in
theorem emitP_inv_step (p : Pipe) (w : World) (h : I w) : I (emitP (fuel+1) p w).2.2 := by
  have h1 := ih.h_emitP; have h2 := ih.h_openP; have h3 := ih.h_skipLoop; have h4 := ih.h_zipRow
  have h5 := ih.h_mergeRefill; have h6 := ih.h_windowFill; have h7 := ih.h_clusterRead
  have h8 := ih.h_clusterSkip
  have c1 := hI.call; have c2 := hI.emitRes; have c3 := closeP_inv hI
  cases p <;> unfold emitP
  all_goals (repeat' split)
  all_goals grind

theorem skipLoop_inv_step (n : Nat) (p : Pipe) (w : World) (h : I w) : I (skipLoop (fuel+1) n p w).2.2 := by
  have h1 := ih.h_emitP; have h3 := ih.h_skipLoop
  cases n <;> unfold skipLoop
  all_goals (repeat' split)
  all_goals grind

theorem zipRow_inv_step (ps : PipeList) (i : Nat) (acc : List Int) (w : World) (h : I w) :
    I (zipRow (fuel+1) ps i acc w).2.2 := by
  have h1 := ih.h_emitP; have h3 := ih.h_zipRow
  unfold zipRow
  repeat' split
  all_goals grind

theorem mergeRefill_inv_step (ps : PipeList) (i : Nat) (sl : List (Option V)) (w : World) (h : I w) :
    I (mergeRefill (fuel+1) ps i sl w).2.2 := by
  have h1 := ih.h_emitP; have h3 := ih.h_mergeRefill
  unfold mergeRefill
  repeat' split
  all_goals grind

theorem windowFill_inv_step (s st o buf so) (p : Pipe) (w : World) (h : I w) :
    I (windowFill (fuel+1) s st o buf so p w).2.2 := by
  have h1 := ih.h_emitP; have h3 := ih.h_windowFill
  unfold windowFill
  repeat' split
  all_goals grind

theorem clusterRead_inv_step (k cls want acc nxt last) (p : Pipe) (w : World) (h : I w) :
    I (clusterRead (fuel+1) k cls want acc nxt last p w).2.2.2.2 := by
  have h1 := ih.h_emitP; have h3 := ih.h_clusterRead
  unfold clusterRead
  repeat' split
  all_goals grind

theorem clusterSkip_inv_step (k cls nxt last) (p : Pipe) (w : World) (h : I w) :
    I (clusterSkip (fuel+1) k cls nxt last p w).2.2.2.2 := by
  have h3 := ih.h_clusterSkipLoop
  unfold clusterSkip
  repeat' split
  all_goals grind

theorem clusterSkipLoop_inv_step (k cls ncls nxt last) (p : Pipe) (w : World) (h : I w) :
    I (clusterSkipLoop (fuel+1) k cls ncls nxt last p w).2.2.2.2 := by
  have h1 := ih.h_emitP; have h3 := ih.h_clusterSkipLoop
  unfold clusterSkipLoop
  repeat' split
  all_goals grind

end steps

theorem allInv (hI : PrimInv I) : ∀ fuel, AllInv I fuel
  | 0 => allInv_zero
  | fuel+1 =>
    have ih := allInv hI fuel
    { h_openP := openP_inv_step hI ih
      h_openList := openList_inv_step hI ih
      h_emitP := emitP_inv_step hI ih
      h_skipLoop := skipLoop_inv_step ih
      h_zipRow := zipRow_inv_step ih
      h_mergeRefill := mergeRefill_inv_step ih
      h_windowFill := windowFill_inv_step ih
      h_clusterRead := clusterRead_inv_step ih
      h_clusterSkip := clusterSkip_inv_step ih
      h_clusterSkipLoop := clusterSkipLoop_inv_step ih }

theorem pullLoop_inv (hI : PrimInv I) : ∀ (fuel : Nat) (c : Consumer) (p : Pipe) (acc : List V) (w : World),
    I w → I (pullLoop fuel c p acc w).2.2.2
  | 0, c, p, acc, w, h => by rw [pullLoop]; exact h
  | fuel+1, c, p, acc, w, h => by
    have h1 := (allInv hI fuel).h_emitP
    have h2 := pullLoop_inv hI fuel
    have c1 := hI.call
    unfold pullLoop
    repeat' split
    all_goals grind

theorem consume_inv (hI : PrimInv I) (fuel : Nat) (c : Consumer) (p : Pipe) (w : World) (h : I w) :
    I (consume fuel c p w).2.2 := by
  have h1 := (allInv hI fuel).h_openP
  have h2 := pullLoop_inv hI fuel
  have c3 := closeP_inv hI
  unfold consume
  repeat' split
  all_goals grind

/-! ### 2. `(isOpen, bad)` is a function of the trace -/

def replayStep (s : (Nat → Bool) × Bool) : Event → (Nat → Bool) × Bool
  | .openOk r => (upd s.1 r true, s.2 || s.1 r)
  | .openFail _ => s
  | .emit r => (s.1, s.2 || !s.1 r)
  | .close r => (upd s.1 r false, s.2 || !s.1 r)
  | .call _ => s

/-- recompute the open set and the `bad` flag from a trace, starting with everything closed -/
def replay (tr : List Event) : (Nat → Bool) × Bool := tr.foldl replayStep (fun _ => false, false)

theorem replay_snoc (tr : List Event) (e : Event) : replay (tr ++ [e]) = replayStep (replay tr) e := by
  simp [replay, List.foldl_append]

def Traced (w : World) : Prop := (w.isOpen, w.bad) = replay w.trace

theorem traced_init (fault : Option (Nat × FaultKind)) (cancelled : Bool) (calls : Nat) :
    Traced { fault := fault, cancelled := cancelled, calls := calls } := rfl

theorem replay_call (w : World) (h : Traced w) : Traced w.call.2 := by
  have key : ∀ w' : World, w'.isOpen = w.isOpen → w'.bad = w.bad → w'.trace = w.trace ++ [Event.call w.calls] →
      Traced w' := by
    intro w' h1 h2 h3
    simp only [Traced, h1, h2, h3, replay_snoc, replayStep]
    exact h
  unfold World.call
  split
  · split
    · split <;> exact key _ rfl rfl rfl
    · exact key _ rfl rfl rfl
  · exact key _ rfl rfl rfl

theorem replay_openRes (r : Nat) (w : World) (h : Traced w) : Traced (openRes r w).2 := by
  have h1 := replay_call w h
  unfold openRes
  generalize w.call = x at h1
  obtain ⟨hit, w1⟩ := x
  simp only [Traced] at h1
  cases hit <;> simp only [Traced, replay_snoc, replayStep, ← h1]

theorem replay_closeRes (r : Nat) (w : World) (h : Traced w) : Traced (closeRes r w) := by
  simp only [Traced] at h
  simp only [Traced, closeRes, replay_snoc, replayStep, ← h]

theorem replay_emitRes (r : Nat) (w : World) (h : Traced w) : Traced (emitRes r w).2 := by
  have h1 := replay_call w h
  unfold emitRes
  generalize w.call = x at h1
  obtain ⟨hit, w1⟩ := x
  simp only [Traced] at h1
  simp only [Traced, replay_snoc, replayStep, ← h1]

theorem traced_prim : PrimInv Traced :=
  ⟨replay_call, replay_openRes, replay_closeRes, replay_emitRes⟩

/-- every terminal operation keeps `(isOpen, bad) = replay trace` -/
theorem consume_traced (fuel : Nat) (c : Consumer) (p : Pipe) (w : World) (h : Traced w) :
    Traced (consume fuel c p w).2.2 := consume_inv traced_prim fuel c p w h

/-! ### 3. `replay` = one automaton per resource -/

/-- per-resource automaton: `none` = rejected, `some b` = inside (`true`) / outside (`false`) an
    open…close window.  Language accepted with final state `some false`: (openOk emit* close)* -/
def resStep (r : Nat) : Option Bool → Event → Option Bool
  | none, _ => none
  | some b, .openOk x => if x = r then (if b then none else some true) else some b
  | some b, .emit x => if x = r then (if b then some true else none) else some b
  | some b, .close x => if x = r then (if b then some false else none) else some b
  | some b, .openFail _ => some b
  | some b, .call _ => some b

def resRun (r : Nat) (tr : List Event) : Option Bool := tr.foldl (resStep r) (some false)

/-- relation between the global replay state and the vector of automaton states -/
def Rel (s : (Nat → Bool) × Bool) (q : Nat → Option Bool) : Prop :=
  (s.2 = false ∧ ∀ r, q r = some (s.1 r)) ∨ (s.2 = true ∧ ∃ r, q r = none)

theorem Rel_step (s : (Nat → Bool) × Bool) (q : Nat → Option Bool) (e : Event) (h : Rel s q) :
    Rel (replayStep s e) (fun r => resStep r (q r) e) := by
  obtain ⟨o, b⟩ := s
  rcases h with ⟨hb, hq⟩ | ⟨hb, r0, hq⟩
  · simp only at hb hq
    subst hb
    cases e with
    | openOk x =>
      cases hx : o x with
      | false =>
        left
        refine ⟨by simp [replayStep, hx], fun r => ?_⟩
        by_cases hr : x = r
        · subst hr; simp [replayStep, resStep, hq, hx, upd]
        · have : r ≠ x := fun h => hr h.symm
          simp [replayStep, resStep, hq, hr, upd, this]
      | true =>
        right
        exact ⟨by simp [replayStep, hx], x, by simp [resStep, hq, hx]⟩
    | emit x =>
      cases hx : o x with
      | true =>
        left
        refine ⟨by simp [replayStep, hx], fun r => ?_⟩
        by_cases hr : x = r
        · subst hr; simp [replayStep, resStep, hq, hx]
        · simp [replayStep, resStep, hq, hr]
      | false =>
        right
        exact ⟨by simp [replayStep, hx], x, by simp [resStep, hq, hx]⟩
    | close x =>
      cases hx : o x with
      | true =>
        left
        refine ⟨by simp [replayStep, hx], fun r => ?_⟩
        by_cases hr : x = r
        · subst hr; simp [replayStep, resStep, hq, hx, upd]
        · have : r ≠ x := fun h => hr h.symm
          simp [replayStep, resStep, hq, hr, upd, this]
      | false =>
        right
        exact ⟨by simp [replayStep, hx], x, by simp [resStep, hq, hx]⟩
    | openFail x => left; exact ⟨rfl, fun r => by simp [replayStep, resStep, hq]⟩
    | call n => left; exact ⟨rfl, fun r => by simp [replayStep, resStep, hq]⟩
  · right
    simp only at hb hq
    subst hb
    refine ⟨by cases e <;> simp [replayStep], r0, ?_⟩
    show resStep r0 (q r0) e = none
    rw [hq]; rfl

theorem Rel_foldl : ∀ (tr : List Event) (s : (Nat → Bool) × Bool) (q : Nat → Option Bool), Rel s q →
    Rel (tr.foldl replayStep s) (fun r => tr.foldl (resStep r) (q r))
  | [], _, _, h => h
  | e :: tr, s, q, h => by
    simp only [List.foldl_cons]
    exact Rel_foldl tr _ _ (Rel_step s q e h)

theorem Rel_replay (tr : List Event) : Rel (replay tr) (fun r => resRun r tr) :=
  Rel_foldl tr _ _ (Or.inl ⟨rfl, fun _ => rfl⟩)

/-- `bad` is off exactly when no resource's automaton rejects its projection of the trace; and then the
    open set is the automata's state: `isOpen r` ⇔ the projection ends inside an open…close window. -/
theorem replay_resRun (tr : List Event) :
    ((replay tr).2 = false ↔ ∀ r, resRun r tr ≠ none) ∧
    ((replay tr).2 = false → ∀ r, resRun r tr = some ((replay tr).1 r)) := by
  rcases Rel_replay tr with ⟨hb, hq⟩ | ⟨hb, r0, hq⟩
  · have hq' : ∀ r, resRun r tr = some ((replay tr).1 r) := hq
    exact ⟨⟨fun _ r => by rw [hq' r]; simp, fun _ => hb⟩, fun _ => hq'⟩
  · have hq' : resRun r0 tr = none := hq
    refine ⟨⟨fun h => ?_, fun h => absurd hq' (h r0)⟩, fun h => ?_⟩
    · rw [hb] at h; cases h
    · rw [hb] at h; cases h

end ShpanVerif.Proofs.PipeC01
