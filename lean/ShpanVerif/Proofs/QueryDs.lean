/-
C10 helper lemmas, datasource level (join-free part): static datasources, FromDatasource, ToDatasource.
-/
import ShpanVerif.Proofs.QueryFilters

namespace ShpanVerif.Proofs.Query
open ShpanVerif.Model.Query List

variable {D : Type}

theorem okRows_map_some {α : Type} (l : List α) : okRows (l.map some) = l := by
  induction l with
  | nil => rfl
  | cons a l ih => simpa [okRows] using ih

theorem okRows_map_map {α β : Type} (f : α → β) (s : List (Option α)) :
    okRows (s.map fun e => e.map f) = (okRows s).map f := by
  induction s with
  | nil => rfl
  | cons e s ih =>
    cases e with
    | none => simpa [okRows] using ih
    | some a => simpa [okRows] using ih

theorem hasDupUrn_false : ∀ {ms : List FieldMeta} {seen : List String}, hasDupUrn ms seen = false →
    (ms.map (·.urn)).Nodup ∧ ∀ m ∈ ms, m.urn ∉ seen
  | [], _, _ => by simp
  | m :: ms, seen, h => by
    simp only [hasDupUrn, Bool.or_eq_false_iff] at h
    obtain ⟨h1, h2⟩ := h
    obtain ⟨ih1, ih2⟩ := hasDupUrn_false h2
    have h1' : m.urn ∉ seen := by
      intro hm
      have : seen.contains m.urn = true := by simpa using hm
      rw [this] at h1
      exact absurd h1 (by simp)
    refine ⟨?_, ?_⟩
    · simp only [map_cons, nodup_cons]
      refine ⟨?_, ih1⟩
      intro hm
      simp only [mem_map] at hm
      obtain ⟨m', hm', he⟩ := hm
      exact ih2 m' hm' (by simp [he])
    · intro m' hm'
      rcases mem_cons.mp hm' with rfl | hm'
      · exact h1'
      · exact fun hs => ih2 m' hm' (mem_cons_of_mem _ hs)

/-- the inputs of a report static datasource are schema-conforming -/
structure StaticOkR (metas : List FieldMeta) (rows : List (Row D)) : Prop where
  valid : ∀ m ∈ metas, m.urn ≠ "" ∧ m.dt.valid = true
  conf : ∀ r ∈ rows, Conforms metas r.vals
  incr : (rows.map (·.ts)).Pairwise (· < ·)

structure StaticOkD (fm : FieldMeta) (rows : List (DRec D)) : Prop where
  valid : fm.urn ≠ "" ∧ fm.dt.valid = true
  conf : ∀ r ∈ rows, tagOk fm.dt fm.required r.val
  incr : (rows.map (·.ts)).Pairwise (· < ·)

theorem staticR_sound {metas : List FieldMeta} {rows : List (Row D)} {from_ to : Int}
    (hin : StaticOkR metas rows) (hdup : hasDupUrn metas [] = false) :
    RSound (metas, (rows.filter fun r => inRange from_ to r.ts).map some) := by
  refine ⟨(hasDupUrn_false hdup).1, hin.valid, ?_, ?_⟩
  · intro r hr
    simp only [okRows_map_some, mem_filter] at hr
    exact hin.conf r hr.1
  · simp only [okRows_map_some]
    exact hin.incr.sublist (filter_sublist.map _)

theorem staticD_sound {fm : FieldMeta} {rows : List (DRec D)} {from_ to : Int} (hin : StaticOkD fm rows) :
    DSound (fm, (rows.filter fun r => inRange from_ to r.ts).map some) := by
  refine ⟨hin.valid, ?_, ?_⟩
  · intro r hr
    simp only [okRows_map_some, mem_filter] at hr
    exact hin.conf r hr.1
  · simp only [okRows_map_some]
    exact hin.incr.sublist (filter_sublist.map _)

/-- from_datasource.go: a one-field report result -/
theorem fromDs_sound {m : FieldMeta} {s : DStream D} (hs : DSound (m, s)) :
    RSound ([m], s.map fun e => e.map fun r => ({ ts := r.ts, vals := [r.val] } : Row D)) := by
  refine ⟨by simp, ?_, ?_, ?_⟩
  · intro m' hm'
    simp only [mem_cons, not_mem_nil, or_false] at hm'; subst hm'; exact hs.valid
  · intro r hr
    simp only [okRows_map_map, mem_map] at hr
    obtain ⟨r0, hr0, rfl⟩ := hr
    exact Conforms.single (hs.rows r0 hr0)
  · simp only [okRows_map_map, map_map]
    exact hs.incr

/-- to_datasource.go: one field of a report result -/
theorem toDs_sound {metas : List FieldMeta} {s : RStream D} {urn : String} {m : FieldMeta} {idx : Nat}
    (hs : RSound (metas, s)) (hf : findField urn metas = some (m, idx)) :
    DSound (m, s.map fun e => e.map fun row => ({ ts := row.ts, val := (row.vals[idx]?).getD .nil } : DRec D)) := by
  obtain ⟨hidx, _⟩ := findField_spec hf
  refine ⟨hs.valid m (mem_of_getElem? hidx), ?_, ?_⟩
  · intro r hr
    simp only [okRows_map_map, mem_map] at hr
    obtain ⟨r0, hr0, rfl⟩ := hr
    obtain ⟨v, hv, htag⟩ := (hs.rows r0 hr0).get hidx
    simp [hv, htag]
  · simp only [okRows_map_map, map_map]
    exact hs.incr

end ShpanVerif.Proofs.Query
