/-
Helper lemmas for C09 (sorted-stream joins): facts about the list-level specification and about the
building blocks of the operational model.
-/
import ShpanVerif.Model.Join
import ShpanVerif.Model.JoinSpec

namespace ShpanVerif.Proofs.Join

open List ShpanVerif.Model.Join ShpanVerif.Model.JoinSpec

/-- What `collect` does with the result of one emit. -/
def collectFrom {σ ρ : Type} (emit : σ → Step σ ρ) (fuel : Nat) : Step σ ρ → Out ρ
  | .eof => ([], none)
  | .err e => ([], some e)
  | .row v s => let o := collect emit fuel s; (v :: o.1, o.2)

theorem collect_succ {σ ρ : Type} (emit : σ → Step σ ρ) (n : Nat) (s : σ) :
    collect emit (n+1) s = collectFrom emit n (emit s) := by
  simp only [collect, collectFrom]
  cases emit s <;> rfl

/-! ## two-stream specification -/
section two
variable {α β : Type} (kl : α → Int) (kr : β → Int)

@[simp] theorem innerJoin2_nil_left (r : List β) : innerJoin2 kl kr [] r = [] := rfl

theorem innerJoin2_cons_left (a : α) (l : List α) (r : List β) :
    innerJoin2 kl kr (a :: l) r
      = ((r.filter fun b => kr b == kl a).map fun b => (a, b)) ++ innerJoin2 kl kr l r := by
  simp [innerJoin2]

@[simp] theorem leftJoin2_nil_left (r : List β) : leftJoin2 kl kr [] r = [] := rfl

theorem leftJoin2_cons_left (a : α) (l : List α) (r : List β) :
    leftJoin2 kl kr (a :: l) r
      = leftRows a (r.filter fun b => kr b == kl a) ++ leftJoin2 kl kr l r := by
  simp [leftJoin2]

/-- The joins look at the right input only through the matches of each left element. -/
theorem innerJoin2_congr_right (l : List α) (r r' : List β)
    (h : ∀ a ∈ l, (r.filter fun b => kr b == kl a) = (r'.filter fun b => kr b == kl a)) :
    innerJoin2 kl kr l r = innerJoin2 kl kr l r' := by
  induction l with
  | nil => rfl
  | cons a l ih =>
    rw [innerJoin2_cons_left, innerJoin2_cons_left, h a (by simp), ih (fun a ha => h a (by simp [ha]))]

theorem leftJoin2_congr_right (l : List α) (r r' : List β)
    (h : ∀ a ∈ l, (r.filter fun b => kr b == kl a) = (r'.filter fun b => kr b == kl a)) :
    leftJoin2 kl kr l r = leftJoin2 kl kr l r' := by
  induction l with
  | nil => rfl
  | cons a l ih =>
    rw [leftJoin2_cons_left, leftJoin2_cons_left, h a (by simp), ih (fun a ha => h a (by simp [ha]))]

/-- A prefix of the right input whose keys are all below the keys of the left input is irrelevant. -/
theorem filter_drop_prefix (k : Int) (pre r : List β) (h : ∀ b ∈ pre, kr b < k) :
    ((pre ++ r).filter fun b => kr b == k) = (r.filter fun b => kr b == k) := by
  rw [filter_append]
  have : (pre.filter fun b => kr b == k) = [] := by
    rw [filter_eq_nil_iff]
    intro b hb
    have := h b hb
    simp only [beq_iff_eq]; omega
  rw [this, nil_append]

/-- In a strictly increasing right input whose head has key `k`, the head is the only match for `k`. -/
theorem filter_head_match (k : Int) (b : β) (r : List β) (hk : kr b = k) (hs : StrictInc kr (b :: r)) :
    ((b :: r).filter fun b => kr b == k) = [b] := by
  have hall : ∀ c ∈ r, kr b < kr c := (pairwise_cons.mp hs).1
  rw [filter_cons]
  simp only [hk, beq_self_eq_true, if_true]
  congr 1
  rw [filter_eq_nil_iff]
  intro c hc
  have := hall c hc
  simp only [beq_iff_eq]; omega

/-- No match in a right input all of whose keys are above `k`. -/
theorem filter_none_above (k : Int) (r : List β) (h : ∀ c ∈ r, k < kr c) :
    (r.filter fun b => kr b == k) = [] := by
  rw [filter_eq_nil_iff]
  intro c hc
  have := h c hc
  simp only [beq_iff_eq]; omega

theorem filter_none_below (k : Int) (r : List β) (h : ∀ c ∈ r, kr c < k) :
    (r.filter fun b => kr b == k) = [] := by
  rw [filter_eq_nil_iff]
  intro c hc
  have := h c hc
  simp only [beq_iff_eq]; omega

/-- What the inner "advance right" loop does on a strictly increasing right input `lrv :: r`
(memo = `lrv`): it never reports unsortedness; it either runs off the end with every key below `lk`,
or stops at the first element whose key is `≥ lk`. -/
theorem advRight_spec (lk : Int) :
    ∀ (r : List β) (lrv : β), StrictInc kr (lrv :: r) →
      (advRight kr lk (kr lrv) lrv r matches .eof _ _ ∧ ∀ b ∈ lrv :: r, kr b < lk) ∨
      ∃ pre lrv' r', lrv :: r = pre ++ lrv' :: r' ∧ (∀ b ∈ pre, kr b < lk) ∧ lk ≤ kr lrv' ∧
        advRight kr lk (kr lrv) lrv r = .stop (kr lrv') lrv' r'
  | [], lrv, _ => by
    by_cases h : lk > kr lrv
    · left; simp [advRight, h]
    · right; exact ⟨[], lrv, [], rfl, by simp, by omega, by simp [advRight, h]⟩
  | y :: r, lrv, hs => by
    by_cases h : lk > kr lrv
    · have hlt : kr lrv < kr y := (pairwise_cons.mp hs).1 y (by simp)
      have hs' : StrictInc kr (y :: r) := (pairwise_cons.mp hs).2
      have hns : ¬ kr y < kr lrv := by omega
      rcases advRight_spec lk r y hs' with ⟨he, hall⟩ | ⟨pre, lrv', r', heq, hpre, hle, hres⟩
      · left
        refine ⟨by simpa [advRight, h, hns] using he, ?_⟩
        intro b hb
        rcases mem_cons.mp hb with rfl | hb
        · omega
        · exact hall b hb
      · right
        refine ⟨lrv :: pre, lrv', r', by simp [heq], ?_, hle, by simp [advRight, h, hns, hres]⟩
        intro b hb
        rcases mem_cons.mp hb with rfl | hb
        · omega
        · exact hpre b hb
    · right
      exact ⟨[], lrv, y :: r, rfl, by simp, by omega, by simp [advRight, h]⟩

end two

/-! ## N-stream specification -/
section multi
variable {α : Type} (key : α → Int)

theorem mem_insertKey (k k' : Int) : ∀ l : List Int, k' ∈ insertKey k l ↔ k' = k ∨ k' ∈ l
  | [] => by simp [insertKey]
  | x :: xs => by
    unfold insertKey
    split
    · simp
    · split
      · rename_i h; have : k = x := by simpa using h
        subst this; simp
      · simp only [mem_cons, mem_insertKey k k' xs]
        constructor
        · rintro (h | h | h) <;> simp [h]
        · rintro (h | h | h) <;> simp [h]

theorem strict_insertKey (k : Int) : ∀ l : List Int, l.Pairwise (· < ·) → (insertKey k l).Pairwise (· < ·)
  | [], _ => by simp [insertKey]
  | x :: xs, h => by
    have hx : ∀ y ∈ xs, x < y := (pairwise_cons.mp h).1
    have hxs : xs.Pairwise (· < ·) := (pairwise_cons.mp h).2
    unfold insertKey
    split
    · rename_i hk
      refine pairwise_cons.mpr ⟨?_, h⟩
      intro y hy
      rcases mem_cons.mp hy with rfl | hy
      · exact hk
      · have := hx y hy; omega
    · split
      · exact h
      · rename_i h1 h2
        have hne : k ≠ x := by simpa using h2
        refine pairwise_cons.mpr ⟨?_, strict_insertKey k xs hxs⟩
        intro y hy
        rcases (mem_insertKey k y xs).mp hy with rfl | hy
        · omega
        · exact hx y hy

theorem strict_keysUnion (ins : List (List α)) : (keysUnion key ins).Pairwise (· < ·) := by
  unfold keysUnion
  induction ins.flatten.map key with
  | nil => simp
  | cons k ks ih => exact strict_insertKey k _ ih

theorem mem_keysUnion (ins : List (List α)) (k : Int) :
    k ∈ keysUnion key ins ↔ ∃ l ∈ ins, ∃ a ∈ l, key a = k := by
  have h : ∀ ks : List Int, k ∈ ks.foldr insertKey [] ↔ k ∈ ks := by
    intro ks
    induction ks with
    | nil => simp
    | cons x xs ih => simp only [foldr_cons, mem_insertKey, ih, mem_cons]
  unfold keysUnion
  rw [h]
  simp only [mem_map, mem_flatten]
  constructor
  · rintro ⟨a, ⟨l, hl, ha⟩, rfl⟩; exact ⟨l, hl, a, ha, rfl⟩
  · rintro ⟨l, hl, a, ha, rfl⟩; exact ⟨a, ⟨l, hl, ha⟩, rfl⟩

/-- A strictly increasing list of integers is determined by its set of members. -/
theorem strict_ext : ∀ (l l' : List Int), l.Pairwise (· < ·) → l'.Pairwise (· < ·) →
    (∀ k, k ∈ l ↔ k ∈ l') → l = l'
  | [], [], _, _, _ => rfl
  | [], y :: ys, _, _, h => by have := (h y).mpr (by simp); simp at this
  | x :: xs, [], _, _, h => by have := (h x).mp (by simp); simp at this
  | x :: xs, y :: ys, hl, hl', h => by
    have hx : ∀ z ∈ xs, x < z := (pairwise_cons.mp hl).1
    have hy : ∀ z ∈ ys, y < z := (pairwise_cons.mp hl').1
    have hxy : x = y := by
      have h1 := (h x).mp (by simp)
      have h2 := (h y).mpr (by simp)
      rcases mem_cons.mp h1 with h1 | h1
      · exact h1
      · rcases mem_cons.mp h2 with h2 | h2
        · exact h2.symm
        · have := hx y h2; have := hy x h1; omega
    subst hxy
    congr 1
    apply strict_ext xs ys (pairwise_cons.mp hl).2 (pairwise_cons.mp hl').2
    intro k
    constructor
    · intro hk
      have := (h k).mp (by simp [hk])
      rcases mem_cons.mp this with rfl | h'
      · have := hx k hk; omega
      · exact h'
    · intro hk
      have := (h k).mpr (by simp [hk])
      rcases mem_cons.mp this with rfl | h'
      · have := hy k hk; omega
      · exact h'

/-- The head of `l` if its key is `m`. -/
def headIf (m : Int) : List α → Option α
  | a :: _ => if key a == m then some a else none
  | [] => none

/-- `l` without its head if the head's key is `m`. -/
def dropIf (m : Int) : List α → List α
  | a :: l => if key a == m then l else a :: l
  | [] => []

theorem mem_dropIf (m : Int) (l : List α) (hs : StrictInc key l) (hm : ∀ a ∈ l, m ≤ key a) (a : α) :
    a ∈ dropIf key m l ↔ a ∈ l ∧ key a ≠ m := by
  cases l with
  | nil => simp [dropIf]
  | cons h t =>
    have ht : ∀ b ∈ t, key h < key b := (pairwise_cons.mp hs).1
    have hh : m ≤ key h := hm h (by simp)
    by_cases hk : key h = m
    · simp only [dropIf, hk, beq_self_eq_true, if_true, mem_cons]
      constructor
      · intro ha; exact ⟨Or.inr ha, by have := ht a ha; omega⟩
      · rintro ⟨ha | ha, hne⟩
        · exact absurd (ha ▸ hk) hne
        · exact ha
    · have : (key h == m) = false := by simpa using hk
      simp only [dropIf, this, Bool.false_eq_true, if_false, mem_cons]
      constructor
      · rintro (ha | ha)
        · exact ⟨Or.inl ha, ha ▸ hk⟩
        · exact ⟨Or.inr ha, by have := ht a ha; omega⟩
      · rintro ⟨h, _⟩; exact h

theorem strict_dropIf (m : Int) (l : List α) (hs : StrictInc key l) : StrictInc key (dropIf key m l) := by
  cases l with
  | nil => simpa [dropIf] using hs
  | cons h t =>
    by_cases hk : (key h == m) = true
    · simp only [dropIf, hk, if_true]; exact (pairwise_cons.mp hs).2
    · simp only [dropIf, hk]; exact hs

theorem length_dropIf_le (m : Int) (l : List α) : (dropIf key m l).length ≤ l.length := by
  cases l with
  | nil => simp [dropIf]
  | cons h t =>
    by_cases hk : (key h == m) = true
    · simp [dropIf, hk]
    · simp [dropIf, hk]

theorem lookup_eq_headIf (m : Int) (l : List α) (hs : StrictInc key l) (hm : ∀ a ∈ l, m ≤ key a) :
    lookupKey key m l = headIf key m l := by
  cases l with
  | nil => rfl
  | cons h t =>
    have ht : ∀ b ∈ t, key h < key b := (pairwise_cons.mp hs).1
    have hh : m ≤ key h := hm h (by simp)
    by_cases hk : key h = m
    · simp [lookupKey, headIf, hk]
    · have : (key h == m) = false := by simpa using hk
      simp only [lookupKey, headIf, find?_cons, this, Bool.false_eq_true, if_false]
      rw [find?_eq_none]
      intro b hb
      have := ht b hb
      simp only [beq_iff_eq]; omega

theorem lookup_dropIf (m k : Int) (hne : k ≠ m) (l : List α) :
    lookupKey key k (dropIf key m l) = lookupKey key k l := by
  cases l with
  | nil => rfl
  | cons h t =>
    by_cases hk : key h = m
    · have hmk : (m == k) = false := by simp only [beq_eq_false_iff_ne]; omega
      simp [lookupKey, dropIf, hk, hmk]
    · have : (key h == m) = false := by simpa using hk
      simp [dropIf, this]

theorem fullJoinN_eq (ins : List (List α)) :
    fullJoinN key ins = (keysUnion key ins).map (fun k => ins.map (lookupKey key k)) := by
  simp [fullJoinN, fullJoinNK]

/-- One step of the full join at the level of the specification: if `m` is the smallest key present (it is the key
of some element, and no element is below it), the first row holds the heads with key `m` and the remaining rows are
the full join of the inputs without those heads. -/
theorem fullJoinN_step (ins : List (List α)) (m : Int)
    (hs : ∀ l ∈ ins, StrictInc key l) (hm : ∀ l ∈ ins, ∀ a ∈ l, m ≤ key a)
    (hex : ∃ l ∈ ins, ∃ a ∈ l, key a = m) :
    fullJoinN key ins = ins.map (headIf key m) :: fullJoinN key (ins.map (dropIf key m)) := by
  have hkeys : keysUnion key ins = m :: keysUnion key (ins.map (dropIf key m)) := by
    apply strict_ext _ _ (strict_keysUnion key ins)
    · refine pairwise_cons.mpr ⟨?_, strict_keysUnion key _⟩
      intro k hk
      obtain ⟨l', hl', a, ha, rfl⟩ := (mem_keysUnion key _ _).mp hk
      obtain ⟨l, hl, rfl⟩ := mem_map.mp hl'
      have := (mem_dropIf key m l (hs l hl) (hm l hl) a).mp ha
      have := hm l hl a this.1
      omega
    · intro k
      rw [mem_cons, mem_keysUnion, mem_keysUnion]
      constructor
      · rintro ⟨l, hl, a, ha, rfl⟩
        by_cases hk : key a = m
        · exact Or.inl hk
        · exact Or.inr ⟨dropIf key m l, mem_map_of_mem hl, a,
            (mem_dropIf key m l (hs l hl) (hm l hl) a).mpr ⟨ha, hk⟩, rfl⟩
      · rintro (rfl | ⟨l', hl', a, ha, rfl⟩)
        · exact hex
        · obtain ⟨l, hl, rfl⟩ := mem_map.mp hl'
          exact ⟨l, hl, a, ((mem_dropIf key m l (hs l hl) (hm l hl) a).mp ha).1, rfl⟩
  have hgt : ∀ k ∈ keysUnion key (ins.map (dropIf key m)), k ≠ m := by
    intro k hk
    have h := strict_keysUnion key ins
    rw [hkeys] at h
    have := (pairwise_cons.mp h).1 k hk
    omega
  rw [fullJoinN_eq, fullJoinN_eq, hkeys, map_cons]
  congr 1
  · apply map_congr_left
    intro l hl
    exact lookup_eq_headIf key m l (hs l hl) (hm l hl)
  · apply map_congr_left
    intro k hk
    rw [map_map]
    apply map_congr_left
    intro l _
    exact (lookup_dropIf key m k (hgt k hk) l).symm

theorem fullJoinN_all_nil (ins : List (List α)) (h : ∀ l ∈ ins, l = []) : fullJoinN key ins = [] := by
  have : ins.flatten = [] := by
    rw [flatten_eq_nil_iff]; exact h
  simp [fullJoinN, fullJoinNK, keysUnion, this]

end multi

/-! ## N-stream operational building blocks -/
section multiOp
variable {α : Type} (key : α → Int)

/-- What input `i` still has to deliver: the buffered element (if any) followed by the un-pulled rest. -/
def remaining (s : Src α) : List α := s.buf.toList ++ s.rest

theorem fill_cases (s : Src α) :
    ((fill s).buf = none ∧ remaining s = [] ∧ (fill s).rest = []) ∨
    (∃ b, (fill s).buf = some b ∧ remaining s = b :: (fill s).rest) := by
  rcases s with ⟨buf, last, rest⟩
  cases buf with
  | some b => right; exact ⟨b, by simp [fill, remaining]⟩
  | none =>
    cases rest with
    | nil => left; simp [fill, remaining]
    | cons x xs => right; exact ⟨x, by simp [fill, remaining]⟩

@[simp] theorem fill_last (s : Src α) : (fill s).last = s.last := by
  rcases s with ⟨buf, last, rest⟩
  cases buf <;> cases rest <;> rfl

@[simp] theorem remaining_fill (s : Src α) : remaining (fill s) = remaining s := by
  rcases s with ⟨buf, last, rest⟩
  cases buf <;> cases rest <;> rfl

@[simp] theorem fill_fill (s : Src α) : fill (fill s) = fill s := by
  rcases s with ⟨buf, last, rest⟩
  cases buf <;> cases rest <;> rfl

theorem initBufs_map_fill (st : NState α) : (initBufs st).map fill = st.srcs.map fill := by
  unfold initBufs
  split
  · rfl
  · rw [map_map]; apply map_congr_left; intro s _; simp

theorem mem_headKeys (ss : List (Src α)) (k : Int) :
    k ∈ headKeys key ss ↔ ∃ s ∈ ss, ∃ b, s.buf = some b ∧ key b = k := by
  simp only [headKeys, mem_filterMap, Option.map_eq_some_iff]

theorem minKey_spec : ∀ (l : List Int), l ≠ [] → ∃ m, minKey l = some m ∧ m ∈ l ∧ ∀ k ∈ l, m ≤ k
  | [], h => absurd rfl h
  | k0 :: ks, _ => by
    have key : ∀ (ks : List Int) (k0 : Int),
        let r := ks.foldl (fun m k => if k < m then k else m) k0
        (r = k0 ∨ r ∈ ks) ∧ r ≤ k0 ∧ ∀ k ∈ ks, r ≤ k := by
      intro ks
      induction ks with
      | nil => intro k0; simp
      | cons x xs ih =>
        intro k0
        simp only [foldl_cons]
        by_cases hx : x < k0
        · simp only [hx, if_true]
          obtain ⟨h1, h2, h3⟩ := ih x
          refine ⟨?_, by omega, ?_⟩
          · rcases h1 with h1 | h1
            · right; rw [h1]; simp
            · right; exact mem_cons_of_mem _ h1
          · intro k hk
            rcases mem_cons.mp hk with rfl | hk
            · exact h2
            · exact h3 k hk
        · simp only [hx, if_false]
          obtain ⟨h1, h2, h3⟩ := ih k0
          refine ⟨?_, h2, ?_⟩
          · rcases h1 with h1 | h1
            · left; exact h1
            · right; exact mem_cons_of_mem _ h1
          · intro k hk
            rcases mem_cons.mp hk with rfl | hk
            · omega
            · exact h3 k hk
    obtain ⟨h1, h2, h3⟩ := key ks k0
    refine ⟨_, rfl, ?_, ?_⟩
    · rcases h1 with h1 | h1
      · rw [h1]; simp
      · exact mem_cons_of_mem _ h1
    · intro k hk
      rcases mem_cons.mp hk with rfl | hk
      · exact h2
      · exact h3 k hk

theorem maxKey_spec : ∀ (l : List Int), l ≠ [] → ∃ m, maxKey l = some m ∧ m ∈ l ∧ ∀ k ∈ l, k ≤ m
  | [], h => absurd rfl h
  | k0 :: ks, _ => by
    have key : ∀ (ks : List Int) (k0 : Int),
        let r := ks.foldl (fun m k => if k > m then k else m) k0
        (r = k0 ∨ r ∈ ks) ∧ k0 ≤ r ∧ ∀ k ∈ ks, k ≤ r := by
      intro ks
      induction ks with
      | nil => intro k0; simp
      | cons x xs ih =>
        intro k0
        simp only [foldl_cons]
        by_cases hx : x > k0
        · simp only [hx, if_true]
          obtain ⟨h1, h2, h3⟩ := ih x
          refine ⟨?_, by omega, ?_⟩
          · rcases h1 with h1 | h1
            · right; rw [h1]; simp
            · right; exact mem_cons_of_mem _ h1
          · intro k hk
            rcases mem_cons.mp hk with rfl | hk
            · exact h2
            · exact h3 k hk
        · simp only [hx, if_false]
          obtain ⟨h1, h2, h3⟩ := ih k0
          refine ⟨?_, h2, ?_⟩
          · rcases h1 with h1 | h1
            · left; exact h1
            · right; exact mem_cons_of_mem _ h1
          · intro k hk
            rcases mem_cons.mp hk with rfl | hk
            · omega
            · exact h3 k hk
    obtain ⟨h1, h2, h3⟩ := key ks k0
    refine ⟨_, rfl, ?_, ?_⟩
    · rcases h1 with h1 | h1
      · rw [h1]; simp
      · exact mem_cons_of_mem _ h1
    · intro k hk
      rcases mem_cons.mp hk with rfl | hk
      · exact h2
      · exact h3 k hk

theorem firstUnsorted_none : ∀ (ss : List (Src α)) (i : Nat),
    (∀ s ∈ ss, ∀ b p, s.buf = some b → s.last = some p → ¬ key b < key p) →
    firstUnsorted key i ss = none
  | [], _, _ => rfl
  | s :: ss, i, h => by
    have ih := firstUnsorted_none ss (i+1) (fun s hs => h s (mem_cons_of_mem _ hs))
    unfold firstUnsorted
    split
    · rename_i b p hb hp
      have := h s (by simp) b p hb hp
      simp [this, ih]
    · exact ih

/-- Sum of lengths strictly decreases when every list shrinks weakly and one shrinks strictly. -/
theorem sum_length_map_lt (f : List α → List α) : ∀ (L : List (List α)),
    (∀ l ∈ L, (f l).length ≤ l.length) → (∃ l ∈ L, (f l).length < l.length) →
    ((L.map f).map List.length).sum < (L.map List.length).sum
  | [], _, h => by obtain ⟨l, hl, _⟩ := h; simp at hl
  | l :: L, hle, hlt => by
    have hle' : ((L.map f).map List.length).sum ≤ (L.map List.length).sum := by
      clear hlt
      induction L with
      | nil => simp
      | cons x xs ih =>
        have := hle x (by simp)
        have := ih (fun l hl => hle l (by
          rcases mem_cons.mp hl with rfl | hl
          · simp
          · simp [hl]))
        simp only [map_cons, sum_cons]; omega
    simp only [map_cons, sum_cons]
    obtain ⟨l0, hl0, hlt0⟩ := hlt
    rcases mem_cons.mp hl0 with rfl | hl0
    · omega
    · have := sum_length_map_lt f L (fun l hl => hle l (mem_cons_of_mem _ hl)) ⟨l0, hl0, hlt0⟩
      have := hle l (by simp)
      omega

end multiOp

/-! ## N-stream inner join, specification side -/
section innerSpec
variable {α : Type} (key : α → Int)

theorem filterMap_congr' {β : Type} {f g : α → Option β} : ∀ (l : List α), (∀ a ∈ l, f a = g a) →
    l.filterMap f = l.filterMap g
  | [], _ => rfl
  | a :: l, h => by
    rw [filterMap_cons, filterMap_cons, h a (by simp), filterMap_congr' l (fun a ha => h a (by simp [ha]))]

theorem allSome_none_of_mem : ∀ (l : List (Option α)), none ∈ l → allSome l = none
  | [], h => by simp at h
  | none :: _, _ => rfl
  | some a :: r, h => by
    have : none ∈ r := by simpa using h
    simp [allSome, allSome_none_of_mem r this]

theorem allSome_map_some : ∀ (l : List α), allSome (l.map some) = some l
  | [] => rfl
  | a :: r => by simp [allSome, allSome_map_some r]

theorem lookupKey_self : ∀ (l : List α), StrictInc key l → ∀ a ∈ l, lookupKey key (key a) l = some a
  | [], _, a, ha => by simp at ha
  | h :: t, hs, a, ha => by
    rcases mem_cons.mp ha with rfl | ha
    · simp [lookupKey]
    · have hlt : key h < key a := (pairwise_cons.mp hs).1 a ha
      have hne : (key h == key a) = false := by simp only [beq_eq_false_iff_ne]; omega
      have := lookupKey_self t (pairwise_cons.mp hs).2 a ha
      simpa [lookupKey, find?_cons, hne] using this

theorem lookupKey_none_of_above (k : Int) (l : List α) (h : ∀ a ∈ l, k < key a) : lookupKey key k l = none := by
  unfold lookupKey
  rw [find?_eq_none]
  intro a ha
  have := h a ha
  simp only [beq_iff_eq]; omega

/-- Row of key `k`: every input's element with that key, if all inputs have one. -/
def rowAt (k : Int) (L : List (List α)) : Option (List α) := allSome (L.map (lookupKey key k))

/-- Symmetric reading of the nested-loop definition when the first input has distinct keys. -/
theorem innerJoinN_sym (first : List α) (others : List (List α)) (hs : StrictInc key first) :
    innerJoinN key (first :: others) = first.filterMap (fun a => rowAt key (key a) (first :: others)) := by
  unfold innerJoinN
  apply filterMap_congr'
  intro a ha
  simp [rowAt, lookupKey_self key first hs a ha, allSome]

theorem innerJoinN_nil_mem (L : List (List α)) (h : [] ∈ L) : innerJoinN key L = [] := by
  cases L with
  | nil => rfl
  | cons first others =>
    rcases mem_cons.mp h with h | h
    · subst h; rfl
    · unfold innerJoinN
      rw [filterMap_eq_nil_iff]
      intro a _
      have : none ∈ others.map (lookupKey key (key a)) :=
        mem_map.mpr ⟨[], h, by simp [lookupKey]⟩
      simp [allSome_none_of_mem _ this]

/-- `l` without its head if the head's key is below `M`. -/
def dropBelow (M : Int) : List α → List α
  | a :: l => if key a < M then l else a :: l
  | [] => []

theorem strict_dropBelow (M : Int) (l : List α) (hs : StrictInc key l) : StrictInc key (dropBelow key M l) := by
  cases l with
  | nil => simpa [dropBelow] using hs
  | cons h t =>
    by_cases hk : key h < M
    · simp only [dropBelow, hk, if_true]; exact (pairwise_cons.mp hs).2
    · simp only [dropBelow, hk, if_false]; exact hs

theorem length_dropBelow_le (M : Int) (l : List α) : (dropBelow key M l).length ≤ l.length := by
  cases l with
  | nil => simp [dropBelow]
  | cons h t =>
    by_cases hk : key h < M
    · simp [dropBelow, hk]
    · simp [dropBelow, hk]

theorem lookupKey_dropBelow (M k : Int) (hk : M ≤ k) (l : List α) :
    lookupKey key k (dropBelow key M l) = lookupKey key k l := by
  cases l with
  | nil => rfl
  | cons h t =>
    by_cases hh : key h < M
    · have hne : (key h == k) = false := by simp only [beq_eq_false_iff_ne]; omega
      simp [dropBelow, hh, lookupKey, hne]
    · simp [dropBelow, hh]

theorem dropBelow_of_above (M : Int) (l : List α) (h : ∀ a ∈ l, M ≤ key a) : dropBelow key M l = l := by
  cases l with
  | nil => rfl
  | cons x t =>
    have : ¬ key x < M := by have := h x (by simp); omega
    simp [dropBelow, this]

/-- Inner join, "advance everything behind the maximum head": dropping heads whose key is below `M` changes
nothing as long as one input has no key below `M`. -/
theorem innerJoinN_dropBelow (L : List (List α)) (M : Int) (hs : ∀ l ∈ L, StrictInc key l)
    (hex : ∃ l ∈ L, ∀ a ∈ l, M ≤ key a) :
    innerJoinN key L = innerJoinN key (L.map (dropBelow key M)) := by
  cases L with
  | nil => rfl
  | cons first others =>
    have hrow : ∀ k, rowAt key k ((first :: others).map (dropBelow key M)) = rowAt key k (first :: others) := by
      intro k
      by_cases hk : M ≤ k
      · unfold rowAt
        rw [map_map]
        congr 1
        apply map_congr_left
        intro l _
        exact lookupKey_dropBelow key M k hk l
      · obtain ⟨lj, hlj, hall⟩ := hex
        have hnone : lookupKey key k lj = none :=
          lookupKey_none_of_above key k lj (fun a ha => by have := hall a ha; omega)
        unfold rowAt
        rw [allSome_none_of_mem _ (mem_map.mpr ⟨lj, hlj, hnone⟩),
          allSome_none_of_mem _ (mem_map.mpr ⟨dropBelow key M lj, mem_map_of_mem hlj, by
            rw [dropBelow_of_above key M lj hall]; exact hnone⟩)]
    have hbelow : ∀ k, k < M → rowAt key k (first :: others) = none := by
      intro k hk
      obtain ⟨lj, hlj, hall⟩ := hex
      exact allSome_none_of_mem _ (mem_map.mpr ⟨lj, hlj,
        lookupKey_none_of_above key k lj (fun a ha => by have := hall a ha; omega)⟩)
    rw [innerJoinN_sym key first others (hs first (by simp)), map_cons,
      innerJoinN_sym key _ _ (strict_dropBelow key M first (hs first (by simp))), ← map_cons]
    simp only [hrow]
    cases first with
    | nil => rfl
    | cons h t =>
      by_cases hh : key h < M
      · simp only [dropBelow, hh, if_true, filterMap_cons, hbelow (key h) hh]
      · simp only [dropBelow, hh, if_false]

/-- Inner join, "all heads agree": the heads form the first row, the rest is the join of the tails. -/
theorem innerJoinN_heads (L : List (List α)) (M : Int) (hne : L ≠ []) (hs : ∀ l ∈ L, StrictInc key l)
    (hh : ∀ l ∈ L, ∃ h t, l = h :: t ∧ key h = M) :
    innerJoinN key L = L.filterMap head? :: innerJoinN key (L.map tail) := by
  cases L with
  | nil => exact absurd rfl hne
  | cons first others =>
    obtain ⟨h, t, rfl, hk⟩ := hh first (by simp)
    have hst : StrictInc key (h :: t) := hs _ (by simp)
    have hheads : ∀ (L : List (List α)), (∀ l ∈ L, ∃ h t, l = h :: t ∧ key h = M) →
        L.map (lookupKey key M) = (L.filterMap head?).map some := by
      intro L
      induction L with
      | nil => intro _; rfl
      | cons l L ih =>
        intro hL
        obtain ⟨h', t', rfl, hk'⟩ := hL l (by simp)
        rw [map_cons, filterMap_cons, ih (fun l hl => hL l (mem_cons_of_mem _ hl))]
        simp [lookupKey, hk']
    have hL' : ((h :: t) :: others).map tail = t :: others.map tail := rfl
    have hrow0 : rowAt key (key h) ((h :: t) :: others) = some (((h :: t) :: others).filterMap head?) := by
      unfold rowAt
      rw [hk, hheads _ hh, allSome_map_some]
    rw [hL', innerJoinN_sym key (h :: t) others hst, innerJoinN_sym key t _ (pairwise_cons.mp hst).2,
      filterMap_cons, hrow0]
    simp only []
    congr 1
    apply filterMap_congr'
    intro a ha
    have hgt : key h < key a := (pairwise_cons.mp hst).1 a ha
    unfold rowAt
    rw [← hL', map_map]
    congr 1
    apply map_congr_left
    intro l hl
    obtain ⟨h', t', rfl, hk'⟩ := hh l hl
    have hne' : (key h' == key a) = false := by simp only [beq_eq_false_iff_ne]; omega
    simp [lookupKey, hne']

end innerSpec

/-! ## generic measure lemmas -/
section measure
variable {γ : Type} (μ : γ → Nat) (f : γ → γ)

theorem sum_map_le : ∀ (L : List γ), (∀ x ∈ L, μ (f x) ≤ μ x) → ((L.map f).map μ).sum ≤ (L.map μ).sum
  | [], _ => by simp
  | x :: L, h => by
    have := h x (by simp)
    have := sum_map_le L (fun y hy => h y (mem_cons_of_mem _ hy))
    simp only [map_cons, sum_cons]; omega

theorem sum_map_lt : ∀ (L : List γ), (∀ x ∈ L, μ (f x) ≤ μ x) → (∃ x ∈ L, μ (f x) < μ x) →
    ((L.map f).map μ).sum < (L.map μ).sum
  | [], _, h => by obtain ⟨x, hx, _⟩ := h; simp at hx
  | x :: L, hle, hlt => by
    have h1 := hle x (by simp)
    have h2 := sum_map_le μ f L (fun y hy => hle y (mem_cons_of_mem _ hy))
    simp only [map_cons, sum_cons]
    obtain ⟨x0, hx0, hlt0⟩ := hlt
    rcases mem_cons.mp hx0 with rfl | hx0
    · omega
    · have := sum_map_lt L (fun y hy => hle y (mem_cons_of_mem _ hy)) ⟨x0, hx0, hlt0⟩
      omega

end measure

end ShpanVerif.Proofs.Join
