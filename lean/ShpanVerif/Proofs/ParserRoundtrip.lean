/-
C19: `parse (serialize q) = ok (norm q)` for datasource / report trees (mutual induction).
-/
import ShpanVerif.Proofs.ParserLemmas

namespace ShpanVerif.Proofs.Parser

open ShpanVerif.Model.Parser ShpanVerif.Model.Parser.Outcome

set_option linter.unusedSimpArgs false
set_option linter.unusedVariables false

def filtersDepth : List Filter → Nat
  | [] => 0
  | f :: t => max (fDepth f) (filtersDepth t)

def rfiltersDepth : List RFilter → Nat
  | [] => 0
  | f :: t => max (rfDepth f) (rfiltersDepth t)

def optQDepth : Option QField → Nat
  | none => 0
  | some f => qDepth f

mutual
def dsDepth : DS → Nat
  | .static _ _ => 1
  | .filtered d fs => max (dsDepth d) (filtersDepth fs) + 1
  | .reduction _ _ m _ e => max (mdsDepth m) (optQDepth e) + 1
  | .fromReport r _ => rdsDepth r + 1
def mdsDepth : MDS → Nat
  | .list l => dssDepth l + 1
  | .filtered m fs => max (mdsDepth m) (filtersDepth fs) + 1
def dssDepth : List DS → Nat
  | [] => 0
  | d :: t => max (dsDepth d) (dssDepth t)
def rdsDepth : RDS → Nat
  | .static _ _ => 1
  | .join _ m => rmdsDepth m + 1
  | .fromDatasource d => dsDepth d + 1
  | .filtered r fs => max (rdsDepth r) (rfiltersDepth fs) + 1
def rmdsDepth : RMDS → Nat
  | .list l => rdssDepth l + 1
  | .fromMulti m => mdsDepth m + 1
  | .filtered m fs => max (rmdsDepth m) (rfiltersDepth fs) + 1
def rdssDepth : List RDS → Nat
  | [] => 0
  | d :: t => max (rdsDepth d) (rdssDepth t)
end

section valid
variable (zoneOk : String → Bool)

mutual
/-- Every node of the tree passes the parse-time validations. -/
def ValidDS : DS → Prop
  | .static fm _ => ValidFieldMeta fm
  | .filtered d fs => ValidDS d ∧ ∀ f ∈ fs, ValidFilter zoneOk f
  | .reduction _ al m _ _ => ValidAligner zoneOk al ∧ ValidMDS m
  | .fromReport r _ => ValidRDS r
def ValidMDS : MDS → Prop
  | .list l => ValidDSs l
  | .filtered m fs => ValidMDS m ∧ ∀ f ∈ fs, ValidFilter zoneOk f
def ValidDSs : List DS → Prop
  | [] => True
  | d :: t => ValidDS d ∧ ValidDSs t
def ValidRDS : RDS → Prop
  | .static ms _ => staticReportMetaOk ms = true ∧ ∀ m ∈ ms, ValidFieldMeta m
  | .join jt m => jt ∈ joinTypes ∧ ValidRMDS m
  | .fromDatasource d => ValidDS d
  | .filtered r fs => ValidRDS r ∧ ∀ f ∈ fs, ValidRFilter zoneOk f
def ValidRMDS : RMDS → Prop
  | .list l => ValidRDSs l
  | .fromMulti m => ValidMDS m
  | .filtered m fs => ValidRMDS m ∧ ∀ f ∈ fs, ValidRFilter zoneOk f
def ValidRDSs : List RDS → Prop
  | [] => True
  | d :: t => ValidRDS d ∧ ValidRDSs t
end
end valid

theorem fDepth_le_of_mem {f : Filter} : ∀ {fs : List Filter}, f ∈ fs → fDepth f ≤ filtersDepth fs
  | g :: t, h => by
    rcases List.mem_cons.mp h with rfl | h
    · simp only [filtersDepth]; omega
    · have := fDepth_le_of_mem h; simp only [filtersDepth]; omega

theorem rfDepth_le_of_mem {f : RFilter} : ∀ {fs : List RFilter}, f ∈ fs → rfDepth f ≤ rfiltersDepth fs
  | g :: t, h => by
    rcases List.mem_cons.mp h with rfl | h
    · simp only [rfiltersDepth]; omega
    · have := rfDepth_le_of_mem h; simp only [rfiltersDepth]; omega

theorem rt_points : ∀ (l : List Point), mapList parsePoint (l.map serPoint) = .ok l
  | [] => rfl
  | p :: t => by
    obtain ⟨ts, v⟩ := p
    simp [mapList, parsePoint, serPoint, asStruct, asTime, rt_points t]

theorem rt_rows : ∀ (l : List Row), mapList parseRow (l.map serRow) = .ok l
  | [] => rfl
  | p :: t => by
    obtain ⟨ts, vs⟩ := p
    simp [mapList, parseRow, serRow, asStruct, asTime, asList, rt_rows t]

theorem rt_metas : ∀ (l : List FieldMeta), (∀ m ∈ l, ValidFieldMeta m) →
    mapList parseFieldMeta (l.map serFieldMeta) = .ok l
  | [], _ => rfl
  | m :: t, h => by
    simp [mapList, rt_fieldMeta m (h m List.mem_cons_self),
      rt_metas t (fun x hx => h x (List.mem_cons_of_mem _ hx))]

theorem serQField_obj (f : QField) : ∃ kv, serQField f = .obj kv := by
  cases f <;> simp [serQField]

theorem isEmpty_map_false {α β : Type} (f : α → β) {l : List α} (h : l ≠ []) : (l.map f).isEmpty = false := by
  cases l with
  | nil => exact absurd rfl h
  | cons a t => rfl

section rt
variable (zoneOk : String → Bool)

mutual
theorem rt_ds : ∀ (d : DS) (n : Nat), ValidDS zoneOk d → dsDepth d ≤ n →
    parseDS zoneOk n (serDS d) = .ok (normDS d)
  | .static fm data, 0, _, h => by simp [dsDepth] at h
  | .static fm data, n + 1, hv, _ => by
    simp only [ValidDS] at hv
    simp [parseDS, serDS, normDS, discriminator, asStr, asList, rt_points, rt_fieldMeta fm hv]
  | .filtered d fs, 0, _, h => by simp [dsDepth] at h
  | .filtered d fs, n + 1, hv, h => by
    simp only [ValidDS] at hv
    simp only [dsDepth] at h
    have ih := rt_ds d n hv.1 (by omega)
    by_cases hfs : fs = []
    · subst hfs
      simp [parseDS, serDS, normDS, discriminator, asStr, asList, ih]
    · have hfl := rt_filters zoneOk n fs (fun f hf => ⟨hv.2 f hf, by have := fDepth_le_of_mem hf; omega⟩)
      simp [parseDS, serDS, normDS, discriminator, asStr, asList, ih, hfl, hfs]
  | .reduction rt al m fm e, 0, _, h => by simp [dsDepth] at h
  | .reduction rt al m fm e, n + 1, hv, h => by
    simp only [ValidDS] at hv
    simp only [dsDepth] at h
    have ihm := rt_mds m n hv.2 (by omega)
    have hal := rt_aligner zoneOk "" al hv.1
    cases e with
    | none =>
      simp [parseDS, serDS, normDS, discriminator, asStr, asStruct, ihm, hal, rt_addMeta]
    | some f =>
      have hq := rt_qfield f n (by simp only [optQDepth] at h; omega)
      obtain ⟨kv, hkv⟩ := serQField_obj f
      rw [hkv] at hq
      simp [parseDS, serDS, normDS, discriminator, asStr, asStruct, ihm, hal, rt_addMeta, hkv, hq]
  | .fromReport r urn, 0, _, h => by simp [dsDepth] at h
  | .fromReport r urn, n + 1, hv, h => by
    simp only [ValidDS] at hv
    simp only [dsDepth] at h
    have ih := rt_rds r n hv (by omega)
    simp [parseDS, serDS, normDS, discriminator, asStr, ih]

theorem rt_mds : ∀ (m : MDS) (n : Nat), ValidMDS zoneOk m → mdsDepth m ≤ n →
    parseMDS zoneOk n (serMDS m) = .ok (normMDS m)
  | .list l, 0, _, h => by simp [mdsDepth] at h
  | .list l, n + 1, hv, h => by
    simp only [ValidMDS] at hv
    simp only [mdsDepth] at h
    have ih := rt_dss l n hv (by omega)
    simp [parseMDS, serMDS, normMDS, discriminator, asStr, asList, ih]
  | .filtered m fs, 0, _, h => by simp [mdsDepth] at h
  | .filtered m fs, n + 1, hv, h => by
    simp only [ValidMDS] at hv
    simp only [mdsDepth] at h
    have ih := rt_mds m n hv.1 (by omega)
    have hfl := rt_filters zoneOk n fs (fun f hf => ⟨hv.2 f hf, by have := fDepth_le_of_mem hf; omega⟩)
    simp [parseMDS, serMDS, normMDS, discriminator, asStr, asList, ih, hfl]

theorem rt_dss : ∀ (l : List DS) (n : Nat), ValidDSs zoneOk l → dssDepth l ≤ n →
    parseDSs zoneOk n (serDSs l) = .ok (normDSs l)
  | [], n, _, _ => by simp [parseDSs, serDSs, normDSs]
  | d :: t, n, hv, h => by
    simp only [ValidDSs] at hv
    simp only [dssDepth] at h
    have h1 := rt_ds d n hv.1 (by omega)
    have h2 := rt_dss t n hv.2 (by omega)
    simp [parseDSs, serDSs, normDSs, h1, h2]

theorem rt_rds : ∀ (r : RDS) (n : Nat), ValidRDS zoneOk r → rdsDepth r ≤ n →
    parseRDS zoneOk n (serRDS r) = .ok (normRDS r)
  | .static ms rows, 0, _, h => by simp [rdsDepth] at h
  | .static ms rows, n + 1, hv, _ => by
    simp only [ValidRDS] at hv
    simp [parseRDS, serRDS, normRDS, discriminator, asStr, asList, rt_rows, rt_metas ms hv.2, hv.1]
  | .join jt m, 0, _, h => by simp [rdsDepth] at h
  | .join jt m, n + 1, hv, h => by
    simp only [ValidRDS] at hv
    simp only [rdsDepth] at h
    have ih := rt_rmds m n hv.2 (by omega)
    simp [parseRDS, serRDS, normRDS, discriminator, asStr, ih, hv.1]
  | .fromDatasource d, 0, _, h => by simp [rdsDepth] at h
  | .fromDatasource d, n + 1, hv, h => by
    simp only [ValidRDS] at hv
    simp only [rdsDepth] at h
    have ih := rt_ds d n hv (by omega)
    simp [parseRDS, serRDS, normRDS, discriminator, asStr, ih]
  | .filtered r fs, 0, _, h => by simp [rdsDepth] at h
  | .filtered r fs, n + 1, hv, h => by
    simp only [ValidRDS] at hv
    simp only [rdsDepth] at h
    have ih := rt_rds r n hv.1 (by omega)
    have hfl := rt_rfilters zoneOk n fs (fun f hf => ⟨hv.2 f hf, by have := rfDepth_le_of_mem hf; omega⟩)
    simp [parseRDS, serRDS, normRDS, discriminator, asStr, asList, ih, hfl]

theorem rt_rmds : ∀ (m : RMDS) (n : Nat), ValidRMDS zoneOk m → rmdsDepth m ≤ n →
    parseRMDS zoneOk n (serRMDS m) = .ok (normRMDS m)
  | .list l, 0, _, h => by simp [rmdsDepth] at h
  | .list l, n + 1, hv, h => by
    simp only [ValidRMDS] at hv
    simp only [rmdsDepth] at h
    have ih := rt_rdss l n hv (by omega)
    simp [parseRMDS, serRMDS, normRMDS, discriminator, asStr, asList, ih]
  | .fromMulti m, 0, _, h => by simp [rmdsDepth] at h
  | .fromMulti m, n + 1, hv, h => by
    simp only [ValidRMDS] at hv
    simp only [rmdsDepth] at h
    have ih := rt_mds m n hv (by omega)
    simp [parseRMDS, serRMDS, normRMDS, discriminator, asStr, ih]
  | .filtered m fs, 0, _, h => by simp [rmdsDepth] at h
  | .filtered m fs, n + 1, hv, h => by
    simp only [ValidRMDS] at hv
    simp only [rmdsDepth] at h
    have ih := rt_rmds m n hv.1 (by omega)
    have hfl := rt_rfilters zoneOk n fs (fun f hf => ⟨hv.2 f hf, by have := rfDepth_le_of_mem hf; omega⟩)
    simp [parseRMDS, serRMDS, normRMDS, discriminator, asStr, asList, ih, hfl]

theorem rt_rdss : ∀ (l : List RDS) (n : Nat), ValidRDSs zoneOk l → rdssDepth l ≤ n →
    parseRDSs zoneOk n (serRDSs l) = .ok (normRDSs l)
  | [], n, _, _ => by simp [parseRDSs, serRDSs, normRDSs]
  | d :: t, n, hv, h => by
    simp only [ValidRDSs] at hv
    simp only [rdssDepth] at h
    have h1 := rt_rds d n hv.1 (by omega)
    have h2 := rt_rdss t n hv.2 (by omega)
    simp [parseRDSs, serRDSs, normRDSs, h1, h2]
end

end rt

/-! ### the document-level entry points give enough fuel -/

theorem qDepth_le : ∀ f : QField, qDepth f ≤ (serQField f).depth := by
  intro f
  induction f with
  | constant dt v r u => simp [qDepth, serQField, Json.depth]
  | ref => simp [qDepth, serQField, Json.depth]
  | nil dt u => simp [qDepth, serQField, Json.depth]
  | condition op a b iha ihb => simp [qDepth, serQField, Json.depth, depthObj]; omega
  | logical op a b iha ihb => simp [qDepth, serQField, Json.depth, depthObj]; omega
  | selector s t f ihs iht ihf => simp [qDepth, serQField, Json.depth, depthObj]; omega
  | nvl s a ihs iha => simp [qDepth, serQField, Json.depth, depthObj]; omega
  | cast s tt ihs => simp [qDepth, serQField, Json.depth, depthObj]; omega
  | numeric op a b iha ihb => simp [qDepth, serQField, Json.depth, depthObj]; omega
  | unary op a iha => simp [qDepth, serQField, Json.depth, depthObj]; omega

theorem rDepth_le : ∀ f : RField, rDepth f ≤ (serRField f).depth := by
  intro f
  induction f with
  | constant dt v r u => simp [rDepth, serRField, Json.depth]
  | ref u => simp [rDepth, serRField, Json.depth]
  | nil dt u => simp [rDepth, serRField, Json.depth]
  | reduce us rt => simp [rDepth, serRField, Json.depth]
  | condition op a b iha ihb => simp [rDepth, serRField, Json.depth, depthObj]; omega
  | logical op a b iha ihb => simp [rDepth, serRField, Json.depth, depthObj]; omega
  | selector s t f ihs iht ihf => simp [rDepth, serRField, Json.depth, depthObj]; omega
  | nvl s a ihs iha => simp [rDepth, serRField, Json.depth, depthObj]; omega
  | cast s tt ihs => simp [rDepth, serRField, Json.depth, depthObj]; omega
  | numeric op a b iha ihb => simp [rDepth, serRField, Json.depth, depthObj]; omega
  | unary op a iha => simp [rDepth, serRField, Json.depth, depthObj]; omega

theorem fDepth_le (f : Filter) : fDepth f ≤ (serFilter f).depth := by
  cases f with
  | condition q => have := qDepth_le q; simp [fDepth, serFilter, Json.depth, depthObj]; omega
  | fieldValue q m => have := qDepth_le q; simp [fDepth, serFilter, Json.depth, depthObj]; omega
  | _ => simp [fDepth]

theorem rfDepth_le (f : RFilter) : rfDepth f ≤ (serRFilter f).depth := by
  cases f with
  | condition q => have := rDepth_le q; simp [rfDepth, serRFilter, Json.depth, depthObj]; omega
  | appendField q m => have := rDepth_le q; simp [rfDepth, serRFilter, Json.depth, depthObj]; omega
  | singleField q m => have := rDepth_le q; simp [rfDepth, serRFilter, Json.depth, depthObj]; omega
  | _ => simp [rfDepth]

theorem filtersDepth_le : ∀ fs : List Filter, filtersDepth fs ≤ depthList (fs.map serFilter)
  | [] => by simp [filtersDepth, depthList]
  | f :: t => by
    have := fDepth_le f; have := filtersDepth_le t
    simp only [filtersDepth, List.map, depthList]; omega

theorem rfiltersDepth_le : ∀ fs : List RFilter, rfiltersDepth fs ≤ depthList (fs.map serRFilter)
  | [] => by simp [rfiltersDepth, depthList]
  | f :: t => by
    have := rfDepth_le f; have := rfiltersDepth_le t
    simp only [rfiltersDepth, List.map, depthList]; omega

mutual
theorem dsDepth_le : ∀ d : DS, dsDepth d ≤ (serDS d).depth
  | .static fm data => by simp [dsDepth, serDS, Json.depth]
  | .filtered d fs => by
    have := dsDepth_le d; have := filtersDepth_le fs
    simp [dsDepth, serDS, Json.depth, depthObj]; omega
  | .reduction rt al m fm e => by
    have := mdsDepth_le m
    cases e with
    | none => simp [dsDepth, optQDepth, serDS, Json.depth, depthObj]; omega
    | some f => have := qDepth_le f; simp [dsDepth, optQDepth, serDS, Json.depth, depthObj]; omega
  | .fromReport r urn => by
    have := rdsDepth_le r
    simp [dsDepth, serDS, Json.depth, depthObj]; omega
theorem mdsDepth_le : ∀ m : MDS, mdsDepth m ≤ (serMDS m).depth
  | .list l => by
    have := dssDepth_le l
    simp [mdsDepth, serMDS, Json.depth, depthObj]; omega
  | .filtered m fs => by
    have := mdsDepth_le m; have := filtersDepth_le fs
    simp [mdsDepth, serMDS, Json.depth, depthObj]; omega
theorem dssDepth_le : ∀ l : List DS, dssDepth l ≤ depthList (serDSs l)
  | [] => by simp [dssDepth, serDSs, depthList]
  | d :: t => by
    have := dsDepth_le d; have := dssDepth_le t
    simp only [dssDepth, serDSs, depthList]; omega
theorem rdsDepth_le : ∀ r : RDS, rdsDepth r ≤ (serRDS r).depth
  | .static ms rows => by simp [rdsDepth, serRDS, Json.depth]
  | .join jt m => by
    have := rmdsDepth_le m
    simp [rdsDepth, serRDS, Json.depth, depthObj]; omega
  | .fromDatasource d => by
    have := dsDepth_le d
    simp [rdsDepth, serRDS, Json.depth, depthObj]; omega
  | .filtered r fs => by
    have := rdsDepth_le r; have := rfiltersDepth_le fs
    simp [rdsDepth, serRDS, Json.depth, depthObj]; omega
theorem rmdsDepth_le : ∀ m : RMDS, rmdsDepth m ≤ (serRMDS m).depth
  | .list l => by
    have := rdssDepth_le l
    simp [rmdsDepth, serRMDS, Json.depth, depthObj]; omega
  | .fromMulti m => by
    have := mdsDepth_le m
    simp [rmdsDepth, serRMDS, Json.depth, depthObj]; omega
  | .filtered m fs => by
    have := rmdsDepth_le m; have := rfiltersDepth_le fs
    simp [rmdsDepth, serRMDS, Json.depth, depthObj]; omega
theorem rdssDepth_le : ∀ l : List RDS, rdssDepth l ≤ depthList (serRDSs l)
  | [] => by simp [rdssDepth, serRDSs, depthList]
  | d :: t => by
    have := rdsDepth_le d; have := rdssDepth_le t
    simp only [rdssDepth, serRDSs, depthList]; omega
end

end ShpanVerif.Proofs.Parser
