/-
C11 helper (full reference equality, part 1): the counting argument behind "number of (distinct) urns found = size of
the urn set ⇔ every listed urn names a field", and `reduce` over an explicit urn list.

History: the code used to compare the NUMBER OF FIELDS picked with the size of the urn set.  Inside a `select` a value
is planned over `fields ++ new fields`, where a new field may re-use an existing urn; there the count was off and the
code disagreed with the reference (accepted a reduce over an unknown urn / rejected a valid one).  Found by this proof,
repaired in /repo (5caebc0: the distinct urns found are counted); the model follows the repaired code and
`reduceNamed_ref` holds for every field list.
-/
import ShpanVerif.Proofs.QueryRefTree

namespace ShpanVerif.Proofs.Query
open ShpanVerif.Model.Query ShpanVerif.Model.Query.Ref List

/-! ## counting -/

theorem nodup_eraseDups {α : Type} [BEq α] [LawfulBEq α] : ∀ (n : Nat) (l : List α), l.length ≤ n → l.eraseDups.Nodup
  | _, [], _ => by simp
  | 0, _ :: _, h => by simp at h
  | n + 1, a :: as, h => by
    rw [eraseDups_cons, nodup_cons]
    refine ⟨?_, nodup_eraseDups n _ ?_⟩
    · simp [mem_eraseDups]
    · have := length_filter_le (fun b => !b == a) as
      simp only [length_cons] at h
      omega

/-- a duplicate-free list inside another list is at most as long; equally long only if they have the same members -/
theorem nodup_subset_length {α : Type} [BEq α] [LawfulBEq α] : ∀ (P S : List α), P.Nodup → P ⊆ S →
    P.length ≤ S.length ∧ (P.length = S.length → S ⊆ P)
  | [], S, _, _ => ⟨by simp, fun h => by
      have : S = [] := by cases S with
        | nil => rfl
        | cons _ _ => simp at h
      simp [this]⟩
  | a :: P, S, hnd, hsub => by
    have haS : a ∈ S := hsub (by simp)
    have hnd' := nodup_cons.mp hnd
    have hsub' : P ⊆ S.erase a := by
      intro x hx
      have hne : x ≠ a := fun h => hnd'.1 (h ▸ hx)
      exact (mem_erase_of_ne hne).mpr (hsub (mem_cons_of_mem _ hx))
    obtain ⟨h1, h2⟩ := nodup_subset_length P (S.erase a) hnd'.2 hsub'
    have hlen : (S.erase a).length = S.length - 1 := length_erase_of_mem haS
    have hpos : 0 < S.length := length_pos_of_mem haS
    refine ⟨by simp only [length_cons]; omega, fun heq => ?_⟩
    have : P.length = (S.erase a).length := by simp only [length_cons] at heq; omega
    intro x hx
    by_cases hxa : x = a
    · simp [hxa]
    · exact mem_cons_of_mem _ (h2 this ((mem_erase_of_ne hxa).mpr hx))

theorem nodup_length_eq_iff {α : Type} [BEq α] [LawfulBEq α] {P S : List α} (hP : P.Nodup) (hS : S.Nodup)
    (hsub : P ⊆ S) : P.length = S.length ↔ S ⊆ P := by
  constructor
  · exact (nodup_subset_length P S hP hsub).2
  · intro h
    have h1 := (nodup_subset_length P S hP hsub).1
    have h2 := (nodup_subset_length S P hS h).1
    omega

theorem zipIdx_filter_fst {α : Type} (p : α → Bool) : ∀ (l : List α) (k : Nat),
    ((l.zipIdx k).filter (fun q => p q.1)).map (·.1) = l.filter p
  | [], _ => rfl
  | a :: l, k => by
    simp only [zipIdx_cons, filter_cons]
    by_cases h : p a = true
    · simp [h, zipIdx_filter_fst p l (k + 1)]
    · simp [h, zipIdx_filter_fst p l (k + 1)]

theorem eraseDups_contains (us : List String) (x : String) : us.eraseDups.contains x = us.contains x := by
  rw [Bool.eq_iff_iff, contains_iff_mem, contains_iff_mem, mem_eraseDups]

/-- the count-based "all requested fields were found" check, when the found urns are duplicate-free -/
theorem found_count_iff (fms : List FieldMeta) (us : List String)
    (hnd : ((fms.filter fun m => us.contains m.urn).map (·.urn)).Nodup) :
    (fms.filter fun m => us.contains m.urn).length = us.eraseDups.length ↔ ∀ u ∈ us, ∃ m ∈ fms, m.urn = u := by
  have hsub : ((fms.filter fun m => us.contains m.urn).map (·.urn)) ⊆ us.eraseDups := by
    intro x hx
    simp only [mem_map, mem_filter, contains_iff_mem] at hx
    obtain ⟨m, ⟨_, hm⟩, rfl⟩ := hx
    exact mem_eraseDups.mpr hm
  have := nodup_length_eq_iff hnd (nodup_eraseDups _ us (Nat.le_refl _)) hsub
  rw [length_map] at this
  rw [this]
  constructor
  · intro h u hu
    have := h (mem_eraseDups.mpr hu)
    simp only [mem_map, mem_filter] at this
    obtain ⟨m, ⟨hm, _⟩, rfl⟩ := this
    exact ⟨m, hm, rfl⟩
  · intro h u hu
    have hu' := mem_eraseDups.mp hu
    obtain ⟨m, hm, rfl⟩ := h u hu'
    simp only [mem_map, mem_filter, contains_iff_mem]
    exact ⟨m, ⟨hm, hu'⟩, rfl⟩

/-- the repaired check: the number of DISTINCT urns found, for any field list -/
theorem found_distinct_iff (fms : List FieldMeta) (us : List String) :
    ((fms.filter fun m => us.contains m.urn).map (·.urn)).eraseDups.length = us.eraseDups.length ↔
      ∀ u ∈ us, ∃ m ∈ fms, m.urn = u := by
  have hsub : ((fms.filter fun m => us.contains m.urn).map (·.urn)).eraseDups ⊆ us.eraseDups := by
    intro x hx
    simp only [mem_eraseDups, mem_map, mem_filter, contains_iff_mem] at hx
    obtain ⟨m, ⟨_, hm⟩, rfl⟩ := hx
    exact mem_eraseDups.mpr hm
  rw [nodup_length_eq_iff (nodup_eraseDups _ _ (Nat.le_refl _)) (nodup_eraseDups _ us (Nat.le_refl _)) hsub]
  constructor
  · intro h u hu
    have := h (mem_eraseDups.mpr hu)
    simp only [mem_eraseDups, mem_map, mem_filter] at this
    obtain ⟨m, ⟨hm, _⟩, rfl⟩ := this
    exact ⟨m, hm, rfl⟩
  · intro h u hu
    have hu' := mem_eraseDups.mp hu
    obtain ⟨m, hm, rfl⟩ := h u hu'
    simp only [mem_eraseDups, mem_map, mem_filter, contains_iff_mem]
    exact ⟨m, ⟨hm, hu'⟩, rfl⟩

theorem all_any_iff (fms : List FieldMeta) (us : List String) :
    (us.all fun u => fms.any fun m => m.urn == u) = true ↔ ∀ u ∈ us, ∃ m ∈ fms, m.urn = u := by
  simp [all_eq_true, any_eq_true]

end ShpanVerif.Proofs.Query

namespace ShpanVerif.Proofs.Query
open ShpanVerif.Model.Query ShpanVerif.Model.Query.Ref List

variable {D : Type} (O : Ops D)

/-! ## reduce over a list of picked fields -/

/-- the part of `reduceR` after the "missing" check, as a function of the picked fields -/
def reduceBody (rt : RedType) (picked : List (FieldMeta × Nat)) : Except PlanErr (Planned (List (Val D)) D) :=
  match picked with
  | [] => .error .reduceNone
  | (m0, _) :: rest =>
    if !m0.dt.isNumeric then .error .reduceNonNumeric
    else if !m0.required then .error .reduceOptional
    else match reduceCheckRest m0.dt (rest.map (·.1)) with
      | .error e => .error e
      | .ok () =>
        match redFunc O rt m0.dt with
        | none => .error .reduceBadType
        | some rf =>
          let vm : ValueMeta := {
            dt := redResultType rt m0.dt
            unit := if allSameUnit m0.unit (rest.map (·.1)) then m0.unit else ""
            required := true
            custom := none }
          .ok (vm, fun row => (picked.mapM fun p => row[p.2]?).bind rf)

theorem reduceR_eq (rt : RedType) (urns : Option (List String)) (fms : List FieldMeta) :
    reduceR O rt urns fms =
      if reduceIsMissing urns ((reducePick urns fms).map (·.1.urn)).eraseDups.length then .error .reduceMissing
      else reduceBody O rt (reducePick urns fms) := by
  unfold reduceR reduceBody
  rfl

/-- the picked part against the reference typing (`reduceType … true`) and evaluation -/
theorem reduceBody_ref (rt : RedType) {fms : List FieldMeta} (picked : List (FieldMeta × Nat))
    (hp : ∀ p ∈ picked, fms[p.2]? = some p.1) :
    match reduceBody O rt picked with
    | .ok p => reduceType rt true (picked.map (·.1)) = some p.1 ∧
        ∀ row, Conforms fms row → p.2 row = (picked.mapM fun q => row[q.2]?).bind (reduceVals O rt)
    | .error _ => reduceType rt true (picked.map (·.1)) = none := by
  cases picked with
  | nil => simp [reduceBody, reduceType]
  | cons p0 rest =>
    obtain ⟨m0, i0⟩ := p0
    have hrest' := reduceCheckRest_iff m0.dt (rest.map (·.1))
    have hsome := redFunc_isSome O rt m0.dt
    simp only [reduceBody, map_cons, reduceType, all_cons, beq_self_eq_true, Bool.true_and]
    by_cases hnum : m0.dt.isNumeric = true
    · by_cases hreq : m0.required = true
      · simp only [hnum, hreq, Bool.not_true, Bool.false_eq_true, ↓reduceIte, Bool.true_and, Bool.and_true]
        cases hc : reduceCheckRest m0.dt (rest.map (·.1)) with
        | error e' =>
          rw [hc] at hrest'
          simp only [isOk] at hrest'
          simp [← hrest']
        | ok u =>
          rw [hc] at hrest'
          simp only [isOk] at hrest'
          cases hrf : redFunc O rt m0.dt with
          | none =>
            rw [hrf] at hsome
            have : (rt != RedType.bogus) = false := by simpa using hsome.symm
            simp [this]
          | some rf =>
            rw [hrf] at hsome
            have hb : (rt != RedType.bogus) = true := by simpa using hsome.symm
            simp only [hb, ← hrest', Bool.and_self, if_true]
            refine ⟨rfl, fun row hrow => ?_⟩
            cases hm : (((m0, i0) :: rest).mapM fun q => row[q.2]?) with
            | none => rfl
            | some vs =>
              simp only [Option.bind_some]
              have hconf := hrow.pick (l := (m0, i0) :: rest) hp hm
              have hall : ∀ m ∈ ((m0, i0) :: rest).map (·.1), m.dt = m0.dt ∧ m.required = true := by
                intro m hm'
                simp only [map_cons, mem_cons] at hm'
                rcases hm' with rfl | hm'
                · exact ⟨rfl, hreq⟩
                · cases u; exact reduceCheckRest_ok hc m hm'
              have hlen := mapM_length hm
              refine redFunc_eq O hrf hnum ?_ (Conforms_all_tag hconf hall)
              intro hnil
              subst hnil
              simp at hlen
      · have : m0.required = false := by simpa using hreq
        simp [hnum, this]
    · have : m0.dt.isNumeric = false := by simpa using hnum
      simp [this]

theorem reduceType_false (rt : RedType) (l : List FieldMeta) : reduceType rt false l = none := by
  cases l <;> simp [reduceType]

/-- `reduce` over an explicit urn list (any field list, duplicate urns included) -/
theorem reduceNamed_ref (rt : RedType) (us : List String) (fms : List FieldMeta) :
    RefOk O fms (.reduce rt (some us)) (reduceR O rt (some us) fms) := by
  have hpk : reducePick (some us) fms = reduceFields (some us) fms := by
    simp only [reducePick, reduceFields]
    congr 1
    funext p
    simp
  have hurns : (reduceFields (some us) fms).map (·.1.urn) = (fms.filter fun m => us.contains m.urn).map (·.urn) := by
    rw [← hpk]
    simp only [reducePick]
    rw [← zipIdx_filter_fst (fun m : FieldMeta => us.contains m.urn) fms 0, map_map]
    rfl
  have hp : ∀ p ∈ reduceFields (some us) fms, fms[p.2]? = some p.1 := by
    intro p hp
    simp only [reduceFields, mem_filter] at hp
    exact mem_zipIdx_iff_getElem?.mp hp.1
  have hbody := reduceBody_ref O rt (reduceFields (some us) fms) hp
  have hcount := found_distinct_iff fms us
  rw [← hurns] at hcount
  rw [reduceR_eq, hpk]
  simp only [reduceIsMissing, RefOk, typeR]
  by_cases hall : (reduceAllFound (some us) fms) = true
  · have h1 := hcount.mpr ((all_any_iff fms us).mp hall)
    simp only [h1, bne_self_eq_false, Bool.false_eq_true, if_false, hall]
    cases hb : reduceBody O rt (reduceFields (some us) fms) with
    | error e => rw [hb] at hbody; exact hbody
    | ok p =>
      rw [hb] at hbody
      simp only [Agrees, typeR, evalR, hall]
      exact hbody
  · have hall' : reduceAllFound (some us) fms = false := by simpa using hall
    have h1 : ((map (fun x => x.1.urn) (reduceFields (some us) fms)).eraseDups.length != us.eraseDups.length) = true := by
      simp only [bne_iff_ne, ne_eq]
      intro heq
      exact hall ((all_any_iff fms us).mpr (hcount.mp heq))
    simp only [h1, if_true, hall', reduceType_false]

/-! ## values with named reduce -/

/-- `C11_plan_eq_ref` at value level for ALL ten value kinds (named `reduce` included) -/
theorem planRVal_refN : ∀ (v : RVal D) (fms : List FieldMeta), RefOk O fms v (planRVal O v fms)
  | .const vm c, fms => by simpa [planRVal] using constK_ref O fms vm c
  | .ref urn, fms => by simpa [planRVal] using refR_ref O fms urn
  | .cast s t, fms => by
    have ih := planRVal_refN s fms
    simp only [planRVal, bind, Except.bind]
    cases hs : planRVal O s fms with
    | error e => rw [hs] at ih; simp [RefOk, typeR] at ih ⊢; simp [ih]
    | ok ps => rw [hs] at ih; exact castK_ref O t ih (planRVal_sound O s hs)
  | .cond op a b, fms => by
    have iha := planRVal_refN a fms
    have ihb := planRVal_refN b fms
    simp only [planRVal, bind, Except.bind]
    cases ha : planRVal O a fms with
    | error e => rw [ha] at iha; simp [RefOk, typeR] at iha ⊢; simp [iha]
    | ok pa =>
      rw [ha] at iha
      cases hb : planRVal O b fms with
      | error e => rw [hb] at ihb; simp [RefOk, typeR] at ihb ⊢; simp [ihb]
      | ok pb => rw [hb] at ihb; exact condK_ref O op iha ihb (planRVal_sound O a ha) (planRVal_sound O b hb)
  | .num op a b, fms => by
    have iha := planRVal_refN a fms
    have ihb := planRVal_refN b fms
    simp only [planRVal, bind, Except.bind]
    cases ha : planRVal O a fms with
    | error e => rw [ha] at iha; simp [RefOk, typeR] at iha ⊢; simp [iha]
    | ok pa =>
      rw [ha] at iha
      cases hb : planRVal O b fms with
      | error e => rw [hb] at ihb; simp [RefOk, typeR] at ihb ⊢; simp [ihb]
      | ok pb => rw [hb] at ihb; exact numK_ref O op iha ihb (planRVal_sound O a ha) (planRVal_sound O b hb)
  | .un op a, fms => by
    have ih := planRVal_refN a fms
    simp only [planRVal, bind, Except.bind]
    cases ha : planRVal O a fms with
    | error e => rw [ha] at ih; simp [RefOk, typeR] at ih ⊢; simp [ih]
    | ok pa => rw [ha] at ih; exact unK_ref O op ih (planRVal_sound O a ha)
  | .logic op a b, fms => by
    have iha := planRVal_refN a fms
    have ihb := planRVal_refN b fms
    simp only [planRVal, bind, Except.bind]
    cases ha : planRVal O a fms with
    | error e => rw [ha] at iha; simp [RefOk, typeR] at iha ⊢; simp [iha]
    | ok pa =>
      rw [ha] at iha
      cases hb : planRVal O b fms with
      | error e => rw [hb] at ihb; simp [RefOk, typeR] at ihb ⊢; simp [ihb]
      | ok pb => rw [hb] at ihb; exact logicK_ref O op iha ihb (planRVal_sound O a ha) (planRVal_sound O b hb)
  | .nvl s alt, fms => by
    have ihs := planRVal_refN s fms
    have iha := planRVal_refN alt fms
    simp only [planRVal, bind, Except.bind]
    cases hs : planRVal O s fms with
    | error e => rw [hs] at ihs; simp [RefOk, typeR] at ihs ⊢; simp [ihs]
    | ok ps =>
      rw [hs] at ihs
      cases ha : planRVal O alt fms with
      | error e => rw [ha] at iha; simp [RefOk, typeR] at iha ⊢; simp [iha]
      | ok pa => rw [ha] at iha; exact nvlK_ref O ihs iha (planRVal_sound O s hs)
  | .sel c t f, fms => by
    have ihc := planRVal_refN c fms
    have iht := planRVal_refN t fms
    have ihf := planRVal_refN f fms
    simp only [planRVal, bind, Except.bind]
    cases hc : planRVal O c fms with
    | error e => rw [hc] at ihc; simp [RefOk, typeR] at ihc ⊢; simp [ihc]
    | ok pc =>
      rw [hc] at ihc
      cases ht : planRVal O t fms with
      | error e => rw [ht] at iht; simp [RefOk, typeR] at iht ⊢; simp [iht]
      | ok pt =>
        rw [ht] at iht
        cases hf : planRVal O f fms with
        | error e => rw [hf] at ihf; simp [RefOk, typeR] at ihf ⊢; simp [ihf]
        | ok pf => rw [hf] at ihf; exact selK_ref O ihc iht ihf
  | .reduce rt none, fms => by simpa [planRVal] using reduceAll_ref O rt fms
  | .reduce rt (some us), fms => by simpa [planRVal] using reduceNamed_ref O rt us fms

/-- value + `PrepareField` against the reference, all value kinds -/
theorem planPrepare_refN (v : RVal D) (afm : AddFieldMeta) (fms : List FieldMeta) :
    (match planRVal O v fms >>= prepareK afm with
      | .ok (fm, fn) => (typeR O v fms).bind (mkMeta afm) = some fm ∧
          ∀ row, Conforms fms row → fn row = evalR O v fms row
      | .error _ => (typeR O v fms).bind (mkMeta afm) = none) := by
  have h := planRVal_refN O v fms
  simp only [bind, Except.bind]
  cases hp : planRVal O v fms with
  | error e => rw [hp] at h; simp only [RefOk] at h; simp [h]
  | ok p =>
    rw [hp] at h
    obtain ⟨hty, hev⟩ := h
    have hm := mkMeta_prepareK afm p
    simp only
    cases hq : prepareK afm p with
    | error e => rw [hq] at hm; simp [hty, hm]
    | ok q =>
      obtain ⟨fm, fn⟩ := q
      rw [hq] at hm
      obtain ⟨hm1, rfl⟩ := hm
      exact ⟨by simp [hty, hm1], hev⟩

end ShpanVerif.Proofs.Query
