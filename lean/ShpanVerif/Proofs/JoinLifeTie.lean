/-
Join lifecycle model (`Model/JoinLife.lean`) against the C09 model (`Model/Join.lean`), list level: over plain lists the
program `join2` (JoinSortedStreams written as a tree of its effects) does, call by call, what `Join.emitJoin` does — same
rows, same captured variables, same read positions, same errors — for ALL inputs, sorted or not.
-/
import ShpanVerif.Proofs.JoinLifeClean

namespace ShpanVerif.Proofs.JoinLife
open ShpanVerif.Model.JoinLife
open ShpanVerif.Model.Join (JErr)

/-- the state record of the C09 model: the captured variables plus what both inputs have left -/
def toJ2 (s : J2) (l r : List Int) : Model.Join.J2 Int Int :=
  { firstElement := s.firstElement, rightStreamIsDone := s.rightDone, lastLeftKey := s.lastLeftKey,
    lastRightKey := s.lastRightKey, lastRightValue := s.lastRightValue, left := l, right := r }

variable (kf : Int → Int)

/-- what the inner loop over plain lists comes to, by the C09 model's `advRight` -/
def AdvSpec (x : LRes J2) (onEof k : J2 → Prog J2) (s : J2) (l r : List Int) : Model.Join.AdvR Int → Prop
  | .eof lrk lrv => x = runL (onEof { s with lastRightKey := lrk, lastRightValue := lrv }) [l, []]
  | .unsorted => ∃ s' ls, x = .err .rightUnsorted s' ls
  | .stop lrk lrv r' => r'.length ≤ r.length ∧ x = runL (k { s with lastRightKey := lrk, lastRightValue := lrv }) [l, r']

theorem advR_runL (onEof k : J2 → Prog J2) (lk : Int) : ∀ (r : List Int) (F : Nat) (s : J2) (l : List Int),
    r.length < F →
    AdvSpec (runL (advR kf onEof k lk F s) [l, r]) onEof k s l r
      (Model.Join.advRight kf lk s.lastRightKey s.lastRightValue r)
  | [], F, s, l, hF => by
      obtain ⟨n, rfl⟩ : ∃ n, F = n + 1 := ⟨F - 1, by omega⟩
      simp only [advR, Model.Join.advRight]
      split
      · simp [AdvSpec, runL]
      · simp [AdvSpec]
  | y :: r', F, s, l, hF => by
      obtain ⟨n, rfl⟩ : ∃ n, F = n + 1 := ⟨F - 1, by omega⟩
      simp only [advR, Model.Join.advRight]
      split
      · simp only [runL, List.getElem?_cons_succ, List.getElem?_cons_zero, List.set_cons_succ, List.set_cons_zero]
        split
        · simp [AdvSpec, runL]
        · have ih := advR_runL onEof k lk r' n { s with lastRightValue := y, lastRightKey := kf y } l
            (by simp at hF; omega)
          simp only at ih
          generalize Model.Join.advRight kf lk (kf y) y r' = a at ih
          cases a with
          | eof lrk lrv => exact ih
          | unsorted => exact ih
          | stop lrk lrv r'' => exact ⟨by have := ih.1; simp; omega, ih.2⟩
      · simp [AdvSpec]

/-- one call of `join2` over plain lists against one call of `Join.emitJoin`; `l`, `r` = what the inputs had left before -/
def Sim2 (l r : List Int) (x : LRes J2) : Model.Join.Step (Model.Join.J2 Int Int) (Int × Int) → Prop
  | .eof => ∃ s ls, x = .eof s ls
  | .err e => e ≠ .fuel ∧ ∃ s ls, x = .err e s ls
  | .row v st => ∃ s l' r', x = .row [some v.1, some v.2] s [l', r'] ∧ toJ2 s l' r' = st ∧ s.rightDone = false ∧
      l'.length ≤ l.length ∧ r'.length ≤ r.length

theorem joinLoop_runL (F : Nat) : ∀ (l : List Int) (n : Nat) (lv : Int) (s : J2) (r : List Int),
    l.length < n → r.length < F → s.firstElement = false → s.rightDone = false →
    Sim2 l r (runL (joinLoop kf F n lv s) [l, r])
      (Model.Join.joinLoop kf kf lv s.lastLeftKey s.lastRightKey s.lastRightValue l r) := by
  intro l
  induction l with
  | nil =>
    intro n lv s r hn hF hfe hrd
    obtain ⟨m, rfl⟩ : ∃ m, n = m + 1 := ⟨n - 1, by omega⟩
    have ha := advR_runL kf eofK (joinK kf (joinLoop kf F m) lv) s.lastLeftKey r F s [] hF
    rw [Model.Join.joinLoop]
    simp only [joinLoop]
    generalize Model.Join.advRight kf s.lastLeftKey s.lastRightKey s.lastRightValue r = a at ha
    cases a with
    | eof lrk lrv => simp only [AdvSpec, eofK] at ha; rw [ha]; exact ⟨_, _, rfl⟩
    | unsorted => obtain ⟨s', ls, h⟩ := ha; rw [h]; exact ⟨by decide, _, _, rfl⟩
    | stop lrk lrv r' =>
      obtain ⟨hl, h⟩ := ha
      rw [h]
      simp only [joinK]
      split
      · simp only [runL, Sim2]
        exact ⟨_, _, _, rfl, by simp [toJ2, hfe, hrd], hrd, Nat.le_refl _, hl⟩
      · simp only [runL, List.getElem?_cons_zero, joinPull]
        exact ⟨_, _, rfl⟩
  | cons x l' ih =>
    intro n lv s r hn hF hfe hrd
    obtain ⟨m, rfl⟩ : ∃ m, n = m + 1 := ⟨n - 1, by omega⟩
    have ha := advR_runL kf eofK (joinK kf (joinLoop kf F m) lv) s.lastLeftKey r F s (x :: l') hF
    rw [Model.Join.joinLoop]
    simp only [joinLoop]
    generalize Model.Join.advRight kf s.lastLeftKey s.lastRightKey s.lastRightValue r = a at ha
    cases a with
    | eof lrk lrv => simp only [AdvSpec, eofK] at ha; rw [ha]; exact ⟨_, _, rfl⟩
    | unsorted => obtain ⟨s', ls, h⟩ := ha; rw [h]; exact ⟨by decide, _, _, rfl⟩
    | stop lrk lrv r' =>
      obtain ⟨hl, h⟩ := ha
      rw [h]
      simp only [joinK]
      split
      · simp only [runL, Sim2]
        exact ⟨_, _, _, rfl, by simp [toJ2, hfe, hrd], hrd, Nat.le_refl _, hl⟩
      · simp only [runL, List.getElem?_cons_zero, List.set_cons_zero, joinPull]
        split
        · exact ⟨by decide, _, _, rfl⟩
        · have := ih m x { s with lastRightKey := lrk, lastRightValue := lrv, lastLeftKey := kf x } r'
            (by simp at hn; omega) (by omega) hfe hrd
          simp only at this
          generalize Model.Join.joinLoop kf kf x (kf x) lrk lrv l' r' = b at this
          cases b with
          | eof => exact this
          | err e => exact this
          | row v st =>
            obtain ⟨s2, l2, r2, h1, h2, h5, h3, h4⟩ := this
            exact ⟨s2, l2, r2, h1, h2, h5, by simp; omega, by omega⟩

/-- **`join2` over plain lists = `Join.emitJoin`**, one call -/
theorem join2_emitJoin (F : Nat) (s : J2) (l r : List Int) (hl : l.length < F) (hr : r.length < F)
    (hrd : s.rightDone = false) :
    Sim2 l r (runL (join2 kf F s) [l, r]) (Model.Join.emitJoin kf kf (toJ2 s l r)) := by
  cases l with
  | nil => simp only [join2, runL, List.getElem?_cons_zero, Model.Join.emitJoin, toJ2]; exact ⟨_, _, rfl⟩
  | cons x l' =>
    simp only [join2, runL, List.getElem?_cons_zero, List.set_cons_zero, Model.Join.emitJoin, toJ2]
    by_cases hfe : s.firstElement = true
    · simp only [hfe, if_true]
      cases r with
      | nil => simp only [runL, List.getElem?_cons_succ, List.getElem?_cons_zero]; exact ⟨_, _, rfl⟩
      | cons y r' =>
        simp only [runL, List.getElem?_cons_succ, List.getElem?_cons_zero, List.set_cons_succ, List.set_cons_zero]
        have := joinLoop_runL kf F l' F x
          { s with lastRightValue := y, lastRightKey := kf y, firstElement := false, lastLeftKey := kf x } r'
          (by simp at hl; omega) (by simp at hr; omega) rfl hrd
        simp only at this
        generalize Model.Join.joinLoop kf kf x (kf x) (kf y) y l' r' = b at this
        cases b with
        | eof => exact this
        | err e => exact this
        | row v st =>
          obtain ⟨s2, l2, r2, h1, h2, h5, h3, h4⟩ := this
          exact ⟨s2, l2, r2, h1, h2, h5, by simp; omega, by simp; omega⟩
    · have hfe : s.firstElement = false := by simpa using hfe
      simp only [hfe, Bool.false_eq_true, if_false]
      by_cases hlt : kf x < s.lastLeftKey
      · simp only [hlt, if_true]
        exact ⟨by decide, _, _, rfl⟩
      · simp only [hlt, if_false]
        have := joinLoop_runL kf F l' F x { s with lastLeftKey := kf x } r (by simp at hl; omega) hr hfe hrd
        simp only [hfe] at this
        generalize Model.Join.joinLoop kf kf x (kf x) s.lastRightKey s.lastRightValue l' r = b at this
        cases b with
        | eof => exact this
        | err e => exact this
        | row v st =>
          obtain ⟨s2, l2, r2, h1, h2, h5, h3, h4⟩ := this
          exact ⟨s2, l2, r2, h1, h2, h5, by simp; omega, h4⟩

/-- a run of the C09 model as a run over plain lists -/
def mapOut2 (o : Model.Join.Out (Int × Int)) : List Row × LEnd :=
  (o.1.map (fun p => [some p.1, some p.2]),
   match o.2 with
   | none => .eof
   | some .fuel => .oof
   | some e => .err e)

/-- what the terminal returns for a run of the C09 model -/
def outcomeJ2 (o : Model.Join.Out (Int × Int)) : JOutcome := outcomeL (mapOut2 o)

theorem collectL_join2_aux (F : Nat) : ∀ (n : Nat) (s : J2) (l r : List Int), s.rightDone = false →
    l.length + r.length + 2 ≤ F →
    collectL (join2 kf F) n s [l, r] =
      mapOut2 (Model.Join.collect (Model.Join.emitJoin kf kf) n (toJ2 s l r)) := by
  intro n
  induction n with
  | zero => intro s l r _ _; rfl
  | succ m ih =>
    intro s l r hrd hF
    have h := join2_emitJoin kf F s l r (by omega) (by omega) hrd
    simp only [collectL, Model.Join.collect]
    generalize Model.Join.emitJoin kf kf (toJ2 s l r) = b at h
    cases b with
    | eof => obtain ⟨s', ls, h⟩ := h; rw [h]; rfl
    | err e =>
      obtain ⟨he, s', ls, h⟩ := h
      rw [h]
      cases e <;> first | rfl | exact absurd rfl he
    | row v st =>
      obtain ⟨s2, l2, r2, h1, h2, hrd2, h3, h4⟩ := h
      rw [h1]
      simp only []
      rw [ih s2 l2 r2 hrd2 (by omega), h2]
      rfl

theorem collectL_join2 (F n : Nat) (l r : List Int) (hF : l.length + r.length + 2 ≤ F) :
    outcomeL (collectL (join2 kf F) n ({} : J2) ([(0, l), (1, r)].map (·.2))) =
      outcomeJ2 (Model.Join.collect (Model.Join.emitJoin kf kf) n (Model.Join.init2 l r)) := by
  have := collectL_join2_aux kf F n ({} : J2) l r rfl hF
  simp only [List.map_cons, List.map_nil]
  rw [this]
  rfl

end ShpanVerif.Proofs.JoinLife
