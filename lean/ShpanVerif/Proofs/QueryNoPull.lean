/-
C10 helper: the outcome of planning (error class or metadata) does not depend on the input rows.
`SameMeta r r'` : two plan results are the same error, or both succeed with the same metadata.
-/
import ShpanVerif.Model.QueryExec

namespace ShpanVerif.Proofs.Query
open ShpanVerif.Model.Query List

variable {D : Type}

def SameMeta {μ σ : Type} (r r' : Except PlanErr (μ × σ)) : Prop :=
  (∃ e, r = .error e ∧ r' = .error e) ∨ ∃ m s s', r = .ok (m, s) ∧ r' = .ok (m, s')

theorem SameMeta.refl {μ σ : Type} (r : Except PlanErr (μ × σ)) : SameMeta r r := by
  cases r with
  | error e => exact Or.inl ⟨e, rfl, rfl⟩
  | ok p => exact Or.inr ⟨p.1, p.2, p.2, rfl, rfl⟩

variable (O : Ops D)

theorem applyRF_sameMeta (fix : Bool) (f : RFilter D) (fms : List FieldMeta) (s s' : RStream D) :
    SameMeta (applyRF O fix f (fms, s)) (applyRF O fix f (fms, s')) := by
  cases f with
  | append v afm =>
    simp only [applyRF, appendF]
    cases planRVal O v fms >>= prepareK afm with
    | error e => exact Or.inl ⟨e, rfl, rfl⟩
    | ok p =>
      obtain ⟨fm, fn⟩ := p
      simp only
      split
      · exact Or.inl ⟨_, rfl, rfl⟩
      · exact Or.inr ⟨_, _, _, rfl, rfl⟩
  | drop urns =>
    simp only [applyRF, dropF]
    split
    · exact Or.inl ⟨_, rfl, rfl⟩
    · split
      · exact Or.inl ⟨_, rfl, rfl⟩
      · exact Or.inr ⟨_, _, _, rfl, rfl⟩
  | select fs =>
    simp only [applyRF, selectF]
    split
    · exact Or.inl ⟨_, rfl, rfl⟩
    · cases selectPlan O fms fs [] [] with
      | error e => exact Or.inl ⟨e, rfl, rfl⟩
      | ok p => exact Or.inr ⟨_, _, _, rfl, rfl⟩
  | replace urn v afm =>
    simp only [applyRF, replaceF]
    cases findField urn fms with
    | none => exact Or.inl ⟨_, rfl, rfl⟩
    | some p =>
      simp only
      cases planRVal O v fms >>= prepareK afm with
      | error e => exact Or.inl ⟨e, rfl, rfl⟩
      | ok q =>
        simp only
        split
        · exact Or.inl ⟨_, rfl, rfl⟩
        · exact Or.inr ⟨_, _, _, rfl, rfl⟩
  | single v afm =>
    simp only [applyRF, singleF]
    cases planRVal O v fms >>= prepareK afm with
    | error e => exact Or.inl ⟨e, rfl, rfl⟩
    | ok p => exact Or.inr ⟨_, _, _, rfl, rfl⟩
  | override u nu nn c =>
    simp only [applyRF, overrideRF]
    cases findField u fms with
    | none => exact Or.inl ⟨_, rfl, rfl⟩
    | some p =>
      simp only
      cases overrideUrn fms p.1 nu with
      | error e => exact Or.inl ⟨_, rfl, rfl⟩
      | ok u' =>
        simp only
        cases newFieldMeta u' p.1.dt p.1.required (nn.getD p.1.unit) (overrideCustom fix c p.1) with
        | error e => exact Or.inl ⟨_, rfl, rfl⟩
        | ok fm => exact Or.inr ⟨_, _, _, rfl, rfl⟩
  | where_ v =>
    simp only [applyRF, whereRF]
    cases planRVal O v fms with
    | error e => exact Or.inl ⟨e, rfl, rfl⟩
    | ok p =>
      simp only
      split
      · exact Or.inl ⟨_, rfl, rfl⟩
      · split
        · exact Or.inl ⟨_, rfl, rfl⟩
        · exact Or.inr ⟨_, _, _, rfl, rfl⟩

theorem applyRFs_sameMeta (fix : Bool) : ∀ (fs : List (RFilter D)) (fms : List FieldMeta) (s s' : RStream D),
    SameMeta (applyRFs O fix fs (fms, s)) (applyRFs O fix fs (fms, s'))
  | [], fms, s, s' => Or.inr ⟨fms, s, s', rfl, rfl⟩
  | f :: fs, fms, s, s' => by
    simp only [applyRFs, bind, Except.bind]
    rcases applyRF_sameMeta O fix f fms s s' with ⟨e, h1, h2⟩ | ⟨m, s1, s1', h1, h2⟩
    · rw [h1, h2]; exact Or.inl ⟨e, rfl, rfl⟩
    · rw [h1, h2]; exact applyRFs_sameMeta fix fs m s1 s1'

theorem applyDF_sameMeta (f : DFilter D) (fm : FieldMeta) (s s' : DStream D) :
    SameMeta (applyDF O f (fm, s)) (applyDF O f (fm, s')) := by
  cases f with
  | fval v afm =>
    simp only [applyDF, fvalF]
    cases planDVal O v fm >>= prepareK afm with
    | error e => exact Or.inl ⟨e, rfl, rfl⟩
    | ok p => exact Or.inr ⟨_, _, _, rfl, rfl⟩
  | where_ v =>
    simp only [applyDF, whereDF]
    cases planDVal O v fm with
    | error e => exact Or.inl ⟨e, rfl, rfl⟩
    | ok p =>
      simp only
      split
      · exact Or.inl ⟨_, rfl, rfl⟩
      · split
        · exact Or.inl ⟨_, rfl, rfl⟩
        · exact Or.inr ⟨_, _, _, rfl, rfl⟩
  | override nu nn c =>
    simp only [applyDF, overrideDF]
    split
    · exact Or.inl ⟨_, rfl, rfl⟩
    · exact Or.inr ⟨_, _, _, rfl, rfl⟩

theorem applyDFs_sameMeta : ∀ (fs : List (DFilter D)) (fm : FieldMeta) (s s' : DStream D),
    SameMeta (applyDFs O fs (fm, s)) (applyDFs O fs (fm, s'))
  | [], fm, s, s' => Or.inr ⟨fm, s, s', rfl, rfl⟩
  | f :: fs, fm, s, s' => by
    simp only [applyDFs, bind, Except.bind]
    rcases applyDF_sameMeta O f fm s s' with ⟨e, h1, h2⟩ | ⟨m, s1, s1', h1, h2⟩
    · rw [h1, h2]; exact Or.inl ⟨e, rfl, rfl⟩
    · rw [h1, h2]; exact applyDFs_sameMeta fs m s1 s1'

/-- stream filters (aligner / delta / rate): the planning outcome does not depend on the rows -/
theorem applyRXF_sameMeta (f : RXFilter) (fms : List FieldMeta) (s s' : RStream D) :
    SameMeta (applyRXF O f (fms, s)) (applyRXF O f (fms, s')) := by
  cases f with
  | align p fill =>
    simp only [applyRXF, alignRF]
    split
    · exact Or.inl ⟨_, rfl, rfl⟩
    · exact Or.inr ⟨_, _, _, rfl, rfl⟩

theorem applyDXF_sameMeta (f : DXFilter D) (fm : FieldMeta) (s s' : DStream D) :
    SameMeta (applyDXF O f (fm, s)) (applyDXF O f (fm, s')) := by
  cases f with
  | align p fill =>
    simp only [applyDXF, alignDF]
    split
    · exact Or.inl ⟨_, rfl, rfl⟩
    · exact Or.inr ⟨_, _, _, rfl, rfl⟩
  | delta nn maxC =>
    simp only [applyDXF, deltaF]
    split
    · exact Or.inl ⟨_, rfl, rfl⟩
    · split
      · exact Or.inl ⟨_, rfl, rfl⟩
      · split
        · exact Or.inl ⟨_, rfl, rfl⟩
        · exact Or.inr ⟨_, _, _, rfl, rfl⟩
  | rate unit ps nn maxC =>
    simp only [applyDXF, rateF]
    split
    · exact Or.inl ⟨_, rfl, rfl⟩
    · split
      · exact Or.inl ⟨_, rfl, rfl⟩
      · split
        · exact Or.inl ⟨_, rfl, rfl⟩
        · exact Or.inr ⟨_, _, _, rfl, rfl⟩

/-- lists of results with the same metadata, or the same error -/
def SameMetaL {μ σ : Type} (r r' : Except PlanErr (List (μ × σ))) : Prop :=
  (∃ e, r = .error e ∧ r' = .error e) ∨ ∃ l l', r = .ok l ∧ r' = .ok l' ∧ l.map (·.1) = l'.map (·.1)

mutual
  /-- the query with every input row erased -/
  def eraseR : RDs D → RDs D
    | .static metas _ => .static metas []
    | .filtered ds fs => .filtered (eraseR ds) fs
    | .xfiltered ds f => .xfiltered (eraseR ds) f
    | .join jt srcs => .join jt (eraseRL srcs)
    | .fromDs d => .fromDs (eraseD d)
  def eraseRL : RDsL D → RDsL D
    | .nil => .nil
    | .cons d l => .cons (eraseR d) (eraseRL l)
  def eraseD : DDs D → DDs D
    | .static fm _ => .static fm []
    | .filtered d fs => .filtered (eraseD d) fs
    | .xfiltered d f => .xfiltered (eraseD d) f
    | .reduction rt p afm fb srcs => .reduction rt p afm fb (eraseDL srcs)
    | .fromReport r urn => .fromReport (eraseR r) urn
  def eraseDL : DDsL D → DDsL D
    | .nil => .nil
    | .cons d l => .cons (eraseD d) (eraseDL l)
end

mutual
  theorem execR_sameMeta (fix : Bool) (from_ to : Int) : ∀ (q : RDs D),
      SameMeta (execR O fix from_ to q) (execR O fix from_ to (eraseR q))
    | .static metas rows => by
      simp only [execR, eraseR]
      split
      · exact Or.inl ⟨_, rfl, rfl⟩
      · split
        · exact Or.inl ⟨_, rfl, rfl⟩
        · exact Or.inr ⟨_, _, _, rfl, rfl⟩
    | .filtered ds fs => by
      simp only [execR, eraseR, bind, Except.bind]
      rcases execR_sameMeta fix from_ to ds with ⟨e, h1, h2⟩ | ⟨m, s1, s1', h1, h2⟩
      · rw [h1, h2]; exact Or.inl ⟨e, rfl, rfl⟩
      · rw [h1, h2]; exact applyRFs_sameMeta O fix fs m s1 s1'
    | .xfiltered ds f => by
      simp only [execR, eraseR, bind, Except.bind]
      rcases execR_sameMeta fix from_ to ds with ⟨e, h1, h2⟩ | ⟨m, s1, s1', h1, h2⟩
      · rw [h1, h2]; exact Or.inl ⟨e, rfl, rfl⟩
      · rw [h1, h2]; exact applyRXF_sameMeta O f m s1 s1'
    | .join jt srcs => by
      simp only [execR, eraseR]
      rcases execRL_sameMeta fix from_ to srcs with ⟨e, h1, h2⟩ | ⟨l, l', h1, h2, hm⟩
      · rw [h1, h2]; exact Or.inl ⟨e, rfl, rfl⟩
      · rw [h1, h2]
        have hlen : l.length = l'.length := by simpa using congrArg length hm
        simp only [hm, hlen]
        cases joinMetas jt l'.length 0 (l'.map (·.1)) [] with
        | error e => exact Or.inl ⟨e, rfl, rfl⟩
        | ok metas => exact Or.inr ⟨_, _, _, rfl, rfl⟩
    | .fromDs d => by
      simp only [execR, eraseR]
      rcases execD_sameMeta fix from_ to d with ⟨e, h1, h2⟩ | ⟨m, s1, s1', h1, h2⟩
      · rw [h1, h2]; exact Or.inl ⟨e, rfl, rfl⟩
      · rw [h1, h2]; exact Or.inr ⟨_, _, _, rfl, rfl⟩
  theorem execRL_sameMeta (fix : Bool) (from_ to : Int) : ∀ (l : RDsL D),
      SameMetaL (execRL O fix from_ to l) (execRL O fix from_ to (eraseRL l))
    | .nil => Or.inr ⟨[], [], rfl, rfl, rfl⟩
    | .cons d l => by
      simp only [execRL, eraseRL]
      rcases execR_sameMeta fix from_ to d with ⟨e, h1, h2⟩ | ⟨m, s1, s1', h1, h2⟩
      · rw [h1, h2]; exact Or.inl ⟨e, rfl, rfl⟩
      · rw [h1, h2]
        rcases execRL_sameMeta fix from_ to l with ⟨e, h3, h4⟩ | ⟨rs, rs', h3, h4, hm⟩
        · rw [h3, h4]; exact Or.inl ⟨e, rfl, rfl⟩
        · rw [h3, h4]; exact Or.inr ⟨_, _, rfl, rfl, by simp [hm]⟩
  theorem execD_sameMeta (fix : Bool) (from_ to : Int) : ∀ (q : DDs D),
      SameMeta (execD O fix from_ to q) (execD O fix from_ to (eraseD q))
    | .static fm rows => Or.inr ⟨_, _, _, rfl, rfl⟩
    | .filtered d fs => by
      simp only [execD, eraseD, bind, Except.bind]
      rcases execD_sameMeta fix from_ to d with ⟨e, h1, h2⟩ | ⟨m, s1, s1', h1, h2⟩
      · rw [h1, h2]; exact Or.inl ⟨e, rfl, rfl⟩
      · rw [h1, h2]; exact applyDFs_sameMeta O fs m s1 s1'
    | .xfiltered d f => by
      simp only [execD, eraseD, bind, Except.bind]
      rcases execD_sameMeta fix from_ to d with ⟨e, h1, h2⟩ | ⟨m, s1, s1', h1, h2⟩
      · rw [h1, h2]; exact Or.inl ⟨e, rfl, rfl⟩
      · rw [h1, h2]; exact applyDXF_sameMeta O f m s1 s1'
    | .reduction rt period afm fb srcs => by
      simp only [execD, eraseD]
      split
      · exact Or.inl ⟨_, rfl, rfl⟩
      · cases fallbackIsStatic fb with
        | false => exact Or.inl ⟨_, rfl, rfl⟩
        | true =>
          simp only [Bool.not_true, Bool.false_eq_true, ↓reduceIte]
          rcases execDLAligned_sameMeta fix from_ to period srcs with ⟨e, h1, h2⟩ | ⟨l, l', h1, h2, hm⟩
          · rw [h1, h2]; exact Or.inl ⟨e, rfl, rfl⟩
          · rw [h1, h2]
            match l, l', hm with
            | [], [], _ => exact SameMeta.refl _
            | [], _ :: _, hm => simp at hm
            | _ :: _, [], hm => simp at hm
            | r :: rs, r' :: rs', hm =>
              simp only [hm]
              cases reductionMeta rt afm ((r' :: rs').map (·.1)) with
              | error e => exact Or.inl ⟨e, rfl, rfl⟩
              | ok p =>
                obtain ⟨fm, dt⟩ := p
                simp only
                cases redFunc O rt dt with
                | none => exact Or.inl ⟨_, rfl, rfl⟩
                | some rf =>
                  simp only
                  have hlen : rs.length = rs'.length := by
                    simp only [map_cons, cons.injEq] at hm
                    simpa using congrArg length hm.2
                  match rs, rs', hlen with
                  | [], [], _ =>
                    simp only
                    split
                    · exact Or.inr ⟨_, _, _, rfl, rfl⟩
                    · exact Or.inr ⟨_, _, _, rfl, rfl⟩
                  | _ :: _, _ :: _, _ => exact Or.inr ⟨_, _, _, rfl, rfl⟩
                  | [], _ :: _, h => simp at h
                  | _ :: _, [], h => simp at h
    | .fromReport r urn => by
      simp only [execD, eraseD]
      rcases execR_sameMeta fix from_ to r with ⟨e, h1, h2⟩ | ⟨m, s1, s1', h1, h2⟩
      · rw [h1, h2]; exact Or.inl ⟨e, rfl, rfl⟩
      · rw [h1, h2]
        simp only
        cases findField urn m with
        | none => exact Or.inl ⟨_, rfl, rfl⟩
        | some p => exact Or.inr ⟨_, _, _, rfl, rfl⟩
  theorem execDLAligned_sameMeta (fix : Bool) (from_ to period : Int) : ∀ (l : DDsL D),
      SameMetaL (execDLAligned O fix from_ to period l) (execDLAligned O fix from_ to period (eraseDL l))
    | .nil => Or.inr ⟨[], [], rfl, rfl, rfl⟩
    | .cons d l => by
      simp only [execDLAligned, eraseDL]
      rcases execD_sameMeta fix from_ to d with ⟨e, h1, h2⟩ | ⟨m, s1, s1', h1, h2⟩
      · rw [h1, h2]; exact Or.inl ⟨e, rfl, rfl⟩
      · rw [h1, h2]
        simp only
        split
        · exact Or.inl ⟨_, rfl, rfl⟩
        · rcases execDLAligned_sameMeta fix from_ to period l with ⟨e, h3, h4⟩ | ⟨rs, rs', h3, h4, hm⟩
          · rw [h3, h4]; exact Or.inl ⟨e, rfl, rfl⟩
          · rw [h3, h4]; exact Or.inr ⟨_, _, rfl, rfl, by simp [hm]⟩
end

end ShpanVerif.Proofs.Query
