/-
C04 termination, part 5: Open terminates and establishes `Term` for every pipeline (`openT_pipe`, by
structural induction on the pipeline), the pull loop terminates (`pullLoop_term`), hence `consume` does
(`consume_terminates`): enough fuel exists, for every pipeline in every clean world — no precondition on
sortedness or window parameters (the library error those cases produce is a terminating outcome).
-/
import ShpanVerif.Proofs.PipeC04TermCluster

namespace ShpanVerif.Proofs.PipeC04
open ShpanVerif.Model.Pipe ShpanVerif

/-! ### Open, per operator -/

theorem openT_src (r : Nat) (xs : List Int) (idx : Nat) : OpenT 1 xs.length (.src r xs idx) := by
  intro w hw fuel hf
  obtain ⟨f, rfl, _⟩ := fuel_succ hf
  rw [openP]
  obtain ⟨w', ho, hc⟩ := openRes_clean r hw
  rw [ho]
  exact ⟨hc, by simpa using term_src r xs 0⟩

/-- Open of a unary operator that only opens its source: the shape shared by map/filter/skip/limit -/
theorem openT_lc {G n : Nat} (r : Nat) {p : Pipe} (h : OpenT G n p) : OpenT (G+1) n (.lc r p) := by
  intro w hw fuel hf
  obtain ⟨f, rfl, hf'⟩ := fuel_succ hf
  have := h w hw f hf'
  rw [openP]
  rcases ho : openP f p w with ⟨res, p', w'⟩
  rw [ho] at this
  cases res <;> simp only at this ⊢
  obtain ⟨hc, ht⟩ := this
  obtain ⟨w'', hor, hc'⟩ := openRes_clean r hc
  rw [hor]
  exact ⟨hc', term_lc r ht⟩

theorem openT_map {G n : Nat} (g : Fn) {p : Pipe} (h : OpenT G n p) : OpenT (G+1) n (.map g p) := by
  intro w hw fuel hf
  obtain ⟨f, rfl, hf'⟩ := fuel_succ hf
  have := h w hw f hf'
  rw [openP]
  rcases ho : openP f p w with ⟨res, p', w'⟩
  rw [ho] at this
  cases res <;> simp only at this ⊢
  exact ⟨this.1, term_map g this.2⟩

theorem openT_filter {G n : Nat} (g : Pred) {p : Pipe} (h : OpenT G n p) : OpenT (G + n + 2) n (.filter g p) := by
  intro w hw fuel hf
  obtain ⟨f, rfl, hf'⟩ := fuel_succ (F := G + n + 1) (fuel := fuel) (by omega)
  have := h w hw f (by omega)
  rw [openP]
  rcases ho : openP f p w with ⟨res, p', w'⟩
  rw [ho] at this
  cases res <;> simp only at this ⊢
  exact ⟨this.1, term_filter g this.2⟩

theorem openT_limit {G m : Nat} (n c : Int) {p : Pipe} (h : OpenT G m p) : OpenT (G+1) m (.limit n c p) := by
  intro w hw fuel hf
  obtain ⟨f, rfl, hf'⟩ := fuel_succ hf
  rw [openP]
  by_cases hn : n ≤ 0
  · rw [if_pos hn]
    exact ⟨hw, ((term_limit_empty n c p hn).mono_F (by omega)).mono_n (Nat.zero_le _)⟩
  · rw [if_neg hn]
    have := h w hw f hf'
    rcases ho : openP f p w with ⟨res, p', w'⟩
    rw [ho] at this
    cases res <;> simp only at this ⊢
    exact ⟨this.1, term_limit n c this.2⟩

theorem openT_skip {G m : Nat} (n : Nat) (d : Bool) {p : Pipe} (h : OpenT G m p) :
    OpenT (G + n + 2) m (.skip n d p) := by
  intro w hw fuel hf
  obtain ⟨f, rfl, hf'⟩ := fuel_succ (F := G + n + 1) (fuel := fuel) (by omega)
  have := h w hw f (by omega)
  rw [openP]
  rcases ho : openP f p w with ⟨res, p', w'⟩
  rw [ho] at this
  cases res <;> simp only at this ⊢
  exact ⟨this.1, term_skip n d this.2⟩

theorem openT_window {G m : Nat} (s st : Nat) (o : Bool) (buf : List V) (d so : Bool) {p : Pipe} (h : OpenT G m p) :
    OpenT (G + s + 2) (buf.length + m + 1) (.window s st o buf d so p) := by
  intro w hw fuel hf
  obtain ⟨f, rfl, hf'⟩ := fuel_succ (F := G + s + 1) (fuel := fuel) (by omega)
  rw [openP]
  by_cases hp : windowParamsOk s st = true
  · obtain ⟨hs, hst, _⟩ := (windowParamsOk_iff s st).mp hp
    have hp' : (!windowParamsOk s st) = false := by simp [hp]
    rw [hp']
    simp only [Bool.false_eq_true, if_false]
    have := h w hw f (by omega)
    rcases ho : openP f p w with ⟨res, p', w'⟩
    rw [ho] at this
    cases res <;> simp only at this ⊢
    exact ⟨this.1, term_window s st o buf d true hs hst this.2⟩
  · have hp' : (!windowParamsOk s st) = true := by simpa using hp
    rw [hp']
    simp only [if_true]

theorem openT_cluster {G m : Nat} (k : Int) (fac : Fac) (nxt : Option V) (cls : Int) (last : Option V) (so : Bool)
    {p : Pipe} (h : OpenT G m p) : OpenT (G + m + 4) (m + 1) (.cluster k fac nxt cls last so p) := by
  intro w hw fuel hf
  obtain ⟨f, rfl, hf'⟩ := fuel_succ (F := G + m + 3) (fuel := fuel) (by omega)
  have := h w hw f (by omega)
  rw [openP]
  rcases ho : openP f p w with ⟨res, p', w'⟩
  rw [ho] at this
  cases res <;> simp only at this ⊢
  obtain ⟨hc, ht⟩ := this
  have h2 := ht.step w' hc f (by omega)
  rcases he : emitP f p' w' with ⟨res2, p2, w2⟩
  rw [he] at h2
  cases res2 <;> simp only [TRes] at h2 ⊢
  · rename_i v
    obtain ⟨hc2, m', hm', ht2⟩ := h2
    refine ⟨hc2, ?_⟩
    have := term_cluster k fac (some v) (classify k v) last true ht2 (by intro it hit; cases hit; rfl)
    exact (this.mono_F (by omega)).mono_n (by omega)
  · obtain ⟨hc2, ht2⟩ := h2
    exact ⟨hc2, term_cluster k fac none cls last true ht2 (by intro it hit; cases hit)⟩

/-! ### opening a list of sub streams -/

theorem openList_term {G n0 L : Nat} : ∀ (k : Nat) (ps : PipeList) (i : Nat) (w : World) (fuel : Nat),
    L - i = k → ps.length = L → (∀ j c, j < i → ps.get? j = some c → Term G c n0) →
    (∀ j c, i ≤ j → ps.get? j = some c → OpenT G n0 c) → w.Clean → G + k + 1 ≤ fuel →
    match openList fuel ps i w with
    | (.val _, ps', w') => w'.Clean ∧ ps'.length = L ∧ ∀ j c, ps'.get? j = some c → Term G c n0
    | (.fail _, _, _) => True
    | (.eof, _, _) => False
    | (.panic _, _, _) => False
    | (.oof, _, _) => False
  | k, ps, i, w, fuel, hk, hL, hlo, hhi, hw, hf => by
    obtain ⟨f, rfl, hf'⟩ := fuel_succ (F := G + k) (fuel := fuel) (by omega)
    rw [openList]
    cases hg : ps.get? i with
    | none =>
      refine ⟨hw, hL, fun j c hc => hlo j c ?_ hc⟩
      have := get?_lt_length hc
      rw [get?_toList] at hg
      have h2 := List.getElem?_eq_none_iff.mp hg
      rw [length_toList] at h2; omega
    | some p =>
      simp only
      have hilt := get?_lt_length hg
      have := hhi i p (Nat.le_refl _) hg w hw f (by omega)
      rcases ho : openP f p w with ⟨res, p', w'⟩
      rw [ho] at this
      cases res <;> simp only at this ⊢
      obtain ⟨hc, ht⟩ := this
      cases k with
      | zero => omega
      | succ k' =>
        apply openList_term k' (ps.set i p') (i+1) w' f (by omega) (by rw [length_set]; exact hL) _ _ hc (by omega)
        · intro j c hj hc'
          by_cases hij : i = j
          · subst hij; rw [get?_set_self ps hg] at hc'; cases hc'; exact ht
          · rw [get?_set_ne ps hij] at hc'; exact hlo j c (by omega) hc'
        · intro j c hj hc'
          rw [get?_set_ne ps (by omega)] at hc'
          exact hhi j c (by omega) hc'

theorem get?_zero_of_length {ps : PipeList} (h : ps.length ≠ 0) : ∃ p0, ps.get? 0 = some p0 := by
  rw [get?_toList]
  exact ⟨_, List.getElem?_eq_getElem (by rw [length_toList]; omega)⟩

theorem openT_concat {G n0 : Nat} (ps : PipeList) (next : Nat) (co oo : Bool)
    (h : ∀ j c, ps.get? j = some c → OpenT G n0 c) :
    OpenT (G + ps.length + 2) (n0 + n0 * (ps.length - 1)) (.concat ps next co oo) := by
  intro w hw fuel hf
  obtain ⟨f, rfl, hf'⟩ := fuel_succ (F := G + ps.length + 1) (fuel := fuel) (by omega)
  rw [openP]
  by_cases hz : ps.length = 0
  · rw [if_pos hz]
    exact ⟨hw, ((term_concat_closed ps 0 false).mono_F (by omega)).mono_n (Nat.zero_le _)⟩
  · rw [if_neg hz, if_neg (not_cancelled hw)]
    obtain ⟨p0, hg0⟩ := get?_zero_of_length hz
    rw [hg0]
    simp only
    have := h 0 p0 hg0 w hw f (by omega)
    rcases ho : openP f p0 w with ⟨res, p', w'⟩
    rw [ho] at this
    cases res <;> simp only at this ⊢
    obtain ⟨hc, ht⟩ := this
    refine ⟨hc, ?_⟩
    have := term_concat_open (G := G) (n0 := n0) (ps.set 0 p') true p' n0 (get?_set_self ps hg0 p') ht
      (by intro j c hj hc'; rw [get?_set_ne ps (by omega)] at hc'; exact h j c hc')
    rw [length_set] at this
    exact this

theorem openT_zip {G n0 : Nat} (ps : PipeList) (opened : Nat) (h : ∀ j c, ps.get? j = some c → OpenT G n0 c) :
    OpenT (G + ps.length + 2) n0 (.zip ps opened) := by
  intro w hw fuel hf
  obtain ⟨f, rfl, hf'⟩ := fuel_succ (F := G + ps.length + 1) (fuel := fuel) (by omega)
  rw [openP]
  by_cases hz : ps.length = 0
  · rw [if_pos hz]
    refine ⟨hw, ?_⟩
    have := term_zip (G := G) ps 0 n0 ⟨rfl, ?_, ?_⟩
    · exact this
    · intro j c hc; have := get?_lt_length hc; omega
    · intro c hc; have := get?_lt_length hc; omega
  · rw [if_neg hz]
    have := openList_term (G := G) (n0 := n0) (L := ps.length) (ps.length - 0) ps 0 w f rfl rfl
      (by intro j c hj; omega) (fun j c _ hc => h j c hc) hw (by omega)
    rcases ho : openList f ps 0 w with ⟨res, ps', w'⟩
    rw [ho] at this
    cases res <;> simp only at this ⊢
    obtain ⟨hc, hL, hall⟩ := this
    refine ⟨hc, ?_⟩
    have := term_zip (G := G) ps' ps'.length n0 ⟨rfl, fun j c hc' => ⟨n0, hall j c hc'⟩, fun c hc' => hall 0 c hc'⟩
    exact this.mono_F (by omega)

theorem openT_merge {G n0 : Nat} (ps : PipeList) (opened : Nat) (slots : Option (List (Option V)))
    (h : ∀ j c, ps.get? j = some c → OpenT G n0 c) :
    OpenT (G + ps.length + 2) (List.replicate ps.length n0).sum (.merge ps opened slots) := by
  intro w hw fuel hf
  obtain ⟨f, rfl, hf'⟩ := fuel_succ (F := G + ps.length + 1) (fuel := fuel) (by omega)
  rw [openP]
  by_cases hz : ps.length = 0
  · rw [if_pos hz]
    exact ⟨hw, ((term_merge_empty ps 0 slots hz).mono_F (by omega)).mono_n (Nat.zero_le _)⟩
  · rw [if_neg hz]
    have := openList_term (G := G) (n0 := n0) (L := ps.length) (ps.length - 0) ps 0 w f rfl rfl
      (by intro j c hj; omega) (fun j c _ hc => h j c hc) hw (by omega)
    rcases ho : openList f ps 0 w with ⟨res, ps', w'⟩
    rw [ho] at this
    cases res <;> simp only at this ⊢
    obtain ⟨hc, hL, hall⟩ := this
    refine ⟨hc, ?_⟩
    have := term_merge (G := G) ps' ps'.length none (List.replicate ps'.length n0) (by omega)
      ⟨rfl, by simp, by simp, ?_⟩
    · exact (this.mono_F (by omega)).mono_n (by rw [hL]; exact Nat.le_refl _)
    · intro j c hc'
      refine ⟨n0, hall j c hc', ?_⟩
      have hj := get?_lt_length hc'
      simp [filled, hj]

/-! ### every pipeline -/

mutual
theorem openT_pipe : ∀ p : Pipe, ∃ G n, OpenT G n p
  | .src r xs idx => ⟨_, _, openT_src r xs idx⟩
  | .lc r p => by obtain ⟨G, n, h⟩ := openT_pipe p; exact ⟨_, _, openT_lc r h⟩
  | .map g p => by obtain ⟨G, n, h⟩ := openT_pipe p; exact ⟨_, _, openT_map g h⟩
  | .filter g p => by obtain ⟨G, n, h⟩ := openT_pipe p; exact ⟨_, _, openT_filter g h⟩
  | .limit n c p => by obtain ⟨G, m, h⟩ := openT_pipe p; exact ⟨_, _, openT_limit n c h⟩
  | .skip n d p => by obtain ⟨G, m, h⟩ := openT_pipe p; exact ⟨_, _, openT_skip n d h⟩
  | .concat ps next co oo => by obtain ⟨G, n, h⟩ := openT_list ps; exact ⟨_, _, openT_concat ps next co oo h⟩
  | .zip ps opened => by obtain ⟨G, n, h⟩ := openT_list ps; exact ⟨_, _, openT_zip ps opened h⟩
  | .merge ps opened slots => by obtain ⟨G, n, h⟩ := openT_list ps; exact ⟨_, _, openT_merge ps opened slots h⟩
  | .window s st o buf d so p => by
    obtain ⟨G, m, h⟩ := openT_pipe p; exact ⟨_, _, openT_window s st o buf d so h⟩
  | .cluster k fac nxt cls last so p => by
    obtain ⟨G, m, h⟩ := openT_pipe p; exact ⟨_, _, openT_cluster k fac nxt cls last so h⟩
theorem openT_list : ∀ ps : PipeList, ∃ G n, ∀ j c, ps.get? j = some c → OpenT G n c
  | .nil => ⟨0, 0, fun j c hc => by simp [PipeList.get?] at hc⟩
  | .cons p ps => by
    obtain ⟨G1, n1, h1⟩ := openT_pipe p
    obtain ⟨G2, n2, h2⟩ := openT_list ps
    refine ⟨max G1 G2, max n1 n2, fun j c hc => ?_⟩
    cases j with
    | zero =>
      simp only [PipeList.get?, Option.some.injEq] at hc
      subst hc
      exact h1.mono (Nat.le_max_left _ _) (Nat.le_max_left _ _)
    | succ j =>
      simp only [PipeList.get?] at hc
      exact (h2 j c hc).mono (Nat.le_max_right _ _) (Nat.le_max_right _ _)
end

/-! ### the terminal -/

theorem pullLoop_term {G : Nat} (c : Consumer) : ∀ (n : Nat) (p : Pipe) (acc : List V) (w : World) (fuel : Nat),
    Term G p n → w.Clean → G + n + 2 ≤ fuel → (pullLoop fuel c p acc w).1 ≠ .oof := by
  intro n
  induction n using Nat.strongRecOn with
  | _ n ih =>
    intro p acc w fuel hp hw hf
    obtain ⟨f, rfl, hf'⟩ := fuel_succ (F := G + n + 1) (fuel := fuel) (by omega)
    rw [pullLoop, if_neg (not_cancelled hw)]
    have := hp.step w hw f (by omega)
    rcases he : emitP f p w with ⟨res, p', w'⟩
    rw [he] at this
    cases res <;> simp only [TRes] at this ⊢
    · rename_i v
      obtain ⟨hc, m', hm', ht⟩ := this
      cases c with
      | collect => exact ih m' hm' p' (v :: acc) w' f ht hc (by omega)
      | user =>
        simp only
        obtain ⟨w'', hu, hc'⟩ := userCall_clean hc
        rw [hu]
        exact ih m' hm' p' (v :: acc) w'' f ht hc' (by omega)
    · intro h; cases h
    · intro h; cases h

/-- **enough fuel exists**: for every pipeline (any state, any composition) and every clean world -/
theorem consume_terminates (c : Consumer) (p : Pipe) (w : World) (hw : w.Clean) :
    ∃ fuel0, ∀ fuel, fuel0 ≤ fuel → (consume fuel c p w).1 ≠ .oof := by
  obtain ⟨G, n, h⟩ := openT_pipe p
  refine ⟨G + n + 2, fun fuel hf => ?_⟩
  have ho := h w hw fuel (by omega)
  unfold consume
  rcases hoe : openP fuel p w with ⟨res, p', w'⟩
  rw [hoe] at ho
  cases res <;> simp only at ho ⊢
  · obtain ⟨hc, ht⟩ := ho
    have hpl := pullLoop_term c n p' [] w' fuel ht hc hf
    rcases hp : pullLoop fuel c p' [] w' with ⟨res2, acc, p2, w2⟩
    rw [hp] at hpl
    cases res2 <;> simp only at hpl ⊢
    all_goals first | exact absurd rfl hpl | (intro h; cases h)
  · intro h; cases h

end ShpanVerif.Proofs.PipeC04
